(* C17Proofs.v -- C17, behavioural half: renaming the states of a statechart by an order-preserving
   renaming commutes with every function of the interpreter model ("rename_state changes nothing
   but the name").  The structural half (C17_structure: what rename_state / copy_from_statechart do
   to the chart, Edit model) is NOT in this file.

   DEFINITIONS
     map_state / map_trans / map_it / map_chart rho   every state-name occurrence renamed (keys of
         c_states, c_parent, c_children; s_name, s_initial, s_memory; parents; children lists;
         t_source, t_target); code, events, priorities and the order of all lists are kept.
     map_istate rho   i_config, keys and value lists of i_memory, keys of i_entry / i_idle, the OState
         keys of i_old (OTrans i is kept).   map_micro, map_macro: entered / exited lists.
     map_call rho (cl_owner, cl_config), map_meta rho (MExited / MEntered / MProcessed), map_err rho
         (owner of EContract / ECode), map_obs rho, map_mstate rho fx (state, listener state, trace),
         map_outcome rho (result of execute_once).
     chart_names sc   the names the interpreter ever compares with <= : s_name of the state objects,
         the children lists, the transition sources.   inN sc n := In n (chart_names sc).
     closed sc s      side condition on the interpreter state: configuration and the value lists of
         the history memory are inside chart_names.  Holds initially (closed_init) and is preserved
         by every operation (second conjunct of every theorem), so it is no restriction on runs.
     run_ops          a history: list of  OpQueue e | OpStep now  (queue / execute_once).

   HYPOTHESES of the main theorems (Section Equi)
     rho_inj    forall a b, rho a = rho b -> a = b          GLOBAL injectivity (see [*] below)
     rho_empty  rho "" = ""                                  (`while parent:` / `if target:` test
                                                              truthiness of names; with rho_inj this
                                                              gives rho n <> "" for n <> "")
     rho_mono   forall a b, inN sc a -> inN sc b -> str_leb (rho a) (rho b) = str_leb a b
                                                             monotone ONLY on the chart's names
     exec_indep / eval_indep   exec_code' (map_call rho c) x = exec_code c x   (two evaluators are
                allowed; take exec_code' = exec_code for "the evaluator ignores state names")
     emit_equi  emit' t (map_meta rho m) (fx x) = (fx x', option_map (map_err rho) r)
                where (x', r) = emit t m x   (listeners equivariant; fx relates their states)
     NO well-formedness (section 2) hypothesis on the chart is needed.

   MAIN THEOREMS  (all Qed, closed under the global context)
     C17_equivariance        execute_once on (map_chart rho sc) from (map_mstate s) = (map_mstate of
                             the post-state, map_outcome of the result): macro step with renamed
                             entered/exited lists, same transition indices, same events and sent
                             lists, or the rho-image of the error; trace = image; closed preserved.
     C17_equivariance_queue  the same for queue.
     C17_equivariance_execute  the same for execute (loop of execute_once).
     C17_equivariance_run    the same for every history (run_ops), by induction.
     C17_equivariance_same_evaluator   instance X' = X, one evaluator, one emit.
     injection_extends  [*]  every rho0 that is injective on a finite list L and maps exactly "" to ""
                             on L coincides on L with a global injection fixing "" (product of
                             transpositions: extend / swap).
     map_chart_ext           map_chart only depends on rho on all_occ sc (every name occurring).
     C17_equivariance_local  hypotheses restricted to a finite L >= all_occ sc: rho0 injective on L,
                             (rho0 a = "" <-> a = "") on L, monotone on chart_names, evaluator and
                             listeners ignore names (for every renaming).  Conclusion: the run of
                             map_chart rho0 sc is the image of the run of sc under a global
                             injection rho that agrees with rho0 on L.  So global injectivity in
                             Section Equi is no loss of generality for finitely many names.
     C17_monotonicity_needed a global injection fixing "" that is not monotone (a <-> c with sibling
                             b) changes the run: orthogonal siblings are entered / exited in the
                             order of their new names.  (Not a refutation of a planned statement:
                             it shows that rho_mono cannot be dropped.)
     Nothing was found to be false: no `_refuted`, no `_partial`.

   COVERAGE -- an equivariance lemma (`f_rho` pure, `f_eqv` monadic) for EVERY function:
     Base   lookup dset mem remove_first set_add sort(insert) sorted_groupby(group_add groups_of)
     Chart  state_for kind_of parent_for children_for root truthy ancestors_for depth_for bfs
            descendants_for least_common_ancestor leaf_for itransitions
     Interp owner_state old_lookup old_set mk_call queue_event select_event configuration
            considered last_before stays_below check_pair check_against check_pairs trans_order_leb
            exit_order_leb enter_order_leb entered_path create_step create_steps stab_for_leaf
            stab_for_orthogonal first_some create_stabilization_step states_for
            raise_meta raise_event run_code eval_cond eval_conds contract state_contract
            trans_contract eval_guards sel_priorities sel_sources sel_depths sel_eventness
            select_transitions sort_transitions compute_steps record_history exit_state
            enter_state process_transition apply_step stabilize consume_event run_steps
            check_invariants execute_once execute queue
     Not covered (outside the statement): dremove, index_of, insert_at (not used by the functions
     above with names), World.v listeners (emit is abstract: emit_equi is a hypothesis), Edit.v.

   PROOF METHOD  a logical relation  EQV P fa m' m  between the two monadic computations:
     from related (closed) states they produce related states and results (fa), keep `closed`, and
     the result satisfies P; rules eqv_ret / fail / bind / get_bind / put / modify / observe / mapM /
     iterM.  Sorting: sort_map_cond (comparison preserved on the elements at hand).

   NON-VACUITY  Module Example: orthogonal state with two compound regions, a shallow history state,
     guards, actions sending internal events, exit code, invariants; rho_ex = "a"->"a2", "b"->"b7"
     (C17_hypotheses_satisfiable, C17_example_by_theorem, C17_example_by_computation,
     C17_example_shape, C17_local_hypotheses_satisfiable, C17_local_example_by_computation,
     C17_monotonicity_needed_shape).
*)
From Coq Require Import String Ascii List Bool ZArith Lia Permutation.
From Sismic Require Import Base Chart Interp.
From SismicProofs Require Import SortLib.
Import ListNotations.
Open Scope string_scope.
Open Scope list_scope.

(* ------------------------------------------------------------------------------------------ *)
(* 1. The renaming of every syntactic category                                                 *)
(* ------------------------------------------------------------------------------------------ *)
Section Maps.
  Variable rho : name -> name.

  Definition map_kv {V W} (f : V -> W) (d : list (name * V)) : list (name * W) :=
    map (fun kv => (rho (fst kv), f (snd kv))) d.

  Definition map_state (s : state) : state :=
    mkState (rho (s_name s)) (s_kind s) (option_map rho (s_initial s)) (option_map rho (s_memory s))
            (s_on_entry s) (s_on_exit s) (s_pre s) (s_post s) (s_inv s).

  Definition map_trans (t : transition) : transition :=
    mkTrans (rho (t_source t)) (option_map rho (t_target t)) (t_event t) (t_guard t) (t_action t)
            (t_priority t) (t_pre t) (t_post t) (t_inv t).

  Definition map_it (it : itrans) : itrans := (fst it, map_trans (snd it)).

  Definition map_chart (c : chart) : chart :=
    mkChart (c_name c) (c_description c) (c_preamble c)
            (map_kv map_state (c_states c))
            (map_kv (option_map rho) (c_parent c))
            (map (fun kv => (option_map rho (fst kv), map rho (snd kv))) (c_children c))
            (map map_trans (c_transitions c)).

  Definition map_owner (o : owner) : owner :=
    match o with OState n => OState (rho n) | OTrans i => OTrans i end.

  Definition map_istate {ctx} (s : istate ctx) : istate ctx :=
    mkIState (i_id s) (i_initialized s) (i_time s)
             (map_kv (map rho) (i_memory s)) (map rho (i_config s))
             (map_kv (fun z : Z => z) (i_entry s)) (map_kv (fun z : Z => z) (i_idle s))
             (i_sent s) (i_iq s) (i_eq s) (i_ignore_contract s) (i_ctx s)
             (map (fun oc => (map_owner (fst oc), snd oc)) (i_old s)).

  Definition map_micro (m : microstep) : microstep :=
    mkMicro (ms_event m) (ms_trans m) (map rho (ms_entered m)) (map rho (ms_exited m)) (ms_sent m).

  Definition map_macro (m : macrostep) : macrostep := (fst m, map map_micro (snd m)).

  Definition map_call {ctx} (c : call ctx) : call ctx :=
    mkCall (cl_interp c) (cl_kind c) (map_owner (cl_owner c)) (cl_idx c) (cl_code c) (cl_event c)
           (cl_time c) (map rho (cl_config c)) (cl_entry c) (cl_idle c) (cl_sent c) (cl_old c).

  Definition map_meta (m : meta) : meta :=
    match m with
    | MExited s => MExited (rho s)
    | MEntered s => MEntered (rho s)
    | MProcessed s t e => MProcessed (rho s) (option_map rho t) e
    | _ => m
    end.

  Definition map_err (e : err) : err :=
    match e with
    | EContract k o i => EContract k (map_owner o) i
    | ECode k o i => ECode k (map_owner o) i
    | _ => e
    end.

  Definition map_obs {ctx} (o : obs ctx) : obs ctx :=
    match o with
    | ObExec c s => ObExec (map_call c) s
    | ObEval c r => ObEval (map_call c) r
    | ObMeta m => ObMeta (map_meta m)
    | ObSelected ts => ObSelected ts
    end.
End Maps.

(* every state name on which the interpreter ever compares names with <= :
   names of the state objects, children lists, transition sources *)
Definition chart_names (c : chart) : list name :=
  map (fun kv => s_name (snd kv)) (c_states c)
  ++ concat (map snd (c_children c))
  ++ map t_source (c_transitions c).

(* ------------------------------------------------------------------------------------------ *)
(* 2. Generic list lemmas                                                                      *)
(* ------------------------------------------------------------------------------------------ *)
Lemma filter_map_eq {A B} (f : A -> B) (p : A -> bool) (p' : B -> bool) (l : list A) :
  (forall x, In x l -> p' (f x) = p x) -> filter p' (map f l) = map f (filter p l).
Proof.
  induction l as [|x l IH]; intros H; cbn [map filter]; auto.
  rewrite (H x (or_introl eq_refl)).
  rewrite IH by (intros y Hy; apply H; right; exact Hy).
  destruct (p x); reflexivity.
Qed.

Lemma existsb_map_eq {A B} (f : A -> B) (p : A -> bool) (p' : B -> bool) (l : list A) :
  (forall x, p' (f x) = p x) -> existsb p' (map f l) = existsb p l.
Proof. intros H. induction l as [|x l IH]; cbn [map existsb]; auto. rewrite H, IH. reflexivity. Qed.

Lemma find_map_eq {A B} (f : A -> B) (p : A -> bool) (p' : B -> bool) (l : list A) :
  (forall x, p' (f x) = p x) -> find p' (map f l) = option_map f (find p l).
Proof.
  intros H. induction l as [|x l IH]; cbn [map find]; auto. rewrite H.
  destruct (p x); auto.
Qed.

Lemma Forall_insert {A} (leb : A -> A -> bool) (P : A -> Prop) x l :
  P x -> Forall P l -> Forall P (insert leb x l).
Proof.
  intros Hx Hl. apply Forall_forall. intros y Hy.
  apply (Permutation_in _ (insert_perm leb x l)) in Hy.
  destruct Hy as [<-|Hy]; auto. rewrite Forall_forall in Hl. auto.
Qed.

Lemma Forall_sort {A} (leb : A -> A -> bool) (P : A -> Prop) l :
  Forall P l -> Forall P (sort leb l).
Proof.
  intros Hl. apply Forall_forall. intros y Hy. apply sort_In in Hy.
  rewrite Forall_forall in Hl. auto.
Qed.

Lemma Forall_filter {A} (p : A -> bool) (P : A -> Prop) l : Forall P l -> Forall P (filter p l).
Proof.
  intros Hl. apply Forall_forall. intros y Hy. apply filter_In in Hy.
  rewrite Forall_forall in Hl. apply Hl. tauto.
Qed.

(* sorting commutes with a map that preserves the comparison on the elements at hand *)
Section SortMap.
  Context {A B : Type} (P : A -> Prop) (f : A -> B) (leb : A -> A -> bool) (leb' : B -> B -> bool).
  Hypothesis leb_f : forall a b, P a -> P b -> leb' (f a) (f b) = leb a b.

  Lemma insert_map_cond x l :
    P x -> Forall P l -> insert leb' (f x) (map f l) = map f (insert leb x l).
  Proof.
    intros Hx Hl. induction Hl as [|y l Hy Hl IH]; cbn [map insert]; auto.
    rewrite leb_f by assumption. destruct (leb x y); cbn [map]; auto. rewrite IH. reflexivity.
  Qed.

  Lemma sort_map_cond l : Forall P l -> sort leb' (map f l) = map f (sort leb l).
  Proof.
    induction 1 as [|x l Hx Hl IH]; cbn [map sort]; auto.
    rewrite IH. apply insert_map_cond; auto. apply Forall_sort; auto.
  Qed.
End SortMap.

(* sorted_groupby commutes with a map on the elements (f) and on the labels (g) *)
Section GroupMap.
  Context {A B K K' : Type} (f : A -> B) (g : K -> K').
  Context (key : A -> K) (key' : B -> K').
  Context (keqb : K -> K -> bool) (keqb' : K' -> K' -> bool).
  Context (kleb : K -> K -> bool) (kleb' : K' -> K' -> bool).
  Context (PK : K -> Prop).
  Hypothesis key_f : forall x, key' (f x) = g (key x).
  Hypothesis keqb_g : forall a b, keqb' (g a) (g b) = keqb a b.
  Hypothesis kleb_g : forall a b, PK a -> PK b -> kleb' (g a) (g b) = kleb a b.

  Definition map_group (p : K * list A) : K' * list B := (g (fst p), map f (snd p)).

  Lemma group_add_map k v gr :
    group_add keqb' (g k) (f v) (map map_group gr) = map map_group (group_add keqb k v gr).
  Proof.
    induction gr as [|[k' vs] gr IH]; cbn [map group_add map_group fst snd]; auto.
    rewrite keqb_g. destruct (keqb k k'); cbn [map map_group fst snd].
    - unfold map_group at 2. cbn [fst snd]. rewrite map_app. reflexivity.
    - rewrite IH. reflexivity.
  Qed.

  Lemma fold_group_add_map l acc :
    fold_left (fun gr v => group_add keqb' (key' v) v gr) (map f l) (map map_group acc)
    = map map_group (fold_left (fun gr v => group_add keqb (key v) v gr) l acc).
  Proof.
    revert acc. induction l as [|x l IH]; intros acc; cbn [map fold_left]; auto.
    rewrite key_f, group_add_map. apply IH.
  Qed.

  Lemma groups_of_map l :
    groups_of key' keqb' (map f l) = map map_group (groups_of key keqb l).
  Proof. unfold groups_of. apply (fold_group_add_map l []). Qed.

  Lemma group_add_PK k (v : A) gr :
    PK k -> Forall (fun p => PK (fst p)) gr -> Forall (fun p => PK (fst p)) (group_add keqb k v gr).
  Proof.
    intros Hk Hg. induction Hg as [|[k' vs] gr Hp Hg IH]; cbn [group_add].
    - constructor; auto.
    - destruct (keqb k k'); constructor; auto.
  Qed.

  Lemma groups_of_PK l :
    Forall (fun x => PK (key x)) l -> Forall (fun p => PK (fst p)) (groups_of key keqb l).
  Proof.
    unfold groups_of. intros Hl.
    assert (G : forall acc, Forall (fun p => PK (fst p)) acc ->
                Forall (fun p => PK (fst p)) (fold_left (fun gr v => group_add keqb (key v) v gr) l acc)).
    { induction Hl as [|x l Hx Hl IH]; intros acc Hacc; cbn [fold_left]; auto.
      apply IH. apply group_add_PK; auto. }
    apply G. constructor.
  Qed.

  Lemma sorted_groupby_map rev l :
    Forall (fun x => PK (key x)) l ->
    sorted_groupby key' keqb' kleb' rev (map f l)
    = map map_group (sorted_groupby key keqb kleb rev l).
  Proof.
    intros Hl. unfold sorted_groupby. rewrite groups_of_map.
    apply (sort_map_cond (fun p => PK (fst p))).
    - intros a b Ha Hb. cbn [map_group fst]. destruct rev; apply kleb_g; auto.
    - apply groups_of_PK; auto.
  Qed.
End GroupMap.

Lemma nth_error_map' {A B} (f : A -> B) l i : nth_error (map f l) i = option_map f (nth_error l i).
Proof. apply nth_error_map. Qed.

Lemma index_from_map {A B} (f : A -> B) i l :
  index_from i (map f l) = map (fun p => (fst p, f (snd p))) (index_from i l).
Proof. revert i. induction l as [|x l IH]; intros i; cbn [map index_from fst snd]; auto. rewrite IH. reflexivity. Qed.

(* operation sequences: queue(e) / execute_once() at clock value `now`.  An error leaves the
   interpreter in the state reached so far (as a Python exception does) and the run goes on. *)
Inductive op := OpQueue (e : event) | OpStep (now : Z).

Section RunOps.
  Variable ctx X : Type.
  Variable exec_code : call ctx -> ctx -> option (ctx * list event).
  Variable eval_code : call ctx -> ctx -> option bool.
  Variable emit : Z -> meta -> X -> X * option err.
  Variable sc : chart.
  Variable fuel : nat.
  Fixpoint run_ops (ops : list op) (s : mstate ctx X) : mstate ctx X * list (option macrostep + err) :=
    match ops with
    | [] => (s, [])
    | OpQueue e :: r => run_ops r (fst (queue ctx X e s))
    | OpStep now :: r =>
        let o := execute_once ctx X exec_code eval_code emit sc fuel now s in
        let rr := run_ops r (fst o) in
        (fst rr, snd o :: snd rr)
    end.
End RunOps.

(* ------------------------------------------------------------------------------------------ *)
(* 3. Equivariance of the dictionary / set primitives and of the chart queries                 *)
(* ------------------------------------------------------------------------------------------ *)
Section Equi.
  Variable rho : name -> name.
  Hypothesis rho_inj : forall a b, rho a = rho b -> a = b.
  Hypothesis rho_empty : rho "" = "".

  Lemma rho_nonempty n : n <> "" -> rho n <> "".
  Proof. intros Hn H. apply Hn. apply rho_inj. rewrite rho_empty. exact H. Qed.

  Lemma str_eqb_rho a b : str_eqb (rho a) (rho b) = str_eqb a b.
  Proof.
    unfold str_eqb. destruct (String.eqb_spec a b) as [->|Hn].
    - apply String.eqb_refl.
    - apply String.eqb_neq. intros H. apply Hn, rho_inj, H.
  Qed.

  Lemma ostr_eqb_rho a b : ostr_eqb (option_map rho a) (option_map rho b) = ostr_eqb a b.
  Proof. destruct a, b; cbn; auto. apply str_eqb_rho. Qed.

  Lemma opt_eqb_rho a b : opt_eqb str_eqb (option_map rho a) (option_map rho b) = opt_eqb str_eqb a b.
  Proof. apply ostr_eqb_rho. Qed.

  Lemma mem_rho x l : mem (rho x) (map rho l) = mem x l.
  Proof. induction l as [|y l IH]; cbn [map mem]; auto. rewrite str_eqb_rho, IH. reflexivity. Qed.

  Lemma remove_first_rho x l : remove_first (rho x) (map rho l) = map rho (remove_first x l).
  Proof.
    induction l as [|y l IH]; cbn [map remove_first]; auto. rewrite str_eqb_rho.
    destruct (str_eqb x y); cbn [map]; auto. rewrite IH. reflexivity.
  Qed.

  Lemma set_add_rho x l : set_add (rho x) (map rho l) = map rho (set_add x l).
  Proof.
    unfold set_add. rewrite mem_rho. destruct (mem x l); auto. rewrite map_app. reflexivity.
  Qed.

  Lemma lookup_map_kv {V W} (f : V -> W) k d :
    lookup (rho k) (map_kv rho f d) = option_map f (lookup k d).
  Proof.
    induction d as [|[k' v] d IH]; cbn [map_kv map lookup fst snd]; auto.
    rewrite str_eqb_rho. destruct (str_eqb k k'); auto.
  Qed.

  Lemma dset_map_kv {V W} (f : V -> W) k v d :
    dset (rho k) (f v) (map_kv rho f d) = map_kv rho f (dset k v d).
  Proof.
    induction d as [|[k' v'] d IH]; cbn [map_kv map dset fst snd]; auto.
    rewrite str_eqb_rho. destruct (str_eqb k k'); cbn [map fst snd]; auto.
    unfold map_kv in IH. rewrite IH. reflexivity.
  Qed.

  Lemma truthy_rho o : truthy (option_map rho o) = option_map rho (truthy o).
  Proof.
    destruct o as [[|c s]|]; cbn [option_map truthy]; auto.
    - rewrite rho_empty. reflexivity.
    - destruct (rho (String c s)) eqn:E; auto.
      exfalso. apply (rho_nonempty (String c s)); auto. discriminate.
  Qed.

  Lemma owner_eqb_rho a b : owner_eqb (map_owner rho a) (map_owner rho b) = owner_eqb a b.
  Proof. destruct a, b; cbn; auto. apply str_eqb_rho. Qed.

  Lemma old_lookup_rho {ctx} o (m : list (owner * ctx)) :
    old_lookup (map_owner rho o) (map (fun oc => (map_owner rho (fst oc), snd oc)) m) = old_lookup o m.
  Proof.
    induction m as [|[o' c] m IH]; cbn [map old_lookup fst snd]; auto.
    rewrite owner_eqb_rho, IH. reflexivity.
  Qed.

  Lemma old_set_rho {ctx} o (c : ctx) m :
    old_set (map_owner rho o) c (map (fun oc => (map_owner rho (fst oc), snd oc)) m)
    = map (fun oc => (map_owner rho (fst oc), snd oc)) (old_set o c m).
  Proof.
    induction m as [|[o' c'] m IH]; cbn [map old_set fst snd]; auto.
    rewrite owner_eqb_rho. destruct (owner_eqb o o'); cbn [map fst snd]; auto.
    rewrite IH. reflexivity.
  Qed.

  (* ---- chart queries ---- *)
  Variable sc : chart.
  Notation sc' := (map_chart rho sc).

  Lemma state_for_rho n : state_for sc' (rho n) = option_map (map_state rho) (state_for sc n).
  Proof. unfold state_for. cbn [map_chart c_states]. apply lookup_map_kv. Qed.

  Lemma kind_of_rho n : kind_of sc' (rho n) = kind_of sc n.
  Proof. unfold kind_of. rewrite state_for_rho. destruct (state_for sc n); reflexivity. Qed.

  Lemma parent_for_rho n : parent_for sc' (rho n) = option_map rho (parent_for sc n).
  Proof.
    unfold parent_for. cbn [map_chart c_parent]. rewrite lookup_map_kv.
    destruct (lookup n (c_parent sc)); reflexivity.
  Qed.

  Lemma olookup_rho k (d : list (option name * list name)) :
    olookup (option_map rho k) (map (fun kv => (option_map rho (fst kv), map rho (snd kv))) d)
    = option_map (map rho) (olookup k d).
  Proof.
    induction d as [|[k' v] d IH]; cbn [map olookup fst snd]; auto.
    rewrite opt_eqb_rho. destruct (opt_eqb str_eqb k k'); auto.
  Qed.

  Lemma children_for_rho n : children_for sc' (rho n) = map rho (children_for sc n).
  Proof.
    unfold children_for. cbn [map_chart c_children].
    change (Some (rho n)) with (option_map rho (Some n)). rewrite olookup_rho.
    destruct (olookup (Some n) (c_children sc)); reflexivity.
  Qed.

  Lemma root_rho : root sc' = option_map rho (root sc).
  Proof.
    unfold root. cbn [map_chart c_parent]. induction (c_parent sc) as [|[n [p|]] d IH];
      cbn [map_kv map root_of fst snd option_map]; auto.
  Qed.

  Lemma ancestors_fuel_rho fuel p :
    ancestors_fuel sc' fuel (option_map rho p) = map rho (ancestors_fuel sc fuel p).
  Proof.
    revert p. induction fuel as [|f IH]; intros p; cbn [ancestors_fuel]; auto.
    rewrite truthy_rho. destruct (truthy p) as [q|]; cbn [option_map map]; auto.
    rewrite parent_for_rho, IH. reflexivity.
  Qed.

  Lemma ancestors_for_rho n : ancestors_for sc' (rho n) = map rho (ancestors_for sc n).
  Proof.
    unfold ancestors_for. rewrite parent_for_rho, ancestors_fuel_rho.
    cbn [map_chart c_parent]. unfold map_kv. rewrite map_length. reflexivity.
  Qed.

  Lemma depth_for_rho n : depth_for sc' (rho n) = depth_for sc n.
  Proof. unfold depth_for. rewrite ancestors_for_rho, map_length. reflexivity. Qed.

  Lemma bfs_rho fuel q : bfs sc' fuel (map rho q) = map rho (bfs sc fuel q).
  Proof.
    revert q. induction fuel as [|f IH]; intros q; cbn [bfs]; auto.
    destruct q as [|n q]; cbn [map]; auto.
    rewrite children_for_rho, <- map_app, IH, map_app. reflexivity.
  Qed.

  Lemma descendants_for_rho n : descendants_for sc' (rho n) = map rho (descendants_for sc n).
  Proof.
    unfold descendants_for. cbn [map_chart c_states]. unfold map_kv. rewrite map_length.
    apply (bfs_rho _ [n]).
  Qed.

  Lemma lca_rho a b :
    least_common_ancestor sc' (rho a) (rho b) = option_map rho (least_common_ancestor sc a b).
  Proof.
    unfold least_common_ancestor. rewrite !ancestors_for_rho.
    apply find_map_eq. intros x. apply mem_rho.
  Qed.

  Lemma leaf_for_rho names : leaf_for sc' (map rho names) = map rho (leaf_for sc names).
  Proof.
    unfold leaf_for. apply filter_map_eq. intros n _. f_equal.
    rewrite descendants_for_rho. apply existsb_map_eq. intros d. apply mem_rho.
  Qed.

  Lemma itransitions_rho : itransitions sc' = map (map_it rho) (itransitions sc).
  Proof. unfold itransitions. cbn [map_chart c_transitions]. apply index_from_map. Qed.

  Lemma owner_state_rho o : owner_state sc' (map_owner rho o) = option_map rho (owner_state sc o).
  Proof.
    destruct o as [n|i]; cbn [map_owner owner_state option_map]; auto.
    cbn [map_chart c_transitions]. rewrite nth_error_map. destruct (nth_error (c_transitions sc) i); reflexivity.
  Qed.

  Lemma states_for_rho l :
    states_for sc' (map rho l) = option_map (map (map_state rho)) (states_for sc l).
  Proof.
    induction l as [|n l IH]; cbn [map states_for]; auto.
    rewrite state_for_rho, IH. destruct (state_for sc n), (states_for sc l); reflexivity.
  Qed.

  (* ---- monotonicity: only on the names the chart ever sorts ---- *)
  Definition inN (n : name) : Prop := In n (chart_names sc).
  Hypothesis rho_mono : forall a b, inN a -> inN b -> str_leb (rho a) (rho b) = str_leb a b.

  Lemma children_inN p : Forall inN (children_for sc p).
  Proof.
    unfold children_for. destruct (olookup (Some p) (c_children sc)) as [l|] eqn:E; [|constructor].
    apply Forall_forall. intros n Hn. unfold inN, chart_names.
    apply in_or_app. right. apply in_or_app. left.
    apply in_concat. exists l. split; auto.
    clear Hn. induction (c_children sc) as [|[k v] d IH]; cbn [olookup] in E; [discriminate|].
    destruct (opt_eqb str_eqb (Some p) k).
    - inversion E; subst. left. reflexivity.
    - right. apply IH. exact E.
  Qed.

  Lemma bfs_inN fuel q : Forall inN (bfs sc fuel q).
  Proof.
    revert q. induction fuel as [|f IH]; intros q; cbn [bfs]; [constructor|].
    destruct q as [|n q]; [constructor|]. apply Forall_app. split; [apply children_inN|apply IH].
  Qed.

  Lemma descendants_inN n : Forall inN (descendants_for sc n).
  Proof. apply bfs_inN. Qed.

  Lemma lookup_In {V} k (d : list (name * V)) v : lookup k d = Some v -> In (k, v) d.
  Proof.
    induction d as [|[k' v'] d IH]; cbn [lookup]; [discriminate|].
    destruct (str_eqb k k') eqn:E.
    - apply str_eqb_spec in E. subst. intros H; inversion H; subst. left. reflexivity.
    - intros H. right. auto.
  Qed.

  Lemma state_for_inN n st : state_for sc n = Some st -> inN (s_name st).
  Proof.
    unfold state_for. intros H. apply lookup_In in H. unfold inN, chart_names.
    apply in_or_app. left. apply in_map_iff. exists (n, st). split; auto.
  Qed.

  Lemma states_for_inN l sts : states_for sc l = Some sts -> Forall (fun st => inN (s_name st)) sts.
  Proof.
    revert sts. induction l as [|n l IH]; intros sts; cbn [states_for].
    - intros H; inversion H; constructor.
    - destruct (state_for sc n) as [st|] eqn:E; [|discriminate].
      destruct (states_for sc l) as [r|]; [|discriminate].
      intros H; inversion H; subst. constructor; [eapply state_for_inN; eauto|auto].
  Qed.

  Lemma index_from_In {A} (l : list A) i p : In p (index_from i l) -> In (snd p) l.
  Proof.
    revert i. induction l as [|x l IH]; intros i; cbn [index_from]; [tauto|].
    intros [<-|H]; [left; reflexivity|right; eauto].
  Qed.

  Lemma source_inN it : In it (itransitions sc) -> inN (t_source (snd it)).
  Proof.
    intros H. apply index_from_In in H. unfold inN, chart_names.
    apply in_or_app. right. apply in_or_app. right. apply in_map. exact H.
  Qed.

  Lemma sort_names_rho l : Forall inN l -> sort_names (map rho l) = map rho (sort_names l).
  Proof. intros H. unfold sort_names. apply (sort_map_cond inN); auto. Qed.

  Lemma zn_leb_rho d1 d2 a b :
    inN a -> inN b -> zn_leb (d1, rho a) (d2, rho b) = zn_leb (d1, a) (d2, b).
  Proof. intros Ha Hb. unfold zn_leb. cbn [fst snd]. rewrite rho_mono; auto. Qed.

  Lemma exit_order_rho a b :
    inN a -> inN b -> exit_order_leb sc' (rho a) (rho b) = exit_order_leb sc a b.
  Proof. intros Ha Hb. unfold exit_order_leb. rewrite !depth_for_rho. apply zn_leb_rho; auto. Qed.

  Lemma enter_order_rho a b :
    inN a -> inN b -> enter_order_leb sc' (rho a) (rho b) = enter_order_leb sc a b.
  Proof. intros Ha Hb. unfold enter_order_leb. rewrite !depth_for_rho. apply zn_leb_rho; auto. Qed.

  Lemma sort_exit_rho l :
    Forall inN l -> sort (exit_order_leb sc') (map rho l) = map rho (sort (exit_order_leb sc) l).
  Proof. intros H. apply (sort_map_cond inN); auto. apply exit_order_rho. Qed.

  Lemma sort_enter_rho l :
    Forall inN l -> sort (enter_order_leb sc') (map rho l) = map rho (sort (enter_order_leb sc) l).
  Proof. intros H. apply (sort_map_cond inN); auto. apply enter_order_rho. Qed.

  Lemma configuration_rho cfg :
    Forall inN cfg -> configuration sc' (map rho cfg) = map rho (configuration sc cfg).
  Proof.
    intros H. unfold configuration. rewrite map_map.
    rewrite (map_ext (fun n => (depth_for sc' (rho n), rho n))
                     (fun n => (fun p => (fst p, rho (snd p))) (depth_for sc n, n)))
      by (intros n; cbn [fst snd]; rewrite depth_for_rho; reflexivity).
    rewrite <- (map_map (fun n => (depth_for sc n, n)) (fun p : Z * name => (fst p, rho (snd p)))).
    rewrite (sort_map_cond (fun p : Z * name => inN (snd p)) (fun p => (fst p, rho (snd p))) zn_leb zn_leb).
    - rewrite !map_map. reflexivity.
    - intros [d1 a] [d2 b] Ha Hb. cbn [fst snd] in *. apply zn_leb_rho; auto.
    - apply Forall_forall. intros p Hp. apply in_map_iff in Hp. destruct Hp as [n [<- Hn]].
      cbn [snd]. rewrite Forall_forall in H. auto.
  Qed.

  (* ---- pure functions of the interpreter ---- *)
  Lemma considered_rho ev states :
    considered sc' ev (map rho states) = map (map_it rho) (considered sc ev states).
  Proof.
    unfold considered. rewrite itransitions_rho. apply filter_map_eq.
    intros it _. cbn [map_it snd map_trans t_source t_event]. rewrite mem_rho. reflexivity.
  Qed.

  Lemma considered_sub ev states : Forall (fun it => In it (itransitions sc)) (considered sc ev states).
  Proof. apply Forall_forall. intros it H. apply filter_In in H. tauto. Qed.

  Lemma last_before_rho lca anc cur :
    last_before (option_map rho lca) (map rho anc) (rho cur) = rho (last_before lca anc cur).
  Proof.
    revert cur. induction anc as [|a anc IH]; intros cur; cbn [map last_before]; auto.
    change (Some (rho a)) with (option_map rho (Some a)). rewrite ostr_eqb_rho.
    destruct (ostr_eqb (Some a) lca); auto.
  Qed.

  Lemma stays_below_rho lca t :
    stays_below sc' (option_map rho lca) (map_trans rho t) = stays_below sc lca t.
  Proof.
    unfold stays_below. cbn [map_trans t_target t_source].
    destruct (t_target t) as [tgt|]; cbn [option_map]; auto.
    destruct tgt as [|c s].
    - rewrite rho_empty. reflexivity.
    - destruct (rho (String c s)) eqn:E.
      + exfalso. apply (rho_nonempty (String c s)); [discriminate|exact E].
      + rewrite <- E. rewrite ancestors_for_rho, last_before_rho, descendants_for_rho.
        apply (mem_rho (String c s) (_ :: _)).
  Qed.

  Lemma check_pair_rho t1 t2 :
    check_pair sc' (map_trans rho t1) (map_trans rho t2) = check_pair sc t1 t2.
  Proof.
    unfold check_pair. cbn [map_trans t_source]. rewrite str_eqb_rho, lca_rho.
    destruct (str_eqb (t_source t1) (t_source t2)); auto.
    destruct (least_common_ancestor sc (t_source t1) (t_source t2)) as [l|]; cbn [option_map]; auto.
    rewrite kind_of_rho. destruct (kind_of sc l) as [[]|]; auto.
    change (Some (rho l)) with (option_map rho (Some l)). rewrite !stays_below_rho. reflexivity.
  Qed.

  Lemma check_against_rho t1 rest :
    check_against sc' (map_trans rho t1) (map (map_it rho) rest) = check_against sc t1 rest.
  Proof.
    induction rest as [|it rest IH]; cbn [map check_against]; auto.
    cbn [map_it snd]. rewrite check_pair_rho, IH. reflexivity.
  Qed.

  Lemma check_pairs_rho ts : check_pairs sc' (map (map_it rho) ts) = check_pairs sc ts.
  Proof.
    induction ts as [|it ts IH]; cbn [map check_pairs]; auto.
    cbn [map_it snd]. rewrite check_against_rho, IH. reflexivity.
  Qed.

  Definition srcN (it : itrans) : Prop := inN (t_source (snd it)).

  Lemma trans_order_rho a b :
    srcN a -> srcN b -> trans_order_leb sc' (map_it rho a) (map_it rho b) = trans_order_leb sc a b.
  Proof.
    intros Ha Hb. unfold trans_order_leb. cbn [map_it snd map_trans t_source].
    rewrite !depth_for_rho. apply zn_leb_rho; auto.
  Qed.

  Lemma sort_trans_rho ts :
    Forall srcN ts ->
    sort (trans_order_leb sc') (map (map_it rho) ts) = map (map_it rho) (sort (trans_order_leb sc) ts).
  Proof. intros H. apply (sort_map_cond srcN); auto. apply trans_order_rho. Qed.

  Lemma entered_path_rho lca anc acc :
    entered_path (option_map rho lca) (map rho anc) (map rho acc) = map rho (entered_path lca anc acc).
  Proof.
    revert acc. induction anc as [|a anc IH]; intros acc; cbn [map entered_path]; auto.
    change (Some (rho a)) with (option_map rho (Some a)). rewrite ostr_eqb_rho.
    destruct (ostr_eqb (Some a) lca); auto. apply (IH (a :: acc)).
  Qed.

  Lemma create_step_rho cfg ev it :
    create_step sc' (map rho cfg) ev (map_it rho it) = map_micro rho (create_step sc cfg ev it).
  Proof.
    unfold create_step. cbn [map_it snd fst map_trans t_target t_source].
    destruct (t_target (snd it)) as [tgt|]; cbn [option_map]; [|reflexivity].
    rewrite lca_rho, !ancestors_for_rho, last_before_rho, descendants_for_rho.
    rewrite sort_exit_rho by apply descendants_inN.
    rewrite (filter_map_eq rho (fun d => mem d cfg)) by (intros x _; apply mem_rho).
    rewrite mem_rho. rewrite (entered_path_rho _ _ [tgt]).
    unfold map_micro. cbn [ms_event ms_trans ms_entered ms_exited ms_sent]. f_equal.
    rewrite map_app. destruct (mem _ cfg); reflexivity.
  Qed.

  Lemma create_steps_rho cfg ev ts :
    create_steps sc' (map rho cfg) ev (map (map_it rho) ts) = map (map_micro rho) (create_steps sc cfg ev ts).
  Proof. unfold create_steps. rewrite !map_map. apply map_ext. intros it. apply create_step_rho. Qed.

  (* ---- stabilisation steps ---- *)
  Definition map_res (r : microstep + err) : microstep + err :=
    match r with inl m => inl (map_micro rho m) | inr e => inr (map_err rho e) end.

  Definition memN (m : list (name * list name)) : Prop := Forall (fun kv => Forall inN (snd kv)) m.

  Lemma memN_lookup m k l : memN m -> lookup k m = Some l -> Forall inN l.
  Proof.
    intros Hm Hl. apply lookup_In in Hl. unfold memN in Hm. rewrite Forall_forall in Hm.
    apply (Hm _ Hl).
  Qed.

  Lemma stab_for_leaf_rho mem_ leaf :
    memN mem_ ->
    stab_for_leaf sc' (map_kv rho (map rho) mem_) (rho leaf) = option_map map_res (stab_for_leaf sc mem_ leaf).
  Proof.
    intros Hm. unfold stab_for_leaf. rewrite state_for_rho.
    destruct (state_for sc leaf) as [st|]; cbn [option_map]; [|reflexivity].
    cbn [map_state s_kind s_initial s_memory]. destruct (s_kind st).
    - reflexivity.
    - rewrite truthy_rho. destruct (truthy (s_initial st)); reflexivity.
    - rewrite children_for_rho. pose proof (children_inN leaf) as Hc.
      destruct (children_for sc leaf) as [|n l]; cbn [map]; [reflexivity|].
      change (rho n :: map rho l) with (map rho (n :: l)). rewrite sort_names_rho by exact Hc.
      reflexivity.
    - rewrite parent_for_rho, root_rho, ostr_eqb_rho.
      destruct (ostr_eqb (parent_for sc leaf) (root sc)); [|reflexivity].
      destruct (root sc); reflexivity.
    - rewrite lookup_map_kv. destruct (lookup leaf mem_) as [l|] eqn:E; cbn [option_map].
      + rewrite sort_enter_rho by (eapply memN_lookup; eauto). reflexivity.
      + destruct (s_memory st); reflexivity.
    - rewrite lookup_map_kv. destruct (lookup leaf mem_) as [l|] eqn:E; cbn [option_map].
      + rewrite sort_enter_rho by (eapply memN_lookup; eauto). reflexivity.
      + destruct (s_memory st); reflexivity.
  Qed.

  Lemma first_some_map {A B C D} (f : A -> option B) (f' : C -> option D) (h : A -> C) (g : B -> D) l :
    (forall x, In x l -> f' (h x) = option_map g (f x)) ->
    first_some f' (map h l) = option_map g (first_some f l).
  Proof.
    induction l as [|x l IH]; intros H; cbn [map first_some]; auto.
    rewrite (H x (or_introl eq_refl)). destruct (f x); cbn [option_map]; auto.
    apply IH. intros y Hy. apply H. right. exact Hy.
  Qed.

  Lemma stab_for_orthogonal_rho cfg n :
    stab_for_orthogonal sc' (map rho cfg) (rho n) = option_map map_res (stab_for_orthogonal sc cfg n).
  Proof.
    unfold stab_for_orthogonal. rewrite state_for_rho.
    destruct (state_for sc n) as [st|]; cbn [option_map]; [|reflexivity].
    cbn [map_state s_kind]. destruct (s_kind st); try reflexivity.
    rewrite children_for_rho.
    rewrite (filter_map_eq rho (fun ch => negb (mem ch cfg)))
      by (intros x _; rewrite mem_rho; reflexivity).
    pose proof (Forall_filter (fun ch => negb (mem ch cfg)) inN _ (children_inN n)) as Hc.
    destruct (filter (fun ch => negb (mem ch cfg)) (children_for sc n)) as [|a l]; cbn [map]; [reflexivity|].
    change (rho a :: map rho l) with (map rho (a :: l)). rewrite sort_names_rho by exact Hc.
    reflexivity.
  Qed.

  Definition closedi {ctx} (i : istate ctx) : Prop := Forall inN (i_config i) /\ memN (i_memory i).

  Lemma create_stabilization_step_rho {ctx} (i : istate ctx) :
    closedi i ->
    create_stabilization_step ctx sc' (map_istate rho i) = option_map map_res (create_stabilization_step ctx sc i).
  Proof.
    intros [Hc Hm]. unfold create_stabilization_step. cbn [map_istate i_config i_memory].
    rewrite leaf_for_rho.
    change (leaf_order_leb sc') with (exit_order_leb sc').
    change (leaf_order_leb sc) with (exit_order_leb sc).
    rewrite sort_exit_rho by (unfold leaf_for; apply Forall_filter; exact Hc).
    rewrite (first_some_map (stab_for_leaf sc (i_memory i)) _ rho map_res)
      by (intros x _; apply stab_for_leaf_rho; exact Hm).
    destruct (first_some (stab_for_leaf sc (i_memory i)) _); cbn [option_map]; [reflexivity|].
    rewrite sort_enter_rho by exact Hc.
    apply first_some_map. intros x _. apply stab_for_orthogonal_rho.
  Qed.

  Lemma queue_event_rho {ctx} (s : istate ctx) e :
    queue_event (map_istate rho s) e = map_istate rho (queue_event s e).
  Proof. unfold queue_event. destruct (e_kind e); reflexivity. Qed.

  Lemma queue_event_closed {ctx} (s : istate ctx) e : closedi s -> closedi (queue_event s e).
  Proof. unfold queue_event, closedi. destruct (e_kind e); cbn; auto. Qed.

  Lemma select_event_rho {ctx} (s : istate ctx) : select_event (map_istate rho s) = select_event s.
  Proof. reflexivity. Qed.

  Lemma lookup_id k (d : list (name * Z)) : lookup (rho k) (map_kv rho (fun z : Z => z) d) = lookup k d.
  Proof. rewrite lookup_map_kv. destruct (lookup k d); reflexivity. Qed.

  Lemma mk_call_rho {ctx} (i : istate ctx) k o idx cd ev :
    Forall inN (i_config i) ->
    mk_call ctx sc' (map_istate rho i) k (map_owner rho o) idx cd ev
    = map_call rho (mk_call ctx sc i k o idx cd ev).
  Proof.
    intros Hc. unfold mk_call. rewrite owner_state_rho.
    cbn [map_istate i_id i_time i_config i_entry i_idle i_sent i_old].
    rewrite sort_names_rho by exact Hc. rewrite old_lookup_rho.
    unfold map_call.
    cbn [cl_interp cl_kind cl_owner cl_idx cl_code cl_event cl_time cl_config cl_entry cl_idle cl_sent cl_old].
    destruct (owner_state sc o) as [n|]; cbn [option_map]; rewrite ?lookup_id; reflexivity.
  Qed.

  (* ---------------------------------------------------------------------------------------- *)
  (* 4. The monadic layer: a logical relation between the two runs                             *)
  (* ---------------------------------------------------------------------------------------- *)
  Variable ctx : Type.
  Variables X X' : Type.
  Variables exec_code exec_code' : call ctx -> ctx -> option (ctx * list event).
  Variables eval_code eval_code' : call ctx -> ctx -> option bool.
  Variable emit : Z -> meta -> X -> X * option err.
  Variable emit' : Z -> meta -> X' -> X' * option err.
  Variable fx : X -> X'.
  (* the evaluator does not look at state names *)
  Hypothesis exec_indep : forall c x, exec_code' (map_call rho c) x = exec_code c x.
  Hypothesis eval_indep : forall c x, eval_code' (map_call rho c) x = eval_code c x.
  (* the listeners are equivariant *)
  Hypothesis emit_equi : forall t m x,
      emit' t (map_meta rho m) (fx x)
      = (fx (fst (emit t m x)), option_map (map_err rho) (snd (emit t m x))).

  Notation mst := (mstate ctx X).
  Notation mst' := (mstate ctx X').
  Notation MM := (Interp.M ctx X).
  Notation MM' := (Interp.M ctx X').

  Definition map_mstate (s : mst) : mst' :=
    mkM (map_istate rho (m_i s)) (fx (m_x s)) (map (map_obs rho) (m_tr s)).

  Definition map_out {A} (fa : A -> A) (r : mst * (A + err)) : mst' * (A + err) :=
    (map_mstate (fst r),
     match snd r with inl a => inl (fa a) | inr e => inr (map_err rho e) end).

  Definition closed (s : mst) : Prop := closedi (m_i s).

  Definition EQV {A} (P : A -> Prop) (fa : A -> A) (m' : MM' A) (m : MM A) : Prop :=
    forall s, closed s ->
      m' (map_mstate s) = map_out fa (m s)
      /\ closed (fst (m s))
      /\ (forall a, snd (m s) = inl a -> P a).

  Definition TT {A} (a : A) : Prop := True.
  Definition idf {A} (a : A) : A := a.

  Lemma eqv_ret {A} (P : A -> Prop) fa a : P a -> EQV P fa (ret ctx X' (fa a)) (ret ctx X a).
  Proof.
    intros Hp s Hc. unfold ret, map_out. cbn [fst snd].
    split; [reflexivity|]. split; [exact Hc|]. intros a' H. inversion H; subst. exact Hp.
  Qed.

  Lemma eqv_fail {A} (P : A -> Prop) fa e : EQV P fa (fail ctx X' (map_err rho e)) (fail ctx X e).
  Proof.
    intros s Hc. unfold fail, map_out. cbn [fst snd].
    split; [reflexivity|]. split; [exact Hc|]. intros a' H. discriminate.
  Qed.

  Lemma eqv_bind {A B} (P : A -> Prop) (Q : B -> Prop) fa fb (m' : MM' A) m (f' : A -> MM' B) f :
    EQV P fa m' m -> (forall a, P a -> EQV Q fb (f' (fa a)) (f a)) ->
    EQV Q fb (bind ctx X' m' f') (bind ctx X m f).
  Proof.
    intros Hm Hf s Hc. unfold bind. destruct (Hm s Hc) as [E [Hc1 HP]]. rewrite E.
    unfold map_out at 1. destruct (m s) as [s1 [a|e]]; cbn [fst snd] in *.
    - apply Hf; auto.
    - unfold map_out. cbn [fst snd]. split; [reflexivity|]. split; [exact Hc1|]. intros a H. discriminate.
  Qed.

  Lemma eqv_weaken {A} (P Q : A -> Prop) fa (m' : MM' A) m :
    EQV P fa m' m -> (forall a, P a -> Q a) -> EQV Q fa m' m.
  Proof.
    intros Hm HPQ s Hc. destruct (Hm s Hc) as [E [Hc1 HP]]. split; [exact E|]. split; [exact Hc1|].
    intros a Ha. apply HPQ, HP, Ha.
  Qed.

  Lemma eqv_get_bind {B} (Q : B -> Prop) fb (f' : istate ctx -> MM' B) f :
    (forall i, closedi i -> EQV Q fb (f' (map_istate rho i)) (f i)) ->
    EQV Q fb (bind ctx X' (get ctx X') f') (bind ctx X (get ctx X) f).
  Proof. intros H s Hc. unfold bind, get. cbn [map_mstate m_i]. apply (H (m_i s) Hc s Hc). Qed.

  Lemma eqv_put i : closedi i -> EQV TT idf (put ctx X' (map_istate rho i)) (put ctx X i).
  Proof.
    intros Hi s Hc. unfold put, map_out. cbn [fst snd map_mstate m_i m_x m_tr].
    split; [reflexivity|]. split; [exact Hi|]. intros; exact I.
  Qed.

  Lemma eqv_modify g' g :
    (forall i, g' (map_istate rho i) = map_istate rho (g i)) ->
    (forall i : istate ctx, closedi i -> closedi (g i)) ->
    EQV TT idf (modify ctx X' g') (modify ctx X g).
  Proof.
    intros Hg Hcl s Hc. unfold modify, map_out. cbn [fst snd map_mstate m_i m_x m_tr].
    rewrite Hg. split; [reflexivity|]. split; [apply Hcl, Hc|]. intros; exact I.
  Qed.

  Lemma eqv_observe o : EQV TT idf (observe ctx X' (map_obs rho o)) (observe ctx X o).
  Proof.
    intros s Hc. unfold observe, map_out. cbn [fst snd map_mstate m_i m_x m_tr map].
    split; [reflexivity|]. split; [exact Hc|]. intros; exact I.
  Qed.

  Lemma eqv_mapM {A B} (PA : A -> Prop) (PB : B -> Prop) ha fb (f' : A -> MM' B) f l :
    (forall x, PA x -> EQV PB fb (f' (ha x)) (f x)) -> Forall PA l ->
    EQV (Forall PB) (map fb) (mapM ctx X' f' (map ha l)) (mapM ctx X f l).
  Proof.
    intros H Hl. induction Hl as [|x l Hx Hl IH]; cbn [mapM map].
    - apply (eqv_ret (Forall PB) (map fb) []). constructor.
    - eapply eqv_bind; [apply H, Hx|]. intros y Hy.
      eapply eqv_bind; [apply IH|]. intros ys Hys.
      apply (eqv_ret (Forall PB) (map fb) (y :: ys)). constructor; auto.
  Qed.

  Lemma eqv_iterM {A} (PA : A -> Prop) ha (f' : A -> MM' unit) f l :
    (forall x, PA x -> EQV TT idf (f' (ha x)) (f x)) -> Forall PA l ->
    EQV TT idf (iterM ctx X' f' (map ha l)) (iterM ctx X f l).
  Proof.
    intros H Hl. induction Hl as [|x l Hx Hl IH]; cbn [iterM map].
    - apply (eqv_ret TT idf tt). exact I.
    - eapply eqv_bind; [apply H, Hx|]. intros _ _. exact IH.
  Qed.

  (* ---- listeners ---- *)
  Lemma raise_meta_eqv m :
    EQV TT idf (raise_meta ctx X' emit' (map_meta rho m)) (raise_meta ctx X emit m).
  Proof.
    intros s Hc. unfold raise_meta. cbn [map_mstate m_i m_x m_tr map_istate i_time].
    rewrite emit_equi. unfold map_out.
    destruct (emit (i_time (m_i s)) m (m_x s)) as [x' [e|]]; cbn [fst snd option_map];
      (split; [reflexivity|]; split; [exact Hc|]; intros; exact I).
  Qed.

  Lemma raise_event_eqv e :
    EQV TT idf (raise_event ctx X' emit' e) (raise_event ctx X emit e).
  Proof.
    unfold raise_event. destruct (e_kind e).
    - apply (eqv_ret TT idf tt). exact I.
    - eapply eqv_bind.
      + apply eqv_modify; [intros i; apply queue_event_rho|intros i; apply queue_event_closed].
      + intros _ _. eapply eqv_bind; [apply (raise_meta_eqv (MSent e))|]. intros _ _.
        destruct (has_delay e); [apply (raise_meta_eqv (MDelayedSent e))|apply (eqv_ret TT idf tt); exact I].
    - apply (raise_meta_eqv (MUser (e_name e) (e_data e))).
  Qed.

  (* ---- evaluator calls ---- *)
  Lemma run_code_eqv k o cd ev :
    EQV TT idf (run_code ctx X' exec_code' sc' k (map_owner rho o) cd ev)
               (run_code ctx X exec_code sc k o cd ev).
  Proof.
    unfold run_code. apply eqv_get_bind. intros i Hi.
    rewrite mk_call_rho by apply Hi. cbn [map_istate i_ctx]. rewrite exec_indep.
    destruct cd as [cd|].
    - destruct (exec_code (mk_call ctx sc i k o 0 (Some cd) ev) (i_ctx i)) as [[c' sent]|].
      + eapply eqv_bind; [apply (eqv_observe (ObExec _ (Some sent)))|]. intros _ _.
        eapply eqv_bind; [apply (eqv_put (set_ctx ctx c' i)); exact Hi|]. intros _ _.
        apply (eqv_ret TT idf sent). exact I.
      + eapply eqv_bind; [apply (eqv_observe (ObExec _ None))|]. intros _ _.
        apply (eqv_fail TT idf (ECode k o 0)).
    - eapply eqv_bind; [apply (eqv_observe (ObExec _ (Some [])))|]. intros _ _.
      apply (eqv_ret TT idf []). exact I.
  Qed.

  Lemma eval_cond_eqv k o idx cd ev :
    EQV TT idf (eval_cond ctx X' eval_code' sc' k (map_owner rho o) idx cd ev)
               (eval_cond ctx X eval_code sc k o idx cd ev).
  Proof.
    unfold eval_cond. apply eqv_get_bind. intros i Hi.
    rewrite mk_call_rho by apply Hi. cbn [map_istate i_ctx]. rewrite eval_indep.
    destruct (eval_code (mk_call ctx sc i k o idx (Some cd) ev) (i_ctx i)) as [b|].
    - eapply eqv_bind; [apply (eqv_observe (ObEval _ (Some b)))|]. intros _ _.
      apply (eqv_ret TT idf b). exact I.
    - eapply eqv_bind; [apply (eqv_observe (ObEval _ None))|]. intros _ _.
      apply (eqv_fail TT idf (ECode k o idx)).
  Qed.

  Lemma eqv_ret_tt : EQV TT idf (ret ctx X' tt) (ret ctx X tt).
  Proof. apply (eqv_ret TT idf tt). exact I. Qed.

  Lemma eval_conds_eqv k o cds ev : forall idx,
    EQV TT idf (eval_conds ctx X' eval_code' sc' k (map_owner rho o) idx cds ev)
               (eval_conds ctx X eval_code sc k o idx cds ev).
  Proof.
    induction cds as [|cd cds IH]; intros idx; cbn [eval_conds].
    - apply eqv_ret_tt.
    - eapply eqv_bind; [apply eval_cond_eqv|]. intros b _. unfold idf.
      destruct b; [apply IH|apply (eqv_fail TT idf (EContract k o idx))].
  Qed.

  Lemma set_old_rho (i : istate ctx) o :
    set_old ctx (old_set (map_owner rho o) (i_ctx (map_istate rho i)) (i_old (map_istate rho i))) (map_istate rho i)
    = map_istate rho (set_old ctx (old_set o (i_ctx i) (i_old i)) i).
  Proof.
    unfold set_old, map_istate.
    cbn [i_id i_initialized i_time i_memory i_config i_entry i_idle i_sent i_iq i_eq i_ignore_contract i_ctx i_old].
    rewrite old_set_rho. reflexivity.
  Qed.

  Lemma contract_eqv k o pre post inv ev :
    EQV TT idf (contract ctx X' eval_code' sc' k (map_owner rho o) pre post inv ev)
               (contract ctx X eval_code sc k o pre post inv ev).
  Proof.
    unfold contract. apply eqv_get_bind. intros i Hi. cbn [map_istate i_ignore_contract].
    destruct (i_ignore_contract i); [apply eqv_ret_tt|].
    destruct k; try apply eqv_ret_tt; try apply eval_conds_eqv.
    eapply eqv_bind; [|intros _ _; apply eval_conds_eqv].
    assert (Hm : EQV TT idf
               (modify ctx X' (fun s => set_old ctx (old_set (map_owner rho o) (i_ctx s) (i_old s)) s))
               (modify ctx X (fun s => set_old ctx (old_set o (i_ctx s) (i_old s)) s))).
    { apply eqv_modify; [intros j; apply set_old_rho|intros j Hj; exact Hj]. }
    destruct inv, post; try apply eqv_ret_tt; exact Hm.
  Qed.

  Lemma state_contract_eqv k st ev :
    EQV TT idf (state_contract ctx X' eval_code' sc' k (map_state rho st) ev)
               (state_contract ctx X eval_code sc k st ev).
  Proof.
    unfold state_contract. cbn [map_state s_name s_pre s_post s_inv].
    apply (contract_eqv k (OState (s_name st))).
  Qed.

  Lemma trans_contract_eqv k it ev :
    EQV TT idf (trans_contract ctx X' eval_code' sc' k (map_it rho it) ev)
               (trans_contract ctx X eval_code sc k it ev).
  Proof.
    unfold trans_contract. cbn [map_it fst snd map_trans t_pre t_post t_inv].
    apply (contract_eqv k (OTrans (fst it))).
  Qed.

  (* ---- _select_transitions ---- *)
  Notation mits := (map (map_it rho)).
  Definition srcsN (ts : list itrans) : Prop := Forall srcN ts.

  Lemma eval_guards_eqv exposed ts :
    srcsN ts ->
    EQV srcsN mits (eval_guards ctx X' eval_code' sc' exposed (mits ts))
                   (eval_guards ctx X eval_code sc exposed ts).
  Proof.
    intros Hts. induction Hts as [|it ts Hit Hts IH]; cbn [eval_guards map].
    - apply (eqv_ret srcsN mits []). constructor.
    - eapply (eqv_bind TT srcsN idf).
      + cbn [map_it snd fst map_trans t_guard]. destruct (t_guard (snd it)) as [g|].
        * apply (eval_cond_eqv CGuard (OTrans (fst it))).
        * apply (eqv_ret TT idf true). exact I.
      + intros ok _. eapply eqv_bind; [apply IH|]. intros r Hr. unfold idf.
        destruct ok.
        * apply (eqv_ret srcsN mits (it :: r)). constructor; auto.
        * apply (eqv_ret srcsN mits r). exact Hr.
  Qed.

  Definition zgroups (gs : list (Z * list itrans)) := map (fun p => (fst p, mits (snd p))) gs.
  Definition groupsN {K} (gs : list (K * list itrans)) : Prop := Forall (fun p => srcsN (snd p)) gs.

  Lemma sel_priorities_eqv exposed gs :
    groupsN gs ->
    EQV srcsN mits (sel_priorities ctx X' eval_code' sc' exposed (zgroups gs))
                   (sel_priorities ctx X eval_code sc exposed gs).
  Proof.
    intros Hg. induction Hg as [|[z ts] gs Hts Hg IH]; cbn [sel_priorities zgroups map fst snd].
    - apply (eqv_ret srcsN mits []). constructor.
    - eapply eqv_bind; [apply eval_guards_eqv; exact Hts|]. intros r Hr.
      destruct r as [|a r]; cbn [map]; [exact IH|].
      apply (eqv_ret srcsN mits (a :: r)). exact Hr.
  Qed.

  (* groups produced by sorted_groupby only contain elements of the list *)
  Lemma group_add_Fsnd {A K} (keqb : K -> K -> bool) (P : A -> Prop) k v g :
    P v -> Forall (fun p => Forall P (snd p)) g -> Forall (fun p => Forall P (snd p)) (group_add keqb k v g).
  Proof.
    intros Hv Hg. induction Hg as [|[k' vs] g Hp Hg IH]; cbn [group_add].
    - constructor; [|constructor]. cbn. constructor; auto.
    - destruct (keqb k k'); constructor; auto. cbn [snd] in *. apply Forall_app. split; auto.
  Qed.

  Lemma sorted_groupby_Fsnd {A K} (key : A -> K) keqb kleb rev (P : A -> Prop) l :
    Forall P l -> Forall (fun p => Forall P (snd p)) (sorted_groupby key keqb kleb rev l).
  Proof.
    intros Hl. unfold sorted_groupby. apply Forall_sort. unfold groups_of.
    assert (G : forall acc, Forall (fun p => Forall P (snd p)) acc ->
                Forall (fun p => Forall P (snd p)) (fold_left (fun g v => group_add keqb (key v) v g) l acc)).
    { induction Hl as [|x l Hx Hl IH]; intros acc Hacc; cbn [fold_left]; auto.
      apply IH. apply group_add_Fsnd; auto. }
    apply G. constructor.
  Qed.

  Definition ngroups (gs : list (name * list itrans)) := map (fun p => (rho (fst p), mits (snd p))) gs.
  Definition map_sel (r : list itrans * list name) := (mits (fst r), map rho (snd r)).
  Definition selN (r : list itrans * list name) : Prop := srcsN (fst r).

  Lemma priority_groups_rho ts :
    sorted_groupby (fun it : itrans => t_priority (snd it)) Z.eqb Z.leb true (mits ts)
    = zgroups (sorted_groupby (fun it : itrans => t_priority (snd it)) Z.eqb Z.leb true ts).
  Proof.
    apply (sorted_groupby_map (map_it rho) (fun z : Z => z) _ _ Z.eqb Z.eqb Z.leb Z.leb (fun _ => True)); auto.
    apply Forall_forall. auto.
  Qed.

  Lemma sel_sources_eqv exposed gs : forall selected ignored,
    groupsN gs -> srcsN selected ->
    EQV selN map_sel
        (sel_sources ctx X' eval_code' sc' exposed (ngroups gs) (mits selected) (map rho ignored))
        (sel_sources ctx X eval_code sc exposed gs selected ignored).
  Proof.
    intros selected ignored Hg. revert selected ignored.
    induction Hg as [|[src ts] gs Hts Hg IH]; intros selected ignored Hsel;
      cbn [sel_sources ngroups map fst snd].
    - apply (eqv_ret selN map_sel (selected, ignored)). exact Hsel.
    - rewrite mem_rho. destruct (mem src ignored); [apply IH; exact Hsel|].
      rewrite priority_groups_rho.
      eapply eqv_bind; [apply sel_priorities_eqv; apply sorted_groupby_Fsnd; exact Hts|].
      intros r Hr. destruct r as [|a r]; cbn [map]; [apply IH; exact Hsel|].
      change (map_it rho a :: mits r) with (mits (a :: r)).
      rewrite <- map_app. rewrite ancestors_for_rho.
      change [rho src] with (map rho [src]). rewrite <- !map_app.
      apply IH. apply Forall_app. split; auto.
  Qed.

  Lemma source_groups_rho ts :
    srcsN ts ->
    sorted_groupby (fun it : itrans => t_source (snd it)) str_eqb str_leb false (mits ts)
    = ngroups (sorted_groupby (fun it : itrans => t_source (snd it)) str_eqb str_leb false ts).
  Proof.
    intros H.
    apply (sorted_groupby_map (map_it rho) rho _ _ str_eqb str_eqb str_leb str_leb inN); auto.
    - intros a b. apply str_eqb_rho.
  Qed.

  Lemma sel_depths_eqv exposed gs : forall selected ignored,
    groupsN gs -> srcsN selected ->
    EQV selN map_sel
        (sel_depths ctx X' eval_code' sc' exposed (zgroups gs) (mits selected) (map rho ignored))
        (sel_depths ctx X eval_code sc exposed gs selected ignored).
  Proof.
    intros selected ignored Hg. revert selected ignored.
    induction Hg as [|[d ts] gs Hts Hg IH]; intros selected ignored Hsel;
      cbn [sel_depths zgroups map fst snd].
    - apply (eqv_ret selN map_sel (selected, ignored)). exact Hsel.
    - cbn [snd] in Hts. rewrite source_groups_rho by exact Hts.
      eapply eqv_bind; [apply sel_sources_eqv; [apply sorted_groupby_Fsnd; exact Hts|exact Hsel]|].
      intros r Hr. cbn [map_sel fst snd]. apply IH. exact Hr.
  Qed.

  Lemma depth_groups_rho ts :
    sorted_groupby (fun it : itrans => depth_for sc' (t_source (snd it))) Z.eqb Z.leb true (mits ts)
    = zgroups (sorted_groupby (fun it : itrans => depth_for sc (t_source (snd it))) Z.eqb Z.leb true ts).
  Proof.
    apply (sorted_groupby_map (map_it rho) (fun z : Z => z) _ _ Z.eqb Z.eqb Z.leb Z.leb (fun _ => True)); auto.
    - intros it. cbn [map_it snd map_trans t_source]. apply depth_for_rho.
    - apply Forall_forall. auto.
  Qed.

  Definition bgroups (gs : list (bool * list itrans)) := map (fun p => (fst p, mits (snd p))) gs.

  Lemma sel_eventness_eqv event gs : forall selected,
    groupsN gs -> srcsN selected ->
    EQV srcsN mits
        (sel_eventness ctx X' eval_code' sc' event (bgroups gs) (mits selected))
        (sel_eventness ctx X eval_code sc event gs selected).
  Proof.
    intros selected Hg. revert selected.
    induction Hg as [|[b ts] gs Hts Hg IH]; intros selected Hsel;
      cbn [sel_eventness bgroups map fst snd].
    - apply (eqv_ret srcsN mits selected). exact Hsel.
    - destruct selected as [|a sel]; cbn [map].
      + rewrite depth_groups_rho.
        eapply eqv_bind.
        * apply (sel_depths_eqv _ _ [] []); [apply sorted_groupby_Fsnd; exact Hts|constructor].
        * intros r Hr. cbn [map_sel fst]. apply IH. exact Hr.
      + apply (eqv_ret srcsN mits (a :: sel)). exact Hsel.
  Qed.

  Lemma eventness_groups_rho l :
    sorted_groupby has_event_key Bool.eqb bool_leb false (mits l)
    = bgroups (sorted_groupby has_event_key Bool.eqb bool_leb false l).
  Proof.
    apply (sorted_groupby_map (map_it rho) (fun b : bool => b) _ _ Bool.eqb Bool.eqb bool_leb bool_leb (fun _ => True)); auto.
    apply Forall_forall. auto.
  Qed.

  Lemma considered_srcsN ev states : srcsN (considered sc ev states).
  Proof.
    apply Forall_forall. intros it H. apply source_inN.
    pose proof (considered_sub ev states) as Hs. rewrite Forall_forall in Hs. auto.
  Qed.

  Lemma select_transitions_eqv event states :
    EQV srcsN mits
        (select_transitions ctx X' eval_code' sc' event (map rho states))
        (select_transitions ctx X eval_code sc event states).
  Proof.
    unfold select_transitions. rewrite considered_rho, eventness_groups_rho.
    apply (sel_eventness_eqv event _ []); [|constructor].
    apply sorted_groupby_Fsnd. apply considered_srcsN.
  Qed.

  (* ---- _sort_transitions ---- *)
  Lemma check_pair_err t1 t2 e : check_pair sc t1 t2 = Some e -> map_err rho e = e.
  Proof.
    unfold check_pair. destruct (str_eqb _ _); [intros H; inversion H; reflexivity|].
    destruct (least_common_ancestor _ _ _) as [l|]; [|intros H; inversion H; reflexivity].
    destruct (kind_of sc l) as [[]|]; try (intros H; inversion H; reflexivity).
    destruct (_ && _); intros H; inversion H; reflexivity.
  Qed.

  Lemma check_against_err t1 rest e : check_against sc t1 rest = Some e -> map_err rho e = e.
  Proof.
    induction rest as [|it rest IH]; cbn [check_against]; [discriminate|].
    destruct (check_pair sc t1 (snd it)) as [e'|] eqn:E; [|exact IH].
    intros H; inversion H; subst. eapply check_pair_err; eauto.
  Qed.

  Lemma check_pairs_err ts e : check_pairs sc ts = Some e -> map_err rho e = e.
  Proof.
    induction ts as [|it ts IH]; cbn [check_pairs]; [discriminate|].
    destruct (check_against sc (snd it) ts) as [e'|] eqn:E; [|exact IH].
    intros H; inversion H; subst. eapply check_against_err; eauto.
  Qed.

  Lemma sort_transitions_eqv ts :
    srcsN ts ->
    EQV srcsN mits (sort_transitions ctx X' sc' (mits ts)) (sort_transitions ctx X sc ts).
  Proof.
    intros Hts. unfold sort_transitions.
    destruct ts as [|a [|b ts]]; cbn [map].
    - apply (eqv_ret srcsN mits []). constructor.
    - apply (eqv_ret srcsN mits [a]). exact Hts.
    - change (map_it rho a :: map_it rho b :: mits ts) with (mits (a :: b :: ts)).
      rewrite check_pairs_rho.
      destruct (check_pairs sc (a :: b :: ts)) as [e|] eqn:E.
      + pose proof (eqv_fail srcsN mits e) as Hf. rewrite (check_pairs_err _ _ E) in Hf. exact Hf.
      + rewrite sort_trans_rho by exact Hts.
        apply (eqv_ret srcsN mits (sort (trans_order_leb sc) (a :: b :: ts))).
        apply Forall_sort. exact Hts.
  Qed.

  (* ---- _compute_steps ---- *)
  Notation mmicros := (map (map_micro rho)).

  Lemma compute_steps_eqv :
    EQV TT mmicros (compute_steps ctx X' eval_code' sc') (compute_steps ctx X eval_code sc).
  Proof.
    unfold compute_steps. apply eqv_get_bind. intros i Hi.
    cbn [map_istate i_initialized]. destruct (negb (i_initialized i)).
    - eapply eqv_bind; [apply (eqv_put (set_initialized ctx true i)); exact Hi|]. intros _ _.
      rewrite root_rho. destruct (root sc) as [r|]; cbn [option_map].
      + apply (eqv_ret TT mmicros [mkMicro None None [r] [] []]). exact I.
      + apply (eqv_fail TT mmicros EStatechart).
    - change (select_event (map_istate rho i)) with (select_event i).
      change (i_config (map_istate rho i)) with (map rho (i_config i)).
      eapply eqv_bind; [apply select_transitions_eqv|]. intros ts Hts.
      eapply (eqv_bind TT TT idf).
      + replace (map fst (mits ts)) with (map fst ts)
          by (rewrite map_map; apply map_ext; intros it; reflexivity).
        apply (eqv_observe (ObSelected (map fst ts))).
      + intros _ _. destruct ts as [|t0 ts0]; cbn [map].
        * destruct (select_event i) as [e|].
          -- apply (eqv_ret TT mmicros [mkMicro (Some e) None [] [] []]). exact I.
          -- apply (eqv_ret TT mmicros []). exact I.
        * change (map_it rho t0 :: mits ts0) with (mits (t0 :: ts0)).
          eapply eqv_bind; [apply sort_transitions_eqv; exact Hts|]. intros ts' Hts'.
          apply eqv_get_bind. intros i2 Hi2.
          change (i_config (map_istate rho i2)) with (map rho (i_config i2)).
          rewrite create_steps_rho.
          assert (Eev : match mits ts' with
                        | it :: _ => match t_event (snd it) with None => None | Some _ => select_event i end
                        | [] => select_event i end
                        = match ts' with
                          | it :: _ => match t_event (snd it) with None => None | Some _ => select_event i end
                          | [] => select_event i end).
          { destruct ts' as [|it ts']; reflexivity. }
          rewrite Eev. apply eqv_ret. exact I.
  Qed.

  (* ---- _apply_step ---- *)
  Lemma eqv_iterM_same {A} (f' : A -> MM' unit) f l :
    (forall x, EQV TT idf (f' x) (f x)) -> EQV TT idf (iterM ctx X' f' l) (iterM ctx X f l).
  Proof.
    intros H. induction l as [|x l IH]; cbn [iterM]; [apply eqv_ret_tt|].
    eapply eqv_bind; [apply H|]. intros _ _. exact IH.
  Qed.

  Lemma map_idf {A} (l : list A) : map idf l = l.
  Proof. unfold idf. apply map_id. Qed.

  Lemma memN_dset m k v : memN m -> Forall inN v -> memN (dset k v m).
  Proof.
    intros Hm Hv. induction Hm as [|[k' v'] m Hp Hm IH]; cbn [dset].
    - constructor; [exact Hv|constructor].
    - destruct (str_eqb k k'); constructor; auto.
  Qed.

  Lemma set_memory_dset_rho (i : istate ctx) child v :
    set_memory ctx (dset (rho child) (map rho v) (i_memory (map_istate rho i))) (map_istate rho i)
    = map_istate rho (set_memory ctx (dset child v (i_memory i)) i).
  Proof.
    unfold set_memory, map_istate.
    cbn [i_id i_initialized i_time i_memory i_config i_entry i_idle i_sent i_iq i_eq i_ignore_contract i_ctx i_old].
    rewrite dset_map_kv. reflexivity.
  Qed.

  Lemma modify_memory_eqv child v :
    Forall inN v ->
    EQV TT idf
        (modify ctx X' (fun s => set_memory ctx (dset (rho child) (map rho v) (i_memory s)) s))
        (modify ctx X (fun s => set_memory ctx (dset child v (i_memory s)) s)).
  Proof.
    intros Hv. apply eqv_modify.
    - intros i. apply set_memory_dset_rho.
    - intros i [Hc Hm]. split; [exact Hc|]. cbn [set_memory i_memory]. apply memN_dset; auto.
  Qed.

  Lemma record_history_eqv active st :
    Forall inN active ->
    EQV TT idf (record_history ctx X' sc' (map rho active) (map_state rho st))
               (record_history ctx X sc active st).
  Proof.
    intros Hact. unfold record_history. cbn [map_state s_kind s_name].
    destruct (s_kind st); try apply eqv_ret_tt.
    rewrite !children_for_rho.
    apply (eqv_iterM (fun _ => True) rho); [|apply Forall_forall; auto].
    intros child _. rewrite state_for_rho.
    destruct (state_for sc child) as [cs|]; cbn [option_map]; [|apply (eqv_fail TT idf EStatechart)].
    cbn [map_state s_kind]. destruct (s_kind cs); try apply eqv_ret_tt.
    - rewrite (filter_map_eq rho (fun n => mem n (children_for sc (s_name st))))
        by (intros x _; apply mem_rho).
      destruct (filter (fun n => mem n (children_for sc (s_name st))) active) as [|a [|b l]] eqn:E;
        cbn [map]; try apply (eqv_fail TT idf EAssert).
      apply (modify_memory_eqv child [a]). rewrite <- E. apply Forall_filter. exact Hact.
    - rewrite descendants_for_rho.
      rewrite (filter_map_eq rho (fun n => mem n (descendants_for sc (s_name st))))
        by (intros x _; apply mem_rho).
      pose proof (Forall_filter (fun n => mem n (descendants_for sc (s_name st))) inN _ Hact) as Hf.
      destruct (filter (fun n => mem n (descendants_for sc (s_name st))) active) as [|a l];
        cbn [map]; [apply (eqv_fail TT idf EAssert)|].
      change (rho a :: map rho l) with (map rho (a :: l)).
      rewrite sort_names_rho by exact Hf.
      apply modify_memory_eqv. unfold sort_names. apply Forall_sort. exact Hf.
  Qed.

  Lemma Forall_remove_first (P : name -> Prop) x l : Forall P l -> Forall P (remove_first x l).
  Proof.
    induction 1 as [|y l Hy Hl IH]; cbn [remove_first]; [constructor|].
    destruct (str_eqb x y); auto.
  Qed.

  Lemma set_config_rho (i : istate ctx) l :
    set_config ctx (map rho l) (map_istate rho i) = map_istate rho (set_config ctx l i).
  Proof. reflexivity. Qed.

  Lemma exit_state_eqv active ev st :
    Forall inN active ->
    EQV TT idf (exit_state ctx X' exec_code' eval_code' emit' sc' (map rho active) ev (map_state rho st))
               (exit_state ctx X exec_code eval_code emit sc active ev st).
  Proof.
    intros Hact. unfold exit_state.
    change (s_name (map_state rho st)) with (rho (s_name st)).
    change (s_on_exit (map_state rho st)) with (s_on_exit st).
    eapply eqv_bind; [apply (run_code_eqv CExit (OState (s_name st)))|]. intros sent _.
    eapply eqv_bind; [apply record_history_eqv; exact Hact|]. intros _ _.
    apply eqv_get_bind. intros i Hi.
    change (i_config (map_istate rho i)) with (map rho (i_config i)).
    eapply (eqv_bind TT TT idf).
    { rewrite mem_rho. destruct (mem (s_name st) (i_config i)).
      - rewrite remove_first_rho, set_config_rho. apply eqv_put.
        destruct Hi as [Hc Hm]. split; [|exact Hm]. cbn [set_config i_config].
        apply Forall_remove_first. exact Hc.
      - apply (eqv_fail TT idf EKey). }
    intros _ _. eapply eqv_bind; [apply state_contract_eqv|]. intros _ _.
    eapply eqv_bind; [apply (raise_meta_eqv (MExited (s_name st)))|]. intros _ _.
    apply (eqv_ret TT idf sent). exact I.
  Qed.

  Lemma dset_id k (v : Z) d :
    dset (rho k) v (map_kv rho (fun z : Z => z) d) = map_kv rho (fun z : Z => z) (dset k v d).
  Proof. exact (dset_map_kv (fun z : Z => z) k v d). Qed.

  Lemma Forall_set_add (P : name -> Prop) x l : P x -> Forall P l -> Forall P (set_add x l).
  Proof.
    intros Hx Hl. unfold set_add. destruct (mem x l); auto. apply Forall_app. split; auto.
  Qed.

  Lemma enter_state_eqv ev st :
    inN (s_name st) ->
    EQV TT idf (enter_state ctx X' exec_code' eval_code' emit' sc' ev (map_state rho st))
               (enter_state ctx X exec_code eval_code emit sc ev st).
  Proof.
    intros Hn. unfold enter_state.
    change (s_name (map_state rho st)) with (rho (s_name st)).
    change (s_on_entry (map_state rho st)) with (s_on_entry st).
    eapply eqv_bind; [apply state_contract_eqv|]. intros _ _.
    eapply eqv_bind; [apply (run_code_eqv CEntry (OState (s_name st)))|]. intros sent _.
    eapply (eqv_bind TT TT idf).
    { apply eqv_modify.
      - intros i. unfold set_idle, set_entry, set_config, map_istate.
        cbn [i_id i_initialized i_time i_memory i_config i_entry i_idle i_sent i_iq i_eq i_ignore_contract i_ctx i_old].
        rewrite set_add_rho, !dset_id. reflexivity.
      - intros i [Hc Hm]. split; [|exact Hm]. cbn [set_idle set_entry set_config i_config].
        apply Forall_set_add; auto. }
    intros _ _. eapply eqv_bind; [apply (raise_meta_eqv (MEntered (s_name st)))|]. intros _ _.
    apply (eqv_ret TT idf sent). exact I.
  Qed.

  Lemma process_transition_eqv ev i :
    EQV TT idf (process_transition ctx X' exec_code' eval_code' emit' sc' ev i)
               (process_transition ctx X exec_code eval_code emit sc ev i).
  Proof.
    unfold process_transition. cbn [map_chart c_transitions]. rewrite nth_error_map.
    destruct (nth_error (c_transitions sc) i) as [t|]; cbn [option_map];
      [|apply (eqv_fail TT idf EStatechart)].
    change (i, map_trans rho t) with (map_it rho (i, t)).
    eapply eqv_bind; [apply trans_contract_eqv|]. intros _ _.
    eapply eqv_bind; [apply trans_contract_eqv|]. intros _ _.
    change (t_action (map_trans rho t)) with (t_action t).
    eapply eqv_bind; [apply (run_code_eqv CAction (OTrans i))|]. intros sent _.
    eapply eqv_bind; [apply trans_contract_eqv|]. intros _ _.
    eapply eqv_bind; [apply trans_contract_eqv|]. intros _ _.
    eapply (eqv_bind TT TT idf).
    { apply eqv_modify.
      - intros j. unfold set_idle, map_istate.
        cbn [i_id i_initialized i_time i_memory i_config i_entry i_idle i_sent i_iq i_eq i_ignore_contract i_ctx i_old].
        change (t_source (map_trans rho t)) with (rho (t_source t)).
        rewrite dset_id. reflexivity.
      - intros j Hj. exact Hj. }
    intros _ _.
    eapply eqv_bind; [apply (raise_meta_eqv (MProcessed (t_source t) (t_target t) ev))|]. intros _ _.
    apply (eqv_ret TT idf sent). exact I.
  Qed.

  Lemma apply_step_eqv step :
    EQV TT (map_micro rho)
        (apply_step ctx X' exec_code' eval_code' emit' sc' (map_micro rho step))
        (apply_step ctx X exec_code eval_code emit sc step).
  Proof.
    unfold apply_step. cbn [map_micro ms_entered ms_exited ms_event ms_trans].
    rewrite !states_for_rho.
    destruct (states_for sc (ms_entered step)) as [entered|] eqn:Een; cbn [option_map];
      [|apply (eqv_fail TT (map_micro rho) EStatechart)].
    destruct (states_for sc (ms_exited step)) as [exited|] eqn:Eex; cbn [option_map];
      [|apply (eqv_fail TT (map_micro rho) EStatechart)].
    apply eqv_get_bind. intros i0 Hi0.
    change (i_config (map_istate rho i0)) with (map rho (i_config i0)).
    eapply eqv_bind.
    { apply (eqv_mapM (fun _ => True) TT (map_state rho) idf).
      - intros st _. apply exit_state_eqv. apply Hi0.
      - apply Forall_forall. auto. }
    intros sent1 _. rewrite map_idf.
    eapply (eqv_bind TT TT idf).
    { destruct (ms_trans step) as [i|]; [apply process_transition_eqv|].
      apply (eqv_ret TT idf []). exact I. }
    intros sent2 _. unfold idf at 1.
    eapply eqv_bind.
    { apply (eqv_mapM (fun st => inN (s_name st)) TT (map_state rho) idf).
      - intros st Hst. apply enter_state_eqv. exact Hst.
      - eapply states_for_inN. exact Een. }
    intros sent3 _. rewrite map_idf.
    eapply eqv_bind.
    { apply eqv_iterM_same. intros e.
      eapply eqv_bind; [apply raise_event_eqv|]. intros _ _.
      apply eqv_modify; [intros j; reflexivity|intros j Hj; exact Hj]. }
    intros _ _.
    apply (eqv_ret TT (map_micro rho)
             (mkMicro (ms_event step) (ms_trans step) (ms_entered step) (ms_exited step)
                      (concat sent1 ++ sent2 ++ concat sent3))).
    exact I.
  Qed.

  (* ---- _stabilize, run ---- *)

  Lemma stabilize_eqv fuel :
    EQV TT mmicros (stabilize ctx X' exec_code' eval_code' emit' sc' fuel)
                   (stabilize ctx X exec_code eval_code emit sc fuel).
  Proof.
    induction fuel as [|f IH]; cbn [stabilize]; [apply (eqv_fail TT mmicros EFuel)|].
    apply eqv_get_bind. intros i Hi. rewrite create_stabilization_step_rho by exact Hi.
    destruct (create_stabilization_step ctx sc i) as [[step|e]|]; cbn [option_map map_res].
    - eapply eqv_bind; [apply apply_step_eqv|]. intros a _.
      eapply eqv_bind; [apply IH|]. intros r _.
      apply (eqv_ret TT mmicros (a :: r)). exact I.
    - apply (eqv_fail TT mmicros e).
    - apply (eqv_ret TT mmicros []). exact I.
  Qed.

  Lemma consume_event_eqv :
    EQV TT idf (consume_event ctx X') (consume_event ctx X).
  Proof.
    unfold consume_event. apply eqv_get_bind. intros i Hi.
    change (i_iq (map_istate rho i)) with (i_iq i).
    change (i_eq (map_istate rho i)) with (i_eq i).
    change (i_time (map_istate rho i)) with (i_time i).
    assert (Hq : forall q, EQV TT idf (put ctx X' (set_iq ctx q (map_istate rho i))) (put ctx X (set_iq ctx q i))).
    { intros q. apply (eqv_put (set_iq ctx q i)). exact Hi. }
    assert (He : forall q, EQV TT idf (put ctx X' (set_eq ctx q (map_istate rho i))) (put ctx X (set_eq ctx q i))).
    { intros q. apply (eqv_put (set_eq ctx q i)). exact Hi. }
    assert (Hr : forall o : option event, EQV TT idf (ret ctx X' o) (ret ctx X o)).
    { intros o. apply (eqv_ret TT idf o). exact I. }
    assert (Hext : EQV TT idf
              match i_eq i with
              | (t2, e2) :: q2 => if (t2 <=? i_time i)%Z
                                  then bind ctx X' (put ctx X' (set_eq ctx q2 (map_istate rho i))) (fun _ => ret ctx X' (Some e2))
                                  else ret ctx X' None
              | [] => ret ctx X' None
              end
              match i_eq i with
              | (t2, e2) :: q2 => if (t2 <=? i_time i)%Z
                                  then bind ctx X (put ctx X (set_eq ctx q2 i)) (fun _ => ret ctx X (Some e2))
                                  else ret ctx X None
              | [] => ret ctx X None
              end).
    { destruct (i_eq i) as [|[t2 e2] q2]; [apply Hr|].
      destruct (t2 <=? i_time i)%Z; [|apply Hr].
      eapply eqv_bind; [apply He|]. intros _ _. apply Hr. }
    destruct (i_iq i) as [|[t e] q']; [exact Hext|].
    destruct (t <=? i_time i)%Z; [|exact Hext].
    eapply eqv_bind; [apply Hq|]. intros _ _. apply Hr.
  Qed.

  Lemma run_steps_eqv fuel steps :
    EQV TT mmicros (run_steps ctx X' exec_code' eval_code' emit' sc' fuel (mmicros steps))
                   (run_steps ctx X exec_code eval_code emit sc fuel steps).
  Proof.
    induction steps as [|st rest IH]; cbn [run_steps map].
    - apply (eqv_ret TT mmicros []). exact I.
    - eapply eqv_bind; [apply apply_step_eqv|]. intros a _.
      eapply eqv_bind; [apply stabilize_eqv|]. intros ss _.
      eapply eqv_bind; [apply IH|]. intros r _.
      change (map_micro rho a :: mmicros ss ++ mmicros r) with (mmicros [a] ++ mmicros ss ++ mmicros r).
      rewrite <- !map_app. apply (eqv_ret TT mmicros ([a] ++ ss ++ r)). exact I.
  Qed.

  Lemma check_invariants_eqv ev :
    EQV TT idf (check_invariants ctx X' eval_code' sc' ev) (check_invariants ctx X eval_code sc ev).
  Proof.
    unfold check_invariants. apply eqv_get_bind. intros i Hi.
    change (i_config (map_istate rho i)) with (map rho (i_config i)).
    rewrite configuration_rho by apply Hi.
    apply (eqv_iterM (fun _ => True) rho); [|apply Forall_forall; auto].
    intros n _. rewrite state_for_rho. destruct (state_for sc n) as [st|]; cbn [option_map].
    - apply state_contract_eqv.
    - apply (eqv_fail TT idf EStatechart).
  Qed.

  Lemma macro_event_rho steps : macro_event (mmicros steps) = macro_event steps.
  Proof.
    induction steps as [|s r IH]; cbn [map macro_event]; auto.
    change (ms_event (map_micro rho s)) with (ms_event s). rewrite IH. reflexivity.
  Qed.

  Notation mmacro := (option_map (map_macro rho)).

  Lemma execute_once_eqv fuel now :
    EQV TT mmacro (execute_once ctx X' exec_code' eval_code' emit' sc' fuel now)
                  (execute_once ctx X exec_code eval_code emit sc fuel now).
  Proof.
    unfold execute_once.
    eapply (eqv_bind TT TT idf).
    { apply eqv_modify; [intros i; reflexivity|intros i Hi; exact Hi]. }
    intros _ _. eapply eqv_bind; [apply (raise_meta_eqv (MStepStarted now))|]. intros _ _.
    eapply eqv_bind; [apply compute_steps_eqv|]. intros steps _.
    eapply (eqv_bind TT TT mmacro).
    { destruct steps as [|first rest]; cbn [map].
      - apply (eqv_ret TT mmacro None). exact I.
      - eapply (eqv_bind TT TT idf).
        { change (ms_event (map_micro rho first)) with (ms_event first).
          destruct (ms_event first) as [e0|]; [|apply eqv_ret_tt].
          eapply eqv_bind; [apply consume_event_eqv|]. intros e _. unfold idf.
          destruct e as [e|]; [apply (raise_meta_eqv (MConsumed e))|apply (eqv_fail TT idf EStatechart)]. }
        intros _ _.
        eapply eqv_bind; [apply (run_steps_eqv fuel (first :: rest))|]. intros executed _.
        apply eqv_get_bind. intros i Hi.
        apply (eqv_ret TT mmacro (Some (i_time i, executed))). exact I. }
    intros macro _.
    eapply (eqv_bind TT TT idf).
    { destruct macro as [[t ex]|]; cbn [option_map map_macro fst snd].
      - rewrite macro_event_rho. apply check_invariants_eqv.
      - apply check_invariants_eqv. }
    intros _ _. eapply eqv_bind; [apply (raise_meta_eqv MStepEnded)|]. intros _ _.
    apply (eqv_ret TT mmacro macro). exact I.
  Qed.

  Lemma queue_eqv e : EQV TT idf (queue ctx X' e) (queue ctx X e).
  Proof.
    unfold queue. apply eqv_modify; [intros i; apply queue_event_rho|intros i; apply queue_event_closed].
  Qed.

  Lemma execute_eqv fuel now :
    EQV TT (map (map_macro rho))
        (execute ctx X' exec_code' eval_code' emit' sc' fuel now)
        (execute ctx X exec_code eval_code emit sc fuel now).
  Proof.
    induction fuel as [|f IH]; cbn [execute]; [apply (eqv_fail TT (map (map_macro rho)) EFuel)|].
    eapply eqv_bind; [apply execute_once_eqv|]. intros m _.
    destruct m as [ms|]; cbn [option_map].
    - eapply eqv_bind; [apply IH|]. intros r _.
      apply (eqv_ret TT (map (map_macro rho)) (ms :: r)). exact I.
    - apply (eqv_ret TT (map (map_macro rho)) []). exact I.
  Qed.

  (* ---------------------------------------------------------------------------------------- *)
  (* 5. Main theorems                                                                          *)
  (* ---------------------------------------------------------------------------------------- *)
  Definition map_outcome (r : option macrostep + err) : option macrostep + err :=
    match r with inl m => inl (mmacro m) | inr e => inr (map_err rho e) end.

  (* one execute_once: outcome, post-state and observation trace are the rho-images; the
     side condition (configuration / history memory inside the chart's names) is preserved *)
  Theorem C17_equivariance fuel now s :
    closed s ->
    execute_once ctx X' exec_code' eval_code' emit' sc' fuel now (map_mstate s)
    = (map_mstate (fst (execute_once ctx X exec_code eval_code emit sc fuel now s)),
       map_outcome (snd (execute_once ctx X exec_code eval_code emit sc fuel now s)))
    /\ closed (fst (execute_once ctx X exec_code eval_code emit sc fuel now s)).
  Proof.
    intros Hc. destruct (execute_once_eqv fuel now s Hc) as [E [Hc' _]]. split; [|exact Hc'].
    rewrite E. reflexivity.
  Qed.

  Theorem C17_equivariance_queue e s :
    closed s ->
    queue ctx X' e (map_mstate s) = (map_mstate (fst (queue ctx X e s)), inl tt)
    /\ closed (fst (queue ctx X e s)).
  Proof.
    intros Hc. destruct (queue_eqv e s Hc) as [E [Hc' _]]. split; [|exact Hc'].
    rewrite E. reflexivity.
  Qed.

  (* execute(): the list of macro steps is the image *)
  Theorem C17_equivariance_execute fuel now s :
    closed s ->
    execute ctx X' exec_code' eval_code' emit' sc' fuel now (map_mstate s)
    = (map_mstate (fst (execute ctx X exec_code eval_code emit sc fuel now s)),
       match snd (execute ctx X exec_code eval_code emit sc fuel now s) with
       | inl ms => inl (map (map_macro rho) ms)
       | inr e => inr (map_err rho e)
       end)
    /\ closed (fst (execute ctx X exec_code eval_code emit sc fuel now s)).
  Proof.
    intros Hc. destruct (execute_eqv fuel now s Hc) as [E [Hc' _]]. split; [|exact Hc'].
    rewrite E. reflexivity.
  Qed.

  (* the freshly constructed interpreter is its own image and satisfies the side condition *)
  Lemma closed_init id now ign c0 x tr : closed (mkM (init_istate id now ign c0) x tr).
  Proof. split; constructor. Qed.

  Lemma map_mstate_init id now ign c0 x :
    map_mstate (mkM (init_istate id now ign c0) x []) = mkM (init_istate id now ign c0) (fx x) [].
  Proof. reflexivity. Qed.

  (* whole histories *)
  Theorem C17_equivariance_run fuel ops : forall s,
    closed s ->
    run_ops ctx X' exec_code' eval_code' emit' sc' fuel ops (map_mstate s)
    = (map_mstate (fst (run_ops ctx X exec_code eval_code emit sc fuel ops s)),
       map map_outcome (snd (run_ops ctx X exec_code eval_code emit sc fuel ops s)))
    /\ closed (fst (run_ops ctx X exec_code eval_code emit sc fuel ops s)).
  Proof.
    induction ops as [|o ops IH]; intros s Hc; cbn [run_ops].
    - split; [reflexivity|exact Hc].
    - destruct o as [e|now].
      + destruct (C17_equivariance_queue e s Hc) as [E Hc']. rewrite E. cbn [fst].
        apply IH. exact Hc'.
      + destruct (C17_equivariance fuel now s Hc) as [E Hc']. rewrite E. cbn [fst snd].
        destruct (IH _ Hc') as [E2 Hc2]. rewrite E2. cbn [fst snd map].
        split; [reflexivity|exact Hc2].
  Qed.
End Equi.

(* ------------------------------------------------------------------------------------------ *)
(* 6. Corollary: one evaluator, one set of listeners                                           *)
(* ------------------------------------------------------------------------------------------ *)
Corollary C17_equivariance_same_evaluator
  (rho : name -> name) (sc : chart) (ctx X : Type)
  (exec_code : call ctx -> ctx -> option (ctx * list event))
  (eval_code : call ctx -> ctx -> option bool)
  (emit : Z -> meta -> X -> X * option err) :
  (forall a b, rho a = rho b -> a = b) ->
  rho "" = "" ->
  (forall a b, inN sc a -> inN sc b -> str_leb (rho a) (rho b) = str_leb a b) ->
  (forall c x, exec_code (map_call rho c) x = exec_code c x) ->
  (forall c x, eval_code (map_call rho c) x = eval_code c x) ->
  (forall t m x, emit t (map_meta rho m) x
                 = (fst (emit t m x), option_map (map_err rho) (snd (emit t m x)))) ->
  forall fuel ops s,
    closed sc ctx X s ->
    run_ops ctx X exec_code eval_code emit (map_chart rho sc) fuel ops (map_mstate rho ctx X X (fun x => x) s)
    = (map_mstate rho ctx X X (fun x => x) (fst (run_ops ctx X exec_code eval_code emit sc fuel ops s)),
       map (map_outcome rho) (snd (run_ops ctx X exec_code eval_code emit sc fuel ops s))).
Proof.
  intros Hinj Hemp Hmono Hexec Heval Hemit fuel ops s Hc.
  apply (C17_equivariance_run rho Hinj Hemp sc Hmono ctx X X exec_code exec_code eval_code eval_code
           emit emit (fun x => x) Hexec Heval Hemit fuel ops s Hc).
Qed.

(* ------------------------------------------------------------------------------------------ *)
(* 7. Renamings with finite support: a transposition is a global injection                     *)
(* ------------------------------------------------------------------------------------------ *)
Definition swap (a a' : name) (x : name) : name :=
  if String.eqb x a then a' else if String.eqb x a' then a else x.

Lemma swap_inj a a' x y : swap a a' x = swap a a' y -> x = y.
Proof.
  unfold swap.
  destruct (String.eqb_spec x a), (String.eqb_spec x a'), (String.eqb_spec y a), (String.eqb_spec y a');
    subst; congruence.
Qed.

Lemma swap_empty a a' : a <> "" -> a' <> "" -> swap a a' "" = "".
Proof.
  intros Ha Ha'. unfold swap.
  destruct (String.eqb_spec "" a); [congruence|]. destruct (String.eqb_spec "" a'); [congruence|].
  reflexivity.
Qed.

(* monotonicity on a finite list can be checked by computation *)
Definition mono_check (rho : name -> name) (l : list name) : bool :=
  forallb (fun a => forallb (fun b => Bool.eqb (str_leb (rho a) (rho b)) (str_leb a b)) l) l.

Lemma mono_check_sound rho sc :
  mono_check rho (chart_names sc) = true ->
  forall a b, inN sc a -> inN sc b -> str_leb (rho a) (rho b) = str_leb a b.
Proof.
  unfold mono_check, inN. intros H a b Ha Hb.
  rewrite forallb_forall in H. specialize (H a Ha). rewrite forallb_forall in H. specialize (H b Hb).
  apply Bool.eqb_prop in H. exact H.
Qed.

(* Every renaming that is injective on a finite list L of names (and maps exactly "" to "")
   coincides on L with a GLOBAL injection fixing "": a product of transpositions. *)
Fixpoint extend (rho0 : name -> name) (L : list name) : name -> name :=
  match L with
  | [] => fun x => x
  | l :: L' => fun x => swap (extend rho0 L' l) (rho0 l) (extend rho0 L' x)
  end.

Lemma extend_inj rho0 L a b : extend rho0 L a = extend rho0 L b -> a = b.
Proof.
  revert a b. induction L as [|l L IH]; intros a b; cbn [extend]; auto.
  intros H. apply swap_inj in H. apply IH. exact H.
Qed.

Lemma swap_l a a' : swap a a' a = a'.
Proof. unfold swap. rewrite String.eqb_refl. reflexivity. Qed.

Lemma swap_other a a' x : x <> a -> x <> a' -> swap a a' x = x.
Proof.
  intros H1 H2. unfold swap.
  destruct (String.eqb_spec x a); [congruence|]. destruct (String.eqb_spec x a'); [congruence|].
  reflexivity.
Qed.

Lemma extend_agree rho0 L :
  NoDup L -> (forall a b, In a L -> In b L -> rho0 a = rho0 b -> a = b) ->
  forall a, In a L -> extend rho0 L a = rho0 a.
Proof.
  induction 1 as [|l L Hl Hnd IH]; intros Hinj a Ha; [destruct Ha|].
  cbn [extend]. destruct Ha as [<-|Ha]; [apply swap_l|].
  assert (IH' : forall x, In x L -> extend rho0 L x = rho0 x).
  { apply IH. intros x y Hx Hy. apply Hinj; right; assumption. }
  rewrite (IH' a Ha). apply swap_other.
  - rewrite <- (IH' a Ha). intros E. apply extend_inj in E. subst. contradiction.
  - intros E. apply Hinj in E; [subst; contradiction|right; exact Ha|left; reflexivity].
Qed.

Theorem injection_extends (rho0 : name -> name) (L : list name) :
  (forall a b, In a L -> In b L -> rho0 a = rho0 b -> a = b) ->
  (forall a, In a L -> (rho0 a = "" <-> a = "")) ->
  exists rho, (forall a b, rho a = rho b -> a = b) /\ rho "" = ""
              /\ (forall a, In a L -> rho a = rho0 a).
Proof.
  intros Hinj Hemp.
  set (r0 := fun x => if String.eqb x "" then "" else rho0 x).
  set (L' := nodup string_dec ("" :: L)).
  assert (Hr0 : forall a, In a L -> r0 a = rho0 a).
  { intros a Ha. unfold r0. destruct (String.eqb_spec a ""); [|reflexivity].
    subst. symmetry. apply Hemp; auto. }
  assert (Hinj' : forall a b, In a L' -> In b L' -> r0 a = r0 b -> a = b).
  { intros a b Ha Hb. unfold L' in Ha, Hb. apply nodup_In in Ha. apply nodup_In in Hb.
    unfold r0. destruct (String.eqb_spec a ""), (String.eqb_spec b ""); subst; auto.
    - destruct Hb as [Hb|Hb]; [congruence|]. intros E. symmetry in E.
      apply (proj1 (Hemp b Hb)) in E. congruence.
    - destruct Ha as [Ha|Ha]; [congruence|]. intros E.
      apply (proj1 (Hemp a Ha)) in E. congruence.
    - destruct Ha as [Ha|Ha]; [congruence|]. destruct Hb as [Hb|Hb]; [congruence|]. apply Hinj; auto. }
  exists (extend r0 L').
  split; [intros a b; apply extend_inj|].
  assert (Hag : forall a, In a L' -> extend r0 L' a = r0 a).
  { apply extend_agree; [apply NoDup_nodup|exact Hinj']. }
  split.
  - rewrite Hag; [reflexivity|]. unfold L'. apply nodup_In. left. reflexivity.
  - intros a Ha. rewrite Hag; [apply Hr0; exact Ha|]. unfold L'. apply nodup_In. right. exact Ha.
Qed.

(* map_chart only looks at the names that occur in the chart *)
Definition olist (o : option name) : list name := match o with Some x => [x] | None => [] end.

Definition all_occ (c : chart) : list name :=
  concat (map (fun kv : name * state =>
                 fst kv :: s_name (snd kv) :: olist (s_initial (snd kv)) ++ olist (s_memory (snd kv)))
              (c_states c))
  ++ concat (map (fun kv : name * option name => fst kv :: olist (snd kv)) (c_parent c))
  ++ concat (map (fun kv : option name * list name => olist (fst kv) ++ snd kv) (c_children c))
  ++ concat (map (fun t => t_source t :: olist (t_target t)) (c_transitions c)).

Lemma option_map_ext_occ (r1 r2 : name -> name) o :
  (forall n, In n (olist o) -> r1 n = r2 n) -> option_map r1 o = option_map r2 o.
Proof. destruct o; cbn; intros H; [rewrite H; auto|reflexivity]. Qed.

Lemma in_concat_map {A} (f : A -> list name) l x n : In x l -> In n (f x) -> In n (concat (map f l)).
Proof. intros Hx Hn. apply in_concat. exists (f x). split; [apply in_map; exact Hx|exact Hn]. Qed.

Lemma map_chart_ext r1 r2 sc :
  (forall n, In n (all_occ sc) -> r1 n = r2 n) -> map_chart r1 sc = map_chart r2 sc.
Proof.
  intros H. unfold all_occ in H. unfold map_chart, map_kv. f_equal.
  - apply map_ext_in. intros [k st] Hkv. cbn [fst snd].
    assert (Hs : forall n, In n (k :: s_name st :: olist (s_initial st) ++ olist (s_memory st)) -> r1 n = r2 n).
    { intros n Hn. apply H. apply in_or_app. left.
      apply (in_concat_map _ _ _ _ Hkv). exact Hn. }
    f_equal; [apply Hs; left; reflexivity|].
    unfold map_state. f_equal.
    + apply Hs. right. left. reflexivity.
    + apply option_map_ext_occ. intros n Hn. apply Hs. right. right. apply in_or_app. left. exact Hn.
    + apply option_map_ext_occ. intros n Hn. apply Hs. right. right. apply in_or_app. right. exact Hn.
  - apply map_ext_in. intros [k v] Hkv. cbn [fst snd].
    assert (Hs : forall n, In n (k :: olist v) -> r1 n = r2 n).
    { intros n Hn. apply H. apply in_or_app. right. apply in_or_app. left.
      apply (in_concat_map _ _ _ _ Hkv). exact Hn. }
    f_equal; [apply Hs; left; reflexivity|].
    apply option_map_ext_occ. intros n Hn. apply Hs. right. exact Hn.
  - apply map_ext_in. intros [k v] Hkv. cbn [fst snd].
    assert (Hs : forall n, In n (olist k ++ v) -> r1 n = r2 n).
    { intros n Hn. apply H. apply in_or_app. right. apply in_or_app. right. apply in_or_app. left.
      apply (in_concat_map _ _ _ _ Hkv). exact Hn. }
    f_equal.
    + apply option_map_ext_occ. intros n Hn. apply Hs. apply in_or_app. left. exact Hn.
    + apply map_ext_in. intros n Hn. apply Hs. apply in_or_app. right. exact Hn.
  - apply map_ext_in. intros t Ht.
    assert (Hs : forall n, In n (t_source t :: olist (t_target t)) -> r1 n = r2 n).
    { intros n Hn. apply H. apply in_or_app. right. apply in_or_app. right. apply in_or_app. right.
      apply (in_concat_map _ _ _ _ Ht). exact Hn. }
    unfold map_trans. f_equal.
    + apply Hs. left. reflexivity.
    + apply option_map_ext_occ. intros n Hn. apply Hs. right. exact Hn.
Qed.

Lemma chart_names_occ sc n : In n (chart_names sc) -> In n (all_occ sc).
Proof.
  unfold chart_names, all_occ. intros H. apply in_app_or in H. destruct H as [H|H].
  - apply in_map_iff in H. destruct H as [kv [<- Hkv]]. apply in_or_app. left.
    apply (in_concat_map _ _ _ _ Hkv). right. left. reflexivity.
  - apply in_app_or in H. destruct H as [H|H].
    + apply in_concat in H. destruct H as [l [Hl Hn]]. apply in_map_iff in Hl.
      destruct Hl as [kv [<- Hkv]].
      apply in_or_app. right. apply in_or_app. right. apply in_or_app. left.
      apply (in_concat_map _ _ _ _ Hkv). apply in_or_app. right. exact Hn.
    + apply in_map_iff in H. destruct H as [t [<- Ht]].
      apply in_or_app. right. apply in_or_app. right. apply in_or_app. right.
      apply (in_concat_map _ _ _ _ Ht). left. reflexivity.
Qed.

(* The statement with the hypotheses restricted to a finite set L of names (at least the names that
   occur in the chart): rho0 only has to be injective and order preserving THERE.  The run of the
   rho0-renamed chart is the image of the original run under a global injection that extends
   rho0|L.  The evaluator and the listeners ignore state names altogether. *)
Theorem C17_equivariance_local
  (rho0 : name -> name) (L : list name) (sc : chart) (ctx X : Type)
  (exec_code : call ctx -> ctx -> option (ctx * list event))
  (eval_code : call ctx -> ctx -> option bool)
  (emit : Z -> meta -> X -> X * option err) :
  incl (all_occ sc) L ->
  (forall a b, In a L -> In b L -> rho0 a = rho0 b -> a = b) ->
  (forall a, In a L -> (rho0 a = "" <-> a = "")) ->
  (forall a b, inN sc a -> inN sc b -> str_leb (rho0 a) (rho0 b) = str_leb a b) ->
  (forall r c x, exec_code (map_call r c) x = exec_code c x) ->
  (forall r c x, eval_code (map_call r c) x = eval_code c x) ->
  (forall r t m x, emit t (map_meta r m) x
                   = (fst (emit t m x), option_map (map_err r) (snd (emit t m x)))) ->
  exists rho,
    (forall a, In a L -> rho a = rho0 a)
    /\ (forall a b, rho a = rho b -> a = b)
    /\ forall fuel ops s,
         closed sc ctx X s ->
         run_ops ctx X exec_code eval_code emit (map_chart rho0 sc) fuel ops
                 (map_mstate rho ctx X X (fun x => x) s)
         = (map_mstate rho ctx X X (fun x => x) (fst (run_ops ctx X exec_code eval_code emit sc fuel ops s)),
            map (map_outcome rho) (snd (run_ops ctx X exec_code eval_code emit sc fuel ops s))).
Proof.
  intros Hocc Hinj Hemp Hmono Hexec Heval Hemit.
  destruct (injection_extends rho0 L Hinj Hemp) as [rho [Hi [He Hag]]].
  exists rho. split; [exact Hag|]. split; [exact Hi|].
  intros fuel ops s Hc.
  assert (Hch : map_chart rho0 sc = map_chart rho sc).
  { apply map_chart_ext. intros n Hn. symmetry. apply Hag, Hocc, Hn. }
  rewrite Hch.
  apply (C17_equivariance_same_evaluator rho sc ctx X exec_code eval_code emit Hi He); auto.
  intros a b Ha Hb. rewrite !Hag by (apply Hocc, chart_names_occ; assumption). apply Hmono; assumption.
Qed.

(* ------------------------------------------------------------------------------------------ *)
(* 8. Non-vacuity: an orthogonal state with a history state, renamed "a" -> "a2", "b" -> "b7"  *)
(* ------------------------------------------------------------------------------------------ *)
Module Example.
  Definition st n k i m := mkState n k i m None (Some "x") [] [] ["inv"].
  Definition tr s t e := mkTrans s (Some t) (Some e) (Some "g") (Some "act") 0%Z [] [] [].

  (*  r (compound, initial o)
        o (orthogonal; children listed as b, a)
          a (compound, initial a5): a5, a6, ah (shallow history, default a5)
          b (compound, initial b8): b8, b9
        z
      a5 -e-> a6, b8 -e-> b9, o -out-> z, z -back-> ah *)
  Definition ex_chart : chart :=
    mkChart "ex" None None
      [("r", st "r" KCompound (Some "o") None); ("o", st "o" KOrthogonal None None);
       ("b", st "b" KCompound (Some "b8") None); ("a", st "a" KCompound (Some "a5") None);
       ("a5", st "a5" KBasic None None); ("a6", st "a6" KBasic None None);
       ("ah", st "ah" KShallow None (Some "a5"));
       ("b8", st "b8" KBasic None None); ("b9", st "b9" KBasic None None);
       ("z", st "z" KBasic None None)]
      [("r", None); ("o", Some "r"); ("b", Some "o"); ("a", Some "o"); ("a5", Some "a");
       ("a6", Some "a"); ("ah", Some "a"); ("b8", Some "b"); ("b9", Some "b"); ("z", Some "r")]
      [(None, ["r"]); (Some "r", ["o"; "z"]); (Some "o", ["b"; "a"]);
       (Some "a", ["a5"; "a6"; "ah"]); (Some "b", ["b8"; "b9"]); (Some "a5", []); (Some "a6", []);
       (Some "ah", []); (Some "b8", []); (Some "b9", []); (Some "z", [])]
      [tr "a5" "a6" "e"; tr "b8" "b9" "e"; tr "o" "z" "out"; tr "z" "ah" "back"].

  (* order preserving on the chart's names: a < a5 < a6 < ah < b < b8 < b9 < o < r < z *)
  Definition rho_ex (x : name) : name := swap "a" "a2" (swap "b" "b7" x).
  (* NOT order preserving: a < b but c > b *)
  Definition rho_bad (x : name) : name := swap "a" "c" x.

  (* an evaluator that counts the executed fragments, looks at the code, the kind of call and the
     index of the owner transition, but not at state names *)
  Definition exec0 (c : call nat) (x : nat) : option (nat * list event) :=
    Some (S x, match cl_kind c with CAction => [mkEvent Internal "done" []] | _ => [] end).
  Definition eval0 (c : call nat) (x : nat) : option bool :=
    Some (match cl_code c with Some "g" | Some "inv" => true | _ => false end).
  Definition emit0 (t : Z) (m : meta) (x : nat) : nat * option err := (S x, None).

  Definition ev n := mkEvent External n [].
  Definition ops_ex :=
    [OpStep 0; OpQueue (ev "e"); OpStep 1; OpStep 1; OpQueue (ev "out"); OpStep 2; OpStep 2;
     OpQueue (ev "back"); OpStep 3; OpStep 4; OpStep 4].
  Definition s0 : mstate nat nat := mkM (init_istate 0 0 false 0) 0 [].
  Definition run (c : chart) := run_ops nat nat exec0 eval0 emit0 c 20 ops_ex s0.
  Definition image (rho : name -> name) (r : mstate nat nat * list (option macrostep + err)) :=
    (map_mstate rho nat nat nat (fun x => x) (fst r), map (map_outcome rho) (snd r)).

  (* entered / exited lists of the macro steps of a run *)
  Definition shape (r : list (option macrostep + err)) : list (list (list name * list name)) :=
    map (fun o => match o with
                  | inl (Some m) => map (fun s => (ms_entered s, ms_exited s)) (snd m)
                  | _ => []
                  end) r.

  Lemma rho_ex_inj a b : rho_ex a = rho_ex b -> a = b.
  Proof. unfold rho_ex. intros H. apply swap_inj in H. apply swap_inj in H. exact H. Qed.
  Lemma rho_ex_empty : rho_ex "" = "".
  Proof. reflexivity. Qed.
  Lemma rho_ex_mono a b : inN ex_chart a -> inN ex_chart b -> str_leb (rho_ex a) (rho_ex b) = str_leb a b.
  Proof. apply mono_check_sound. vm_compute. reflexivity. Qed.

  (* the hypotheses of C17_equivariance are satisfiable by a non-trivial instance *)
  Example C17_hypotheses_satisfiable :
    (forall a b, rho_ex a = rho_ex b -> a = b)
    /\ rho_ex "" = ""
    /\ (forall a b, inN ex_chart a -> inN ex_chart b -> str_leb (rho_ex a) (rho_ex b) = str_leb a b)
    /\ (forall c x, exec0 (map_call rho_ex c) x = exec0 c x)
    /\ (forall c x, eval0 (map_call rho_ex c) x = eval0 c x)
    /\ (forall t m x, emit0 t (map_meta rho_ex m) x
                      = (fst (emit0 t m x), option_map (map_err rho_ex) (snd (emit0 t m x))))
    /\ closed ex_chart nat nat s0
    /\ rho_ex "a" = "a2" /\ rho_ex "b" = "b7" /\ rho_ex "o" = "o".
  Proof.
    split; [exact rho_ex_inj|]. split; [exact rho_ex_empty|]. split; [exact rho_ex_mono|].
    split; [reflexivity|]. split; [reflexivity|]. split; [reflexivity|].
    split; [apply closed_init|]. repeat split.
  Qed.

  (* the theorem applied to the instance *)
  Example C17_example_by_theorem : run (map_chart rho_ex ex_chart) = image rho_ex (run ex_chart).
  Proof.
    unfold run, image.
    exact (C17_equivariance_same_evaluator rho_ex ex_chart nat nat exec0 eval0 emit0
             rho_ex_inj rho_ex_empty rho_ex_mono (fun c x => eq_refl) (fun c x => eq_refl)
             (fun t m x => eq_refl) 20 ops_ex s0 (closed_init ex_chart nat nat 0 0%Z false 0 0 [])).
  Qed.

  (* ... and the same equation checked by evaluating both runs (independent of the theorem) *)
  Example C17_example_by_computation : run (map_chart rho_ex ex_chart) = image rho_ex (run ex_chart).
  Proof. vm_compute. reflexivity. Qed.

  (* the run is not trivial: initial stabilisation of the orthogonal state, two transitions fired by
     one event (each sends an internal event "done", consumed by the next two macro steps), an
     exit of the whole orthogonal state (siblings in name order), re-entry through the history
     state and completion of the orthogonal state; no error; 134 observations in the trace *)
  Example C17_example_shape :
    shape (snd (run ex_chart))
    = [ [(["r"], []); (["o"], []); (["a"; "b"], []); (["a5"], []); (["b8"], [])];
        [(["a6"], ["a5"]); (["b9"], ["b8"])];
        [([], [])];
        [([], [])];
        [(["z"], ["a6"; "b9"; "a"; "b"; "o"])];
        [([], [])];
        [(["o"; "a"; "ah"], ["z"]); (["a6"], ["ah"]); (["b"], []); (["b8"], [])];
        [([], [])] ]
    /\ shape (snd (run (map_chart rho_ex ex_chart)))
    = [ [(["r"], []); (["o"], []); (["a2"; "b7"], []); (["a5"], []); (["b8"], [])];
        [(["a6"], ["a5"]); (["b9"], ["b8"])];
        [([], [])];
        [([], [])];
        [(["z"], ["a6"; "b9"; "a2"; "b7"; "o"])];
        [([], [])];
        [(["o"; "a2"; "ah"], ["z"]); (["a6"], ["ah"]); (["b7"], []); (["b8"], [])];
        [([], [])] ].
  Proof. split; vm_compute; reflexivity. Qed.

  (* the local statement: rename exactly two states, every other name is kept -- this rho0 is NOT
     a global injection ("a" and "a2" both go to "a2") but it is injective on the chart's names *)
  Definition rho0_ex (x : name) : name :=
    if String.eqb x "a" then "a2" else if String.eqb x "b" then "b7" else x.

  Example C17_local_hypotheses_satisfiable :
    incl (all_occ ex_chart) (all_occ ex_chart)
    /\ (forall a b, In a (all_occ ex_chart) -> In b (all_occ ex_chart) -> rho0_ex a = rho0_ex b -> a = b)
    /\ (forall a, In a (all_occ ex_chart) -> (rho0_ex a = "" <-> a = ""))
    /\ (forall a b, inN ex_chart a -> inN ex_chart b -> str_leb (rho0_ex a) (rho0_ex b) = str_leb a b)
    /\ rho0_ex "a" = rho0_ex "a2".
  Proof.
    split; [apply incl_refl|]. split; [|split; [|split; [|reflexivity]]].
    - assert (H : forallb (fun a => forallb (fun b => implb (String.eqb (rho0_ex a) (rho0_ex b)) (String.eqb a b))
                                            (all_occ ex_chart)) (all_occ ex_chart) = true)
        by (vm_compute; reflexivity).
      intros a b Ha Hb E. rewrite forallb_forall in H. specialize (H a Ha).
      rewrite forallb_forall in H. specialize (H b Hb).
      rewrite E, String.eqb_refl in H. cbn [implb] in H. apply String.eqb_eq. exact H.
    - assert (H : forallb (fun a => Bool.eqb (String.eqb (rho0_ex a) "") (String.eqb a ""))
                          (all_occ ex_chart) = true)
        by (vm_compute; reflexivity).
      intros a Ha. rewrite forallb_forall in H. specialize (H a Ha). apply Bool.eqb_prop in H.
      rewrite <- !String.eqb_eq. rewrite H. tauto.
    - apply mono_check_sound. vm_compute. reflexivity.
  Qed.

  Example C17_local_example_by_computation :
    map_chart rho0_ex ex_chart = map_chart rho_ex ex_chart
    /\ run (map_chart rho0_ex ex_chart) = image rho_ex (run ex_chart).
  Proof. split; vm_compute; reflexivity. Qed.

  (* Monotonicity is needed: rho_bad is a global injection fixing "", the evaluator and the
     listeners are the same, yet the renamed chart does NOT produce the image of the run: the
     orthogonal siblings are entered and exited in the order of their NEW names. *)
  Lemma rho_bad_inj a b : rho_bad a = rho_bad b -> a = b.
  Proof. apply swap_inj. Qed.

  Example C17_monotonicity_needed_shape :
    nth 4 (shape (snd (run (map_chart rho_bad ex_chart)))) [] = [(["z"], ["a6"; "b9"; "b"; "c"; "o"])]
    /\ nth 4 (shape (snd (image rho_bad (run ex_chart)))) [] = [(["z"], ["a6"; "b9"; "c"; "b"; "o"])].
  Proof. split; vm_compute; reflexivity. Qed.
End Example.

Theorem C17_monotonicity_needed :
  exists (rho : name -> name) (sc : chart),
    (forall a b, rho a = rho b -> a = b) /\ rho "" = ""
    /\ (forall c x, Example.exec0 (map_call rho c) x = Example.exec0 c x)
    /\ (forall c x, Example.eval0 (map_call rho c) x = Example.eval0 c x)
    /\ closed sc nat nat Example.s0
    /\ Example.run (map_chart rho sc) <> Example.image rho (Example.run sc).
Proof.
  exists Example.rho_bad, Example.ex_chart.
  split; [exact Example.rho_bad_inj|]. split; [reflexivity|]. split; [reflexivity|].
  split; [reflexivity|]. split; [apply closed_init|].
  intros H.
  apply (f_equal (fun r => nth 4 (Example.shape (snd r)) [])) in H.
  vm_compute in H. discriminate H.
Qed.

Print Assumptions C17_equivariance.
Print Assumptions C17_equivariance_queue.
Print Assumptions C17_equivariance_execute.
Print Assumptions C17_equivariance_run.
Print Assumptions C17_equivariance_same_evaluator.
Print Assumptions injection_extends.
Print Assumptions C17_equivariance_local.
Print Assumptions Example.C17_hypotheses_satisfiable.
Print Assumptions Example.C17_example_by_theorem.
Print Assumptions Example.C17_local_hypotheses_satisfiable.
Print Assumptions C17_monotonicity_needed.
