(* C17Proofs.v -- C17 (behavioural half): renaming the states of a statechart by an order-preserving
   renaming commutes with every function of the interpreter model.

   (header completed at the end of the file's development -- see the summary below)
*)
From Coq Require Import String Ascii List Bool ZArith Lia Permutation.
From Sismic Require Import Base Chart Interp.
From SismicProofs Require Import SortLib.
Import ListNotations.
Open Scope string_scope.
Open Scope list_scope.

(* ------------------------------------------------------------------------------------------ *)
(* 1. The renaming of every syntactic category                                                 *)
(* ------------------------------------------------------------------------------------------ *)
Section Maps.
  Variable rho : name -> name.

  Definition map_kv {V W} (f : V -> W) (d : list (name * V)) : list (name * W) :=
    map (fun kv => (rho (fst kv), f (snd kv))) d.

  Definition map_state (s : state) : state :=
    mkState (rho (s_name s)) (s_kind s) (option_map rho (s_initial s)) (option_map rho (s_memory s))
            (s_on_entry s) (s_on_exit s) (s_pre s) (s_post s) (s_inv s).

  Definition map_trans (t : transition) : transition :=
    mkTrans (rho (t_source t)) (option_map rho (t_target t)) (t_event t) (t_guard t) (t_action t)
            (t_priority t) (t_pre t) (t_post t) (t_inv t).

  Definition map_it (it : itrans) : itrans := (fst it, map_trans (snd it)).

  Definition map_chart (c : chart) : chart :=
    mkChart (c_name c) (c_description c) (c_preamble c)
            (map_kv map_state (c_states c))
            (map_kv (option_map rho) (c_parent c))
            (map (fun kv => (option_map rho (fst kv), map rho (snd kv))) (c_children c))
            (map map_trans (c_transitions c)).

  Definition map_owner (o : owner) : owner :=
    match o with OState n => OState (rho n) | OTrans i => OTrans i end.

  Definition map_istate {ctx} (s : istate ctx) : istate ctx :=
    mkIState (i_id s) (i_initialized s) (i_time s)
             (map_kv (map rho) (i_memory s)) (map rho (i_config s))
             (map_kv (fun z : Z => z) (i_entry s)) (map_kv (fun z : Z => z) (i_idle s))
             (i_sent s) (i_iq s) (i_eq s) (i_ignore_contract s) (i_ctx s)
             (map (fun oc => (map_owner (fst oc), snd oc)) (i_old s)).

  Definition map_micro (m : microstep) : microstep :=
    mkMicro (ms_event m) (ms_trans m) (map rho (ms_entered m)) (map rho (ms_exited m)) (ms_sent m).

  Definition map_macro (m : macrostep) : macrostep := (fst m, map map_micro (snd m)).

  Definition map_call {ctx} (c : call ctx) : call ctx :=
    mkCall (cl_interp c) (cl_kind c) (map_owner (cl_owner c)) (cl_idx c) (cl_code c) (cl_event c)
           (cl_time c) (map rho (cl_config c)) (cl_entry c) (cl_idle c) (cl_sent c) (cl_old c).

  Definition map_meta (m : meta) : meta :=
    match m with
    | MExited s => MExited (rho s)
    | MEntered s => MEntered (rho s)
    | MProcessed s t e => MProcessed (rho s) (option_map rho t) e
    | _ => m
    end.

  Definition map_err (e : err) : err :=
    match e with
    | EContract k o i => EContract k (map_owner o) i
    | ECode k o i => ECode k (map_owner o) i
    | _ => e
    end.

  Definition map_obs {ctx} (o : obs ctx) : obs ctx :=
    match o with
    | ObExec c s => ObExec (map_call c) s
    | ObEval c r => ObEval (map_call c) r
    | ObMeta m => ObMeta (map_meta m)
    | ObSelected ts => ObSelected ts
    end.
End Maps.

(* every state name on which the interpreter ever compares names with <= :
   names of the state objects, children lists, transition sources *)
Definition chart_names (c : chart) : list name :=
  map (fun kv => s_name (snd kv)) (c_states c)
  ++ concat (map snd (c_children c))
  ++ map t_source (c_transitions c).

(* ------------------------------------------------------------------------------------------ *)
(* 2. Generic list lemmas                                                                      *)
(* ------------------------------------------------------------------------------------------ *)
Lemma filter_map_eq {A B} (f : A -> B) (p : A -> bool) (p' : B -> bool) (l : list A) :
  (forall x, In x l -> p' (f x) = p x) -> filter p' (map f l) = map f (filter p l).
Proof.
  induction l as [|x l IH]; intros H; cbn [map filter]; auto.
  rewrite (H x (or_introl eq_refl)).
  rewrite IH by (intros y Hy; apply H; right; exact Hy).
  destruct (p x); reflexivity.
Qed.

Lemma existsb_map_eq {A B} (f : A -> B) (p : A -> bool) (p' : B -> bool) (l : list A) :
  (forall x, p' (f x) = p x) -> existsb p' (map f l) = existsb p l.
Proof. intros H. induction l as [|x l IH]; cbn [map existsb]; auto. rewrite H, IH. reflexivity. Qed.

Lemma find_map_eq {A B} (f : A -> B) (p : A -> bool) (p' : B -> bool) (l : list A) :
  (forall x, p' (f x) = p x) -> find p' (map f l) = option_map f (find p l).
Proof.
  intros H. induction l as [|x l IH]; cbn [map find]; auto. rewrite H.
  destruct (p x); auto.
Qed.

Lemma Forall_insert {A} (leb : A -> A -> bool) (P : A -> Prop) x l :
  P x -> Forall P l -> Forall P (insert leb x l).
Proof.
  intros Hx Hl. apply Forall_forall. intros y Hy.
  apply (Permutation_in _ (insert_perm leb x l)) in Hy.
  destruct Hy as [<-|Hy]; auto. rewrite Forall_forall in Hl. auto.
Qed.

Lemma Forall_sort {A} (leb : A -> A -> bool) (P : A -> Prop) l :
  Forall P l -> Forall P (sort leb l).
Proof.
  intros Hl. apply Forall_forall. intros y Hy. apply sort_In in Hy.
  rewrite Forall_forall in Hl. auto.
Qed.

Lemma Forall_filter {A} (p : A -> bool) (P : A -> Prop) l : Forall P l -> Forall P (filter p l).
Proof.
  intros Hl. apply Forall_forall. intros y Hy. apply filter_In in Hy.
  rewrite Forall_forall in Hl. apply Hl. tauto.
Qed.

(* sorting commutes with a map that preserves the comparison on the elements at hand *)
Section SortMap.
  Context {A B : Type} (P : A -> Prop) (f : A -> B) (leb : A -> A -> bool) (leb' : B -> B -> bool).
  Hypothesis leb_f : forall a b, P a -> P b -> leb' (f a) (f b) = leb a b.

  Lemma insert_map_cond x l :
    P x -> Forall P l -> insert leb' (f x) (map f l) = map f (insert leb x l).
  Proof.
    intros Hx Hl. induction Hl as [|y l Hy Hl IH]; cbn [map insert]; auto.
    rewrite leb_f by assumption. destruct (leb x y); cbn [map]; auto. rewrite IH. reflexivity.
  Qed.

  Lemma sort_map_cond l : Forall P l -> sort leb' (map f l) = map f (sort leb l).
  Proof.
    induction 1 as [|x l Hx Hl IH]; cbn [map sort]; auto.
    rewrite IH. apply insert_map_cond; auto. apply Forall_sort; auto.
  Qed.
End SortMap.

(* sorted_groupby commutes with a map on the elements (f) and on the labels (g) *)
Section GroupMap.
  Context {A B K K' : Type} (f : A -> B) (g : K -> K').
  Context (key : A -> K) (key' : B -> K').
  Context (keqb : K -> K -> bool) (keqb' : K' -> K' -> bool).
  Context (kleb : K -> K -> bool) (kleb' : K' -> K' -> bool).
  Context (PK : K -> Prop).
  Hypothesis key_f : forall x, key' (f x) = g (key x).
  Hypothesis keqb_g : forall a b, keqb' (g a) (g b) = keqb a b.
  Hypothesis kleb_g : forall a b, PK a -> PK b -> kleb' (g a) (g b) = kleb a b.

  Definition map_group (p : K * list A) : K' * list B := (g (fst p), map f (snd p)).

  Lemma group_add_map k v gr :
    group_add keqb' (g k) (f v) (map map_group gr) = map map_group (group_add keqb k v gr).
  Proof.
    induction gr as [|[k' vs] gr IH]; cbn [map group_add map_group fst snd]; auto.
    rewrite keqb_g. destruct (keqb k k'); cbn [map map_group fst snd].
    - unfold map_group at 2. cbn [fst snd]. rewrite map_app. reflexivity.
    - rewrite IH. reflexivity.
  Qed.

  Lemma fold_group_add_map l acc :
    fold_left (fun gr v => group_add keqb' (key' v) v gr) (map f l) (map map_group acc)
    = map map_group (fold_left (fun gr v => group_add keqb (key v) v gr) l acc).
  Proof.
    revert acc. induction l as [|x l IH]; intros acc; cbn [map fold_left]; auto.
    rewrite key_f, group_add_map. apply IH.
  Qed.

  Lemma groups_of_map l :
    groups_of key' keqb' (map f l) = map map_group (groups_of key keqb l).
  Proof. unfold groups_of. apply (fold_group_add_map l []). Qed.

  Lemma group_add_PK k (v : A) gr :
    PK k -> Forall (fun p => PK (fst p)) gr -> Forall (fun p => PK (fst p)) (group_add keqb k v gr).
  Proof.
    intros Hk Hg. induction Hg as [|[k' vs] gr Hp Hg IH]; cbn [group_add].
    - constructor; auto.
    - destruct (keqb k k'); constructor; auto.
  Qed.

  Lemma groups_of_PK l :
    Forall (fun x => PK (key x)) l -> Forall (fun p => PK (fst p)) (groups_of key keqb l).
  Proof.
    unfold groups_of. intros Hl.
    assert (G : forall acc, Forall (fun p => PK (fst p)) acc ->
                Forall (fun p => PK (fst p)) (fold_left (fun gr v => group_add keqb (key v) v gr) l acc)).
    { induction Hl as [|x l Hx Hl IH]; intros acc Hacc; cbn [fold_left]; auto.
      apply IH. apply group_add_PK; auto. }
    apply G. constructor.
  Qed.

  Lemma sorted_groupby_map rev l :
    Forall (fun x => PK (key x)) l ->
    sorted_groupby key' keqb' kleb' rev (map f l)
    = map map_group (sorted_groupby key keqb kleb rev l).
  Proof.
    intros Hl. unfold sorted_groupby. rewrite groups_of_map.
    apply (sort_map_cond (fun p => PK (fst p))).
    - intros a b Ha Hb. cbn [map_group fst]. destruct rev; apply kleb_g; auto.
    - apply groups_of_PK; auto.
  Qed.
End GroupMap.

Lemma nth_error_map' {A B} (f : A -> B) l i : nth_error (map f l) i = option_map f (nth_error l i).
Proof. apply nth_error_map. Qed.

Lemma index_from_map {A B} (f : A -> B) i l :
  index_from i (map f l) = map (fun p => (fst p, f (snd p))) (index_from i l).
Proof. revert i. induction l as [|x l IH]; intros i; cbn [map index_from fst snd]; auto. rewrite IH. reflexivity. Qed.

(* ------------------------------------------------------------------------------------------ *)
(* 3. Equivariance of the dictionary / set primitives and of the chart queries                 *)
(* ------------------------------------------------------------------------------------------ *)
Section Equi.
  Variable rho : name -> name.
  Hypothesis rho_inj : forall a b, rho a = rho b -> a = b.
  Hypothesis rho_empty : rho "" = "".

  Lemma rho_nonempty n : n <> "" -> rho n <> "".
  Proof. intros Hn H. apply Hn. apply rho_inj. rewrite rho_empty. exact H. Qed.

  Lemma str_eqb_rho a b : str_eqb (rho a) (rho b) = str_eqb a b.
  Proof.
    unfold str_eqb. destruct (String.eqb_spec a b) as [->|Hn].
    - apply String.eqb_refl.
    - apply String.eqb_neq. intros H. apply Hn, rho_inj, H.
  Qed.

  Lemma ostr_eqb_rho a b : ostr_eqb (option_map rho a) (option_map rho b) = ostr_eqb a b.
  Proof. destruct a, b; cbn; auto. apply str_eqb_rho. Qed.

  Lemma opt_eqb_rho a b : opt_eqb str_eqb (option_map rho a) (option_map rho b) = opt_eqb str_eqb a b.
  Proof. apply ostr_eqb_rho. Qed.

  Lemma mem_rho x l : mem (rho x) (map rho l) = mem x l.
  Proof. induction l as [|y l IH]; cbn [map mem]; auto. rewrite str_eqb_rho, IH. reflexivity. Qed.

  Lemma remove_first_rho x l : remove_first (rho x) (map rho l) = map rho (remove_first x l).
  Proof.
    induction l as [|y l IH]; cbn [map remove_first]; auto. rewrite str_eqb_rho.
    destruct (str_eqb x y); cbn [map]; auto. rewrite IH. reflexivity.
  Qed.

  Lemma set_add_rho x l : set_add (rho x) (map rho l) = map rho (set_add x l).
  Proof.
    unfold set_add. rewrite mem_rho. destruct (mem x l); auto. rewrite map_app. reflexivity.
  Qed.

  Lemma lookup_map_kv {V W} (f : V -> W) k d :
    lookup (rho k) (map_kv rho f d) = option_map f (lookup k d).
  Proof.
    induction d as [|[k' v] d IH]; cbn [map_kv map lookup fst snd]; auto.
    rewrite str_eqb_rho. destruct (str_eqb k k'); auto.
  Qed.

  Lemma dset_map_kv {V W} (f : V -> W) k v d :
    dset (rho k) (f v) (map_kv rho f d) = map_kv rho f (dset k v d).
  Proof.
    induction d as [|[k' v'] d IH]; cbn [map_kv map dset fst snd]; auto.
    rewrite str_eqb_rho. destruct (str_eqb k k'); cbn [map fst snd]; auto.
    unfold map_kv in IH. rewrite IH. reflexivity.
  Qed.

  Lemma truthy_rho o : truthy (option_map rho o) = option_map rho (truthy o).
  Proof.
    destruct o as [[|c s]|]; cbn [option_map truthy]; auto.
    - rewrite rho_empty. reflexivity.
    - destruct (rho (String c s)) eqn:E; auto.
      exfalso. apply (rho_nonempty (String c s)); auto. discriminate.
  Qed.

  Lemma owner_eqb_rho a b : owner_eqb (map_owner rho a) (map_owner rho b) = owner_eqb a b.
  Proof. destruct a, b; cbn; auto. apply str_eqb_rho. Qed.

  Lemma old_lookup_rho {ctx} o (m : list (owner * ctx)) :
    old_lookup (map_owner rho o) (map (fun oc => (map_owner rho (fst oc), snd oc)) m) = old_lookup o m.
  Proof.
    induction m as [|[o' c] m IH]; cbn [map old_lookup fst snd]; auto.
    rewrite owner_eqb_rho, IH. reflexivity.
  Qed.

  Lemma old_set_rho {ctx} o (c : ctx) m :
    old_set (map_owner rho o) c (map (fun oc => (map_owner rho (fst oc), snd oc)) m)
    = map (fun oc => (map_owner rho (fst oc), snd oc)) (old_set o c m).
  Proof.
    induction m as [|[o' c'] m IH]; cbn [map old_set fst snd]; auto.
    rewrite owner_eqb_rho. destruct (owner_eqb o o'); cbn [map fst snd]; auto.
    rewrite IH. reflexivity.
  Qed.

  (* ---- chart queries ---- *)
  Variable sc : chart.
  Notation sc' := (map_chart rho sc).

  Lemma state_for_rho n : state_for sc' (rho n) = option_map (map_state rho) (state_for sc n).
  Proof. unfold state_for. cbn [map_chart c_states]. apply lookup_map_kv. Qed.

  Lemma kind_of_rho n : kind_of sc' (rho n) = kind_of sc n.
  Proof. unfold kind_of. rewrite state_for_rho. destruct (state_for sc n); reflexivity. Qed.

  Lemma parent_for_rho n : parent_for sc' (rho n) = option_map rho (parent_for sc n).
  Proof.
    unfold parent_for. cbn [map_chart c_parent]. rewrite lookup_map_kv.
    destruct (lookup n (c_parent sc)); reflexivity.
  Qed.

  Lemma olookup_rho k (d : list (option name * list name)) :
    olookup (option_map rho k) (map (fun kv => (option_map rho (fst kv), map rho (snd kv))) d)
    = option_map (map rho) (olookup k d).
  Proof.
    induction d as [|[k' v] d IH]; cbn [map olookup fst snd]; auto.
    rewrite opt_eqb_rho. destruct (opt_eqb str_eqb k k'); auto.
  Qed.

  Lemma children_for_rho n : children_for sc' (rho n) = map rho (children_for sc n).
  Proof.
    unfold children_for. cbn [map_chart c_children].
    change (Some (rho n)) with (option_map rho (Some n)). rewrite olookup_rho.
    destruct (olookup (Some n) (c_children sc)); reflexivity.
  Qed.

  Lemma root_rho : root sc' = option_map rho (root sc).
  Proof.
    unfold root. cbn [map_chart c_parent]. induction (c_parent sc) as [|[n [p|]] d IH];
      cbn [map_kv map root_of fst snd option_map]; auto.
  Qed.

  Lemma ancestors_fuel_rho fuel p :
    ancestors_fuel sc' fuel (option_map rho p) = map rho (ancestors_fuel sc fuel p).
  Proof.
    revert p. induction fuel as [|f IH]; intros p; cbn [ancestors_fuel]; auto.
    rewrite truthy_rho. destruct (truthy p) as [q|]; cbn [option_map map]; auto.
    rewrite parent_for_rho, IH. reflexivity.
  Qed.

  Lemma ancestors_for_rho n : ancestors_for sc' (rho n) = map rho (ancestors_for sc n).
  Proof.
    unfold ancestors_for. rewrite parent_for_rho, ancestors_fuel_rho.
    cbn [map_chart c_parent]. unfold map_kv. rewrite map_length. reflexivity.
  Qed.

  Lemma depth_for_rho n : depth_for sc' (rho n) = depth_for sc n.
  Proof. unfold depth_for. rewrite ancestors_for_rho, map_length. reflexivity. Qed.

  Lemma bfs_rho fuel q : bfs sc' fuel (map rho q) = map rho (bfs sc fuel q).
  Proof.
    revert q. induction fuel as [|f IH]; intros q; cbn [bfs]; auto.
    destruct q as [|n q]; cbn [map]; auto.
    rewrite children_for_rho, <- map_app, IH, map_app. reflexivity.
  Qed.

  Lemma descendants_for_rho n : descendants_for sc' (rho n) = map rho (descendants_for sc n).
  Proof.
    unfold descendants_for. cbn [map_chart c_states]. unfold map_kv. rewrite map_length.
    apply (bfs_rho _ [n]).
  Qed.

  Lemma lca_rho a b :
    least_common_ancestor sc' (rho a) (rho b) = option_map rho (least_common_ancestor sc a b).
  Proof.
    unfold least_common_ancestor. rewrite !ancestors_for_rho.
    apply find_map_eq. intros x. apply mem_rho.
  Qed.

  Lemma leaf_for_rho names : leaf_for sc' (map rho names) = map rho (leaf_for sc names).
  Proof.
    unfold leaf_for. apply filter_map_eq. intros n _. f_equal.
    rewrite descendants_for_rho. apply existsb_map_eq. intros d. apply mem_rho.
  Qed.

  Lemma itransitions_rho : itransitions sc' = map (map_it rho) (itransitions sc).
  Proof. unfold itransitions. cbn [map_chart c_transitions]. apply index_from_map. Qed.

  Lemma owner_state_rho o : owner_state sc' (map_owner rho o) = option_map rho (owner_state sc o).
  Proof.
    destruct o as [n|i]; cbn [map_owner owner_state option_map]; auto.
    cbn [map_chart c_transitions]. rewrite nth_error_map. destruct (nth_error (c_transitions sc) i); reflexivity.
  Qed.

  Lemma states_for_rho l :
    states_for sc' (map rho l) = option_map (map (map_state rho)) (states_for sc l).
  Proof.
    induction l as [|n l IH]; cbn [map states_for]; auto.
    rewrite state_for_rho, IH. destruct (state_for sc n), (states_for sc l); reflexivity.
  Qed.

  (* ---- monotonicity: only on the names the chart ever sorts ---- *)
  Definition inN (n : name) : Prop := In n (chart_names sc).
  Hypothesis rho_mono : forall a b, inN a -> inN b -> str_leb (rho a) (rho b) = str_leb a b.

  Lemma children_inN p : Forall inN (children_for sc p).
  Proof.
    unfold children_for. destruct (olookup (Some p) (c_children sc)) as [l|] eqn:E; [|constructor].
    apply Forall_forall. intros n Hn. unfold inN, chart_names.
    apply in_or_app. right. apply in_or_app. left.
    apply in_concat. exists l. split; auto.
    clear Hn. induction (c_children sc) as [|[k v] d IH]; cbn [olookup] in E; [discriminate|].
    destruct (opt_eqb str_eqb (Some p) k).
    - inversion E; subst. left. reflexivity.
    - right. apply IH. exact E.
  Qed.

  Lemma bfs_inN fuel q : Forall inN (bfs sc fuel q).
  Proof.
    revert q. induction fuel as [|f IH]; intros q; cbn [bfs]; [constructor|].
    destruct q as [|n q]; [constructor|]. apply Forall_app. split; [apply children_inN|apply IH].
  Qed.

  Lemma descendants_inN n : Forall inN (descendants_for sc n).
  Proof. apply bfs_inN. Qed.

  Lemma lookup_In {V} k (d : list (name * V)) v : lookup k d = Some v -> In (k, v) d.
  Proof.
    induction d as [|[k' v'] d IH]; cbn [lookup]; [discriminate|].
    destruct (str_eqb k k') eqn:E.
    - apply str_eqb_spec in E. subst. intros H; inversion H; subst. left. reflexivity.
    - intros H. right. auto.
  Qed.

  Lemma state_for_inN n st : state_for sc n = Some st -> inN (s_name st).
  Proof.
    unfold state_for. intros H. apply lookup_In in H. unfold inN, chart_names.
    apply in_or_app. left. apply in_map_iff. exists (n, st). split; auto.
  Qed.

  Lemma states_for_inN l sts : states_for sc l = Some sts -> Forall (fun st => inN (s_name st)) sts.
  Proof.
    revert sts. induction l as [|n l IH]; intros sts; cbn [states_for].
    - intros H; inversion H; constructor.
    - destruct (state_for sc n) as [st|] eqn:E; [|discriminate].
      destruct (states_for sc l) as [r|]; [|discriminate].
      intros H; inversion H; subst. constructor; [eapply state_for_inN; eauto|auto].
  Qed.

  Lemma index_from_In {A} (l : list A) i p : In p (index_from i l) -> In (snd p) l.
  Proof.
    revert i. induction l as [|x l IH]; intros i; cbn [index_from]; [tauto|].
    intros [<-|H]; [left; reflexivity|right; eauto].
  Qed.

  Lemma source_inN it : In it (itransitions sc) -> inN (t_source (snd it)).
  Proof.
    intros H. apply index_from_In in H. unfold inN, chart_names.
    apply in_or_app. right. apply in_or_app. right. apply in_map. exact H.
  Qed.

  Lemma sort_names_rho l : Forall inN l -> sort_names (map rho l) = map rho (sort_names l).
  Proof. intros H. unfold sort_names. apply (sort_map_cond inN); auto. Qed.

  Lemma zn_leb_rho d1 d2 a b :
    inN a -> inN b -> zn_leb (d1, rho a) (d2, rho b) = zn_leb (d1, a) (d2, b).
  Proof. intros Ha Hb. unfold zn_leb. cbn [fst snd]. rewrite rho_mono; auto. Qed.

  Lemma exit_order_rho a b :
    inN a -> inN b -> exit_order_leb sc' (rho a) (rho b) = exit_order_leb sc a b.
  Proof. intros Ha Hb. unfold exit_order_leb. rewrite !depth_for_rho. apply zn_leb_rho; auto. Qed.

  Lemma enter_order_rho a b :
    inN a -> inN b -> enter_order_leb sc' (rho a) (rho b) = enter_order_leb sc a b.
  Proof. intros Ha Hb. unfold enter_order_leb. rewrite !depth_for_rho. apply zn_leb_rho; auto. Qed.

  Lemma sort_exit_rho l :
    Forall inN l -> sort (exit_order_leb sc') (map rho l) = map rho (sort (exit_order_leb sc) l).
  Proof. intros H. apply (sort_map_cond inN); auto. apply exit_order_rho. Qed.

  Lemma sort_enter_rho l :
    Forall inN l -> sort (enter_order_leb sc') (map rho l) = map rho (sort (enter_order_leb sc) l).
  Proof. intros H. apply (sort_map_cond inN); auto. apply enter_order_rho. Qed.

  Lemma configuration_rho cfg :
    Forall inN cfg -> configuration sc' (map rho cfg) = map rho (configuration sc cfg).
  Proof.
    intros H. unfold configuration. rewrite map_map.
    rewrite (map_ext (fun n => (depth_for sc' (rho n), rho n))
                     (fun n => (fun p => (fst p, rho (snd p))) (depth_for sc n, n)))
      by (intros n; cbn [fst snd]; rewrite depth_for_rho; reflexivity).
    rewrite <- (map_map (fun n => (depth_for sc n, n)) (fun p : Z * name => (fst p, rho (snd p)))).
    rewrite (sort_map_cond (fun p : Z * name => inN (snd p)) (fun p => (fst p, rho (snd p))) zn_leb zn_leb).
    - rewrite !map_map. reflexivity.
    - intros [d1 a] [d2 b] Ha Hb. cbn [fst snd] in *. apply zn_leb_rho; auto.
    - apply Forall_forall. intros p Hp. apply in_map_iff in Hp. destruct Hp as [n [<- Hn]].
      cbn [snd]. rewrite Forall_forall in H. auto.
  Qed.

  (* ---- pure functions of the interpreter ---- *)
  Lemma considered_rho ev states :
    considered sc' ev (map rho states) = map (map_it rho) (considered sc ev states).
  Proof.
    unfold considered. rewrite itransitions_rho. apply filter_map_eq.
    intros it _. cbn [map_it snd map_trans t_source t_event]. rewrite mem_rho. reflexivity.
  Qed.

  Lemma considered_sub ev states : Forall (fun it => In it (itransitions sc)) (considered sc ev states).
  Proof. apply Forall_forall. intros it H. apply filter_In in H. tauto. Qed.

  Lemma last_before_rho lca anc cur :
    last_before (option_map rho lca) (map rho anc) (rho cur) = rho (last_before lca anc cur).
  Proof.
    revert cur. induction anc as [|a anc IH]; intros cur; cbn [map last_before]; auto.
    change (Some (rho a)) with (option_map rho (Some a)). rewrite ostr_eqb_rho.
    destruct (ostr_eqb (Some a) lca); auto.
  Qed.

  Lemma stays_below_rho lca t :
    stays_below sc' (option_map rho lca) (map_trans rho t) = stays_below sc lca t.
  Proof.
    unfold stays_below. cbn [map_trans t_target t_source].
    destruct (t_target t) as [tgt|]; cbn [option_map]; auto.
    destruct tgt as [|c s].
    - rewrite rho_empty. reflexivity.
    - destruct (rho (String c s)) eqn:E.
      + exfalso. apply (rho_nonempty (String c s)); [discriminate|exact E].
      + rewrite <- E. rewrite ancestors_for_rho, last_before_rho, descendants_for_rho.
        apply (mem_rho (String c s) (_ :: _)).
  Qed.

  Lemma check_pair_rho t1 t2 :
    check_pair sc' (map_trans rho t1) (map_trans rho t2) = check_pair sc t1 t2.
  Proof.
    unfold check_pair. cbn [map_trans t_source]. rewrite str_eqb_rho, lca_rho.
    destruct (str_eqb (t_source t1) (t_source t2)); auto.
    destruct (least_common_ancestor sc (t_source t1) (t_source t2)) as [l|]; cbn [option_map]; auto.
    rewrite kind_of_rho. destruct (kind_of sc l) as [[]|]; auto.
    change (Some (rho l)) with (option_map rho (Some l)). rewrite !stays_below_rho. reflexivity.
  Qed.

  Lemma check_against_rho t1 rest :
    check_against sc' (map_trans rho t1) (map (map_it rho) rest) = check_against sc t1 rest.
  Proof.
    induction rest as [|it rest IH]; cbn [map check_against]; auto.
    cbn [map_it snd]. rewrite check_pair_rho, IH. reflexivity.
  Qed.

  Lemma check_pairs_rho ts : check_pairs sc' (map (map_it rho) ts) = check_pairs sc ts.
  Proof.
    induction ts as [|it ts IH]; cbn [map check_pairs]; auto.
    cbn [map_it snd]. rewrite check_against_rho, IH. reflexivity.
  Qed.

  Definition srcN (it : itrans) : Prop := inN (t_source (snd it)).

  Lemma trans_order_rho a b :
    srcN a -> srcN b -> trans_order_leb sc' (map_it rho a) (map_it rho b) = trans_order_leb sc a b.
  Proof.
    intros Ha Hb. unfold trans_order_leb. cbn [map_it snd map_trans t_source].
    rewrite !depth_for_rho. apply zn_leb_rho; auto.
  Qed.

  Lemma sort_trans_rho ts :
    Forall srcN ts ->
    sort (trans_order_leb sc') (map (map_it rho) ts) = map (map_it rho) (sort (trans_order_leb sc) ts).
  Proof. intros H. apply (sort_map_cond srcN); auto. apply trans_order_rho. Qed.

  Lemma entered_path_rho lca anc acc :
    entered_path (option_map rho lca) (map rho anc) (map rho acc) = map rho (entered_path lca anc acc).
  Proof.
    revert acc. induction anc as [|a anc IH]; intros acc; cbn [map entered_path]; auto.
    change (Some (rho a)) with (option_map rho (Some a)). rewrite ostr_eqb_rho.
    destruct (ostr_eqb (Some a) lca); auto. apply (IH (a :: acc)).
  Qed.

  Lemma create_step_rho cfg ev it :
    create_step sc' (map rho cfg) ev (map_it rho it) = map_micro rho (create_step sc cfg ev it).
  Proof.
    unfold create_step. cbn [map_it snd fst map_trans t_target t_source].
    destruct (t_target (snd it)) as [tgt|]; cbn [option_map]; [|reflexivity].
    rewrite lca_rho, !ancestors_for_rho, last_before_rho, descendants_for_rho.
    rewrite sort_exit_rho by apply descendants_inN.
    rewrite (filter_map_eq rho (fun d => mem d cfg)) by (intros x _; apply mem_rho).
    rewrite mem_rho. rewrite (entered_path_rho _ _ [tgt]).
    unfold map_micro. cbn [ms_event ms_trans ms_entered ms_exited ms_sent]. f_equal.
    rewrite map_app. destruct (mem _ cfg); reflexivity.
  Qed.

  Lemma create_steps_rho cfg ev ts :
    create_steps sc' (map rho cfg) ev (map (map_it rho) ts) = map (map_micro rho) (create_steps sc cfg ev ts).
  Proof. unfold create_steps. rewrite !map_map. apply map_ext. intros it. apply create_step_rho. Qed.
End Equi.
