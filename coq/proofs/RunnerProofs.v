(* RunnerProofs.v -- proofs of the C20 statements about the two-thread LTS of theories/Runner.v.
   Every theorem quantifies over ALL schedules (lists of thread ids) and all client scripts; the proofs
   are inductions over the schedule with invariants indexed by the runner's program counter. *)
From Coq Require Import List ZArith Bool Arith Lia.
From Sismic Require Import Runner.
Import ListNotations.

Ltac inv H := inversion H; subst; clear H.

(* ------------------------------------------------------------------------------------------ *)
(* schedules: composition and the invariant principle                                         *)
(* ------------------------------------------------------------------------------------------ *)
Lemma run_from_app : forall cf s a b,
  run_from cf s (a ++ b) =
  let '(s1, l1) := run_from cf s a in let '(s2, l2) := run_from cf s1 b in (s2, l1 ++ l2).
Proof.
  intros cf s a; revert s; induction a as [|t a IH]; intros s b; cbn [run_from app].
  - destruct (run_from cf s b); reflexivity.
  - destruct (step cf s t) as [s1 l1]. rewrite IH.
    destruct (run_from cf s1 a) as [s2 l2]. destruct (run_from cf s2 b) as [s3 l3].
    rewrite app_assoc. reflexivity.
Qed.

Section Invariant.
  Variable cf : config.
  Variable I : state -> list titem -> Prop.
  Hypothesis I_step : forall s tr t s' l, I s tr -> step cf s t = (s', l) -> I s' (tr ++ l).

  Lemma run_from_inv : forall sched s tr s' l,
    I s tr -> run_from cf s sched = (s', l) -> I s' (tr ++ l).
  Proof.
    induction sched as [|t sched IH]; intros s tr s' l HI Hr; cbn [run_from] in Hr.
    - inv Hr. rewrite app_nil_r. exact HI.
    - destruct (step cf s t) as [s1 l1] eqn:Es.
      destruct (run_from cf s1 sched) as [s2 l2] eqn:Er. inv Hr.
      rewrite app_assoc. eapply IH; [|exact Er]. eapply I_step; eauto.
  Qed.

  Lemma run_schedule_inv : forall sched s tr,
    I (init_state cf) [] -> run_schedule cf sched = (s, tr) -> I s tr.
  Proof.
    intros sched s tr H0 Hr. unfold run_schedule in Hr.
    apply (run_from_inv sched (init_state cf) [] s tr H0 Hr).
  Qed.
End Invariant.

(* ------------------------------------------------------------------------------------------ *)
(* projections distribute over concatenation                                                   *)
(* ------------------------------------------------------------------------------------------ *)
Lemma executed_app : forall a b, executed (a ++ b) = executed a ++ executed b.
Proof.
  induction a as [|x a IH]; intros b; [reflexivity|].
  cbn [app executed]. destruct x as [| r | | |]; try apply IH.
  destruct r as [| | | | | |p|e p| | |]; try apply IH.
  - destruct p; try apply IH. cbn [app]. f_equal. apply IH.
  - cbn [app]. f_equal. apply IH.
Qed.

Lemma handed_app : forall a b, handed (a ++ b) = handed a ++ handed b.
Proof.
  induction a as [|x a IH]; intros b; [reflexivity|].
  cbn [app handed]. destruct x as [| r | | |]; try apply IH.
  destruct r; try apply IH. rewrite IH. apply app_assoc.
Qed.

Lemma reports_app : forall a b, reports (a ++ b) = reports a ++ reports b.
Proof.
  induction a as [|x a IH]; intros b; [reflexivity|].
  cbn [app reports]. destruct x as [| r | | |]; try apply IH.
  destruct r; try apply IH. cbn [app]. f_equal. apply IH.
Qed.

Lemma ractions_app : forall a b, ractions (a ++ b) = ractions a ++ ractions b.
Proof.
  induction a as [|x a IH]; intros b; [reflexivity|].
  cbn [app ractions]. destruct x; try apply IH. cbn [app]. f_equal. apply IH.
Qed.

Lemma popped_events_app : forall a b, popped_events (a ++ b) = popped_events a ++ popped_events b.
Proof.
  induction a as [|x a IH]; intros b; [reflexivity|].
  cbn [app popped_events]. destruct x as [| r | | |]; try apply IH.
  destruct r as [| | | | | | |e p| | |]; try apply IH.
  destruct p; try apply IH. cbn [app]. f_equal. apply IH.
Qed.

(* ------------------------------------------------------------------------------------------ *)
(* case analysis of one step                                                                   *)
(* ------------------------------------------------------------------------------------------ *)
Ltac runner_cases H :=
  unfold step_runner in H;
  repeat match type of H with
         | context [match s_rpc ?s with _ => _ end] => destruct (s_rpc s) eqn:?Epc
         | context [match due_head ?s with _ => _ end] => destruct (due_head s) eqn:?Edue
         | context [match s_pend ?s with _ => _ end] => destruct (s_pend s) eqn:?Epend
         | context [if ?b then _ else _] => destruct b eqn:?Eb
         end; try discriminate; inv H.

Ltac client_cases H :=
  unfold step_client in H;
  repeat match type of H with
         | context [match s_script ?s with _ => _ end] => destruct (s_script s) as [|?op ?rest] eqn:?Escr
         | context [match ?op with CStart => _ | _ => _ end] => destruct op
         | context [match s_cpc ?s with _ => _ end] => destruct (s_cpc s) eqn:?Ecpc
         | context [if ?b then _ else _] => destruct b eqn:?Eb
         end; try discriminate; inv H.

(* a client step emits no runner action and does not touch the runner's local data *)
Lemma client_no_ract : forall cf c s s' l, step_client cf c s = Some (s', l) -> ractions l = [].
Proof. intros cf c s s' l H. client_cases H; reflexivity. Qed.

Lemma ractions_nil_executed : forall l, ractions l = [] -> executed l = [].
Proof.
  induction l as [|x l IH]; intros H; [reflexivity|].
  destruct x; cbn [ractions] in H; try discriminate; cbn [executed]; apply IH; exact H.
Qed.
Lemma ractions_nil_handed : forall l, ractions l = [] -> handed l = [].
Proof.
  induction l as [|x l IH]; intros H; [reflexivity|].
  destruct x; cbn [ractions] in H; try discriminate; cbn [handed]; apply IH; exact H.
Qed.
Lemma ractions_nil_reports : forall l, ractions l = [] -> reports l = [].
Proof.
  induction l as [|x l IH]; intros H; [reflexivity|].
  destruct x; cbn [ractions] in H; try discriminate; cbn [reports]; apply IH; exact H.
Qed.
Lemma ractions_nil_popped : forall l, ractions l = [] -> popped_events l = [].
Proof.
  induction l as [|x l IH]; intros H; [reflexivity|].
  destruct x; cbn [ractions] in H; try discriminate; cbn [popped_events]; apply IH; exact H.
Qed.

Lemma client_steps : forall cf c s s' l, step_client cf c s = Some (s', l) -> s_steps s' = s_steps s.
Proof. intros cf c s s' l H. client_cases H; cbn; try reflexivity; unfold do_unp_set; destruct (s_rpc s); reflexivity. Qed.
