(* RunnerProofs.v -- proofs of the C20 statements about the two-thread LTS of theories/Runner.v.
   Every theorem quantifies over ALL schedules (lists of thread ids) and all client scripts; the proofs
   are inductions over the schedule with invariants indexed by the runner's program counter.

   Proved (all closed under the global context, see the Print Assumptions at the end):
     C20_report          handed ++ in-flight = executed (order, each once); <= 1 per cycle without execute_all
     C20_hooks           before_run / after_run at most once, first / last; exactly once if the thread ends
     C20_pause           after the return of pause(): at most one cycle begins before the flag is set again
     C20_stop            once _stop is set: at most mu further runner actions (mu <= 10 without execute_all,
                         <= 13 + 3 * phi with it)           (C20_stop_bound: same, from any consistent state)
     C20_stop_returns    inside stop(), both flags set: mu runner turns then one client turn => stop() returns
     C20_stop_quiet      after the return of stop() the runner thread never acts again
     C20_final           final read as true by the loop test => only _stop.set(), after_run follow
     C20_final_meaning / C20_final_test   what `final` is in terms of the executed macro steps
     C20_events          zero-delay events, one client (with or without the atomic switch): FIFO, at most
                         once, nothing lost, processed = consumed, consumable as soon as queued
     C20_events_refuted, C20_events_refuted_pop   delayed events, code as it is: concrete schedules (vm_compute)
   Each comes with an Example (C20_*_ex) instantiating its hypotheses on a concrete interleaved run.

   NOT proved here (missing, not needed for the fixed property text but natural next steps):
     - C20_events for delayed events under the atomic switch (cf_atomic = true): needs sortedness of the queue
       and correctness of the binary search on sorted lists; only the witness C20_events_witness_atomic_ok;
     - more than one client thread (tid has TCli n, but the state holds one client);
     - "exactly once if the runner keeps running" is stated as: nothing inserted is ever skipped
       (C20_events, 4th conjunct) + bounded work per cycle; no temporal-logic liveness statement. *)
From Coq Require Import List ZArith Bool Arith Lia.
From Sismic Require Import Runner.
Import ListNotations.

Ltac inv H := inversion H; subst; clear H.

(* ------------------------------------------------------------------------------------------ *)
(* schedules: composition and the invariant principle                                         *)
(* ------------------------------------------------------------------------------------------ *)
Lemma run_from_app : forall cf s a b,
  run_from cf s (a ++ b) =
  let '(s1, l1) := run_from cf s a in let '(s2, l2) := run_from cf s1 b in (s2, l1 ++ l2).
Proof.
  intros cf s a; revert s; induction a as [|t a IH]; intros s b; cbn [run_from app].
  - destruct (run_from cf s b); reflexivity.
  - destruct (step cf s t) as [s1 l1]. rewrite IH.
    destruct (run_from cf s1 a) as [s2 l2]. destruct (run_from cf s2 b) as [s3 l3].
    rewrite app_assoc. reflexivity.
Qed.

Section Invariant.
  Variable cf : config.
  Variable I : state -> list titem -> Prop.
  Hypothesis I_step : forall s tr t s' l, I s tr -> step cf s t = (s', l) -> I s' (tr ++ l).

  Lemma run_from_inv : forall sched s tr s' l,
    I s tr -> run_from cf s sched = (s', l) -> I s' (tr ++ l).
  Proof.
    induction sched as [|t sched IH]; intros s tr s' l HI Hr; cbn [run_from] in Hr.
    - inv Hr. rewrite app_nil_r. exact HI.
    - destruct (step cf s t) as [s1 l1] eqn:Es.
      destruct (run_from cf s1 sched) as [s2 l2] eqn:Er. inv Hr.
      rewrite app_assoc. eapply IH; [|exact Er]. eapply I_step; eauto.
  Qed.

  Lemma run_schedule_inv : forall sched s tr,
    I (init_state cf) [] -> run_schedule cf sched = (s, tr) -> I s tr.
  Proof.
    intros sched s tr H0 Hr. unfold run_schedule in Hr.
    apply (run_from_inv sched (init_state cf) [] s tr H0 Hr).
  Qed.
End Invariant.

(* ------------------------------------------------------------------------------------------ *)
(* projections distribute over concatenation                                                   *)
(* ------------------------------------------------------------------------------------------ *)
Lemma executed_app : forall a b, executed (a ++ b) = executed a ++ executed b.
Proof.
  induction a as [|x a IH]; intros b; [reflexivity|].
  cbn [app executed]. destruct x as [| r | | |]; try apply IH.
  destruct r as [| | | | | |p|e p| | |]; try apply IH.
  - destruct p; try apply IH. cbn [app]. f_equal. apply IH.
  - cbn [app]. f_equal. apply IH.
Qed.

Lemma handed_app : forall a b, handed (a ++ b) = handed a ++ handed b.
Proof.
  induction a as [|x a IH]; intros b; [reflexivity|].
  cbn [app handed]. destruct x as [| r | | |]; try apply IH.
  destruct r; try apply IH. rewrite IH. apply app_assoc.
Qed.

Lemma reports_app : forall a b, reports (a ++ b) = reports a ++ reports b.
Proof.
  induction a as [|x a IH]; intros b; [reflexivity|].
  cbn [app reports]. destruct x as [| r | | |]; try apply IH.
  destruct r; try apply IH. cbn [app]. f_equal. apply IH.
Qed.

Lemma ractions_app : forall a b, ractions (a ++ b) = ractions a ++ ractions b.
Proof.
  induction a as [|x a IH]; intros b; [reflexivity|].
  cbn [app ractions]. destruct x; try apply IH. cbn [app]. f_equal. apply IH.
Qed.

Lemma popped_events_app : forall a b, popped_events (a ++ b) = popped_events a ++ popped_events b.
Proof.
  induction a as [|x a IH]; intros b; [reflexivity|].
  cbn [app popped_events]. destruct x as [| r | | |]; try apply IH.
  destruct r as [| | | | | | |e p| | |]; try apply IH.
  destruct p; try apply IH. cbn [app]. f_equal. apply IH.
Qed.

(* ------------------------------------------------------------------------------------------ *)
(* case analysis of one step                                                                   *)
(* ------------------------------------------------------------------------------------------ *)
Ltac runner_cases H :=
  unfold step_runner in H;
  repeat match type of H with
         | context [match s_rpc ?s with _ => _ end] => destruct (s_rpc s) eqn:?Epc
         | context [match due_head ?s with _ => _ end] => destruct (due_head s) eqn:?Edue
         | context [match s_pend ?s with _ => _ end] => destruct (s_pend s) eqn:?Epend
         | context [if ?b then _ else _] => destruct b eqn:?Eb
         end; try discriminate; inv H.

Ltac client_cases H :=
  unfold step_client in H;
  repeat match type of H with
         | context [match s_script ?s with _ => _ end] => destruct (s_script s) as [|?op ?rest] eqn:?Escr
         | context [match ?op with CStart => _ | _ => _ end] => destruct op
         | context [match s_cpc ?s with _ => _ end] => destruct (s_cpc s) eqn:?Ecpc
         | context [if ?b then _ else _] => destruct b eqn:?Eb
         end; try discriminate; inv H.

(* a client step emits no runner action and does not touch the runner's local data *)
Lemma client_no_ract : forall cf c s s' l, step_client cf c s = Some (s', l) -> ractions l = [].
Proof. intros cf c s s' l H. client_cases H; reflexivity. Qed.

Lemma ractions_nil_executed : forall l, ractions l = [] -> executed l = [].
Proof.
  induction l as [|x l IH]; intros H; [reflexivity|].
  destruct x; cbn [ractions] in H; try discriminate; cbn [executed]; apply IH; exact H.
Qed.
Lemma ractions_nil_handed : forall l, ractions l = [] -> handed l = [].
Proof.
  induction l as [|x l IH]; intros H; [reflexivity|].
  destruct x; cbn [ractions] in H; try discriminate; cbn [handed]; apply IH; exact H.
Qed.
Lemma ractions_nil_reports : forall l, ractions l = [] -> reports l = [].
Proof.
  induction l as [|x l IH]; intros H; [reflexivity|].
  destruct x; cbn [ractions] in H; try discriminate; cbn [reports]; apply IH; exact H.
Qed.
Lemma ractions_nil_popped : forall l, ractions l = [] -> popped_events l = [].
Proof.
  induction l as [|x l IH]; intros H; [reflexivity|].
  destruct x; cbn [ractions] in H; try discriminate; cbn [popped_events]; apply IH; exact H.
Qed.

Lemma client_steps : forall cf c s s' l, step_client cf c s = Some (s', l) -> s_steps s' = s_steps s.
Proof. intros cf c s s' l H. client_cases H; cbn; try reflexivity; unfold do_unp_set; destruct (s_rpc s); reflexivity. Qed.

(* ------------------------------------------------------------------------------------------ *)
(* one step, decomposed                                                                        *)
(* ------------------------------------------------------------------------------------------ *)
Lemma step_elim : forall cf s t s' l, step cf s t = (s', l) ->
  (s' = s /\ l = [TSkip t] /\ (t = TRun -> step_runner cf s = None)) \/
  (exists s1 a, t = TRun /\ step_runner cf s = Some (s1, a) /\
     ((s' = s1 /\ l = [TR a] /\ (s_cpc s1 = CJoining -> s_alive s1 = true)) \/
      (s_cpc s1 = CJoining /\ s_alive s1 = false /\ s' = ret O CStop OK s1 /\ l = [TR a; TRet O CStop OK]))) \/
  (t = TCli O /\ step_client cf O s = Some (s', l)).
Proof.
  intros cf s t s' l H. unfold step in H. destruct t as [|c].
  - destruct (step_runner cf s) as [[s1 a]|] eqn:Er.
    + right; left. exists s1, a. split; [reflexivity|]. split; [reflexivity|].
      unfold wake_join in H. destruct (s_cpc s1) eqn:Ec;
        try (inv H; left; split; [reflexivity|split; [reflexivity|discriminate]]).
      destruct (s_alive s1) eqn:Ea; inv H; [left; split; [reflexivity|split; [reflexivity|intros _; reflexivity]]|].
      right. repeat split; reflexivity.
    + inv H. left; split; [reflexivity|split; [reflexivity|intros _; reflexivity]].
  - destruct c as [|c].
    + destruct (step_client cf O s) as [[s1 l1]|] eqn:Ec.
      * inv H. right; right. split; reflexivity.
      * inv H. left; split; [reflexivity|split; [reflexivity|discriminate]].
    + inv H. left; split; [reflexivity|split; [reflexivity|discriminate]].
Qed.

(* ------------------------------------------------------------------------------------------ *)
(* base invariant: thread bookkeeping                                                          *)
(* ------------------------------------------------------------------------------------------ *)
Definition rpc_dead (p : rpc) : bool := match p with PNotStarted | PDone => true | _ => false end.

Definition base_inv (s : state) : Prop :=
  (s_started s = false <-> s_rpc s = PNotStarted) /\ s_alive s = negb (rpc_dead (s_rpc s)).

Lemma base_init : forall cf, base_inv (init_state cf).
Proof. intros cf. split; [split; reflexivity|reflexivity]. Qed.

Lemma base_runner : forall cf s s' a, step_runner cf s = Some (s', a) -> base_inv s -> base_inv s'.
Proof.
  intros cf s s' a H [[B1 B1'] B2]. unfold base_inv.
  runner_cases H; cbn; unfold after_step; cbn; rewrite ?Epc in *; cbn in *;
    try (destruct (cf_all cf)); cbn;
    (split; [split; intros X; try discriminate; try (apply B1 in X; discriminate) | try assumption; try reflexivity]).
Qed.

Lemma base_ret : forall c op o s, base_inv (ret c op o s) <-> base_inv s.
Proof. intros. unfold base_inv, ret; cbn. tauto. Qed.

(* effect of a client step on what the runner thread owns or reads *)
Definition client_effect (s s' : state) : Prop :=
  s_steps s' = s_steps s /\ s_pend s' = s_pend s /\ s_init s' = s_init s /\ s_fin s' = s_fin s /\
  s_itime s' = s_itime s /\
  ((s_rpc s' = s_rpc s /\ s_started s' = s_started s /\ s_alive s' = s_alive s) \/
   (s_rpc s = PWaiting /\ s_rpc s' = PTestFinal /\ s_started s' = s_started s /\ s_alive s' = s_alive s /\
    s_unp s' = true) \/
   (s_started s = false /\ s_rpc s' = PBeforeRun /\ s_started s' = true /\ s_alive s' = true /\
    s_cpc s = CStart3)).

Lemma client_effect_step : forall cf c s s' l, step_client cf c s = Some (s', l) -> client_effect s s'.
Proof.
  intros cf c s s' l H. unfold client_effect.
  client_cases H; cbn; unfold do_unp_set;
    try match goal with |- context [match s_rpc ?x with _ => _ end] => destruct (s_rpc x) eqn:Epc end; cbn;
    repeat (split; [reflexivity|]);
    first [ left; repeat split; (reflexivity || assumption)
          | right; left; repeat split; (reflexivity || assumption)
          | right; right; repeat split; (reflexivity || assumption) ].
Qed.

Lemma base_client : forall cf c s s' l, step_client cf c s = Some (s', l) -> base_inv s -> base_inv s'.
Proof.
  intros cf c s s' l H [[B1 B1'] B2]. unfold base_inv.
  destruct (client_effect_step _ _ _ _ _ H) as (_ & _ & _ & _ & _ & [(E1 & E2 & E3) | [(E0 & E1 & E2 & E3 & _) | (E0 & E1 & E2 & E3 & _)]]).
  - rewrite E1, E2, E3. tauto.
  - rewrite E1, E2, E3, B2, E0. cbn. split; [|reflexivity]. split; intros X; try discriminate.
    apply B1 in X. rewrite E0 in X. discriminate.
  - rewrite E1, E2, E3. cbn. split; [|reflexivity]. split; intros X; discriminate.
Qed.

Lemma base_step : forall cf s t s' l, step cf s t = (s', l) -> base_inv s -> base_inv s'.
Proof.
  intros cf s t s' l H B.
  destruct (step_elim _ _ _ _ _ H) as [(-> & -> & Hsk) | [(s1 & a & -> & Hr & [(-> & -> & Hnw) | (Hc & Ha & -> & ->)]) | [-> Hc]]].
  - exact B.
  - eapply base_runner; eauto.
  - apply base_ret. eapply base_runner; eauto.
  - eapply base_client; eauto.
Qed.

(* ------------------------------------------------------------------------------------------ *)
(* C20_report                                                                                  *)
(* ------------------------------------------------------------------------------------------ *)
Definition in_cycle (p : rpc) : bool :=
  match p with PExTime | PExPeek | PExPop | PAfterExec => true | _ => false end.

(* macro steps executed in the cycle under way and not yet handed to after_execute *)
Definition in_flight (s : state) : list mstep := if in_cycle (s_rpc s) then s_steps s else [].

Definition report_inv (cf : config) (s : state) (tr : list titem) : Prop :=
  base_inv s /\
  executed tr = handed tr ++ in_flight s /\
  (cf_all cf = false ->
   Forall (fun l => length l <= 1)%nat (reports tr) /\
   match s_rpc s with
   | PExTime | PExPeek | PExPop => s_steps s = []
   | PAfterExec => (length (s_steps s) <= 1)%nat
   | _ => True
   end).

Lemma report_runner : forall cf s s' a tr,
  step_runner cf s = Some (s', a) -> report_inv cf s tr -> report_inv cf s' (tr ++ [TR a]).
Proof.
  intros cf s s' a tr H (B & E & A).
  split; [eapply base_runner; eauto|].
  rewrite executed_app, handed_app, reports_app. unfold in_flight in *.
  runner_cases H; cbn [in_cycle] in *; cbn; unfold after_step; cbn;
    rewrite ?app_nil_r in *.
  all: try match goal with |- context [if cf_all ?c then _ else _] => destruct (cf_all c) eqn:Eall; cbn end.
  all: (split; [ rewrite E; rewrite <- ?app_assoc, ?app_nil_r; reflexivity | ]).
  all: intros X; try discriminate; destruct (A X) as [A1 A2]; try (rewrite X; cbn); (split; [|try exact I; try assumption]).
  all: try assumption.
  all: try reflexivity.
  all: try (rewrite A2; cbn; try reflexivity; lia).
  apply Forall_app; split; [assumption|]. constructor; [assumption|constructor].
Qed.

Lemma report_ret : forall cf c op o s tr, report_inv cf (ret c op o s) tr <-> report_inv cf s tr.
Proof. intros. unfold report_inv, base_inv, in_flight, ret; cbn. tauto. Qed.

Lemma report_add_silent : forall cf s tr l, ractions l = [] -> report_inv cf s tr -> report_inv cf s (tr ++ l).
Proof.
  intros cf s tr l Hl (B & E & A). split; [exact B|].
  rewrite executed_app, handed_app, reports_app.
  rewrite (ractions_nil_executed _ Hl), (ractions_nil_handed _ Hl), (ractions_nil_reports _ Hl), !app_nil_r.
  split; assumption.
Qed.

Lemma report_client : forall cf c s s' l tr,
  step_client cf c s = Some (s', l) -> report_inv cf s tr -> report_inv cf s' (tr ++ l).
Proof.
  intros cf c s s' l tr H (B & E & A).
  pose proof (client_no_ract _ _ _ _ _ H) as Hl.
  pose proof (base_client _ _ _ _ _ H B) as B'.
  destruct (client_effect_step _ _ _ _ _ H) as (Es & _ & _ & _ & _ & D).
  split; [exact B'|].
  rewrite executed_app, handed_app, reports_app.
  rewrite (ractions_nil_executed _ Hl), (ractions_nil_handed _ Hl), (ractions_nil_reports _ Hl), !app_nil_r.
  unfold in_flight in *. rewrite Es.
  destruct D as [(E1 & _) | [(E0 & E1 & _) | (E0 & E1 & _)]].
  - rewrite E1. split; assumption.
  - rewrite E1. rewrite E0 in *. cbn in *. split; [assumption|]. intros X. destruct (A X). split; [assumption|exact I].
  - destruct B as [[B1 _] _]. rewrite (B1 E0) in *. rewrite E1. cbn in *. split; [assumption|].
    intros X. destruct (A X). split; [assumption|exact I].
Qed.

Lemma report_step : forall cf s tr t s' l,
  report_inv cf s tr -> step cf s t = (s', l) -> report_inv cf s' (tr ++ l).
Proof.
  intros cf s tr t s' l R H.
  destruct (step_elim _ _ _ _ _ H) as [(-> & -> & Hsk) | [(s1 & a & -> & Hr & [(-> & -> & Hnw) | (Hc & Ha & -> & ->)]) | [-> Hc]]].
  - apply report_add_silent; [reflexivity|exact R].
  - eapply report_runner; eauto.
  - apply report_ret. change [TR a; TRet 0 CStop OK] with ([TR a] ++ [TRet 0 CStop OK]).
    rewrite app_assoc. apply report_add_silent; [reflexivity|]. eapply report_runner; eauto.
  - eapply report_client; eauto.
Qed.

Lemma report_init : forall cf, report_inv cf (init_state cf) [].
Proof.
  intros cf. split; [apply base_init|]. split; [reflexivity|]. intros _. split; [constructor|exact I].
Qed.

(* C20_report: under EVERY schedule, the concatenation of the lists handed to after_execute followed by the
   steps of the cycle under way is exactly the sequence of macro steps executed on the runner thread (same
   order, each once); without execute_all every handed list has at most one element; once the runner
   thread has ended everything executed has been handed over. *)
Theorem C20_report : forall cf sched s tr,
  run_schedule cf sched = (s, tr) ->
  executed tr = handed tr ++ in_flight s /\
  (cf_all cf = false -> Forall (fun l => length l <= 1)%nat (reports tr)) /\
  (s_rpc s = PDone -> executed tr = handed tr).
Proof.
  intros cf sched s tr H.
  assert (R : report_inv cf s tr).
  { eapply (run_schedule_inv cf (report_inv cf)); [apply report_step|apply report_init|exact H]. }
  destruct R as (_ & E & A). split; [exact E|]. split.
  - intros X. apply (A X).
  - intros X. rewrite E. unfold in_flight. rewrite X. cbn. apply app_nil_r.
Qed.

(* ------------------------------------------------------------------------------------------ *)
(* C20_hooks                                                                                   *)
(* ------------------------------------------------------------------------------------------ *)
Definition run_hook (a : ract) : bool := is_before_run a || is_after_run a.
Definition no_run_hooks (m : list ract) : Prop := Forall (fun a => run_hook a = false) m.

Inductive phase := Ph0 | Ph1 | Ph2.
Definition phase_of (p : rpc) : phase :=
  match p with PNotStarted | PBeforeRun => Ph0 | PDone => Ph2 | _ => Ph1 end.

Definition hooks_shape (ph : phase) (l : list ract) : Prop :=
  match ph with
  | Ph0 => l = []
  | Ph1 => exists m, l = ABeforeRun :: m /\ no_run_hooks m
  | Ph2 => exists m, l = ABeforeRun :: m ++ [AAfterRun] /\ no_run_hooks m
  end.

Definition hooks_inv (s : state) (tr : list titem) : Prop :=
  base_inv s /\ hooks_shape (phase_of (s_rpc s)) (ractions tr).

Lemma hooks_runner : forall cf s s' a tr,
  step_runner cf s = Some (s', a) -> hooks_inv s tr -> hooks_inv s' (tr ++ [TR a]).
Proof.
  intros cf s s' a tr H [B S]. split; [eapply base_runner; eauto|].
  rewrite ractions_app. cbn [ractions].
  runner_cases H; cbn; unfold after_step; cbn;
    try match goal with |- context [if cf_all ?c then _ else _] => destruct (cf_all c); cbn end;
    cbn in S.
  all: try (destruct S as (m & -> & Hm)).
  all: try (rewrite S; exists []; split; [reflexivity|constructor]).
  all: try (eexists; split; [reflexivity|]; apply Forall_app; split; [exact Hm|constructor; [reflexivity|constructor]]).
  exists m. split; [reflexivity|exact Hm].
Qed.

Lemma hooks_silent : forall s tr l, ractions l = [] -> hooks_inv s tr -> hooks_inv s (tr ++ l).
Proof. intros s tr l Hl [B S]. split; [exact B|]. rewrite ractions_app, Hl, app_nil_r. exact S. Qed.

Lemma hooks_ret : forall c op o s tr, hooks_inv (ret c op o s) tr <-> hooks_inv s tr.
Proof. intros. unfold hooks_inv, base_inv, ret; cbn. tauto. Qed.

Lemma hooks_client : forall cf c s s' l tr,
  step_client cf c s = Some (s', l) -> hooks_inv s tr -> hooks_inv s' (tr ++ l).
Proof.
  intros cf c s s' l tr H [B S].
  pose proof (client_no_ract _ _ _ _ _ H) as Hl.
  split; [eapply base_client; eauto|]. rewrite ractions_app, Hl, app_nil_r.
  destruct (client_effect_step _ _ _ _ _ H) as (_ & _ & _ & _ & _ & [(E1 & _) | [(E0 & E1 & _) | (E0 & E1 & _)]]).
  - rewrite E1. exact S.
  - rewrite E1. rewrite E0 in S. exact S.
  - destruct B as [[B1 _] _]. rewrite (B1 E0) in S. rewrite E1. exact S.
Qed.

Lemma hooks_step : forall cf s tr t s' l, hooks_inv s tr -> step cf s t = (s', l) -> hooks_inv s' (tr ++ l).
Proof.
  intros cf s tr t s' l R H.
  destruct (step_elim _ _ _ _ _ H) as [(-> & -> & Hsk) | [(s1 & a & -> & Hr & [(-> & -> & Hnw) | (Hc & Ha & -> & ->)]) | [-> Hc]]].
  - apply hooks_silent; [reflexivity|exact R].
  - eapply hooks_runner; eauto.
  - apply hooks_ret. change [TR a; TRet 0 CStop OK] with ([TR a] ++ [TRet 0 CStop OK]).
    rewrite app_assoc. apply hooks_silent; [reflexivity|]. eapply hooks_runner; eauto.
  - eapply hooks_client; eauto.
Qed.

Lemma no_hooks_filter : forall m, no_run_hooks m ->
  filter is_before_run m = [] /\ filter is_after_run m = [] /\ ~ In AAfterRun m.
Proof.
  induction m as [|a m IH]; intros H; [repeat split; auto|].
  inv H. destruct (IH H3) as (F1 & F2 & F3). unfold run_hook in H2. apply orb_false_iff in H2. destruct H2 as [X Y].
  cbn. rewrite X, Y. repeat split; auto. intros [Z|Z]; [subst a; discriminate|auto].
Qed.

Lemma last_unique : forall (x : ract) m, ~ In x m -> forall pre post, pre ++ x :: post = m ++ [x] -> post = [].
Proof.
  intros x m; induction m as [|y m IH]; intros Hn pre post E.
  - destruct pre as [|p pre]; cbn in E; [inv E; reflexivity|].
    inv E. destruct pre; discriminate.
  - destruct pre as [|p pre]; cbn in E.
    + inv E. exfalso. apply Hn. left; reflexivity.
    + inv E. eapply IH; [|exact H1]. intros X; apply Hn; right; exact X.
Qed.

(* C20_hooks: under every schedule the runner thread's actions are: nothing (not started, or before_run
   not yet called) | before_run, then actions that are neither before_run nor after_run | the same followed
   by after_run as very last action, exactly when the thread has ended.  Hence before_run and after_run are
   called at most once, first and last, and exactly once each if the thread ends. *)
Theorem C20_hooks : forall cf sched s tr,
  run_schedule cf sched = (s, tr) ->
  (count_ract is_before_run tr <= 1)%nat /\ (count_ract is_after_run tr <= 1)%nat /\
  (forall a rest, ractions tr = a :: rest -> a = ABeforeRun) /\
  (forall pre post, ractions tr = pre ++ AAfterRun :: post -> post = [] /\ s_rpc s = PDone) /\
  (s_rpc s = PDone -> count_ract is_before_run tr = 1%nat /\ count_ract is_after_run tr = 1%nat).
Proof.
  intros cf sched s tr H.
  assert (R : hooks_inv s tr).
  { eapply (run_schedule_inv cf hooks_inv); [intros; eapply hooks_step; eauto| |exact H].
    split; [apply base_init|reflexivity]. }
  destruct R as [_ S]. unfold count_ract.
  destruct (phase_of (s_rpc s)) eqn:Eph; cbn in S.
  - rewrite S. cbn. split; [lia|]. split; [lia|]. split; [discriminate|]. split.
    + intros pre post E. destruct pre; discriminate.
    + intros X; rewrite X in Eph; discriminate.
  - destruct S as (m & -> & Hm). destruct (no_hooks_filter m Hm) as (F1 & F2 & F3).
    cbn. rewrite F1, F2. cbn. split; [lia|]. split; [lia|]. split; [|split].
    + intros a rest E. inv E. reflexivity.
    + intros pre post E. exfalso. destruct pre as [|p pre]; inv E. apply F3.
      apply in_or_app. right; left; reflexivity.
    + intros X. rewrite X in Eph; discriminate.
  - destruct S as (m & -> & Hm). destruct (no_hooks_filter m Hm) as (F1 & F2 & F3).
    cbn. rewrite !filter_app, F1, F2. cbn. split; [lia|]. split; [lia|]. split; [|split].
    + intros a rest E. inv E. reflexivity.
    + intros pre post E. destruct pre as [|p pre]; inv E. split; [eapply last_unique; eauto|].
      destruct (s_rpc s); try discriminate; reflexivity.
    + intros _. split; reflexivity.
Qed.

(* ------------------------------------------------------------------------------------------ *)
(* C20_pause                                                                                   *)
(* ------------------------------------------------------------------------------------------ *)
(* client actions that set the _unpaused flag: unpause(), and the set() inside start() and stop() *)
Definition sets_unp (it : titem) : bool :=
  match it with TC _ AUnpauseSet | TC _ AStartSet | TC _ AStopSetUnp => true | _ => false end.
Definition no_unp_set (l : list titem) : Prop := forallb (fun it => negb (sets_unp it)) l = true.

(* cycles the runner can still begin while _unpaused stays clear *)
Definition budget (s : state) : nat :=
  match s_rpc s with PTestFinal | PTestStop | PBeforeExec => 1 | _ => 0 end.

Lemma count_ract_app : forall p a b, count_ract p (a ++ b) = (count_ract p a + count_ract p b)%nat.
Proof. intros. unfold count_ract. rewrite ractions_app, filter_app, app_length. reflexivity. Qed.

Lemma no_unp_set_app : forall a b, no_unp_set (a ++ b) <-> no_unp_set a /\ no_unp_set b.
Proof. intros. unfold no_unp_set. rewrite forallb_app. apply andb_true_iff. Qed.

Lemma pause_runner : forall cf s s' a, step_runner cf s = Some (s', a) -> s_unp s = false ->
  s_unp s' = false /\ (count_ract is_before_exec [TR a] + budget s' <= budget s)%nat.
Proof.
  intros cf s s' a H U. unfold budget, count_ract.
  runner_cases H; rewrite ?Epc; cbn; unfold after_step; cbn;
    try match goal with |- context [if cf_all ?c then _ else _] => destruct (cf_all c); cbn end;
    try congruence; split; try assumption; try lia.
Qed.

Lemma pause_client : forall cf c s s' l, step_client cf c s = Some (s', l) -> s_unp s = false ->
  no_unp_set l -> s_unp s' = false /\ (count_ract is_before_exec l + budget s' <= budget s)%nat.
Proof.
  intros cf c s s' l H U N. unfold budget, count_ract, no_unp_set in *.
  client_cases H; cbn in N; try discriminate; cbn; split; try assumption; try reflexivity; try lia.
Qed.

Lemma pause_step : forall cf s t s' l, step cf s t = (s', l) -> s_unp s = false -> no_unp_set l ->
  s_unp s' = false /\ (count_ract is_before_exec l + budget s' <= budget s)%nat.
Proof.
  intros cf s t s' l H U N.
  destruct (step_elim _ _ _ _ _ H) as [(-> & -> & Hsk) | [(s1 & a & -> & Hr & [(-> & -> & Hnw) | (Hc & Ha & -> & ->)]) | [-> Hc]]].
  - split; [exact U|]. cbn. lia.
  - eapply pause_runner; eauto.
  - destruct (pause_runner _ _ _ _ Hr U) as [U1 C1]. split; [exact U1|].
    unfold budget, ret in *; cbn in *. exact C1.
  - eapply pause_client; eauto.
Qed.

Lemma pause_run : forall cf sched s s' l, s_unp s = false -> run_from cf s sched = (s', l) ->
  no_unp_set l -> (count_ract is_before_exec l + budget s' <= budget s)%nat.
Proof.
  induction sched as [|t sched IH]; intros s s' l U H N; cbn [run_from] in H.
  - inv H. cbn. lia.
  - destruct (step cf s t) as [s1 l1] eqn:Es. destruct (run_from cf s1 sched) as [s2 l2] eqn:Er. inv H.
    apply no_unp_set_app in N. destruct N as [N1 N2].
    destruct (pause_step _ _ _ _ _ Es U N1) as [U1 C1].
    pose proof (IH _ _ _ U1 Er N2) as C2. rewrite count_ract_app. lia.
Qed.

Lemma step_nonempty : forall cf s t s' l, step cf s t = (s', l) -> l <> [].
Proof.
  intros cf s t s' l H.
  destruct (step_elim _ _ _ _ _ H) as [(-> & -> & Hsk) | [(s1 & a & -> & Hr & [(-> & -> & Hnw) | (Hc & Ha & -> & ->)]) | [-> Hc]]];
    try discriminate.
  client_cases Hc; discriminate.
Qed.

Lemma step_last_pause : forall cf s t s' l d, step cf s t = (s', l) ->
  last l d = TRet O CPause OK -> s_unp s' = false.
Proof.
  intros cf s t s' l d H L.
  destruct (step_elim _ _ _ _ _ H) as [(-> & -> & Hsk) | [(s1 & a & -> & Hr & [(-> & -> & Hnw) | (Hc & Ha & -> & ->)]) | [-> Hc]]];
    cbn in L; try discriminate.
  client_cases Hc; cbn in L; try discriminate. reflexivity.
Qed.

Lemma last_app_nonempty : forall (A : Type) (a b : list A) d, b <> [] -> last (a ++ b) d = last b d.
Proof.
  intros A a b d Hb. induction a as [|x a IH]; [reflexivity|].
  cbn [app]. destruct (a ++ b) eqn:E.
  - destruct a; [cbn in E; contradiction|discriminate].
  - rewrite <- IH. reflexivity.
Qed.

(* the last item of a run's trace was emitted by its last step *)
Lemma run_from_last : forall cf sched s s' l x,
  run_from cf s sched = (s', l ++ [x]) ->
  exists sched0 t s0 l0 l1, sched = sched0 ++ [t] /\ run_from cf s sched0 = (s0, l0) /\
    step cf s0 t = (s', l1) /\ l ++ [x] = l0 ++ l1 /\ last l1 x = x.
Proof.
  intros cf sched. induction sched as [|t sched0 _] using rev_ind; intros s s' l x H.
  - cbn in H. inv H. destruct l; discriminate.
  - rewrite run_from_app in H. destruct (run_from cf s sched0) as [s0 l0] eqn:E0.
    cbn [run_from] in H. destruct (step cf s0 t) as [s1 l1] eqn:Es. inv H. rewrite app_nil_r in H2.
    pose proof (step_nonempty _ _ _ _ _ Es) as Hn.
    exists sched0, t, s0, l0, l1. split; [reflexivity|]. split; [exact E0|]. split; [exact Es|].
    split; [rewrite ?app_nil_r; first [reflexivity | symmetry; exact H2]|].
    rewrite <- (last_app_nonempty _ l0 l1 x Hn). rewrite H2. apply last_last.
Qed.

(* C20_pause: take any point of any run at which pause() has just returned; however the schedule goes on,
   as long as no unpause() / stop() / start() sets the flag again, the runner begins at most ONE more
   cycle (before_execute) -- the one that was already under way or already released. *)
Theorem C20_pause : forall cf sched1 s1 tr0 sched2 s2 mid,
  run_schedule cf sched1 = (s1, tr0 ++ [TRet O CPause OK]) ->
  run_from cf s1 sched2 = (s2, mid) ->
  no_unp_set mid ->
  (count_ract is_before_exec mid <= 1)%nat.
Proof.
  intros cf sched1 s1 tr0 sched2 s2 mid H1 H2 N.
  destruct (run_from_last _ _ _ _ _ _ H1) as (sched0 & t & s0 & l0 & l1 & _ & _ & Hs & _ & L).
  pose proof (step_last_pause _ _ _ _ _ _ Hs L) as U.
  pose proof (pause_run _ _ _ _ _ U H2 N) as C.
  assert (budget s1 <= 1)%nat by (unfold budget; destruct (s_rpc s1); lia). lia.
Qed.

(* ------------------------------------------------------------------------------------------ *)
(* the _stop flag is never cleared                                                             *)
(* ------------------------------------------------------------------------------------------ *)
Lemma stop_mono_runner : forall cf s s' a, step_runner cf s = Some (s', a) -> s_stop s = true -> s_stop s' = true.
Proof.
  intros cf s s' a H U. runner_cases H; cbn; unfold after_step; cbn; auto.
Qed.

Lemma stop_mono_client : forall cf c s s' l, step_client cf c s = Some (s', l) -> s_stop s = true -> s_stop s' = true.
Proof.
  intros cf c s s' l H U. client_cases H; cbn; unfold do_unp_set; cbn;
    try match goal with |- context [match s_rpc ?x with _ => _ end] => destruct (s_rpc x) end; cbn; auto.
Qed.

Lemma stop_mono_step : forall cf s t s' l, step cf s t = (s', l) -> s_stop s = true -> s_stop s' = true.
Proof.
  intros cf s t s' l H U.
  destruct (step_elim _ _ _ _ _ H) as [(-> & -> & Hsk) | [(s1 & a & -> & Hr & [(-> & -> & Hnw) | (Hc & Ha & -> & ->)]) | [-> Hc]]].
  - exact U.
  - eapply stop_mono_runner; eauto.
  - cbn. eapply stop_mono_runner; eauto.
  - eapply stop_mono_client; eauto.
Qed.

Lemma stop_mono_run : forall cf sched s s' l, run_from cf s sched = (s', l) -> s_stop s = true -> s_stop s' = true.
Proof.
  induction sched as [|t sched IH]; intros s s' l H U; cbn [run_from] in H.
  - inv H. exact U.
  - destruct (step cf s t) as [s1 l1] eqn:Es. destruct (run_from cf s1 sched) as [s2 l2] eqn:Er. inv H.
    eapply IH; [exact Er|]. eapply stop_mono_step; eauto.
Qed.

Lemma base_run : forall cf sched s s' l, run_from cf s sched = (s', l) -> base_inv s -> base_inv s'.
Proof.
  induction sched as [|t sched IH]; intros s s' l H U; cbn [run_from] in H.
  - inv H. exact U.
  - destruct (step cf s t) as [s1 l1] eqn:Es. destruct (run_from cf s1 sched) as [s2 l2] eqn:Er. inv H.
    eapply IH; [exact Er|]. eapply base_step; eauto.
Qed.

Lemma base_reach : forall cf sched s tr, run_schedule cf sched = (s, tr) -> base_inv s.
Proof. intros cf sched s tr H. eapply base_run; [exact H|apply base_init]. Qed.

(* ------------------------------------------------------------------------------------------ *)
(* C20_final                                                                                   *)
(* ------------------------------------------------------------------------------------------ *)
(* the exit path of _run: after the loop, _stop.set(), after_run, end of thread *)
Definition exit_step_spec (s s' : state) (l : list titem) : Prop :=
  match s_rpc s with
  | PStopSet => (ractions l = [] /\ s_rpc s' = PStopSet) \/
                (ractions l = [AStopSet] /\ s_rpc s' = PAfterRun /\ s_stop s' = true)
  | PAfterRun => s_stop s = true ->
                (ractions l = [] /\ s_rpc s' = PAfterRun /\ s_stop s' = true) \/
                (ractions l = [AAfterRun] /\ s_rpc s' = PDone /\ s_stop s' = true)
  | PDone => s_stop s = true -> ractions l = [] /\ s_rpc s' = PDone /\ s_stop s' = true
  | _ => True
  end.

Lemma client_keeps_rpc : forall cf c s s' l, step_client cf c s = Some (s', l) -> base_inv s ->
  s_rpc s <> PWaiting -> s_rpc s <> PNotStarted -> s_rpc s' = s_rpc s.
Proof.
  intros cf c s s' l H [[B1 B1'] _] N1 N2.
  destruct (client_effect_step _ _ _ _ _ H) as (_ & _ & _ & _ & _ & [(E1 & _) | [(E0 & _) | (E0 & _)]]).
  - exact E1.
  - contradiction.
  - apply B1 in E0. contradiction.
Qed.

Lemma exit_step : forall cf s t s' l, base_inv s -> step cf s t = (s', l) -> exit_step_spec s s' l.
Proof.
  intros cf s t s' l B H. unfold exit_step_spec.
  destruct (step_elim _ _ _ _ _ H) as [(-> & -> & Hsk) | [(s1 & a & -> & Hr & [(-> & -> & Hnw) | (Hc & Ha & -> & ->)]) | [-> Hc]]].
  - destruct (s_rpc s); auto.
  - runner_cases Hr; cbn; auto.
  - runner_cases Hr; cbn; auto.
  - pose proof (client_no_ract _ _ _ _ _ Hc) as Hl.
    destruct (s_rpc s) eqn:Epc; auto.
    + left. split; [exact Hl|]. rewrite <- Epc. eapply client_keeps_rpc; eauto; rewrite Epc; discriminate.
    + intros U. left. split; [exact Hl|]. split; [|eapply stop_mono_client; eauto].
      rewrite <- Epc. eapply client_keeps_rpc; eauto; rewrite Epc; discriminate.
    + intros U. split; [exact Hl|]. split; [|eapply stop_mono_client; eauto].
      rewrite <- Epc. eapply client_keeps_rpc; eauto; rewrite Epc; discriminate.
Qed.

Lemma exit_run_done : forall cf sched s s' l, base_inv s -> run_from cf s sched = (s', l) ->
  s_rpc s = PDone -> s_stop s = true -> ractions l = [] /\ s_rpc s' = PDone /\ s_stop s' = true.
Proof.
  induction sched as [|t sched IH]; intros s s' l B H P U; cbn [run_from] in H.
  - inv H. auto.
  - destruct (step cf s t) as [s1 l1] eqn:Es. destruct (run_from cf s1 sched) as [s2 l2] eqn:Er. inv H.
    pose proof (exit_step _ _ _ _ _ B Es) as X. unfold exit_step_spec in X. rewrite P in X.
    destruct (X U) as (X1 & X2 & X3).
    destruct (IH _ _ _ (base_step _ _ _ _ _ Es B) Er X2 X3) as (Y1 & Y2 & Y3).
    rewrite ractions_app, X1, Y1. auto.
Qed.

Lemma exit_run_afterrun : forall cf sched s s' l, base_inv s -> run_from cf s sched = (s', l) ->
  s_rpc s = PAfterRun -> s_stop s = true ->
  (ractions l = [] \/ ractions l = [AAfterRun]) /\ s_stop s' = true.
Proof.
  induction sched as [|t sched IH]; intros s s' l B H P U; cbn [run_from] in H.
  - inv H. auto.
  - destruct (step cf s t) as [s1 l1] eqn:Es. destruct (run_from cf s1 sched) as [s2 l2] eqn:Er. inv H.
    pose proof (exit_step _ _ _ _ _ B Es) as X. unfold exit_step_spec in X. rewrite P in X.
    pose proof (base_step _ _ _ _ _ Es B) as B1. rewrite ractions_app.
    destruct (X U) as [(X1 & X2 & X3) | (X1 & X2 & X3)].
    + destruct (IH _ _ _ B1 Er X2 X3) as (Y1 & Y2). rewrite X1. auto.
    + destruct (exit_run_done _ _ _ _ _ B1 Er X2 X3) as (Y1 & Y2 & Y3). rewrite X1, Y1. auto.
Qed.

Lemma exit_run_stopset : forall cf sched s s' l, base_inv s -> run_from cf s sched = (s', l) ->
  s_rpc s = PStopSet ->
  (ractions l = [] \/ ractions l = [AStopSet] \/ ractions l = [AStopSet; AAfterRun]) /\
  (ractions l <> [] -> s_stop s' = true).
Proof.
  induction sched as [|t sched IH]; intros s s' l B H P; cbn [run_from] in H.
  - inv H. split; [auto|]. intros X; contradiction.
  - destruct (step cf s t) as [s1 l1] eqn:Es. destruct (run_from cf s1 sched) as [s2 l2] eqn:Er. inv H.
    pose proof (exit_step _ _ _ _ _ B Es) as X. unfold exit_step_spec in X. rewrite P in X.
    pose proof (base_step _ _ _ _ _ Es B) as B1. rewrite ractions_app.
    destruct X as [(X1 & X2) | (X1 & X2 & X3)].
    + destruct (IH _ _ _ B1 Er X2) as (Y1 & Y2). rewrite X1. auto.
    + destruct (exit_run_afterrun _ _ _ _ _ B1 Er X2 X3) as ([Y1|Y1] & Y2); rewrite X1, Y1; cbn; auto.
Qed.

Lemma step_last_testfinal : forall cf s t s' l d, step cf s t = (s', l) ->
  last l d = TR (ATestFinal true) -> s_rpc s' = PStopSet /\ s_fin s = true.
Proof.
  intros cf s t s' l d H L.
  destruct (step_elim _ _ _ _ _ H) as [(-> & -> & Hsk) | [(s1 & a & -> & Hr & [(-> & -> & Hnw) | (Hc & Ha & -> & ->)]) | [-> Hc]]];
    cbn in L; try discriminate.
  - inv L. runner_cases Hr. cbn. auto.
  - client_cases Hc; cbn in L; discriminate.
Qed.

(* C20_final: take any point of any run at which the loop condition has just been evaluated with
   interpreter.final true.  However the schedule goes on, the only further actions of the runner thread
   are _stop.set() and after_run (in this order): no further cycle, the loop is left, _stop is set. *)
Theorem C20_final : forall cf sched1 s1 tr0 sched2 s2 l,
  run_schedule cf sched1 = (s1, tr0 ++ [TR (ATestFinal true)]) ->
  run_from cf s1 sched2 = (s2, l) ->
  (ractions l = [] \/ ractions l = [AStopSet] \/ ractions l = [AStopSet; AAfterRun]) /\
  (ractions l <> [] -> s_stop s2 = true).
Proof.
  intros cf sched1 s1 tr0 sched2 s2 l H1 H2.
  destruct (run_from_last _ _ _ _ _ _ H1) as (sched0 & t & s0 & l0 & l1 & _ & _ & Hs & _ & L).
  destruct (step_last_testfinal _ _ _ _ _ _ Hs L) as [P _].
  eapply exit_run_stopset; eauto. eapply base_reach; eauto.
Qed.

(* what `interpreter.final` means in terms of the executed macro steps *)
Definition makes_final (cf : config) (m : mstep) : bool :=
  match m with
  | MInit => match cf_chart cf with ChInitFinal => true | _ => false end
  | MEv e _ => becomes_final cf e
  end.
Definition final_of (cf : config) (ms : list mstep) : bool := existsb (makes_final cf) ms.

Definition fin_inv (cf : config) (s : state) (tr : list titem) : Prop :=
  (s_init s = false -> executed tr = []) /\ s_fin s = final_of cf (executed tr) /\
  (s_rpc s = PExPop -> s_init s = true).

Lemma fin_runner : forall cf s s' a tr,
  step_runner cf s = Some (s', a) -> fin_inv cf s tr -> fin_inv cf s' (tr ++ [TR a]).
Proof.
  intros cf s s' a tr H (F1 & F2 & F3). unfold fin_inv, final_of in *. rewrite executed_app.
  runner_cases H; cbn; unfold after_step; cbn; rewrite ?app_nil_r;
    try match goal with |- context [if cf_all ?c then _ else _] => destruct (cf_all c); cbn end;
    try (split; [assumption | split; [congruence | discriminate]]).
  all: try (apply negb_true_iff in Eb; rewrite (F1 Eb); cbn; split; [discriminate|split; [|discriminate]];
            destruct (cf_chart cf); reflexivity).
  all: try (apply negb_false_iff in Eb; split; [assumption|split; [assumption|intros _; exact Eb]]).
  all: (split; [intros X; rewrite (F3 eq_refl) in X; discriminate|]);
       (split; [|discriminate]); rewrite existsb_app; cbn; rewrite F2, orb_false_r; reflexivity.
Qed.

Lemma fin_silent : forall cf s tr l, ractions l = [] -> fin_inv cf s tr -> fin_inv cf s (tr ++ l).
Proof.
  intros cf s tr l Hl F. unfold fin_inv in *. rewrite executed_app, (ractions_nil_executed _ Hl), app_nil_r. exact F.
Qed.

Lemma fin_client : forall cf c s s' l tr,
  step_client cf c s = Some (s', l) -> fin_inv cf s tr -> fin_inv cf s' (tr ++ l).
Proof.
  intros cf c s s' l tr H (F1 & F2 & F3).
  pose proof (client_no_ract _ _ _ _ _ H) as Hl.
  destruct (client_effect_step _ _ _ _ _ H) as (_ & _ & Ei & Ef & _ & D).
  unfold fin_inv. rewrite executed_app, (ractions_nil_executed _ Hl), app_nil_r, Ei, Ef.
  split; [assumption|split; [assumption|]].
  destruct D as [(E1 & _) | [(E0 & E1 & _) | (E0 & E1 & _)]]; rewrite E1; try discriminate. exact F3.
Qed.

Lemma fin_step : forall cf s tr t s' l, fin_inv cf s tr -> step cf s t = (s', l) -> fin_inv cf s' (tr ++ l).
Proof.
  intros cf s tr t s' l R H.
  destruct (step_elim _ _ _ _ _ H) as [(-> & -> & Hsk) | [(s1 & a & -> & Hr & [(-> & -> & Hnw) | (Hc & Ha & -> & ->)]) | [-> Hc]]].
  - apply fin_silent; [reflexivity|exact R].
  - eapply fin_runner; eauto.
  - change [TR a; TRet 0 CStop OK] with ([TR a] ++ [TRet 0 CStop OK]). rewrite app_assoc.
    apply (fin_silent cf (ret 0 CStop OK s1)); [reflexivity|].
    pose proof (fin_runner _ _ _ _ _ Hr R) as X. exact X.
  - eapply fin_client; eauto.
Qed.

(* interpreter.final, as read by the runner, is true exactly when one of the executed macro steps made
   the statechart final (initialisation into a top-level final state, or 'fin' consumed) *)
Theorem C20_final_meaning : forall cf sched s tr,
  run_schedule cf sched = (s, tr) -> s_fin s = final_of cf (executed tr).
Proof.
  intros cf sched s tr H.
  assert (R : fin_inv cf s tr).
  { eapply (run_schedule_inv cf (fin_inv cf)); [apply fin_step| |exact H].
    split; [reflexivity|split; [reflexivity|discriminate]]. }
  apply R.
Qed.

Theorem C20_final_test : forall cf sched s tr0 b,
  run_schedule cf sched = (s, tr0 ++ [TR (ATestFinal b)]) -> b = final_of cf (executed tr0).
Proof.
  intros cf sched s tr0 b H.
  destruct (run_from_last _ _ _ _ _ _ H) as (sched0 & t & s0 & l0 & l1 & _ & H0 & Hs & E & L).
  pose proof (C20_final_meaning cf sched0 s0 l0 H0) as M.
  destruct (step_elim _ _ _ _ _ Hs) as [(-> & -> & Hsk) | [(s1 & a & -> & Hr & [(-> & -> & Hnw) | (Hc & Ha & -> & ->)]) | [-> Hc]]];
    cbn in L; try discriminate.
  - inv L. apply app_inj_tail in E. destruct E as [-> _].
    runner_cases Hr; rewrite <- M; congruence.
  - client_cases Hc; cbn in L; discriminate.
Qed.

(* ------------------------------------------------------------------------------------------ *)
(* C20_stop: bounded termination of the runner thread once _stop is set                        *)
(* ------------------------------------------------------------------------------------------ *)
Definition is_queue (op : call) : bool := match op with CQueue _ => true | _ => false end.
Definition count_queue (l : list call) : nat := length (filter is_queue l).

(* insertions into the queue the client script can still perform *)
Definition pend_ins (cf : config) (s : state) : nat :=
  match s_script s with
  | [] => 0
  | op :: rest =>
      (match op, s_cpc s with
       | CQueue _, CQ1 _ _ => if cf_atomic cf then 0 else 1
       | CQueue _, _ => 1
       | _, _ => 0
       end + count_queue rest)%nat
  end.

(* with execute_all the inner loop of execute() runs once per consumable event: potential *)
Definition phi (cf : config) (s : state) : nat :=
  if cf_all cf then (length (s_queue s) + 2 * pend_ins cf s + (if s_init s then 0 else 1))%nat else 0%nat.

Definition pop_bump (cf : config) (s : state) : nat :=
  if cf_all cf then match due_head s with None => 3 | Some _ => 0 end else 0%nat.

(* upper bound on the number of actions the runner thread can still perform once _stop is set *)
Definition mu (cf : config) (s : state) : nat :=
  match s_rpc s with
  | PDone => 0 | PAfterRun => 1 | PStopSet => 2 | PTestStop => 3 | PTestFinal => 4 | PWaiting => 4
  | PWait => 5 | PAfterExec => 6 | PBeforeRun => 7 | PNotStarted => 7
  | PExPop => 3 * phi cf s + 7 + pop_bump cf s
  | PExPeek => 3 * phi cf s + 8
  | PExTime => 3 * phi cf s + 9
  | PBeforeExec => 3 * phi cf s + 10
  end%nat.

Lemma due_head_some_queue : forall s e, due_head s = Some e -> exists k rest, s_queue s = (k, e) :: rest.
Proof.
  intros s e H. unfold due_head in H. destruct (s_queue s) as [|[k e0] rest]; [discriminate|].
  destruct (Z.leb k (s_itime s)); [|discriminate]. inv H. eauto.
Qed.

Lemma mu_runner : forall cf s s' a, step_runner cf s = Some (s', a) -> s_stop s = true ->
  (S (mu cf s') <= mu cf s)%nat.
Proof.
  intros cf s s' a H U. unfold mu.
  runner_cases H; rewrite ?Epc; cbn [s_rpc set_rpc set_steps set_itime set_init set_fin set_pend set_queue
                                      set_stop set_alive after_step];
    try congruence; try lia.
  all: unfold phi, pop_bump, pend_ins, due_head in *;
       cbn [s_rpc s_queue s_init s_script s_cpc s_itime set_rpc set_steps set_itime set_init set_fin set_pend
            set_queue set_stop set_alive after_step] in *.
  all: destruct (cf_all cf) eqn:Eall; cbn; try lia.
  all: try (apply negb_true_iff in Eb; rewrite Eb; lia).
  all: try (destruct (s_queue s) as [|[k0 e1] q]; [discriminate|]; cbn in *;
            destruct (Z.leb k0 (s_itime s)); try discriminate; cbn; lia).
  all: try (destruct (s_queue s) as [|[k0 e1] q]; cbn in *; [lia|]; destruct (Z.leb k0 (s_itime s)); try discriminate; lia).
Qed.

Lemma insert_at_length : forall (A : Type) i (x : A) l, length (insert_at i x l) = S (length l).
Proof.
  intros A i x l. unfold insert_at. rewrite app_length. cbn [length].
  rewrite <- (firstn_skipn i l) at 3. rewrite app_length. lia.
Qed.

Lemma pend_ins_C0 : forall cf s, s_cpc s = C0 -> pend_ins cf s = count_queue (s_script s).
Proof.
  intros cf s H. unfold pend_ins, count_queue. rewrite H.
  destruct (s_script s) as [|op rest]; [reflexivity|]. destruct op; reflexivity.
Qed.

Lemma head_count : forall rest,
  match rest with
  | [] => 0%nat
  | op :: r => (match op with CQueue _ => 1 | _ => 0 end + count_queue r)%nat
  end = count_queue rest.
Proof. intros [|o r]; [reflexivity|]. destruct o; reflexivity. Qed.

(* effect of a client step on the queue and on the number of insertions still to come *)
Lemma client_queue_effect : forall cf c s s' l, step_client cf c s = Some (s', l) ->
  s_itime s' = s_itime s /\ s_init s' = s_init s /\
  ((s_queue s' = s_queue s /\ pend_ins cf s' = pend_ins cf s) \/
   (length (s_queue s') = S (length (s_queue s)) /\ S (pend_ins cf s') = pend_ins cf s)).
Proof.
  intros cf c s s' l H.
  client_cases H; cbn -[insert_at bisect_right]; unfold do_unp_set;
    try match goal with |- context [match s_rpc ?x with _ => _ end] => destruct (s_rpc x) end;
    cbn -[insert_at bisect_right];
    (split; [reflexivity|]); (split; [reflexivity|]).
  all: unfold pend_ins, ret; cbn -[insert_at bisect_right]; rewrite ?Escr, ?Ecpc; cbn -[insert_at bisect_right];
       rewrite ?insert_at_length, ?head_count, ?Eb.
  all: first [ left; split; reflexivity | right; split; reflexivity ].
Qed.

Lemma mu_client : forall cf c s s' l, step_client cf c s = Some (s', l) -> base_inv s ->
  (mu cf s' <= mu cf s)%nat.
Proof.
  intros cf c s s' l H [[B1 _] _].
  destruct (client_queue_effect _ _ _ _ _ H) as (Et & Ei & Q).
  destruct (client_effect_step _ _ _ _ _ H) as (_ & _ & _ & _ & _ & [(E1 & _) | [(E0 & E1 & _) | (E0 & E1 & _)]]).
  - unfold mu. rewrite E1. unfold phi, pop_bump, due_head. rewrite Et, Ei.
    destruct Q as [[Q1 Q2] | [Q1 Q2]].
    + rewrite Q1, Q2. lia.
    + rewrite Q1, <- Q2. destruct (cf_all cf); [|destruct (s_rpc s); lia].
      destruct (s_rpc s); try lia.
      destruct (s_queue s') as [|[k' e'] q']; destruct (s_queue s) as [|[k e] q];
        try destruct (Z.leb k' (s_itime s)); try destruct (Z.leb k (s_itime s)); cbn [length] in *; lia.
  - unfold mu. rewrite E1, E0. lia.
  - unfold mu. rewrite E1, (B1 E0). lia.
Qed.

Lemma mu_step : forall cf s t s' l, step cf s t = (s', l) -> base_inv s -> s_stop s = true ->
  (length (ractions l) + mu cf s' <= mu cf s)%nat.
Proof.
  intros cf s t s' l H B U.
  destruct (step_elim _ _ _ _ _ H) as [(-> & -> & Hsk) | [(s1 & a & -> & Hr & [(-> & -> & Hnw) | (Hc & Ha & -> & ->)]) | [-> Hc]]].
  - cbn. lia.
  - pose proof (mu_runner _ _ _ _ Hr U). cbn. lia.
  - pose proof (mu_runner _ _ _ _ Hr U) as M. cbn [ractions length].
    assert (E : mu cf (ret 0 CStop OK s1) = mu cf s1).
    { pose proof (base_runner _ _ _ _ Hr B) as [_ B2]. rewrite Ha in B2.
      unfold mu, ret; cbn. destruct (s_rpc s1); try discriminate; reflexivity. }
    rewrite E. lia.
  - rewrite (client_no_ract _ _ _ _ _ Hc). pose proof (mu_client _ _ _ _ _ Hc B). cbn. lia.
Qed.

(* C20_stop (bound): from any state in which _stop is set, under EVERY continuation of the schedule, the
   runner thread performs at most mu actions of its own (execute_once = 3 atomic actions); mu <= 10 without
   execute_all, and <= 10 + 3 * (events in the queue + 2 * insertions the script can still make + 1) with it. *)
Theorem C20_stop_bound : forall cf sched s s' l,
  base_inv s -> s_stop s = true -> run_from cf s sched = (s', l) ->
  (length (ractions l) + mu cf s' <= mu cf s)%nat.
Proof.
  intros cf sched. induction sched as [|t sched IH]; intros s s' l B U H; cbn [run_from] in H.
  - inv H. cbn. lia.
  - destruct (step cf s t) as [s1 l1] eqn:Es. destruct (run_from cf s1 sched) as [s2 l2] eqn:Er. inv H.
    pose proof (mu_step _ _ _ _ _ Es B U) as M1.
    pose proof (IH _ _ _ (base_step _ _ _ _ _ Es B) (stop_mono_step _ _ _ _ _ Es U) Er) as M2.
    rewrite ractions_app, app_length. lia.
Qed.

Lemma mu_le : forall cf s, (mu cf s <= 10 + 3 * phi cf s + 3)%nat.
Proof.
  intros cf s. unfold mu, pop_bump. destruct (s_rpc s); try lia.
  destruct (cf_all cf); [destruct (due_head s)|]; lia.
Qed.

Lemma mu_le_noall : forall cf s, cf_all cf = false -> (mu cf s <= 10)%nat.
Proof.
  intros cf s H. unfold mu, pop_bump, phi. rewrite H. destruct (s_rpc s); lia.
Qed.

(* ------------------------------------------------------------------------------------------ *)
(* C20_stop: the client inside stop(); nothing after stop() returned; stop() returns            *)
(* ------------------------------------------------------------------------------------------ *)
Definition in_stop (p : cpc) : bool := match p with CStop1 | CStop2 | CStop3 | CJoining => true | _ => false end.
Definition in_stop2 (p : cpc) : bool := match p with CStop2 | CStop3 | CJoining => true | _ => false end.
Definition in_start (p : cpc) : bool := match p with CStart1 | CStart2 | CStart3 => true | _ => false end.

Definition stop_inv (s : state) : Prop :=
  (in_stop (s_cpc s) = true -> s_stop s = true) /\
  (in_stop2 (s_cpc s) = true -> s_unp s = true /\ s_rpc s <> PWaiting) /\
  (s_cpc s = CJoining -> s_alive s = true) /\
  (s_rpc s = PNotStarted -> s_stop s = true -> in_start (s_cpc s) = false).

Lemma stop_inv_runner : forall cf s s' a, step_runner cf s = Some (s', a) -> stop_inv s ->
  (s_cpc s' = CJoining -> s_alive s' = true) -> stop_inv s'.
Proof.
  intros cf s s' a H (S1 & S2 & S3 & S4) Hnw. unfold stop_inv.
  split; [|split; [|split; [exact Hnw|]]].
  - intros X. eapply stop_mono_runner; [exact H|]. apply S1.
    runner_cases H; cbn in X; unfold after_step in X; cbn in X; exact X.
  - intros X. assert (X0 : in_stop2 (s_cpc s) = true)
      by (runner_cases H; cbn in X; unfold after_step in X; cbn in X; exact X).
    destruct (S2 X0) as [U N].
    runner_cases H; cbn; unfold after_step; cbn;
      try match goal with |- context [if cf_all ?c then _ else _] => destruct (cf_all c); cbn end;
      try congruence; split; try assumption; discriminate.
  - runner_cases H; cbn; unfold after_step; cbn;
      try match goal with |- context [if cf_all ?c then _ else _] => destruct (cf_all c); cbn end;
      discriminate.
Qed.

Lemma stop_inv_client : forall cf c s s' l, step_client cf c s = Some (s', l) -> stop_inv s -> stop_inv s'.
Proof.
  intros cf c s s' l H (S1 & S2 & S3 & S4). unfold stop_inv.
  client_cases H; rewrite ?Ecpc in *; cbn in *; unfold do_unp_set; cbn;
    try match goal with |- context [match s_rpc ?x with _ => _ end] => destruct (s_rpc x) eqn:Epc end; cbn;
    repeat split; intros; try discriminate; try congruence; auto;
    try (apply S2; reflexivity); try (apply S4; assumption).
Qed.

Lemma stop_inv_step : forall cf s t s' l, step cf s t = (s', l) -> stop_inv s -> stop_inv s'.
Proof.
  intros cf s t s' l H S.
  destruct (step_elim _ _ _ _ _ H) as [(-> & -> & Hsk) | [(s1 & a & -> & Hr & [(-> & -> & Hnw) | (Hc & Ha & -> & ->)]) | [-> Hc]]].
  - exact S.
  - eapply stop_inv_runner; eauto.
  - (* the joining client is released: it is back at C0 *)
    destruct S as (S1 & S2 & S3 & S4). unfold stop_inv, ret; cbn.
    repeat split; intros; try discriminate; try reflexivity.
  - eapply stop_inv_client; eauto.
Qed.

Lemma stop_inv_init : forall cf, stop_inv (init_state cf).
Proof. intros cf. unfold stop_inv; cbn. repeat split; intros; discriminate. Qed.

Lemma stop_inv_run : forall cf sched s s' l, run_from cf s sched = (s', l) -> stop_inv s -> stop_inv s'.
Proof.
  induction sched as [|t sched IH]; intros s s' l H U; cbn [run_from] in H.
  - inv H. exact U.
  - destruct (step cf s t) as [s1 l1] eqn:Es. destruct (run_from cf s1 sched) as [s2 l2] eqn:Er. inv H.
    eapply IH; [exact Er|]. eapply stop_inv_step; eauto.
Qed.

(* after stop() has returned: _stop is set and the runner thread is not running (ended or never started);
   this state is stable and no runner action is possible in it *)
Definition stopped (s : state) : Prop :=
  base_inv s /\ stop_inv s /\ s_stop s = true /\ rpc_dead (s_rpc s) = true.

Lemma stopped_step : forall cf s t s' l, step cf s t = (s', l) -> stopped s -> stopped s' /\ ractions l = [].
Proof.
  intros cf s t s' l H (B & S & U & D).
  destruct (step_elim _ _ _ _ _ H) as [(-> & -> & Hsk) | [(s1 & a & -> & Hr & _) | [-> Hc]]].
  - split; [unfold stopped; auto|reflexivity].
  - exfalso. unfold step_runner in Hr. destruct (s_rpc s); try discriminate.
  - split; [|eapply client_no_ract; eauto].
    split; [eapply base_client; eauto|]. split; [eapply stop_inv_client; eauto|].
    split; [eapply stop_mono_client; eauto|].
    destruct (client_effect_step _ _ _ _ _ Hc) as (_ & _ & _ & _ & _ & [(E1 & _) | [(E0 & E1 & _) | (E0 & E1 & _ & _ & E4)]]).
    + rewrite E1. exact D.
    + rewrite E0 in D. discriminate.
    + exfalso. destruct B as [[B1 _] _]. destruct S as (_ & _ & _ & S4).
      pose proof (S4 (B1 E0) U) as X. rewrite E4 in X. discriminate.
Qed.

Lemma stopped_run : forall cf sched s s' l, run_from cf s sched = (s', l) -> stopped s -> ractions l = [].
Proof.
  induction sched as [|t sched IH]; intros s s' l H Q; cbn [run_from] in H.
  - inv H. reflexivity.
  - destruct (step cf s t) as [s1 l1] eqn:Es. destruct (run_from cf s1 sched) as [s2 l2] eqn:Er. inv H.
    destruct (stopped_step _ _ _ _ _ Es Q) as [Q1 R1]. rewrite ractions_app, R1. cbn. eapply IH; eauto.
Qed.

Lemma step_last_stopret : forall cf s t s' l d, step cf s t = (s', l) -> base_inv s -> stop_inv s ->
  last l d = TRet O CStop OK -> stopped s'.
Proof.
  intros cf s t s' l d H B S L.
  pose proof (base_step _ _ _ _ _ H B) as B'. pose proof (stop_inv_step _ _ _ _ _ H S) as S'.
  split; [exact B'|]. split; [exact S'|].
  destruct (step_elim _ _ _ _ _ H) as [(-> & -> & Hsk) | [(s1 & a & -> & Hr & [(-> & -> & Hnw) | (Hc & Ha & -> & ->)]) | [-> Hc]]];
    cbn in L; try discriminate.
  - (* released from join by the end of the runner thread *)
    pose proof (base_runner _ _ _ _ Hr B) as [_ B2]. rewrite Ha in B2.
    assert (X : in_stop (s_cpc s) = true) by (runner_cases Hr; cbn in Hc; unfold after_step in Hc; cbn in Hc; rewrite Hc; reflexivity).
    destruct S as (S1 & _). pose proof (stop_mono_runner _ _ _ _ Hr (S1 X)) as U.
    cbn. split; [exact U|]. destruct (s_rpc s1); try discriminate; reflexivity.
  - destruct S as (S1 & _). destruct B as [_ B2].
    client_cases Hc; cbn in L; try discriminate; cbn; (split; [apply S1; reflexivity|]);
      destruct (s_rpc s); try discriminate; reflexivity.
Qed.

(* C20_stop (nothing afterwards): take any point of any run at which stop() has just returned; however the
   schedule goes on (whatever the client calls next, including start()), the runner thread never acts again. *)
Theorem C20_stop_quiet : forall cf sched1 s1 tr0 sched2 s2 l,
  run_schedule cf sched1 = (s1, tr0 ++ [TRet O CStop OK]) ->
  run_from cf s1 sched2 = (s2, l) ->
  ractions l = [] /\ s_alive s1 = false /\ s_stop s1 = true.
Proof.
  intros cf sched1 s1 tr0 sched2 s2 l H1 H2.
  destruct (run_from_last _ _ _ _ _ _ H1) as (sched0 & t & s0 & l0 & l1 & _ & H0 & Hs & _ & L).
  assert (Q : stopped s1).
  { eapply step_last_stopret; eauto.
    - eapply base_run; [exact H0|apply base_init].
    - eapply stop_inv_run; [exact H0|apply stop_inv_init]. }
  split; [eapply stopped_run; eauto|].
  destruct Q as ([_ B2] & _ & U & D). rewrite B2, D. auto.
Qed.

(* the pop action always has a peeked event *)
Definition pend_ok (s : state) : Prop := s_rpc s = PExPop -> s_pend s <> None.

Lemma pend_ok_step : forall cf s t s' l, step cf s t = (s', l) -> pend_ok s -> pend_ok s'.
Proof.
  intros cf s t s' l H P. unfold pend_ok in *.
  destruct (step_elim _ _ _ _ _ H) as [(-> & -> & Hsk) | [(s1 & a & -> & Hr & [(-> & -> & Hnw) | (Hc & Ha & -> & ->)]) | [-> Hc]]].
  - exact P.
  - runner_cases Hr; cbn; unfold after_step; cbn;
      try match goal with |- context [if cf_all ?c then _ else _] => destruct (cf_all c); cbn end;
      intros; try discriminate.
  - runner_cases Hr; cbn; unfold after_step; cbn;
      try match goal with |- context [if cf_all ?c then _ else _] => destruct (cf_all c); cbn end;
      intros; try discriminate.
  - destruct (client_effect_step _ _ _ _ _ Hc) as (_ & Ep & _ & _ & _ & [(E1 & _) | [(E0 & E1 & _) | (E0 & E1 & _)]]);
      rewrite E1, Ep; try discriminate. exact P.
Qed.

Definition run_inv (s : state) : Prop := base_inv s /\ stop_inv s /\ pend_ok s.

Lemma run_inv_step : forall cf s t s' l, step cf s t = (s', l) -> run_inv s -> run_inv s'.
Proof.
  intros cf s t s' l H (B & S & P).
  split; [eapply base_step; eauto|]. split; [eapply stop_inv_step; eauto|eapply pend_ok_step; eauto].
Qed.

Lemma run_inv_reach : forall cf sched s tr, run_schedule cf sched = (s, tr) -> run_inv s.
Proof.
  intros cf sched. unfold run_schedule.
  assert (G : forall sched s0 s tr, run_inv s0 -> run_from cf s0 sched = (s, tr) -> run_inv s).
  { induction sched0 as [|t sched0 IH]; intros s0 s tr I H; cbn [run_from] in H.
    - inv H. exact I.
    - destruct (step cf s0 t) as [s1 l1] eqn:Es. destruct (run_from cf s1 sched0) as [s2 l2] eqn:Er. inv H.
      eapply IH; [|exact Er]. eapply run_inv_step; eauto. }
  intros s tr H. eapply G; [|exact H].
  split; [apply base_init|]. split; [apply stop_inv_init|]. unfold pend_ok; cbn; discriminate.
Qed.

(* actions the runner can still perform: nothing when it is not running *)
Definition live_mu (cf : config) (s : state) : nat := if rpc_dead (s_rpc s) then 0%nat else mu cf s.

Definition stopping (s : state) : Prop := in_stop2 (s_cpc s) = true.

Definition is_run (t : tid) : nat := match t with TRun => 1 | _ => 0 end.

Lemma stopping_step : forall cf s t s' l, run_inv s -> stopping s -> step cf s t = (s', l) ->
  In (TRet O CStop OK) l \/
  (stopping s' /\ (live_mu cf s' <= live_mu cf s - is_run t)%nat).
Proof.
  intros cf s t s' l (B & S & P) St H.
  pose proof S as (S1 & S2 & S3 & S4). unfold stopping in *.
  assert (U : s_stop s = true) by (apply S1; destruct (s_cpc s); try discriminate; reflexivity).
  destruct (S2 St) as [Un Nw].
  destruct (step_elim _ _ _ _ _ H) as [(-> & -> & Hsk) | [(s1 & a & -> & Hr & [(-> & -> & Hnw) | (Hc & Ha & -> & ->)]) | [-> Hc]]].
  - right. split; [exact St|]. destruct t; cbn; try lia.
    specialize (Hsk eq_refl). unfold live_mu.
    unfold step_runner in Hsk. unfold pend_ok in P.
    destruct (s_rpc s) eqn:Epc; cbn; try lia; try discriminate; try congruence.
    + destruct (s_unp s); discriminate.
    + destruct (s_fin s); discriminate.
    + destruct (s_stop s); discriminate.
    + destruct (negb (s_init s)); [discriminate|]. destruct (due_head s); discriminate.
    + destruct (s_pend s); [discriminate|]. exfalso. apply P; reflexivity.
  - right. pose proof (mu_runner _ _ _ _ Hr U) as M.
    assert (C : s_cpc s1 = s_cpc s) by (runner_cases Hr; cbn; unfold after_step; cbn; reflexivity).
    split; [rewrite C; exact St|].
    unfold live_mu. cbn [is_run].
    assert (D : rpc_dead (s_rpc s) = false) by (unfold step_runner in Hr; destruct (s_rpc s); try discriminate; reflexivity).
    rewrite D. destruct (rpc_dead (s_rpc s1)); lia.
  - left. right; left; reflexivity.
  - destruct B as [_ B2].
    client_cases Hc; try discriminate; cbn.
    all: try (left; right; left; reflexivity).
    all: right; (split; [reflexivity|]); unfold live_mu, mu, phi, pop_bump, pend_ins, due_head; cbn;
         rewrite ?Escr, ?Ecpc; cbn; lia.
Qed.

Fixpoint run_turns (l : list tid) : nat :=
  match l with [] => 0 | t :: r => is_run t + run_turns r end%nat.

Lemma stopping_run : forall cf a s s' l, run_inv s -> stopping s -> run_from cf s a = (s', l) ->
  In (TRet O CStop OK) l \/
  (run_inv s' /\ stopping s' /\ (live_mu cf s' <= live_mu cf s - run_turns a)%nat).
Proof.
  induction a as [|t a IH]; intros s s' l I St H; cbn [run_from] in H.
  - inv H. right. split; [exact I|]. split; [exact St|]. cbn. lia.
  - destruct (step cf s t) as [s1 l1] eqn:Es. destruct (run_from cf s1 a) as [s2 l2] eqn:Er. inv H.
    destruct (stopping_step _ _ _ _ _ I St Es) as [X | [St1 M1]].
    + left. apply in_or_app. left; exact X.
    + destruct (IH _ _ _ (run_inv_step _ _ _ _ _ Es I) St1 Er) as [X | (I2 & St2 & M2)].
      * left. apply in_or_app. right; exact X.
      * right. split; [exact I2|]. split; [exact St2|]. cbn [run_turns]. lia.
Qed.

Lemma mu_zero_done : forall cf s, mu cf s = 0%nat -> s_rpc s = PDone.
Proof. intros cf s H. unfold mu in H. destruct (s_rpc s); try lia; reflexivity. Qed.

(* inside stop() the head of the script is that call *)
Definition script_ok (s : state) : Prop := in_stop (s_cpc s) = true -> exists rest, s_script s = CStop :: rest.

Lemma script_ok_step : forall cf s t s' l, step cf s t = (s', l) -> script_ok s -> script_ok s'.
Proof.
  intros cf s t s' l H P. unfold script_ok in *.
  destruct (step_elim _ _ _ _ _ H) as [(-> & -> & Hsk) | [(s1 & a & -> & Hr & [(-> & -> & Hnw) | (Hc & Ha & -> & ->)]) | [-> Hc]]].
  - exact P.
  - runner_cases Hr; cbn; unfold after_step; cbn; exact P.
  - cbn. discriminate.
  - client_cases Hc; rewrite ?Ecpc in *; cbn in *; unfold do_unp_set;
      try match goal with |- context [match s_rpc ?x with _ => _ end] => destruct (s_rpc x) end; cbn;
      try discriminate; intros _; eauto.
Qed.

Lemma script_ok_reach : forall cf sched s tr, run_schedule cf sched = (s, tr) -> script_ok s.
Proof.
  intros cf sched. unfold run_schedule.
  assert (G : forall sched s0 s tr, script_ok s0 -> run_from cf s0 sched = (s, tr) -> script_ok s).
  { induction sched0 as [|t sched0 IH]; intros s0 s tr I H; cbn [run_from] in H.
    - inv H. exact I.
    - destruct (step cf s0 t) as [s1 l1] eqn:Es. destruct (run_from cf s1 sched0) as [s2 l2] eqn:Er. inv H.
      eapply IH; [|exact Er]. eapply script_ok_step; eauto. }
  intros s tr H. eapply G; [|exact H]. unfold script_ok; cbn; discriminate.
Qed.

Lemma dead_other_turn : forall cf s t, rpc_dead (s_rpc s) = true -> t <> TCli O -> step cf s t = (s, [TSkip t]).
Proof.
  intros cf s t D N. unfold step. destruct t as [|[|c]]; [|contradiction|reflexivity].
  unfold step_runner. destruct (s_rpc s); try discriminate; reflexivity.
Qed.

Lemma dead_client_turn : forall cf s s' l, run_inv s -> script_ok s -> stopping s -> rpc_dead (s_rpc s) = true ->
  step cf s (TCli O) = (s', l) -> In (TRet O CStop OK) l.
Proof.
  intros cf s s' l ([_ B2] & (_ & _ & S3 & _) & _) Sc St D H.
  rewrite D in B2. cbn in B2. unfold stopping in St.
  destruct Sc as [rest Escr]; [destruct (s_cpc s); try discriminate; reflexivity|].
  unfold step, step_client in H. rewrite Escr, B2 in H.
  destruct (s_cpc s) eqn:Ecpc; try discriminate; inv H.
  - right; left; reflexivity.
  - right; left; reflexivity.
  - rewrite S3 in B2 by reflexivity. discriminate.
Qed.

Lemma dead_stopping_run : forall cf b s s' l, run_inv s -> script_ok s -> stopping s ->
  rpc_dead (s_rpc s) = true -> run_from cf s b = (s', l) -> In (TCli O) b -> In (TRet O CStop OK) l.
Proof.
  induction b as [|t b IH]; intros s s' l I Sc St D H Hin; [contradiction|].
  cbn [run_from] in H.
  destruct (step cf s t) as [s1 l1] eqn:Es. destruct (run_from cf s1 b) as [s2 l2] eqn:Er. inv H.
  apply in_or_app.
  assert (Dec : t = TCli O \/ t <> TCli O).
  { destruct t as [|[|c]]; [right; discriminate|left; reflexivity|right; discriminate]. }
  destruct Dec as [-> | N].
  - left. eapply dead_client_turn; eauto.
  - right. rewrite (dead_other_turn cf s t D N) in Es. inv Es.
    destruct Hin as [X | Hin]; [congruence|]. eapply IH; eauto.
Qed.

Lemma script_ok_run : forall cf sched s s' l, run_from cf s sched = (s', l) -> script_ok s -> script_ok s'.
Proof.
  induction sched as [|t sched IH]; intros s s' l H U; cbn [run_from] in H.
  - inv H. exact U.
  - destruct (step cf s t) as [s1 l1] eqn:Es. destruct (run_from cf s1 sched) as [s2 l2] eqn:Er. inv H.
    eapply IH; [exact Er|]. eapply script_ok_step; eauto.
Qed.

(* C20_stop (stop() returns): take any point of any run at which the client is inside stop() and has set
   both flags.  EVERY continuation of the schedule that gives the runner thread at least mu turns (mu as in
   C20_stop_bound) and afterwards the client at least one turn makes stop() return.  A fair schedule has such
   a prefix, so stop() returns under every fair schedule. *)
Theorem C20_stop_returns : forall cf sched0 s tr a b s' l,
  run_schedule cf sched0 = (s, tr) ->
  in_stop2 (s_cpc s) = true ->
  (mu cf s <= run_turns a)%nat -> In (TCli O) b ->
  run_from cf s (a ++ b) = (s', l) ->
  In (TRet O CStop OK) l.
Proof.
  intros cf sched0 s tr a b s' l H0 St Ha Hb H.
  pose proof (run_inv_reach _ _ _ _ H0) as I. pose proof (script_ok_reach _ _ _ _ H0) as Sc.
  rewrite run_from_app in H. destruct (run_from cf s a) as [s1 l1] eqn:E1.
  destruct (run_from cf s1 b) as [s2 l2] eqn:E2. inv H. apply in_or_app.
  destruct (stopping_run _ _ _ _ _ I St E1) as [X | (I1 & St1 & M)]; [left; exact X|].
  right. eapply dead_stopping_run; eauto.
  - eapply script_ok_run; eauto.
  - assert (Z : live_mu cf s1 = 0%nat).
    { assert (live_mu cf s <= mu cf s)%nat by (unfold live_mu; destruct (rpc_dead (s_rpc s)); lia). lia. }
    unfold live_mu in Z. destruct (rpc_dead (s_rpc s1)) eqn:D; [reflexivity|].
    apply mu_zero_done in Z. rewrite Z in D. discriminate.
Qed.

(* ------------------------------------------------------------------------------------------ *)
(* C20_events: zero-delay events, one client                                                   *)
(* ------------------------------------------------------------------------------------------ *)
Lemma bisect_loop_all_le : forall keys x fuel lo hi,
  Forall (fun k => (k <= x)%Z) keys -> (lo <= hi)%nat -> (hi <= length keys)%nat -> (hi - lo < fuel)%nat ->
  bisect_loop fuel keys x lo hi = hi.
Proof.
  intros keys x fuel. induction fuel as [|f IH]; intros lo hi Hk H1 H2 H3; [lia|].
  cbn [bisect_loop]. destruct (Nat.ltb lo hi) eqn:E.
  - apply Nat.ltb_lt in E.
    assert (M : (lo <= Nat.div2 (lo + hi) /\ Nat.div2 (lo + hi) < hi)%nat).
    { rewrite Nat.div2_div. split.
      - apply Nat.div_le_lower_bound; lia.
      - apply Nat.div_lt_upper_bound; lia. }
    assert (N : (nth (Nat.div2 (lo + hi)) keys 0%Z <= x)%Z).
    { rewrite Forall_forall in Hk. apply Hk. apply nth_In. lia. }
    destruct (Z.ltb x (nth (Nat.div2 (lo + hi)) keys 0%Z)) eqn:L; [apply Z.ltb_lt in L; lia|].
    apply IH; try assumption; lia.
  - apply Nat.ltb_ge in E. lia.
Qed.

Lemma bisect_right_all_le : forall keys x, Forall (fun k => (k <= x)%Z) keys -> bisect_right keys x = length keys.
Proof. intros keys x H. unfold bisect_right. apply bisect_loop_all_le; auto; lia. Qed.

Lemma insert_at_beyond : forall (A : Type) i (x : A) l, (length l <= i)%nat -> insert_at i x l = l ++ [x].
Proof. intros A i x l H. unfold insert_at. rewrite firstn_all2, skipn_all2 by exact H. reflexivity. Qed.

Definition zero_delay_script (l : list call) : Prop :=
  Forall (fun op => match op with CQueue e => ev_delay e = 0%Z | _ => True end) l.

Fixpoint queued_events (l : list call) : list ev :=
  match l with [] => [] | CQueue e :: r => e :: queued_events r | _ :: r => queued_events r end.

(* events in the order in which they were put into the queue list: A2 (code as it is) / A1 (atomic switch) *)
Fixpoint ins_events (atomic : bool) (tr : list titem) : list ev :=
  match tr with
  | [] => []
  | TC _ (AQIdx e _ _) :: r => if atomic then e :: ins_events atomic r else ins_events atomic r
  | TC _ (AQIns e _ _) :: r => if atomic then ins_events atomic r else e :: ins_events atomic r
  | _ :: r => ins_events atomic r
  end.

(* every macro step computed for an event consumed exactly that event *)
Fixpoint pops_ok (tr : list titem) : Prop :=
  match tr with
  | [] => True
  | TR (AExPop e p) :: r => p = Some e /\ pops_ok r
  | _ :: r => pops_ok r
  end.

Lemma ins_events_app : forall at_ a b, ins_events at_ (a ++ b) = ins_events at_ a ++ ins_events at_ b.
Proof.
  intros at_. induction a as [|x a IH]; intros b; [reflexivity|].
  cbn [app ins_events]. destruct x as [| | c ca | |]; try apply IH.
  destruct ca; try apply IH; destruct at_; try apply IH; cbn [app]; f_equal; apply IH.
Qed.

Lemma pops_ok_app : forall a b, pops_ok (a ++ b) <-> pops_ok a /\ pops_ok b.
Proof.
  induction a as [|x a IH]; intros b; [cbn; tauto|].
  cbn [app pops_ok]. destruct x as [| r | | |]; try apply IH.
  destruct r; try apply IH. rewrite IH. tauto.
Qed.

(* events of the script not yet put into the queue *)
Definition pend_events (cf : config) (s : state) : list ev :=
  match s_script s, s_cpc s with
  | CQueue e :: rest, CQ1 _ _ => if cf_atomic cf then queued_events rest else e :: queued_events rest
  | l, _ => queued_events l
  end.

Definition ev_inv (cf : config) (s : state) (tr : list titem) : Prop :=
  Forall (fun ke => (fst ke <= s_itime s)%Z) (s_queue s) /\
  (s_itime s <= s_clock s)%Z /\
  ins_events (cf_atomic cf) tr = popped_events tr ++ map snd (s_queue s) /\
  zero_delay_script (s_script s) /\
  (forall idx key, s_cpc s = CQ1 idx key ->
     (cf_atomic cf = false -> (length (s_queue s) <= idx)%nat /\ (key <= s_itime s)%Z) /\
     exists e rest, s_script s = CQueue e :: rest) /\
  (s_rpc s = PExPop -> exists k e rest, s_queue s = (k, e) :: rest /\ s_pend s = Some e) /\
  pops_ok tr /\
  queued_events (cf_script cf) = ins_events (cf_atomic cf) tr ++ pend_events cf s.

Lemma Forall_le_trans : forall (q : list (Z * ev)) a b, (a <= b)%Z ->
  Forall (fun ke => (fst ke <= a)%Z) q -> Forall (fun ke => (fst ke <= b)%Z) q.
Proof. intros q a b H F. eapply Forall_impl; [|exact F]. cbn. intros; lia. Qed.

Lemma ev_runner : forall cf s s' a tr,
  step_runner cf s = Some (s', a) -> ev_inv cf s tr -> ev_inv cf s' (tr ++ [TR a]).
Proof.
  intros cf s s' a tr H (I1 & I2 & I3 & I4 & I5 & I6 & I7 & I8). unfold ev_inv.
  rewrite ins_events_app, popped_events_app, pops_ok_app. unfold pend_events in *.
  runner_cases H; cbn -[Z.le]; unfold after_step; cbn -[Z.le]; rewrite ?app_nil_r;
    try match goal with |- context [if cf_all ?c then _ else _] => destruct (cf_all c); cbn -[Z.le] end.
  (* the steps that do not touch queue, times, pend *)
  all: try (repeat split; try assumption; try (intros; discriminate); fail).
  all: try (split; [assumption|split; [assumption|split; [assumption|split; [assumption|split; [assumption|
            split; [discriminate|split; [split; [assumption|exact I]|assumption]]]]]]]; fail).
  - (* execute_once: _time = clock.time *)
    split; [eapply Forall_le_trans; eauto|]. split; [lia|]. split; [assumption|]. split; [assumption|].
    split; [|split; [discriminate|split; [split; [assumption|exact I]|assumption]]].
    intros idx key X. destruct (I5 idx key X) as [Y Z]. split; [|exact Z].
    intros W. destruct (Y W). split; [assumption|lia].
  - (* peek found e *)
    split; [assumption|]. split; [assumption|]. split; [assumption|]. split; [assumption|]. split; [assumption|].
    split; [|split; [split; [assumption|exact I]|assumption]].
    intros _. destruct (due_head_some_queue _ _ Edue) as (k & rest & Q). exists k, e, rest. split; [exact Q|reflexivity].
  - (* pop, execute_all *)
    destruct (I6 eq_refl) as (k & e1 & rest & Q & Pd). assert (e1 = e0) by congruence. subst e1.
    rewrite Q in I1. inv I1. cbn in H1.
    assert (De : due_head s = Some e0).
    { unfold due_head. rewrite Q. destruct (Z.leb k (s_itime s)) eqn:L; [reflexivity|apply Z.leb_gt in L; lia]. }
    rewrite De in Edue. inv Edue.
    rewrite Q. cbn -[Z.le]. split; [assumption|]. split; [assumption|].
    split; [rewrite I3, Q; cbn; rewrite <- app_assoc; reflexivity|]. split; [assumption|].
    split; [|split; [discriminate|split; [split; [assumption|split; [reflexivity|exact I]]|assumption]]].
    intros idx key X. destruct (I5 idx key X) as [Y Z]. split; [|exact Z].
    intros W. destruct (Y W). rewrite Q in *. cbn in *. split; [lia|assumption].
  - (* pop, one step per cycle *)
    destruct (I6 eq_refl) as (k & e1 & rest & Q & Pd). assert (e1 = e0) by congruence. subst e1.
    rewrite Q in I1. inv I1. cbn in H1.
    assert (De : due_head s = Some e0).
    { unfold due_head. rewrite Q. destruct (Z.leb k (s_itime s)) eqn:L; [reflexivity|apply Z.leb_gt in L; lia]. }
    rewrite De in Edue. inv Edue.
    rewrite Q. cbn -[Z.le]. split; [assumption|]. split; [assumption|].
    split; [rewrite I3, Q; cbn; rewrite <- app_assoc; reflexivity|]. split; [assumption|].
    split; [|split; [discriminate|split; [split; [assumption|split; [reflexivity|exact I]]|assumption]]].
    intros idx key X. destruct (I5 idx key X) as [Y Z]. split; [|exact Z].
    intros W. destruct (Y W). rewrite Q in *. cbn in *. split; [lia|assumption].
  - (* pop finds nothing due: impossible, the head is the peeked event and it is due *)
    exfalso. destruct (I6 eq_refl) as (k & e1 & rest & Q & Pd).
    rewrite Q in I1. inv I1. cbn in H1.
    unfold due_head in Edue. rewrite Q in Edue.
    destruct (Z.leb k (s_itime s)) eqn:L; [discriminate|apply Z.leb_gt in L; lia].
  -
    exfalso. destruct (I6 eq_refl) as (k & e1 & rest & Q & Pd).
    rewrite Q in I1. inv I1. cbn in H1.
    unfold due_head in Edue. rewrite Q in Edue.
    destruct (Z.leb k (s_itime s)) eqn:L; [discriminate|apply Z.leb_gt in L; lia].
Qed.

Lemma pend_events_notq : forall cf s, (forall i k, s_cpc s <> CQ1 i k) ->
  pend_events cf s = queued_events (s_script s).
Proof.
  intros cf s H. unfold pend_events. destruct (s_script s) as [|op rest]; [reflexivity|].
  destruct op; try reflexivity. destruct (s_cpc s) eqn:E; try reflexivity. exfalso. eapply H; eauto.
Qed.

Lemma zero_delay_tl : forall op rest, zero_delay_script (op :: rest) -> zero_delay_script rest.
Proof. intros op rest H. inv H. assumption. Qed.

Lemma ev_frame : forall cf s s' tr l,
  s_queue s' = s_queue s -> s_itime s' = s_itime s -> (s_clock s <= s_clock s')%Z ->
  ins_events (cf_atomic cf) l = [] -> popped_events l = [] -> pops_ok l ->
  zero_delay_script (s_script s') ->
  (forall i k, s_cpc s' <> CQ1 i k) ->
  (s_rpc s' = PExPop -> s_rpc s = PExPop) -> s_pend s' = s_pend s ->
  queued_events (s_script s') = pend_events cf s ->
  ev_inv cf s tr -> ev_inv cf s' (tr ++ l).
Proof.
  intros cf s s' tr l Eq Et Ec Ei Ep Eo Ez En Er Epd Eqe (I1 & I2 & I3 & I4 & I5 & I6 & I7 & I8).
  unfold ev_inv. rewrite ins_events_app, popped_events_app, pops_ok_app, Ei, Ep, !app_nil_r, Eq, Et, Epd.
  split; [assumption|]. split; [lia|]. split; [assumption|]. split; [assumption|].
  split; [intros i k X; exfalso; eapply En; eauto|].
  split; [intros X; apply I6; auto|]. split; [split; assumption|].
  rewrite (pend_events_notq cf s' En), Eqe. exact I8.
Qed.

Lemma do_unp_set_pexpop : forall s, s_rpc (do_unp_set s) = PExPop -> s_rpc s = PExPop.
Proof. intros s. unfold do_unp_set. destruct (s_rpc s) eqn:E; cbn; rewrite ?E; auto; discriminate. Qed.

Lemma do_unp_set_fields : forall s,
  s_queue (do_unp_set s) = s_queue s /\ s_itime (do_unp_set s) = s_itime s /\
  s_clock (do_unp_set s) = s_clock s /\ s_pend (do_unp_set s) = s_pend s /\
  s_script (do_unp_set s) = s_script s /\ s_cpc (do_unp_set s) = s_cpc s.
Proof. intros s. unfold do_unp_set. destruct (s_rpc s); cbn; repeat split; reflexivity. Qed.

Lemma ev_client : forall cf c s s' l tr,
  step_client cf c s = Some (s', l) -> ev_inv cf s tr -> ev_inv cf s' (tr ++ l).
Proof.
  intros cf c s s' l tr H I.
  client_cases H.
  all: try (eapply ev_frame; try exact I; unfold ret; cbn;
            try (destruct (do_unp_set_fields s) as (F1 & F2 & F3 & F4 & F5 & F6); rewrite ?F1, ?F2, ?F3, ?F4, ?F5, ?F6);
            rewrite ?Escr; cbn;
            try reflexivity; try lia; try discriminate; try exact I; try (intros; discriminate);
            try (apply Z.leb_le; assumption); try apply do_unp_set_pexpop; try (intros X; exact X);
            try (destruct I as (_ & _ & _ & I4 & _); rewrite Escr in I4; first [exact I4 | eapply zero_delay_tl; exact I4]);
            try (unfold pend_events; rewrite Escr, ?Ecpc; reflexivity); fail).
  - (* A1, atomic switch on: bisect + insert in one action *)
    destruct I as (I1 & I2 & I3 & I4 & I5 & I6 & I7 & I8).
    rewrite Escr in I4. inv I4. cbn in H1. rewrite H1, Z.add_0_r.
    assert (Bi : bisect_right (queue_keys s) (s_itime s) = length (s_queue s)).
    { unfold queue_keys. rewrite bisect_right_all_le; [apply map_length|].
      apply Forall_map. exact I1. }
    rewrite Bi, insert_at_beyond by lia.
    unfold ev_inv. rewrite ins_events_app, popped_events_app, pops_ok_app. rewrite Eb in *. cbn -[Z.le]. rewrite ?Escr.
    rewrite !app_nil_r.
    split; [apply Forall_app; split; [exact I1|constructor; [cbn; lia|constructor]]|].
    split; [assumption|].
    split; [rewrite map_app, I3, <- app_assoc; reflexivity|].
    split; [constructor; assumption|].
    split; [intros idx key X; split; [intros W; discriminate|eauto]|].
    split; [intros X; destruct (I6 X) as (k & e0 & r0 & Q & Pd); rewrite Q; cbn; eauto|].
    split; [split; [assumption|exact I]|].
    rewrite I8. unfold pend_events. cbn. rewrite ?Escr, ?Ecpc, ?Eb. cbn. rewrite <- ?app_assoc. reflexivity.
  - (* A1, code as it is: the index is computed, nothing is inserted yet *)
    destruct I as (I1 & I2 & I3 & I4 & I5 & I6 & I7 & I8).
    pose proof I4 as I4'. rewrite Escr in I4'. inv I4'. cbn in H1. rewrite H1, Z.add_0_r.
    assert (Bi : bisect_right (queue_keys s) (s_itime s) = length (s_queue s)).
    { unfold queue_keys. rewrite bisect_right_all_le; [apply map_length|].
      apply Forall_map. exact I1. }
    rewrite Bi.
    unfold ev_inv. rewrite ins_events_app, popped_events_app, pops_ok_app. rewrite Eb in *. cbn -[Z.le]. rewrite ?Escr.
    rewrite !app_nil_r.
    split; [assumption|]. split; [assumption|]. split; [assumption|].
    split; [constructor; assumption|].
    split; [intros idx key X; inv X; split; [intros _; split; lia|eauto]|].
    split; [assumption|]. split; [split; [assumption|exact I]|].
    rewrite I8. unfold pend_events. cbn. rewrite ?Escr, ?Ecpc, ?Eb. cbn. reflexivity.
  - (* A2, atomic switch on: nothing left to do *)
    destruct I as (I1 & I2 & I3 & I4 & I5 & I6 & I7 & I8).
    unfold ev_inv, ret. rewrite ins_events_app, popped_events_app, pops_ok_app. rewrite Eb in *. cbn -[Z.le].
    rewrite !app_nil_r.
    split; [assumption|]. split; [assumption|]. split; [assumption|].
    split; [rewrite ?Escr in *; cbn [tl]; eapply zero_delay_tl; exact I4|].
    split; [intros idx0 key0 X; discriminate|].
    split; [assumption|]. split; [split; [assumption|exact I]|].
    rewrite I8. unfold pend_events at 1. rewrite ?Escr, ?Ecpc, ?Eb.
    rewrite pend_events_notq by (cbn; intros; discriminate). reflexivity.
  - (* A2, code as it is: insert at the index computed earlier -- beyond the end, i.e. append *)
    destruct I as (I1 & I2 & I3 & I4 & I5 & I6 & I7 & I8).
    destruct (I5 idx key Ecpc) as [Y _]. destruct (Y Eb) as [Y1 Y2].
    rewrite insert_at_beyond by exact Y1.
    unfold ev_inv, ret. rewrite ins_events_app, popped_events_app, pops_ok_app. rewrite Eb in *. cbn -[Z.le].
    rewrite !app_nil_r.
    split; [apply Forall_app; split; [exact I1|constructor; [cbn; lia|constructor]]|].
    split; [assumption|].
    split; [rewrite map_app, I3, <- app_assoc; reflexivity|].
    split; [rewrite ?Escr in *; cbn [tl]; eapply zero_delay_tl; exact I4|].
    split; [intros idx0 key0 X; discriminate|].
    split; [intros X; destruct (I6 X) as (k & e0 & r0 & Q & Pd); rewrite Q; cbn; eauto|].
    split; [split; [assumption|exact I]|].
    rewrite I8. unfold pend_events at 1. rewrite ?Escr, ?Ecpc, ?Eb.
    rewrite pend_events_notq by (cbn; intros; discriminate). cbn. rewrite <- app_assoc. reflexivity.
Qed.

Lemma ev_silent : forall cf s tr l,
  ins_events (cf_atomic cf) l = [] -> popped_events l = [] -> pops_ok l ->
  ev_inv cf s tr -> ev_inv cf s (tr ++ l).
Proof.
  intros cf s tr l E1 E2 E3 (I1 & I2 & I3 & I4 & I5 & I6 & I7 & I8). unfold ev_inv.
  rewrite ins_events_app, popped_events_app, pops_ok_app, E1, E2, !app_nil_r.
  repeat (split; try assumption).
Qed.

Lemma ev_step : forall cf s tr t s' l,
  script_ok s /\ ev_inv cf s tr -> step cf s t = (s', l) -> script_ok s' /\ ev_inv cf s' (tr ++ l).
Proof.
  intros cf s tr t s' l [Sc I] H. split; [eapply script_ok_step; eauto|].
  destruct (step_elim _ _ _ _ _ H) as [(-> & -> & Hsk) | [(s1 & a & -> & Hr & [(-> & -> & Hnw) | (Hc & Ha & -> & ->)]) | [-> Hc]]].
    apply ev_silent; try reflexivity; try exact I0; exact I.
  - eapply ev_runner; eauto.
  - (* the runner thread ends and releases the client blocked in join: stop() returns *)
    change [TR a; TRet 0 CStop OK] with ([TR a] ++ [TRet 0 CStop OK]). rewrite app_assoc.
    pose proof (ev_runner _ _ _ _ _ Hr I) as I'.
    assert (Sc1 : script_ok s1).
    { unfold script_ok in *. runner_cases Hr; cbn; unfold after_step; cbn; exact Sc. }
    destruct Sc1 as [rest Escr]; [rewrite Hc; reflexivity|].
    eapply ev_frame; try exact I'; unfold ret; cbn; try reflexivity; try lia; try (intros; discriminate);
      try (intros X; exact X).
    + destruct I' as (_ & _ & _ & I4 & _). rewrite Escr in *. cbn. eapply zero_delay_tl; exact I4.
    + unfold pend_events. rewrite Escr. reflexivity.
  - eapply ev_client; eauto.
Qed.

(* C20_events (zero-delay events, one client, EVERY schedule, with or without the atomic switch):
   - the events put into the queue so far are, in order, the events consumed so far followed by the queue
     content: consumption is FIFO, nothing is lost, nothing is consumed twice;
   - every macro step computed for an event consumed exactly that event;
   - the events put into the queue are a prefix of the events the script queues, in script order;
   - whenever execute_once found nothing to do, every event put into the queue had been consumed
     (an event is consumable as soon as it is queued). *)
Theorem C20_events : forall cf sched s tr,
  zero_delay_script (cf_script cf) ->
  run_schedule cf sched = (s, tr) ->
  ins_events (cf_atomic cf) tr = popped_events tr ++ map snd (s_queue s) /\
  pops_ok tr /\
  (exists rest, queued_events (cf_script cf) = ins_events (cf_atomic cf) tr ++ rest) /\
  (forall tr0, tr = tr0 ++ [TR (AExPeek PkNone)] -> ins_events (cf_atomic cf) tr0 = popped_events tr0).
Proof.
  intros cf sched s tr Z H.
  assert (G : forall sched s tr, run_schedule cf sched = (s, tr) -> script_ok s /\ ev_inv cf s tr).
  { intros sched0 s0 tr0 H0.
    eapply (run_schedule_inv cf (fun s tr => script_ok s /\ ev_inv cf s tr)); [apply ev_step| |exact H0].
    split; [unfold script_ok; cbn; discriminate|].
    unfold ev_inv; cbn -[Z.le]. split; [constructor|]. split; [lia|]. split; [reflexivity|].
    split; [exact Z|]. split; [intros; discriminate|]. split; [discriminate|]. split; [exact I|].
    unfold pend_events; cbn. destruct (cf_script cf) as [|[]]; reflexivity. }
  destruct (G _ _ _ H) as [_ (I1 & I2 & I3 & I4 & I5 & I6 & I7 & I8)].
  split; [exact I3|]. split; [exact I7|]. split; [eexists; exact I8|].
  intros tr0 ->.
  destruct (run_from_last _ _ _ _ _ _ H) as (sched0 & t & s0 & l0 & l1 & _ & H0 & Hs & E & L).
  destruct (G _ _ _ H0) as [_ (J1 & J2 & J3 & J4 & J5 & J6 & J7 & J8)].
  destruct (step_elim _ _ _ _ _ Hs) as [(-> & -> & Hsk) | [(s1 & a & -> & Hr & [(-> & -> & Hnw) | (Hc & Ha & -> & ->)]) | [-> Hc]]];
    cbn in L; try discriminate.
  - inv L. apply app_inj_tail in E. destruct E as [-> _].
    assert (Edue : due_head s0 = None).
    { unfold step_runner in Hr. destruct (s_rpc s0); try discriminate;
        repeat match type of Hr with
               | context [if ?b then _ else _] => destruct b
               | context [match due_head ?x with _ => _ end] => destruct (due_head x) eqn:?
               | context [match s_pend ?x with _ => _ end] => destruct (s_pend x)
               end; try discriminate; try reflexivity; inv Hr. }
    (* due_head = None: the queue is empty, since every key in it is due *)
    unfold due_head in Edue. destruct (s_queue s0) as [|[k e] q] eqn:Q.
    + rewrite J3. cbn. apply app_nil_r.
    + apply Forall_inv in J1. cbn in J1. destruct (Z.leb k (s_itime s0)) eqn:Lk; [discriminate|apply Z.leb_gt in Lk; lia].
  - client_cases Hc; cbn in L; discriminate.
Qed.

(* ------------------------------------------------------------------------------------------ *)
(* C20_events_refuted: delayed events, code as it is (cf_atomic = false)                        *)
(* ------------------------------------------------------------------------------------------ *)
Definition we1 := mk_ev 1 false 0.
Definition we2 := mk_ev 2 false 5.
Definition we3 := mk_ev 3 false 0.

(* queue [(0,e1),(5,e2)]; the client computes index 1 for (0,e3) (A1); the runner pops e1; the client
   inserts at 1 (A2): [(5,e2),(0,e3)]; the next execute_once finds nothing although e3 is due. *)
Definition w_script : list call := [CQueue we1; CQueue we2; CStart; CQueue we3; CStop].
Definition w_sched : list tid :=
  repeat (TCli 0) 8 ++ repeat TRun 14 ++ [TCli 0; TRun; TCli 0] ++ repeat TRun 7.
Definition w_cf (atomic : bool) : config := mk_config ChPlain false atomic w_script.

Theorem C20_events_refuted :
  exists s tr0,
    run_schedule (w_cf false) w_sched = (s, tr0 ++ [TR (AExPeek PkNone)]) /\
    exists k e, In (k, e) (s_queue s) /\ (k <= s_itime s)%Z /\
                In e (ins_events false tr0) /\ ~ In e (popped_events tr0).
Proof.
  exists (fst (run_schedule (w_cf false) w_sched)), (removelast (snd (run_schedule (w_cf false) w_sched))).
  split; [vm_compute; reflexivity|].
  exists 0%Z, we3. vm_compute. split; [right; left; reflexivity|]. split; [discriminate|].
  split; [right; right; left; reflexivity|]. intros [X|[]]. discriminate X.
Qed.

(* the same schedule with bisect+insert atomic: the queue is [(0,e3),(5,e2)]; e3 is peeked, then consumed *)
Example C20_events_witness_atomic_ok :
  last (snd (run_schedule (w_cf true) w_sched)) (TSkip TRun) = TR (AExPeek (PkSome we3)) /\
  popped_events (snd (run_schedule (w_cf true) (w_sched ++ [TRun]))) = [we1; we3].
Proof. vm_compute. split; reflexivity. Qed.

(* second manifestation: the step computed for the peeked event consumes another event *)
Definition w2_script : list call := [CQueue (mk_ev 1 false 5); CStart; CClock 5; CQueue (mk_ev 2 false 0); CStop].
Definition w2_sched : list tid :=
  repeat (TCli 0) 6 ++ repeat TRun 8 ++ [TCli 0; TCli 0] ++ repeat TRun 6 ++ [TCli 0; TRun].

Theorem C20_events_refuted_pop :
  ~ pops_ok (snd (run_schedule (mk_config ChPlain false false w2_script) w2_sched)).
Proof. vm_compute. intros [X _]. discriminate X. Qed.

(* ------------------------------------------------------------------------------------------ *)
(* non-vacuity: concrete instances of the hypotheses of the theorems above                     *)
(* ------------------------------------------------------------------------------------------ *)
Definition x_script : list call :=
  [CQueue (mk_ev 1 false 0); CStart; CQueue (mk_ev 2 false 0); CPause; CQueue (mk_ev 3 false 0); CUnpause; CStop].
Definition x_cf : config := mk_config ChPlain false false x_script.
(* client: queue e1, start; runner: first cycle; client: A1 of e2; runner: 3 actions; client: A2, pause ... *)
Definition x_sched1 : list tid :=
  repeat (TCli 0) 6 ++ repeat TRun 8 ++ [TCli 0] ++ repeat TRun 3 ++ [TCli 0; TCli 0].
Definition x_sched2 : list tid := repeat TRun 12 ++ [TCli 0; TCli 0].
Definition x_tail : list tid := [TCli 0] ++ repeat TRun 16 ++ repeat (TCli 0) 4 ++ repeat TRun 6.

Example C20_report_ex :
  let tr := snd (run_schedule x_cf (x_sched1 ++ x_sched2 ++ x_tail)) in
  executed tr = [MInit; MEv (mk_ev 1 false 0) (Some (mk_ev 1 false 0));
                 MEv (mk_ev 2 false 0) (Some (mk_ev 2 false 0)); MEv (mk_ev 3 false 0) (Some (mk_ev 3 false 0))] /\
  handed tr = executed tr /\ count_ract is_before_run tr = 1%nat /\ count_ract is_after_run tr = 1%nat.
Proof. vm_compute. repeat split; reflexivity. Qed.

(* pause() has just returned after x_sched1; in x_sched2 (no unpause) exactly one cycle begins *)
Example C20_pause_ex :
  exists s1 tr0 s2 mid,
    run_schedule x_cf x_sched1 = (s1, tr0 ++ [TRet 0 CPause OK]) /\
    run_from x_cf s1 x_sched2 = (s2, mid) /\ no_unp_set mid /\ count_ract is_before_exec mid = 1%nat.
Proof.
  exists (fst (run_schedule x_cf x_sched1)), (removelast (snd (run_schedule x_cf x_sched1))).
  exists (fst (run_from x_cf (fst (run_schedule x_cf x_sched1)) x_sched2)),
         (snd (run_from x_cf (fst (run_schedule x_cf x_sched1)) x_sched2)).
  vm_compute. repeat split; reflexivity.
Qed.

Definition f_cf : config :=
  mk_config ChFin true false [CQueue (mk_ev 1 false 0); CQueue (mk_ev 2 true 0); CStart; CStop].

Example C20_final_ex :
  exists s1 tr0 s2 l,
    run_schedule f_cf (repeat (TCli 0) 8 ++ repeat TRun 18) = (s1, tr0 ++ [TR (ATestFinal true)]) /\
    run_from f_cf s1 (repeat TRun 5) = (s2, l) /\ ractions l = [AStopSet; AAfterRun] /\ s_stop s2 = true.
Proof.
  exists (fst (run_schedule f_cf (repeat (TCli 0) 8 ++ repeat TRun 18))),
         (removelast (snd (run_schedule f_cf (repeat (TCli 0) 8 ++ repeat TRun 18)))).
  exists (fst (run_from f_cf (fst (run_schedule f_cf (repeat (TCli 0) 8 ++ repeat TRun 18))) (repeat TRun 5))),
         (snd (run_from f_cf (fst (run_schedule f_cf (repeat (TCli 0) 8 ++ repeat TRun 18))) (repeat TRun 5))).
  vm_compute. repeat split; reflexivity.
Qed.

(* the client is inside stop() with both flags set while the runner is in the middle of a cycle *)
Example C20_stop_ex :
  let s := fst (run_schedule x_cf (repeat (TCli 0) 6 ++ repeat TRun 6 ++ repeat (TCli 0) 9)) in
  in_stop2 (s_cpc s) = true /\ s_stop s = true /\ s_alive s = true /\ mu x_cf s = 8%nat /\
  In (TRet 0 CStop OK) (snd (run_from x_cf s (repeat TRun 8 ++ [TCli 0]))).
Proof. vm_compute. repeat split; try reflexivity. right; right; right; right; right; right; right; right; right; left. reflexivity. Qed.

Example C20_events_ex :
  zero_delay_script (cf_script x_cf) /\
  popped_events (snd (run_schedule x_cf (x_sched1 ++ x_sched2 ++ x_tail)))
  = [mk_ev 1 false 0; mk_ev 2 false 0; mk_ev 3 false 0].
Proof. split; [repeat constructor|vm_compute; reflexivity]. Qed.

(* C20_stop, for reachable states: at any point of any run at which _stop is set (by stop() or by the runner
   itself), under EVERY continuation the runner thread performs at most mu further actions of its own. *)
Theorem C20_stop : forall cf sched1 s tr sched2 s' l,
  run_schedule cf sched1 = (s, tr) -> s_stop s = true -> run_from cf s sched2 = (s', l) ->
  (length (ractions l) <= mu cf s)%nat /\ (mu cf s <= 13 + 3 * phi cf s)%nat /\
  (cf_all cf = false -> (mu cf s <= 10)%nat).
Proof.
  intros cf sched1 s tr sched2 s' l H U H2.
  pose proof (C20_stop_bound cf sched2 s s' l (base_reach _ _ _ _ H) U H2) as B.
  pose proof (mu_le cf s). split; [lia|]. split; [lia|]. apply mu_le_noall.
Qed.

Print Assumptions C20_report.
Print Assumptions C20_stop.
Print Assumptions C20_hooks.
Print Assumptions C20_pause.
Print Assumptions C20_final.
Print Assumptions C20_final_meaning.
Print Assumptions C20_final_test.
Print Assumptions C20_stop_bound.
Print Assumptions C20_stop_quiet.
Print Assumptions C20_stop_returns.
Print Assumptions C20_events.
Print Assumptions C20_events_refuted.
Print Assumptions C20_events_refuted_pop.
