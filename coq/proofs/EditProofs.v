(* EditProofs.v -- C16 "Structural editing keeps a statechart sound; failed edits change nothing"
   and the structural half of C17 "renaming changes nothing but the name",
   for the model of theories/Edit.v (which mirrors the FIXED /repo: rotate_transition validates
   before assigning, rename_state leaves internal transitions internal).

   SUMMARY (no Admitted, no axioms; every Print Assumptions at the end is closed)

   Definitions
     sound c        the Prop form of Edit.sound_b (tree consistency of _states/_parent/_children,
                    transition ends, no dangling initial/memory, validate()); sound_b_iff:
                    sound_b c = true <-> sound c, for charts without a state named "".
     no_empty_name  no state is called ""           } the two representation facts that sound_b does
     fields_ok      only compound states carry      } not contain.  Every chart built from Python
                    `initial`, only history states  } objects satisfies fields_ok (a BasicState has no
                    `memory`                        } attribute `initial`); "" as a state name is a
                                                      genuine restriction (`if not parent`, `if self.root`
                                                      and `while parent` treat '' as "nothing").
     einv c         := sound c /\ no_empty_name c /\ fields_ok c   -- the invariant of the API
     op_ok c op     side conditions: add_state st p : s_name st <> "", p <> Some "",
                    s_initial st = None, memory_ok c st p (memory unset, or st is a history state and
                    memory names an existing child of p other than st); rename_state _ new : new <> "".
                    add_state_side_condition_needed shows `s_initial st = None /\ memory_ok` is also
                    NECESSARY for einv after a successful add_state (so "initial unset or valid"
                    collapses to "unset": a fresh compound state has no children).
     rm D c         the chart without the set D of states (order kept everywhere).
     map_chart r c  the image of a chart under a renaming r of state names.

   Main theorems
     C16_preserve   einv c -> op_ok c op -> apply_eop c op = (c', EOk) -> einv c'      (all 7 operations)
     C16_atomic     sound c -> fields_ok c -> apply_eop c op = (c', r) ->
                    r = EStatechartError \/ r = EValueError -> c' = c                  (all 7 operations)
     C16_atomic_any the same without any hypothesis on c, for every operation except remove_state
     remove_state_atomic_unsound_refuted  on an UNSOUND chart (a children list naming a missing state)
                    remove_state raises StatechartError after having removed other children; not
                    reachable through the API, hence no finding about sismic -- it only shows why
                    C16_atomic needs `sound c` for remove_state.
     C16_no_keyerror einv c -> op_ok c op -> no operation ends in the undocumented KeyError (in
                    particular the fuel of remove_state_fuel never runs out: remove_state_spec).
                    add_state_empty_parent_keyerror: add_state(s, '') on an empty chart does end in
                    KeyError with s half registered (known, DESIGN 8(7) second part; outside C16's
                    letter, excluded by op_ok).
     C16_seq        einv c -> ops_ok c ops -> einv (run_ops c ops); C16_seq_skip: the failed calls
                    can be dropped from the sequence without changing the result.
     C16_effect_add_transition / remove_transition / rotate_transition / add_state /
     C16_effect_remove_state / C16_effect_move_state   exact post-states:
                    remove_state n = rm (n :: descendants_for c n) -- the three dictionaries, all
                    children lists, the transitions with an end in the set, the initial/memory
                    fields naming a member, orders kept, nothing else (remove_state_spec is the
                    equation remove_state c n = (rm (subtree_b c n) c, EOk)).
                    move_state n p: parent of n := p; n leaves its old parent's list and is appended
                    to p's; `initial` of the OLD PARENT, `memory` of the HISTORY CHILDREN OF THE OLD
                    PARENT (not of the old parent itself) and the memory of n itself are reset when
                    they named n (move_state_touched says who can be hit); nothing else.
     C17_structure  (= C16_effect_rename) rename_state old new with old <> new on a sound chart gives
                    map_chart (old |-> new) c up to position: same transitions list, same lookups in
                    _states and _parent, children lists equal up to `to_end new`, key orders = the old
                    ones with the renamed key moved to the end (dict_ext/odict_ext: keys + lookups
                    determine a dictionary).  C17_internal_stay_internal: for ANY chart the
                    transitions after rename_state are map (map_trans r): target None stays None.
     rename_state_sound, remove_state_sound, move_state_sound, add_state_sound, ...: per operation.

   PARTIAL / REFUTED / DIFFERENCES WITH THE PLAN
     * Nothing is admitted.  Nothing about sismic is refuted: C16_atomic and C17_structure hold of the
       (fixed) model; the DESIGN's "expected C16_atomic_refuted / C17_structure_refuted" described the
       unfixed code.
     * Hypotheses beyond `sound`: fields_ok (needed: remove_state_sound_needs_fields_ok gives a model
       chart with sound_b = true that remove_state makes unsound) and no_empty_name (needed by
       add_state: a root called "" is not seen by `if self.root`; and by rename_state: an initial
       naming "" is not validated before and is validated after the renaming).
     * C16_atomic for remove_state is proved under sound /\ fields_ok (the proof goes through the
       soundness of the intermediate charts); the other six operations need no hypothesis.
     * Transitions are referred to by index / by == as in Edit.v.
   Non-vacuity: section 8 (ex_chart: 10 states, orthogonal + history; ex_ops: 18 calls, 8 failing). *)
From Coq Require Import String Ascii List Bool ZArith NArith Arith Lia Permutation Sorted.
From Sismic Require Import Base Chart Edit.
From SismicProofs Require Import SortLib.
Import ListNotations.
Open Scope string_scope.
Open Scope list_scope.

(* ================================================================== 0. basic facts *)

Lemma seqbP : forall x y : name, reflect (x = y) (str_eqb x y).
Proof. intros x y. unfold str_eqb. apply String.eqb_spec. Qed.

Lemma seqb_refl : forall x, str_eqb x x = true.
Proof. intros x. destruct (seqbP x x); congruence. Qed.

Lemma seqb_eq : forall x y, str_eqb x y = true <-> x = y.
Proof. intros x y. destruct (seqbP x y); split; congruence. Qed.

Lemma seqb_neq : forall x y, str_eqb x y = false <-> x <> y.
Proof. intros x y. destruct (seqbP x y); split; congruence. Qed.

Lemma seqb_sym : forall x y, str_eqb x y = str_eqb y x.
Proof. intros x y. destruct (seqbP x y), (seqbP y x); congruence. Qed.

Lemma oeqbP : forall a b : option name, reflect (a = b) (opt_eqb str_eqb a b).
Proof.
  intros [a|] [b|]; simpl; try (constructor; congruence).
  destruct (seqbP a b); constructor; congruence.
Qed.

Lemma oeqb_refl : forall a, opt_eqb str_eqb a a = true.
Proof. intros a. destruct (oeqbP a a); congruence. Qed.

Lemma oeqb_eq : forall a b, opt_eqb str_eqb a b = true <-> a = b.
Proof. intros a b. destruct (oeqbP a b); split; congruence. Qed.

Lemma oeqb_neq : forall a b, opt_eqb str_eqb a b = false <-> a <> b.
Proof. intros a b. destruct (oeqbP a b); split; congruence. Qed.

Lemma ostr_eqb_eq : forall a b, ostr_eqb a b = true <-> a = b.
Proof. intros a b. unfold ostr_eqb. apply oeqb_eq. Qed.

Ltac break_match_hyp H :=
  match type of H with
  | context [match ?x with _ => _ end] => destruct x eqn:?
  end.

Ltac break_match_goal :=
  match goal with
  | |- context [match ?x with _ => _ end] => destruct x eqn:?
  end.

Ltac inv H := inversion H; subst; clear H.

(* ------------------------------------------------------------------ lookup / dset / dremove *)
Section Dict.
  Context {V : Type}.
  Implicit Types (d : list (name * V)) (k : name) (v : V).

  Lemma lookup_dset : forall k k' v d,
    lookup k (dset k' v d) = if str_eqb k k' then Some v else lookup k d.
  Proof.
    intros k k' v d; induction d as [|[k0 v0] d IH]; simpl.
    - destruct (seqbP k k'); reflexivity.
    - destruct (seqbP k' k0) as [->|Hn]; simpl.
      + destruct (seqbP k k0); reflexivity.
      + destruct (seqbP k k0) as [->|Hn2].
        * destruct (seqbP k0 k'); [congruence|reflexivity].
        * exact IH.
  Qed.

  Lemma lookup_dremove_neq : forall k k' d, k <> k' -> lookup k (dremove k' d) = lookup k d.
  Proof.
    intros k k' d Hne; induction d as [|[k0 v0] d IH]; simpl; [reflexivity|].
    destruct (seqbP k' k0) as [->|Hn]; simpl.
    - destruct (seqbP k k0); [congruence|reflexivity].
    - destruct (seqbP k k0); [reflexivity|exact IH].
  Qed.

  Lemma lookup_None_iff : forall k d, lookup k d = None <-> ~ In k (map fst d).
  Proof.
    intros k d; induction d as [|[k0 v0] d IH]; simpl.
    - split; [intros _ []|reflexivity].
    - destruct (seqbP k k0) as [->|Hn].
      + split; [discriminate|intros H; exfalso; apply H; left; reflexivity].
      + rewrite IH. split; intros H; [intros [E|E]; [congruence|auto]|intros E; apply H; right; exact E].
  Qed.

  Lemma lookup_Some_In_keys : forall k d, lookup k d <> None <-> In k (map fst d).
  Proof.
    intros k d. rewrite lookup_None_iff. split; [|tauto].
    intros H. destruct (in_dec string_dec k (map fst d)); tauto.
  Qed.

  Lemma lookup_In : forall k v d, lookup k d = Some v -> In (k, v) d.
  Proof.
    intros k v d; induction d as [|[k0 v0] d IH]; simpl; [discriminate|].
    destruct (seqbP k k0) as [->|Hn]; intros H; [inv H; left; reflexivity|right; auto].
  Qed.

  Lemma In_lookup : forall k v d, NoDup (map fst d) -> In (k, v) d -> lookup k d = Some v.
  Proof.
    intros k v d; induction d as [|[k0 v0] d IH]; simpl; intros Hnd Hin; [destruct Hin|].
    inv Hnd. destruct Hin as [E|Hin].
    - inv E. rewrite seqb_refl. reflexivity.
    - destruct (seqbP k k0) as [->|Hn]; [|auto].
      exfalso. apply H1. change k0 with (fst (k0, v)). apply in_map. exact Hin.
  Qed.

  Lemma lookup_dremove_eq : forall k d, NoDup (map fst d) -> lookup k (dremove k d) = None.
  Proof.
    intros k d; induction d as [|[k0 v0] d IH]; simpl; intros Hnd; [reflexivity|].
    inv Hnd. destruct (seqbP k k0) as [->|Hn]; simpl.
    - apply lookup_None_iff. exact H1.
    - destruct (seqbP k k0); [congruence|auto].
  Qed.

  Lemma lookup_dremove : forall k k' d, NoDup (map fst d) ->
    lookup k (dremove k' d) = if str_eqb k k' then None else lookup k d.
  Proof.
    intros k k' d Hnd. destruct (seqbP k k') as [->|Hn].
    - apply lookup_dremove_eq; exact Hnd.
    - apply lookup_dremove_neq; exact Hn.
  Qed.

  Lemma keys_dset : forall k v d,
    map fst (dset k v d) = if mem k (map fst d) then map fst d else map fst d ++ [k].
  Proof.
    intros k v d; induction d as [|[k0 v0] d IH]; simpl; [reflexivity|].
    destruct (seqbP k k0) as [->|Hn]; simpl; [reflexivity|].
    rewrite IH. destruct (mem k (map fst d)); reflexivity.
  Qed.

  Lemma keys_dremove : forall k d, map fst (dremove k d) = remove_first k (map fst d).
  Proof.
    intros k d; induction d as [|[k0 v0] d IH]; simpl; [reflexivity|].
    destruct (seqbP k k0); simpl; [reflexivity|]. rewrite IH; reflexivity.
  Qed.

  Lemma dset_fresh : forall k v d, lookup k d = None -> dset k v d = d ++ [(k, v)].
  Proof.
    intros k v d; induction d as [|[k0 v0] d IH]; simpl; [reflexivity|].
    destruct (seqbP k k0); [discriminate|]. intros H; rewrite IH; auto.
  Qed.
End Dict.

Lemma lookup_mapv : forall {V W} (f : V -> W) k (d : list (name * V)),
  lookup k (map (fun kv => (fst kv, f (snd kv))) d) = option_map f (lookup k d).
Proof.
  intros V W f k d; induction d as [|[k0 v0] d IH]; simpl; [reflexivity|].
  destruct (seqbP k k0); [reflexivity|exact IH].
Qed.

Lemma keys_mapv : forall {K V W} (f : V -> W) (d : list (K * V)),
  map fst (map (fun kv => (fst kv, f (snd kv))) d) = map fst d.
Proof. intros K V W f d. rewrite map_map. simpl. reflexivity. Qed.

(* ------------------------------------------------------------------ olookup / oset / oremove *)
Section ODict.
  Context {V : Type}.
  Implicit Types (d : list (option name * V)) (k : option name) (v : V).

  Lemma olookup_oset : forall k k' v d,
    olookup k (oset k' v d) = if opt_eqb str_eqb k k' then Some v else olookup k d.
  Proof.
    intros k k' v d; induction d as [|[k0 v0] d IH]; simpl.
    - destruct (oeqbP k k'); reflexivity.
    - destruct (oeqbP k' k0) as [->|Hn]; simpl.
      + destruct (oeqbP k k0); reflexivity.
      + destruct (oeqbP k k0) as [->|Hn2].
        * destruct (oeqbP k0 k'); [congruence|reflexivity].
        * exact IH.
  Qed.

  Lemma olookup_oremove_neq : forall k k' d, k <> k' -> olookup k (oremove k' d) = olookup k d.
  Proof.
    intros k k' d Hne; induction d as [|[k0 v0] d IH]; simpl; [reflexivity|].
    destruct (oeqbP k' k0) as [->|Hn]; simpl.
    - destruct (oeqbP k k0); [congruence|reflexivity].
    - destruct (oeqbP k k0); [reflexivity|exact IH].
  Qed.

  Lemma olookup_None_iff : forall k d, olookup k d = None <-> ~ In k (map fst d).
  Proof.
    intros k d; induction d as [|[k0 v0] d IH]; simpl.
    - split; [intros _ []|reflexivity].
    - destruct (oeqbP k k0) as [->|Hn].
      + split; [discriminate|intros H; exfalso; apply H; left; reflexivity].
      + rewrite IH. split; intros H; [intros [E|E]; [congruence|auto]|intros E; apply H; right; exact E].
  Qed.

  Lemma olookup_In : forall k v d, olookup k d = Some v -> In (k, v) d.
  Proof.
    intros k v d; induction d as [|[k0 v0] d IH]; simpl; [discriminate|].
    destruct (oeqbP k k0) as [->|Hn]; intros H; [inv H; left; reflexivity|right; auto].
  Qed.

  Lemma In_olookup : forall k v d, NoDup (map fst d) -> In (k, v) d -> olookup k d = Some v.
  Proof.
    intros k v d; induction d as [|[k0 v0] d IH]; simpl; intros Hnd Hin; [destruct Hin|].
    inv Hnd. destruct Hin as [E|Hin].
    - inv E. rewrite oeqb_refl. reflexivity.
    - destruct (oeqbP k k0) as [->|Hn]; [|auto].
      exfalso. apply H1. change k0 with (fst (k0, v)). apply in_map. exact Hin.
  Qed.

  Lemma olookup_oremove_eq : forall k d, NoDup (map fst d) -> olookup k (oremove k d) = None.
  Proof.
    intros k d; induction d as [|[k0 v0] d IH]; simpl; intros Hnd; [reflexivity|].
    inv Hnd. destruct (oeqbP k k0) as [->|Hn]; simpl.
    - apply olookup_None_iff. exact H1.
    - destruct (oeqbP k k0); [congruence|auto].
  Qed.

  Lemma olookup_oremove : forall k k' d, NoDup (map fst d) ->
    olookup k (oremove k' d) = if opt_eqb str_eqb k k' then None else olookup k d.
  Proof.
    intros k k' d Hnd. destruct (oeqbP k k') as [->|Hn].
    - apply olookup_oremove_eq; exact Hnd.
    - apply olookup_oremove_neq; exact Hn.
  Qed.
End ODict.

Lemma oname_dec : forall a b : option name, {a = b} + {a <> b}.
Proof. decide equality. apply string_dec. Qed.

Lemma olookup_None_iff_not : forall {V} k (d : list (option name * V)),
  olookup k d <> None <-> In k (map fst d).
Proof.
  intros V k d. rewrite olookup_None_iff. split; [|tauto].
  intros H. destruct (in_dec oname_dec k (map fst d)); tauto.
Qed.

(* ================================================================== 1. C16: atomicity *)

Lemma add_state_atomic : forall c st p c' r,
  add_state c st p = (c', r) -> r = EStatechartError \/ r = EValueError -> c' = c.
Proof.
  intros c st p c' r H Hr. unfold add_state in H.
  repeat break_match_hyp H; inv H; try reflexivity; destruct Hr; discriminate.
Qed.

Lemma add_transition_atomic : forall c t c' r,
  add_transition c t = (c', r) -> r = EStatechartError \/ r = EValueError -> c' = c.
Proof.
  intros c t c' r H Hr. unfold add_transition in H.
  repeat break_match_hyp H; inv H; try reflexivity; destruct Hr; discriminate.
Qed.

Lemma remove_transition_atomic : forall c t c' r,
  remove_transition c t = (c', r) -> r = EStatechartError \/ r = EValueError -> c' = c.
Proof.
  intros c t c' r H Hr. unfold remove_transition in H.
  repeat break_match_hyp H; inv H; try reflexivity; destruct Hr; discriminate.
Qed.

Lemma rotate_transition_atomic : forall c i s t c' r,
  rotate_transition c i s t = (c', r) -> r = EStatechartError \/ r = EValueError -> c' = c.
Proof.
  intros c i s t c' r H Hr. unfold rotate_transition in H.
  destruct s, t, i; try (inv H; reflexivity);
  repeat break_match_hyp H; inv H; try reflexivity; destruct Hr; discriminate.
Qed.

Lemma rename_state_atomic : forall c o n c' r,
  rename_state c o n = (c', r) -> r = EStatechartError \/ r = EValueError -> c' = c.
Proof.
  intros c o n c' r H Hr. unfold rename_state in H.
  repeat break_match_hyp H; inv H; try reflexivity; destruct Hr; discriminate.
Qed.

Lemma move_state_atomic : forall c n p c' r,
  move_state c n p = (c', r) -> r = EStatechartError \/ r = EValueError -> c' = c.
Proof.
  intros c n p c' r H Hr. unfold move_state in H.
  repeat break_match_hyp H; inv H; try reflexivity; destruct Hr; discriminate.
Qed.

(* ================================================================== 2. soundness as a Prop *)

(* ------------------------------------------------------------------ list facts *)
Lemma nodup_names_iff : forall l, nodup_names l = true <-> NoDup l.
Proof.
  induction l as [|x l IH]; simpl.
  - split; [constructor|reflexivity].
  - rewrite andb_true_iff, negb_true_iff, mem_false_iff, IH.
    split; [intros [H1 H2]; constructor; assumption|intros H; inv H; split; assumption].
Qed.

Lemma list_eqb_eq : forall {A} (eqb : A -> A -> bool),
  (forall a b, eqb a b = true <-> a = b) ->
  forall l1 l2, list_eqb eqb l1 l2 = true <-> l1 = l2.
Proof.
  intros A eqb Heq; induction l1 as [|x l1 IH]; intros [|y l2]; simpl;
    try (split; [reflexivity || discriminate|reflexivity || discriminate]).
  rewrite andb_true_iff, Heq, IH. split; [intros [-> ->]; reflexivity|intros H; inv H; auto].
Qed.

Lemma opt_eqb_eq : forall {A} (eqb : A -> A -> bool),
  (forall a b, eqb a b = true <-> a = b) ->
  forall x y, opt_eqb eqb x y = true <-> x = y.
Proof.
  intros A eqb Heq [x|] [y|]; simpl; try (split; [reflexivity || discriminate|reflexivity || discriminate]).
  rewrite Heq. split; [intros ->; reflexivity|intros H; inv H; reflexivity].
Qed.

Lemma strs_eqb_eq : forall a b, strs_eqb a b = true <-> a = b.
Proof. apply list_eqb_eq. apply seqb_eq. Qed.

Lemma sorted_perm_eq : forall {A} (R : A -> A -> Prop),
  (forall a b, R a b -> R b a -> a = b) ->
  forall l1 l2, StronglySorted R l1 -> StronglySorted R l2 -> Permutation l1 l2 -> l1 = l2.
Proof.
  intros A R Hanti; induction l1 as [|a l1 IH]; intros l2 H1 H2 HP.
  - apply Permutation_nil in HP. auto.
  - destruct l2 as [|b l2]; [apply Permutation_sym, Permutation_nil in HP; discriminate|].
    inversion H1 as [|? ? H1a H1b]; inversion H2 as [|? ? H2a H2b]; subst.
    rewrite Forall_forall in H1b, H2b.
    assert (E : a = b).
    { assert (Ha : In a (b :: l2)) by (eapply Permutation_in; [exact HP|left; reflexivity]).
      assert (Hb : In b (a :: l1)) by (eapply Permutation_in; [apply Permutation_sym; exact HP|left; reflexivity]).
      destruct Ha as [Ha|Ha]; [auto|]. destruct Hb as [Hb|Hb]; [auto|].
      apply Hanti; auto. }
    subst b. f_equal. apply IH; auto. eapply Permutation_cons_inv; exact HP.
Qed.

Lemma sort_perm_eq : forall {A} (leb : A -> A -> bool),
  (forall a b, leb a b = true \/ leb b a = true) ->
  (forall a b c, leb a b = true -> leb b c = true -> leb a c = true) ->
  (forall a b, leb a b = true -> leb b a = true -> a = b) ->
  forall l1 l2, Permutation l1 l2 -> sort leb l1 = sort leb l2.
Proof.
  intros A leb Ht Htr Ha l1 l2 HP.
  apply (sorted_perm_eq (lebP leb)); [exact Ha| | |].
  - apply sort_strongly_sorted; assumption.
  - apply sort_strongly_sorted; assumption.
  - eapply Permutation_trans; [apply sort_perm|].
    eapply Permutation_trans; [exact HP|apply Permutation_sym, sort_perm].
Qed.

Definition ole (a b : option string) : bool :=
  match a with
  | Some x => match b with Some y => str_leb x y | None => false end
  | None => true
  end.

Lemma ole_total : forall a b, ole a b = true \/ ole b a = true.
Proof. intros [a|] [b|]; simpl; auto. apply str_leb_total. Qed.
Lemma ole_trans : forall a b c, ole a b = true -> ole b c = true -> ole a c = true.
Proof. intros [a|] [b|] [c|]; simpl; auto; try discriminate. apply str_leb_trans. Qed.
Lemma ole_antisym : forall a b, ole a b = true -> ole b a = true -> a = b.
Proof.
  intros [a|] [b|]; simpl; auto; try discriminate. intros H1 H2. f_equal. apply str_leb_antisym; auto.
Qed.

Lemma sort_ole_Some : forall l, sort ole (map Some l) = map Some (sort str_leb l).
Proof.
  induction l as [|x l IH]; simpl; [reflexivity|]. rewrite IH.
  generalize (sort str_leb l) as m. induction m as [|y m IHm]; simpl; [reflexivity|].
  destruct (str_leb x y); simpl; [reflexivity|]. rewrite IHm. reflexivity.
Qed.

Lemma sort_ole_None : forall l, sort ole (None :: l) = None :: sort ole l.
Proof. intros l. simpl. destruct (sort ole l); reflexivity. Qed.

Lemma NoDup_map_Some : forall {A} (l : list A), NoDup l -> NoDup (None :: map Some l).
Proof.
  intros A l H. constructor.
  - rewrite in_map_iff. intros [x [E _]]; discriminate.
  - induction H as [|x l Hx Hl IH]; simpl; constructor; [|exact IH].
    rewrite in_map_iff. intros [y [E Hy]]. inv E. auto.
Qed.

(* ------------------------------------------------------------------ remove_first, count_occ *)
Lemma In_remove_first : forall x k l, In x (remove_first k l) -> In x l.
Proof.
  intros x k l; induction l as [|y l IH]; simpl; [auto|].
  destruct (seqbP k y); simpl; intros H; [right; exact H|destruct H; auto].
Qed.

Lemma In_remove_first_neq : forall x k l, x <> k -> In x l -> In x (remove_first k l).
Proof.
  intros x k l Hne; induction l as [|y l IH]; simpl; [auto|].
  destruct (seqbP k y) as [->|Hn]; simpl; intros [H|H]; auto; congruence.
Qed.

Lemma NoDup_remove_first : forall k l, NoDup l -> NoDup (remove_first k l).
Proof.
  intros k l; induction l as [|y l IH]; simpl; intros H; [constructor|].
  inv H. destruct (seqbP k y); [assumption|]. constructor; [|auto].
  intros Hin; apply In_remove_first in Hin; auto.
Qed.

Lemma remove_first_notin : forall k l, ~ In k l -> remove_first k l = l.
Proof.
  intros k l; induction l as [|y l IH]; simpl; intros H; [reflexivity|].
  destruct (seqbP k y) as [->|Hn]; [exfalso; apply H; left; reflexivity|].
  rewrite IH; auto.
Qed.

Lemma NoDup_remove_first_notin : forall k l, NoDup l -> ~ In k (remove_first k l).
Proof.
  intros k l; induction l as [|y l IH]; simpl; intros H; [auto|].
  inv H. destruct (seqbP k y) as [->|Hn]; [assumption|].
  simpl. intros [E|E]; [congruence|]. apply IH; assumption.
Qed.

Lemma count_occ_remove_first_neq : forall x k l, x <> k ->
  count_occ string_dec (remove_first k l) x = count_occ string_dec l x.
Proof.
  intros x k l Hne; induction l as [|y l IH]; simpl; [reflexivity|].
  destruct (seqbP k y) as [->|Hn]; simpl.
  - destruct (string_dec y x); [congruence|reflexivity].
  - destruct (string_dec y x); rewrite IH; reflexivity.
Qed.

Lemma count_occ_remove_first_eq : forall k l,
  count_occ string_dec (remove_first k l) k = pred (count_occ string_dec l k).
Proof.
  intros k l; induction l as [|y l IH]; simpl; [reflexivity|].
  destruct (seqbP k y) as [->|Hn]; simpl.
  - destruct (string_dec y y); [reflexivity|congruence].
  - destruct (string_dec y k); [congruence|exact IH].
Qed.

Lemma count_occ_snoc : forall l x y,
  count_occ string_dec (l ++ [y]) x = count_occ string_dec l x + (if string_dec y x then 1 else 0).
Proof. intros l x y. rewrite count_occ_app. simpl. destruct (string_dec y x); reflexivity. Qed.

Lemma count_occ_one_In : forall l x, count_occ string_dec l x = 1 -> In x l.
Proof. intros l x H. apply (count_occ_In string_dec). lia. Qed.

Lemma NoDup_count_one : forall l x, NoDup l -> In x l -> count_occ string_dec l x = 1.
Proof.
  intros l x Hnd Hin. rewrite (NoDup_count_occ string_dec) in Hnd.
  specialize (Hnd x). apply (count_occ_In string_dec) in Hin. lia.
Qed.

(* ------------------------------------------------------------------ has_state *)
Lemma has_state_iff : forall c n, has_state c n = true <-> lookup n (c_states c) <> None.
Proof. intros c n. unfold has_state. destruct (lookup n (c_states c)); split; congruence. Qed.

Lemma has_state_false : forall c n, has_state c n = false <-> lookup n (c_states c) = None.
Proof. intros c n. unfold has_state. destruct (lookup n (c_states c)); split; congruence. Qed.

Lemma has_state_In : forall c n, has_state c n = true <-> In n (map fst (c_states c)).
Proof. intros c n. rewrite has_state_iff. apply lookup_Some_In_keys. Qed.

Lemma has_state_Some : forall c n, has_state c n = true <-> exists s, lookup n (c_states c) = Some s.
Proof.
  intros c n. unfold has_state. destruct (lookup n (c_states c)) as [s|].
  - split; [eauto|reflexivity].
  - split; [discriminate|intros [s H]; discriminate].
Qed.

(* ------------------------------------------------------------------ the definition *)
Definition rank_ok (c : chart) (rank : name -> nat) : Prop :=
  forall n q, lookup n (c_parent c) = Some (Some q) -> rank q < rank n.

Record sound (c : chart) : Prop := mkSound {
  (* the three dictionaries have unique keys, the same key sets (plus None for _children),
     and every state object is stored under its own name *)
  sd_nd_states : NoDup (map fst (c_states c));
  sd_nd_parent : NoDup (map fst (c_parent c));
  sd_nd_children : NoDup (map fst (c_children c));
  sd_keyname : forall k s, lookup k (c_states c) = Some s -> s_name s = k;
  sd_pkeys : forall n, lookup n (c_parent c) <> None <-> has_state c n = true;
  sd_ckeys : forall n, olookup (Some n) (c_children c) <> None <-> has_state c n = true;
  sd_ctop : olookup None (c_children c) <> None;
  (* parent and children agree, children lists have no duplicates, parents exist *)
  sd_pc : forall n p, lookup n (c_parent c) = Some p ->
      (forall q, p = Some q -> has_state c q = true) /\
      exists l, olookup p (c_children c) = Some l /\ count_occ string_dec l n = 1;
  sd_cp : forall k l ch, olookup k (c_children c) = Some l -> In ch l ->
      lookup ch (c_parent c) = Some k;
  (* at most one root, no cycle *)
  sd_top : forall l, olookup None (c_children c) = Some l -> length l <= 1;
  sd_acyc : exists rank, rank_ok c rank;
  (* transitions start from existing transition-owning states and target existing states *)
  sd_trans : forall t, In t (c_transitions c) ->
      (exists s, lookup (t_source t) (c_states c) = Some s /\ owns_transitions (s_kind s) = true) /\
      (forall tg, t_target t = Some tg -> has_state c tg = true);
  (* initial / memory name existing states; validate() *)
  sd_refs : forall k s, lookup k (c_states c) = Some s ->
      (forall i, s_initial s = Some i -> has_state c i = true) /\
      (forall m, s_memory s = Some m -> has_state c m = true);
  sd_vinit : forall k s i, lookup k (c_states c) = Some s -> s_kind s = KCompound ->
      truthy (s_initial s) = Some i -> has_state c i = true /\ In i (children_for c k);
  sd_vmem : forall k s m, lookup k (c_states c) = Some s -> is_history (s_kind s) = true ->
      s_memory s = Some m ->
      m <> k /\ has_state c m = true /\
      exists p, parent_for c k = Some p /\ In m (children_for c p)
}.

(* extra well-formedness not contained in sound_b (see the header):
   no state is named "" and only compound states carry `initial`, only history states `memory` *)
Definition no_empty_name (c : chart) : Prop := has_state c "" = false.

Definition fields_ok_b (c : chart) : bool :=
  forallb (fun kv : name * state =>
             (match s_initial (snd kv) with Some _ => kind_eqb (s_kind (snd kv)) KCompound | None => true end)
             && (match s_memory (snd kv) with Some _ => is_history (s_kind (snd kv)) | None => true end))
          (c_states c).

Definition fields_ok (c : chart) : Prop :=
  forall k s, lookup k (c_states c) = Some s ->
    (forall i, s_initial s = Some i -> s_kind s = KCompound) /\
    (forall m, s_memory s = Some m -> is_history (s_kind s) = true).

Lemma kind_eqb_eq : forall a b, kind_eqb a b = true <-> a = b.
Proof. intros [] []; simpl; split; congruence. Qed.

Lemma fields_ok_b_sound : forall c, fields_ok_b c = true -> fields_ok c.
Proof.
  intros c H k s Hl. unfold fields_ok_b in H. rewrite forallb_forall in H.
  specialize (H _ (lookup_In _ _ _ Hl)). simpl in H. apply andb_true_iff in H. destruct H as [H1 H2].
  split; intros x E; rewrite E in *; [apply kind_eqb_eq|]; assumption.
Qed.

Lemma fields_ok_b_complete : forall c, NoDup (map fst (c_states c)) -> fields_ok c -> fields_ok_b c = true.
Proof.
  intros c Hnd H. unfold fields_ok_b. rewrite forallb_forall. intros [k s] Hin. simpl.
  destruct (H k s (In_lookup _ _ _ Hnd Hin)) as [H1 H2].
  apply andb_true_iff; split.
  - destruct (s_initial s) eqn:E; [|reflexivity]. apply kind_eqb_eq. eapply H1; reflexivity.
  - destruct (s_memory s) eqn:E; [|reflexivity]. eapply H2; reflexivity.
Qed.

(* ------------------------------------------------------------------ ancestors and ranks *)
Lemma ancestors_fuel_stable : forall c f p,
  length (ancestors_fuel c f p) < f ->
  forall f', f <= f' -> ancestors_fuel c f' p = ancestors_fuel c f p.
Proof.
  intros c f; induction f as [|f IH]; intros p Hlen f' Hle; [inversion Hlen|].
  destruct f' as [|f']; [lia|]. simpl in *.
  destruct (truthy p) as [q|]; [|reflexivity].
  simpl in Hlen. f_equal. apply IH; lia.
Qed.

Lemma ancestors_fuel_S : forall c f p,
  ancestors_fuel c (S f) p =
  match truthy p with Some q => q :: ancestors_fuel c f (parent_for c q) | None => [] end.
Proof. reflexivity. Qed.

Lemma parent_for_lookup : forall c n p, lookup n (c_parent c) = Some p -> parent_for c n = p.
Proof. intros c n p H. unfold parent_for. rewrite H. reflexivity. Qed.

Lemma truthy_Some : forall (p : option name) (q : name), truthy p = Some q -> p = Some q /\ q <> "".
Proof.
  intros [[|a s]|] q H; simpl in H; inv H; split; auto; discriminate.
Qed.

Lemma truthy_nonempty : forall q : name, q <> "" -> truthy (Some q) = Some q.
Proof. intros [|a s] H; [congruence|reflexivity]. Qed.

(* the chain computed by ancestors_for, whatever the fuel, strictly decreases a rank *)
Lemma ancestors_chain : forall c rank,
  rank_ok c rank ->
  (forall n q, lookup n (c_parent c) = Some (Some q) -> lookup q (c_parent c) <> None) ->
  forall f n, lookup n (c_parent c) <> None ->
    Forall (fun x => rank x < rank n /\ lookup x (c_parent c) <> None)
           (ancestors_fuel c f (parent_for c n))
    /\ NoDup (ancestors_fuel c f (parent_for c n)).
Proof.
  intros c rank Hr Hex f; induction f as [|f IH]; intros n Hn; simpl; [split; constructor|].
  destruct (truthy (parent_for c n)) as [q|] eqn:E; [|split; constructor].
  apply truthy_Some in E. destruct E as [E Hq].
  unfold parent_for in E. destruct (lookup n (c_parent c)) as [p|] eqn:El; [|discriminate].
  subst p. pose proof (Hr _ _ El) as Hlt. pose proof (Hex _ _ El) as Hqin.
  destruct (IH q Hqin) as [IH1 IH2]. split.
  - constructor; [split; assumption|].
    eapply Forall_impl; [|exact IH1]. simpl. intros x [Hx1 Hx2]. split; [lia|assumption].
  - constructor; [|exact IH2]. intros Hin. rewrite Forall_forall in IH1.
    destruct (IH1 _ Hin) as [Hx _]. lia.
Qed.

Lemma ancestors_short : forall c rank,
  rank_ok c rank ->
  (forall n q, lookup n (c_parent c) = Some (Some q) -> lookup q (c_parent c) <> None) ->
  forall n, lookup n (c_parent c) <> None ->
    length (ancestors_for c n) < length (c_parent c).
Proof.
  intros c rank Hr Hex n Hn. unfold ancestors_for.
  destruct (ancestors_chain c rank Hr Hex (length (c_parent c)) n Hn) as [H1 H2].
  set (l := ancestors_fuel c (length (c_parent c)) (parent_for c n)) in *.
  assert (Hnd : NoDup (n :: l)).
  { constructor; [|exact H2]. intros Hin. rewrite Forall_forall in H1. destruct (H1 _ Hin); lia. }
  assert (Hincl : incl (n :: l) (map fst (c_parent c))).
  { intros x [<-|Hx]; [apply lookup_Some_In_keys; exact Hn|].
    rewrite Forall_forall in H1. apply lookup_Some_In_keys. apply (H1 _ Hx). }
  pose proof (NoDup_incl_length Hnd Hincl) as Hlen. simpl in Hlen. rewrite map_length in Hlen. lia.
Qed.

(* ------------------------------------------------------------------ sound_b, clause by clause *)
Definition sb_nd_states (c : chart) := nodup_names (map fst (c_states c)).
Definition sb_keyname (c : chart) :=
  forallb (fun kv : string * state => str_eqb (fst kv) (s_name (snd kv))) (c_states c).
Definition sb_pkeys (c : chart) :=
  strs_eqb (sort_names (map fst (c_states c))) (sort_names (map fst (c_parent c))).
Definition sb_nd_parent (c : chart) := nodup_names (map fst (c_parent c)).
Definition sb_ckeys (c : chart) :=
  list_eqb ostr_eqb (None :: map Some (sort_names (map fst (c_states c))))
           (sort ole (map fst (c_children c))).
Definition sb_pc (c : chart) :=
  forallb (fun kv : string * option name =>
     match snd kv with
     | Some p => has_state c p && (count_occ string_dec (children_for c p) (fst kv) =? 1)%nat
     | None => match olookup None (c_children c) with
               | Some l => (count_occ string_dec l (fst kv) =? 1)%nat
               | None => false
               end
     end) (c_parent c).
Definition sb_cp (c : chart) :=
  forallb (fun kv : option string * list name =>
     forallb (fun ch : name => opt_eqb ostr_eqb (lookup ch (c_parent c)) (Some (fst kv))) (snd kv))
    (c_children c).
Definition sb_top (c : chart) :=
  (length (match olookup None (c_children c) with Some l => l | None => [] end) <=? 1)%nat.
Definition sb_acyc (c : chart) :=
  forallb (fun n : name => (length (ancestors_for c n) <? length (c_parent c))%nat)
          (map fst (c_states c)).
Definition sb_trans (c : chart) :=
  forallb (fun t : transition =>
     match state_for c (t_source t) with
     | Some s => owns_transitions (s_kind s)
     | None => false
     end && match t_target t with Some tg => has_state c tg | None => true end)
    (c_transitions c).
Definition sb_refs (c : chart) :=
  forallb (fun kv : name * state =>
     match s_initial (snd kv) with Some i => has_state c i | None => true end
     && match s_memory (snd kv) with Some m => has_state c m | None => true end)
    (c_states c).

Lemma sound_b_unfold : forall c,
  sound_b c = sb_nd_states c && sb_keyname c && sb_pkeys c && sb_nd_parent c && sb_ckeys c
              && sb_pc c && sb_cp c && sb_top c && sb_acyc c && sb_trans c && sb_refs c
              && validate c.
Proof. reflexivity. Qed.

Lemma sb_pkeys_iff : forall c,
  sb_pkeys c = true <-> Permutation (map fst (c_states c)) (map fst (c_parent c)).
Proof.
  intros c. unfold sb_pkeys. rewrite strs_eqb_eq. split; intros H.
  - eapply Permutation_trans; [apply Permutation_sym, sort_names_perm|].
    rewrite H. apply sort_names_perm.
  - apply (sort_perm_eq str_leb str_leb_total str_leb_trans str_leb_antisym). exact H.
Qed.

Lemma sb_ckeys_iff : forall c,
  sb_ckeys c = true <->
  Permutation (map fst (c_children c)) (None :: map Some (map fst (c_states c))).
Proof.
  intros c. unfold sb_ckeys.
  rewrite (list_eqb_eq ostr_eqb ostr_eqb_eq). split; intros H.
  - eapply Permutation_trans; [apply Permutation_sym, (sort_perm ole)|].
    rewrite <- H. apply perm_skip. apply Permutation_map. apply sort_names_perm.
  - rewrite (sort_perm_eq ole ole_total ole_trans ole_antisym _ _ H).
    rewrite sort_ole_None, sort_ole_Some. reflexivity.
Qed.

Lemma validate_initial_iff : forall c, NoDup (map fst (c_states c)) ->
  (validate_initial c = true <->
   forall k s i, lookup k (c_states c) = Some s -> s_kind s = KCompound ->
     truthy (s_initial s) = Some i -> has_state c i = true /\ In i (children_for c k)).
Proof.
  intros c Hnd. unfold validate_initial. rewrite forallb_forall. split.
  - intros H k s i Hl Hk Hi. specialize (H _ (lookup_In _ _ _ Hl)). simpl in H.
    rewrite Hk, Hi in H. simpl in H. apply andb_true_iff in H. destruct H as [H1 H2].
    split; [exact H1|apply mem_In; exact H2].
  - intros H [k s] Hin. simpl. destruct (kind_eqb (s_kind s) KCompound) eqn:Ek; [|reflexivity].
    apply kind_eqb_eq in Ek. destruct (truthy (s_initial s)) as [i|] eqn:Ei; [|reflexivity].
    destruct (H k s i (In_lookup _ _ _ Hnd Hin) Ek Ei) as [H1 H2].
    rewrite H1. simpl. apply mem_In. exact H2.
Qed.

Lemma validate_memory_iff : forall c, NoDup (map fst (c_states c)) ->
  (validate_memory c = true <->
   forall k s m, lookup k (c_states c) = Some s -> is_history (s_kind s) = true ->
     s_memory s = Some m ->
     m <> k /\ has_state c m = true /\
     exists p, parent_for c k = Some p /\ In m (children_for c p)).
Proof.
  intros c Hnd. unfold validate_memory. rewrite forallb_forall. split.
  - intros H k s m Hl Hk Hm. specialize (H _ (lookup_In _ _ _ Hl)). simpl in H.
    rewrite Hk, Hm in H. apply andb_true_iff in H. destruct H as [H H3].
    apply andb_true_iff in H. destruct H as [H1 H2].
    apply negb_true_iff, seqb_neq in H1. split; [exact H1|]. split; [exact H2|].
    destruct (parent_for c k) as [p|]; [|discriminate]. exists p. split; [reflexivity|].
    apply mem_In; exact H3.
  - intros H [k s] Hin. simpl. destruct (is_history (s_kind s)) eqn:Ek; [|reflexivity].
    destruct (s_memory s) as [m|] eqn:Em; [|reflexivity].
    destruct (H k s m (In_lookup _ _ _ Hnd Hin) Ek Em) as [H1 [H2 [p [H3 H4]]]].
    rewrite H2, H3. apply seqb_neq in H1. rewrite H1. simpl. apply mem_In. exact H4.
Qed.

Theorem sound_b_sound : forall c, sound_b c = true -> no_empty_name c -> sound c.
Proof.
  intros c H Hne. rewrite sound_b_unfold in H.
  apply andb_true_iff in H; destruct H as [H Hval].
  apply andb_true_iff in H; destruct H as [H Hrefs].
  apply andb_true_iff in H; destruct H as [H Htrans].
  apply andb_true_iff in H; destruct H as [H Hacyc].
  apply andb_true_iff in H; destruct H as [H Htop].
  apply andb_true_iff in H; destruct H as [H Hcp].
  apply andb_true_iff in H; destruct H as [H Hpc].
  apply andb_true_iff in H; destruct H as [H Hck].
  apply andb_true_iff in H; destruct H as [H Hndp].
  apply andb_true_iff in H; destruct H as [H Hpk].
  apply andb_true_iff in H; destruct H as [Hnds Hkn].
  apply nodup_names_iff in Hnds. apply nodup_names_iff in Hndp.
  apply sb_pkeys_iff in Hpk. apply sb_ckeys_iff in Hck.
  assert (Hndc : NoDup (map fst (c_children c))).
  { eapply Permutation_NoDup; [apply Permutation_sym; exact Hck|]. apply NoDup_map_Some; exact Hnds. }
  assert (Hpk' : forall n, lookup n (c_parent c) <> None <-> has_state c n = true).
  { intros n. rewrite lookup_Some_In_keys, has_state_In. split; apply Permutation_in; [apply Permutation_sym|]; exact Hpk. }
  assert (Hpc' : forall n p, lookup n (c_parent c) = Some p ->
      (forall q, p = Some q -> has_state c q = true) /\
      exists l, olookup p (c_children c) = Some l /\ count_occ string_dec l n = 1).
  { intros n p Hl. apply lookup_In in Hl. unfold sb_pc in Hpc. rewrite forallb_forall in Hpc.
    specialize (Hpc _ Hl). simpl in Hpc. destruct p as [q|].
    - apply andb_true_iff in Hpc. destruct Hpc as [Hq Hc]. apply Nat.eqb_eq in Hc.
      split; [intros q' E; inv E; exact Hq|]. unfold children_for in Hc.
      destruct (olookup (Some q) (c_children c)) as [l|]; [|simpl in Hc; discriminate].
      exists l; split; [reflexivity|exact Hc].
    - split; [intros q' E; discriminate|].
      destruct (olookup None (c_children c)) as [l|]; [|discriminate].
      apply Nat.eqb_eq in Hpc. exists l; split; [reflexivity|exact Hpc]. }
  assert (Hval' := Hval). unfold validate in Hval'. apply andb_true_iff in Hval'.
  destruct Hval' as [Hvi Hvm].
  constructor; try assumption.
  - intros k s Hl. apply lookup_In in Hl. unfold sb_keyname in Hkn. rewrite forallb_forall in Hkn.
    specialize (Hkn _ Hl). simpl in Hkn. apply seqb_eq in Hkn. auto.
  - intros n. rewrite has_state_In. split.
    + intros Hn. apply olookup_None_iff_not in Hn.
      apply (Permutation_in _ Hck) in Hn. destruct Hn as [E|Hn]; [discriminate|].
      apply in_map_iff in Hn. destruct Hn as [x [E Hx]]. inv E. exact Hx.
    + intros Hn. apply olookup_None_iff_not.
      apply (Permutation_in _ (Permutation_sym Hck)). right. apply in_map. exact Hn.
  - apply olookup_None_iff_not. apply (Permutation_in _ (Permutation_sym Hck)). left; reflexivity.
  - intros k l ch Hol Hin. apply olookup_In in Hol. unfold sb_cp in Hcp.
    rewrite forallb_forall in Hcp. specialize (Hcp _ Hol). simpl in Hcp.
    rewrite forallb_forall in Hcp. specialize (Hcp _ Hin).
    apply (opt_eqb_eq ostr_eqb ostr_eqb_eq) in Hcp. exact Hcp.
  - intros l Hl. unfold sb_top in Htop. rewrite Hl in Htop. apply Nat.leb_le in Htop. exact Htop.
  - exists (fun n => length (ancestors_for c n)). intros n q Hl.
    assert (Hn : has_state c n = true) by (apply Hpk'; congruence).
    destruct (Hpc' _ _ Hl) as [Hq _]. specialize (Hq q eq_refl).
    assert (Hqne : q <> "") by (intros ->; unfold no_empty_name in Hne; congruence).
    unfold sb_acyc in Hacyc. rewrite forallb_forall in Hacyc.
    apply has_state_In in Hn. specialize (Hacyc _ Hn). apply Nat.ltb_lt in Hacyc.
    unfold ancestors_for in *. rewrite (parent_for_lookup _ _ _ Hl) in *.
    destruct (length (c_parent c)) as [|N]; [inversion Hacyc|].
    assert (E1 : ancestors_fuel c (S N) (Some q) = q :: ancestors_fuel c N (parent_for c q)).
    { rewrite ancestors_fuel_S, (truthy_nonempty q Hqne). reflexivity. }
    rewrite E1 in *. cbn [length] in *.
    assert (Hlt : length (ancestors_fuel c N (parent_for c q)) < N) by lia.
    rewrite (ancestors_fuel_stable c N _ Hlt (S N) (Nat.le_succ_diag_r N)). lia.
  - intros t Hin. unfold sb_trans in Htrans. rewrite forallb_forall in Htrans.
    specialize (Htrans _ Hin). apply andb_true_iff in Htrans. destruct Htrans as [H1 H2].
    unfold state_for in H1. split.
    + destruct (lookup (t_source t) (c_states c)) as [s|]; [|discriminate]. exists s; auto.
    + intros tg E. rewrite E in H2. exact H2.
  - intros k s Hl. apply lookup_In in Hl. unfold sb_refs in Hrefs. rewrite forallb_forall in Hrefs.
    specialize (Hrefs _ Hl). simpl in Hrefs. apply andb_true_iff in Hrefs. destruct Hrefs as [H1 H2].
    split; intros x E; rewrite E in *; assumption.
  - apply (validate_initial_iff c Hnds); exact Hvi.
  - apply (validate_memory_iff c Hnds); exact Hvm.
Qed.

Lemma sound_parent_exists : forall c, sound c ->
  forall n q, lookup n (c_parent c) = Some (Some q) -> lookup q (c_parent c) <> None.
Proof.
  intros c S n q Hl. apply (sd_pkeys c S). destruct (sd_pc c S _ _ Hl) as [H _]. apply H; reflexivity.
Qed.

Theorem sound_sound_b : forall c, sound c -> sound_b c = true.
Proof.
  intros c S. rewrite sound_b_unfold.
  pose proof (sd_nd_states c S) as Hnds. pose proof (sd_nd_parent c S) as Hndp.
  pose proof (sd_nd_children c S) as Hndc.
  repeat (apply andb_true_iff; split).
  - apply nodup_names_iff; exact Hnds.
  - unfold sb_keyname. rewrite forallb_forall. intros [k s] Hin. simpl.
    apply seqb_eq. symmetry. apply (sd_keyname c S). apply In_lookup; assumption.
  - apply sb_pkeys_iff. apply NoDup_Permutation; [assumption|assumption|].
    intros x. rewrite <- has_state_In, <- lookup_Some_In_keys. symmetry. apply (sd_pkeys c S).
  - apply nodup_names_iff; exact Hndp.
  - apply sb_ckeys_iff. apply NoDup_Permutation; [assumption|apply NoDup_map_Some; assumption|].
    intros [x|].
    + rewrite <- olookup_None_iff_not, (sd_ckeys c S), has_state_In. split.
      * intros H; right; apply in_map; exact H.
      * intros [E|H]; [discriminate|]. apply in_map_iff in H. destruct H as [y [E Hy]]. inv E. exact Hy.
    + rewrite <- olookup_None_iff_not. split; [intros _; left; reflexivity|intros _; apply (sd_ctop c S)].
  - unfold sb_pc. rewrite forallb_forall. intros [n p] Hin. simpl.
    destruct (sd_pc c S n p (In_lookup _ _ _ Hndp Hin)) as [H1 [l [H2 H3]]].
    destruct p as [q|].
    + rewrite (H1 q eq_refl). simpl. unfold children_for. rewrite H2. apply Nat.eqb_eq. exact H3.
    + rewrite H2. apply Nat.eqb_eq. exact H3.
  - unfold sb_cp. rewrite forallb_forall. intros [k l] Hin. simpl.
    rewrite forallb_forall. intros ch Hch.
    apply (opt_eqb_eq ostr_eqb ostr_eqb_eq).
    apply (sd_cp c S k l ch); [apply In_olookup; assumption|exact Hch].
  - unfold sb_top. destruct (olookup None (c_children c)) as [l|] eqn:E.
    + apply Nat.leb_le. apply (sd_top c S); exact E.
    + reflexivity.
  - unfold sb_acyc. rewrite forallb_forall. intros n Hn. apply Nat.ltb_lt.
    destruct (sd_acyc c S) as [rank Hr].
    apply (ancestors_short c rank Hr (sound_parent_exists c S)).
    apply (sd_pkeys c S). apply has_state_In. exact Hn.
  - unfold sb_trans. rewrite forallb_forall. intros t Hin.
    destruct (sd_trans c S t Hin) as [[s [H1 H2]] H3]. unfold state_for. rewrite H1, H2. simpl.
    destruct (t_target t) as [tg|]; [apply H3; reflexivity|reflexivity].
  - unfold sb_refs. rewrite forallb_forall. intros [k s] Hin. simpl.
    destruct (sd_refs c S k s (In_lookup _ _ _ Hnds Hin)) as [H1 H2].
    apply andb_true_iff; split.
    + destruct (s_initial s); [apply H1; reflexivity|reflexivity].
    + destruct (s_memory s); [apply H2; reflexivity|reflexivity].
  - apply (validate_initial_iff c Hnds). apply (sd_vinit c S).
  - apply (validate_memory_iff c Hnds). apply (sd_vmem c S).
Qed.

Theorem sound_b_iff : forall c, no_empty_name c -> (sound_b c = true <-> sound c).
Proof. intros c Hne; split; [intros H; apply sound_b_sound; assumption|apply sound_sound_b]. Qed.

(* ------------------------------------------------------------------ consequences of soundness *)
Ltac dseq :=
  match goal with
  | H : context [str_eqb ?a ?b] |- _ => destruct (seqbP a b)
  | |- context [str_eqb ?a ?b] => destruct (seqbP a b)
  | H : context [opt_eqb str_eqb ?a ?b] |- _ => destruct (oeqbP a b)
  | |- context [opt_eqb str_eqb ?a ?b] => destruct (oeqbP a b)
  end.

Lemma sound_child_state : forall c, sound c ->
  forall k l ch, olookup k (c_children c) = Some l -> In ch l -> has_state c ch = true.
Proof.
  intros c S k l ch Hl Hin. apply (sd_pkeys c S). rewrite (sd_cp c S _ _ _ Hl Hin). discriminate.
Qed.

Lemma sound_children_NoDup : forall c, sound c ->
  forall k l, olookup k (c_children c) = Some l -> NoDup l.
Proof.
  intros c S k l Hl. apply (NoDup_count_occ string_dec). intros x.
  destruct (in_dec string_dec x l) as [Hin|Hnin].
  - pose proof (sd_cp c S _ _ _ Hl Hin) as Hp.
    destruct (sd_pc c S _ _ Hp) as [_ [l' [Hl' Hc]]]. rewrite Hl in Hl'. inv Hl'. lia.
  - apply (count_occ_not_In string_dec) in Hnin. lia.
Qed.

Lemma sound_state_parent : forall c, sound c ->
  forall n, has_state c n = true -> exists p, lookup n (c_parent c) = Some p.
Proof.
  intros c S n Hn. apply (sd_pkeys c S) in Hn.
  destruct (lookup n (c_parent c)) as [p|]; [eauto|congruence].
Qed.

Lemma sound_state_children : forall c, sound c ->
  forall n, has_state c n = true -> exists l, olookup (Some n) (c_children c) = Some l.
Proof.
  intros c S n Hn. apply (sd_ckeys c S) in Hn.
  destruct (olookup (Some n) (c_children c)) as [l|]; [eauto|congruence].
Qed.

Lemma sound_nostate_children : forall c, sound c ->
  forall n, has_state c n = false -> olookup (Some n) (c_children c) = None.
Proof.
  intros c S n Hn. destruct (olookup (Some n) (c_children c)) as [l|] eqn:E; [|reflexivity].
  assert (H : has_state c n = true) by (apply (sd_ckeys c S); congruence). congruence.
Qed.

Lemma sound_nostate_parent : forall c, sound c ->
  forall n, has_state c n = false -> lookup n (c_parent c) = None.
Proof.
  intros c S n Hn. destruct (lookup n (c_parent c)) as [l|] eqn:E; [|reflexivity].
  assert (H : has_state c n = true) by (apply (sd_pkeys c S); congruence). congruence.
Qed.

Lemma children_for_lookup : forall c n l, olookup (Some n) (c_children c) = Some l -> children_for c n = l.
Proof. intros c n l H. unfold children_for. rewrite H. reflexivity. Qed.

(* every state has a root above it *)
Lemma sound_has_root : forall c, sound c ->
  forall x, has_state c x = true -> exists r, lookup r (c_parent c) = Some None.
Proof.
  intros c S. destruct (sd_acyc c S) as [rank Hr].
  assert (H : forall k x, rank x < k -> has_state c x = true -> exists r, lookup r (c_parent c) = Some None).
  { induction k as [|k IH]; intros x Hk Hx; [inversion Hk|].
    destruct (sound_state_parent c S x Hx) as [[q|] Hp]; [|eauto].
    apply (IH q).
    - specialize (Hr _ _ Hp). lia.
    - destruct (sd_pc c S _ _ Hp) as [H _]. apply H; reflexivity. }
  intros x Hx. apply (H (Datatypes.S (rank x)) x); auto.
Qed.

Lemma root_of_some : forall (P : list (name * option name)) r,
  In (r, None) P -> exists r', root_of P = Some r' /\ In r' (map fst P).
Proof.
  induction P as [|[n [p|]] P IH]; intros r Hin; simpl in *; [destruct Hin| |].
  - destruct Hin as [E|Hin]; [discriminate|]. destruct (IH _ Hin) as [r' [H1 H2]]. eauto.
  - exists n; auto.
Qed.

Lemma sound_no_root_empty : forall c, sound c -> no_empty_name c ->
  truthy (root c) = None -> forall x, has_state c x = false.
Proof.
  intros c S Hne Hroot x. destruct (has_state c x) eqn:Hx; [|reflexivity]. exfalso.
  destruct (sound_has_root c S x Hx) as [r Hr].
  destruct (root_of_some _ _ (lookup_In _ _ _ Hr)) as [r' [H1 H2]].
  unfold root in Hroot. rewrite H1 in Hroot.
  assert (Hr' : has_state c r' = true) by (apply (sd_pkeys c S); apply lookup_Some_In_keys; exact H2).
  assert (r' <> "") by (intros ->; unfold no_empty_name in Hne; congruence).
  rewrite truthy_nonempty in Hroot by assumption. discriminate.
Qed.

(* ================================================================== 3. C16: preservation *)

(* ------------------------------------------------------------------ transitions only *)
Lemma sound_with_transitions : forall c ts, sound c ->
  (forall t, In t ts ->
      (exists s, lookup (t_source t) (c_states c) = Some s /\ owns_transitions (s_kind s) = true) /\
      (forall tg, t_target t = Some tg -> has_state c tg = true)) ->
  sound (with_transitions c ts).
Proof.
  intros c ts S H. destruct S. constructor; assumption.
Qed.

Lemma add_transition_sound : forall c t c',
  sound c -> add_transition c t = (c', EOk) -> sound c'.
Proof.
  intros c t c' S H. unfold add_transition, state_for in H.
  destruct (lookup (t_source t) (c_states c)) as [s|] eqn:Es; [|discriminate].
  destruct (owns_transitions (s_kind s)) eqn:Eo; simpl in H; [|discriminate].
  assert (Ht : (exists s, lookup (t_source t) (c_states c) = Some s /\ owns_transitions (s_kind s) = true) /\
               (forall tg, t_target t = Some tg -> has_state c tg = true) /\
               c' = with_transitions c (c_transitions c ++ [t])).
  { split; [eauto|]. destruct (t_target t) as [tg|].
    - destruct (has_state c tg) eqn:Etg; inv H. split; [intros x E; inv E; assumption|reflexivity].
    - inv H. split; [intros x E; discriminate|reflexivity]. }
  destruct Ht as [H1 [H2 ->]]. apply sound_with_transitions; [assumption|].
  intros t' Hin. apply in_app_or in Hin. destruct Hin as [Hin|[<-|[]]].
  - apply (sd_trans c S); assumption.
  - split; assumption.
Qed.

Lemma remove_first_trans_In : forall t l l', remove_first_trans t l = Some l' ->
  forall x, In x l' -> In x l.
Proof.
  intros t l; induction l as [|y l IH]; intros l' H x Hx; simpl in H; [discriminate|].
  destruct (trans_eqb y t).
  - inv H. right; assumption.
  - destruct (remove_first_trans t l) as [r|]; [|discriminate]. inv H.
    destruct Hx as [<-|Hx]; [left; reflexivity|right; eapply IH; eauto].
Qed.

Lemma remove_transition_sound : forall c t c',
  sound c -> remove_transition c t = (c', EOk) -> sound c'.
Proof.
  intros c t c' S H. unfold remove_transition in H.
  destruct (remove_first_trans t (c_transitions c)) as [l|] eqn:E; inv H.
  apply sound_with_transitions; [assumption|]. intros t' Hin.
  apply (sd_trans c S). eapply remove_first_trans_In; eauto.
Qed.

Lemma In_set_nth : forall {A} i (y : A) l x, In x (set_nth i y l) -> x = y \/ In x l.
Proof.
  intros A i y l; revert i; induction l as [|z l IH]; intros [|i] x H; simpl in *; auto.
  - destruct H as [<-|H]; auto.
  - destruct H as [<-|H]; auto. destruct (IH _ _ H); auto.
Qed.

Lemma rotate_transition_sound : forall c i s t c',
  sound c -> rotate_transition c i s t = (c', EOk) -> sound c'.
Proof.
  intros c i ns nt c' S H. unfold rotate_transition in H.
  assert (H' : match i with
               | None => (c, EStatechartError)
               | Some i =>
                 match nth_error (c_transitions c) i with
                 | None => (c, EStatechartError)
                 | Some t =>
                   if (match ns with
                       | None => true
                       | Some s => match state_for c s with
                                   | Some st => owns_transitions (s_kind st)
                                   | None => false end end)
                      && (match nt with Some (Some tg) => has_state c tg | _ => true end)
                   then (with_transitions c
                           (set_nth i (match nt with
                                       | Some tg => set_target (match ns with Some s => set_source t s | None => t end) tg
                                       | None => (match ns with Some s => set_source t s | None => t end) end)
                                    (c_transitions c)), EOk)
                   else (c, EStatechartError)
                 end
               end = (c', EOk)).
  { destruct ns, nt; try exact H. discriminate. }
  clear H. destruct i as [i|]; [|discriminate].
  destruct (nth_error (c_transitions c) i) as [t|] eqn:En; [|discriminate].
  match type of H' with (if ?b then _ else _) = _ => destruct b eqn:Eb end; [|discriminate].
  inv H'. apply andb_true_iff in Eb. destruct Eb as [Es Et].
  apply sound_with_transitions; [assumption|]. intros t' Hin.
  apply In_set_nth in Hin. destruct Hin as [->|Hin]; [|apply (sd_trans c S); assumption].
  apply nth_error_In in En. destruct (sd_trans c S t En) as [Hsrc Htgt].
  assert (Hsrc' : exists s, lookup (t_source (match ns with Some s => set_source t s | None => t end)) (c_states c) = Some s
                            /\ owns_transitions (s_kind s) = true).
  { destruct ns as [s|]; [|exact Hsrc]. simpl. unfold state_for in Es.
    destruct (lookup s (c_states c)) as [st|]; [eauto|discriminate]. }
  assert (Htgt' : forall tg, t_target (match ns with Some s => set_source t s | None => t end) = Some tg -> has_state c tg = true).
  { destruct ns; exact Htgt. }
  destruct nt as [[tg|]|]; simpl.
  - split; [exact Hsrc'|]. intros x E; inv E; exact Et.
  - split; [exact Hsrc'|]. intros x E; discriminate.
  - split; assumption.
Qed.

(* ------------------------------------------------------------------ key lists stay duplicate-free *)
Lemma NoDup_keys_dset : forall {V} k (v : V) d, NoDup (map fst d) -> NoDup (map fst (dset k v d)).
Proof.
  intros V k v d H. rewrite keys_dset. destruct (mem k (map fst d)) eqn:E; [exact H|].
  apply NoDup_snoc; [exact H|]. apply mem_false_iff; exact E.
Qed.

Lemma NoDup_keys_dremove : forall {V} k (d : list (name * V)), NoDup (map fst d) -> NoDup (map fst (dremove k d)).
Proof. intros V k d H. rewrite keys_dremove. apply NoDup_remove_first; exact H. Qed.

Lemma okeys_oset : forall {V} k (v : V) d,
  map fst (oset k v d) = if in_dec oname_dec k (map fst d) then map fst d else map fst d ++ [k].
Proof.
  intros V k v d; induction d as [|[k0 v0] d IH]; simpl; [reflexivity|].
  destruct (oeqbP k k0) as [->|Hn]; simpl.
  - destruct (oname_dec k0 k0); [reflexivity|congruence].
  - rewrite IH. destruct (oname_dec k0 k); [congruence|].
    destruct (in_dec oname_dec k (map fst d)); reflexivity.
Qed.

Lemma NoDup_keys_oset : forall {V} k (v : V) d, NoDup (map fst d) -> NoDup (map fst (oset k v d)).
Proof.
  intros V k v d H. rewrite okeys_oset. destruct (in_dec oname_dec k (map fst d)); [exact H|].
  apply NoDup_snoc; assumption.
Qed.

Lemma NoDup_keys_oremove : forall {V} k (d : list (option name * V)),
  NoDup (map fst d) -> NoDup (map fst (oremove k d)).
Proof.
  intros V k d; induction d as [|[k0 v0] d IH]; simpl; intros H; [constructor|].
  inv H. destruct (oeqbP k k0); [assumption|]. simpl. constructor; [|auto].
  intros Hin. apply H2. clear - Hin. induction d as [|[k1 v1] d IH]; simpl in *; [auto|].
  destruct (opt_eqb str_eqb k k1); simpl in *; [right; assumption|destruct Hin; auto].
Qed.

(* ------------------------------------------------------------------ add_state *)
Definition register_chart (c : chart) (st : state) (parent : option name) (l : list name) : chart :=
  mkChart (c_name c) (c_description c) (c_preamble c)
          (dset (s_name st) st (c_states c))
          (dset (s_name st) parent (c_parent c))
          (oset parent (l ++ [s_name st]) (oset (Some (s_name st)) [] (c_children c)))
          (c_transitions c).

Lemma has_state_mk : forall a b d S P C T k,
  has_state (mkChart a b d S P C T) k = match lookup k S with Some _ => true | None => false end.
Proof. reflexivity. Qed.

(* what add_state needs from the new state object: a name, no `initial` (a compound state is
   added before its children, so any initial would dangle or fail validate()), and a `memory`
   that is unset or already valid (a sibling-to-be of the new history state) *)
Definition memory_ok (c : chart) (st : state) (parent : option name) : Prop :=
  forall m, s_memory st = Some m ->
    is_history (s_kind st) = true /\ m <> s_name st /\
    exists q, parent = Some q /\ In m (children_for c q).

Lemma register_sound : forall c st parent l,
  sound c -> has_state c (s_name st) = false ->
  s_initial st = None -> memory_ok c st parent ->
  (forall q, parent = Some q -> has_state c q = true) ->
  olookup parent (c_children c) = Some l ->
  (parent = None -> l = []) ->
  sound (register_chart c st parent l).
Proof.
  intros c st parent l HS Hfresh Hi Hm Hpar Hl Htop.
  set (nm := s_name st) in *.
  set (c' := register_chart c st parent l).
  assert (V1 : forall k, lookup k (c_states c') = if str_eqb k nm then Some st else lookup k (c_states c)).
  { intros k. apply lookup_dset. }
  assert (V2 : forall k, lookup k (c_parent c') = if str_eqb k nm then Some parent else lookup k (c_parent c)).
  { intros k. apply lookup_dset. }
  assert (Hpn : parent <> Some nm).
  { intros E. rewrite (Hpar nm E) in Hfresh. discriminate. }
  assert (V3 : forall k, olookup k (c_children c') =
                         if opt_eqb str_eqb k parent then Some (l ++ [nm])
                         else if opt_eqb str_eqb k (Some nm) then Some [] else olookup k (c_children c)).
  { intros k. unfold c', register_chart. cbn [c_children]. rewrite !olookup_oset. reflexivity. }
  assert (V4 : forall k, has_state c' k = str_eqb k nm || has_state c k).
  { intros k. unfold has_state. rewrite V1. destruct (str_eqb k nm); reflexivity. }
  assert (Hmono : forall k, has_state c k = true -> has_state c' k = true).
  { intros k Hk. rewrite V4, Hk. apply orb_true_r. }
  assert (Hlst : forall x, In x l -> x <> nm).
  { intros x Hx ->. rewrite (sound_child_state c HS _ _ _ Hl Hx) in Hfresh. discriminate. }
  assert (Hch : forall k, incl (children_for c k) (children_for c' k)).
  { intros k x Hx. unfold children_for in *. rewrite V3.
    destruct (oeqbP (Some k) parent) as [E|E].
    - rewrite <- E in Hl. rewrite Hl in Hx. apply in_or_app; left; exact Hx.
    - destruct (oeqbP (Some k) (Some nm)) as [E2|E2]; [|exact Hx].
      inv E2. rewrite (sound_nostate_children c HS _ Hfresh) in Hx. destruct Hx. }
  constructor.
  - apply NoDup_keys_dset. apply (sd_nd_states c HS).
  - apply NoDup_keys_dset. apply (sd_nd_parent c HS).
  - unfold c', register_chart. cbn [c_children]. do 2 apply NoDup_keys_oset. apply (sd_nd_children c HS).
  - intros k s. rewrite V1. destruct (seqbP k nm) as [->|Hn]; [intros E; inv E; reflexivity|apply (sd_keyname c HS)].
  - intros k. rewrite V2, V4. destruct (seqbP k nm); simpl; [split; [reflexivity|discriminate]|apply (sd_pkeys c HS)].
  - intros k. rewrite V3, V4. destruct (oeqbP (Some k) parent) as [E|E].
    + split; [intros _|discriminate]. rewrite (Hpar k (eq_sym E)). apply orb_true_r.
    + destruct (oeqbP (Some k) (Some nm)) as [E2|E2].
      * inv E2. rewrite seqb_refl. simpl. split; [reflexivity|discriminate].
      * destruct (seqbP k nm); [congruence|]. simpl. apply (sd_ckeys c HS).
  - rewrite V3. destruct (oeqbP None parent); [discriminate|]. simpl. apply (sd_ctop c HS).
  - intros n p. rewrite V2. destruct (seqbP n nm) as [->|Hn].
    + intros E; inv E. split; [intros q E; apply Hmono, Hpar, E|].
      exists (l ++ [nm]). rewrite V3, oeqb_refl. split; [reflexivity|].
      rewrite count_occ_snoc. destruct (string_dec nm nm); [|congruence].
      assert (count_occ string_dec l nm = 0); [|lia].
      apply (count_occ_not_In string_dec). intros Hin. apply (Hlst _ Hin). reflexivity.
    + intros Hp. destruct (sd_pc c HS _ _ Hp) as [H1 [l0 [H2 H3]]].
      split; [intros q E; apply Hmono, (H1 q E)|].
      rewrite V3. destruct (oeqbP p parent) as [->|E].
      * rewrite Hl in H2. inv H2. exists (l0 ++ [nm]). split; [reflexivity|].
        rewrite count_occ_snoc. destruct (string_dec nm n); [congruence|lia].
      * destruct (oeqbP p (Some nm)) as [->|E2]; [|eauto].
        rewrite (H1 nm eq_refl) in Hfresh. discriminate.
  - intros k l' ch. rewrite V3, V2. destruct (oeqbP k parent) as [->|E].
    + intros E; inv E. intros Hin. apply in_app_or in Hin. destruct Hin as [Hin|[<-|[]]].
      * destruct (seqbP ch nm) as [->|_]; [exfalso; apply (Hlst _ Hin); reflexivity|].
        apply (sd_cp c HS _ _ _ Hl Hin).
      * rewrite seqb_refl. reflexivity.
    + destruct (oeqbP k (Some nm)); [intros E2; inv E2; intros []|].
      intros Hl' Hin. destruct (seqbP ch nm) as [->|_].
      * rewrite (sound_child_state c HS _ _ _ Hl' Hin) in Hfresh. discriminate.
      * apply (sd_cp c HS _ _ _ Hl' Hin).
  - intros l'. rewrite V3. destruct (oeqbP None parent) as [E|E].
    + rewrite (Htop (eq_sym E)). intros E2; inv E2. simpl. lia.
    + simpl. apply (sd_top c HS).
  - destruct (sd_acyc c HS) as [rank Hr].
    exists (fun x => if str_eqb x nm then Datatypes.S (match parent with Some q => rank q | None => 0 end) else rank x).
    intros n q. rewrite V2. destruct (seqbP n nm) as [->|Hn].
    + intros E; inv E. destruct (seqbP q nm) as [->|_]; [congruence|lia].
    + intros Hp. destruct (seqbP q nm) as [->|_].
      * destruct (sd_pc c HS _ _ Hp) as [H1 _]. rewrite (H1 nm eq_refl) in Hfresh. discriminate.
      * apply (Hr _ _ Hp).
  - intros t Hin. destruct (sd_trans c HS t Hin) as [[s [H1 H2]] H3]. split.
    + exists s. rewrite V1. destruct (seqbP (t_source t) nm) as [E|_]; [|auto].
      apply has_state_false in Hfresh. fold nm in Hfresh. rewrite <- E in Hfresh. congruence.
    + intros tg E. apply Hmono, (H3 tg E).
  - intros k s. rewrite V1. destruct (seqbP k nm) as [->|Hn].
    + intros E; inv E. rewrite Hi. split; intros x E; [discriminate|].
      destruct (Hm x E) as [_ [_ [q [-> Hq]]]]. apply Hmono. unfold children_for in Hq.
      destruct (olookup (Some q) (c_children c)) as [lq|] eqn:Eq; [|destruct Hq].
      apply (sound_child_state c HS _ _ _ Eq Hq).
    + intros Hk. destruct (sd_refs c HS _ _ Hk) as [H1 H2]. split; intros x E; apply Hmono; auto.
  - intros k s i. rewrite V1. destruct (seqbP k nm) as [->|Hn].
    + intros E; inv E. rewrite Hi. simpl. discriminate.
    + intros Hk Hkind Hini. destruct (sd_vinit c HS _ _ _ Hk Hkind Hini) as [H1 H2].
      split; [apply Hmono, H1|apply Hch, H2].
  - intros k s m. rewrite V1. destruct (seqbP k nm) as [->|Hn].
    + intros E; inv E. intros _ Hmem. destruct (Hm m Hmem) as [_ [Hmn [q [-> Hq]]]].
      split; [exact Hmn|]. split.
      * apply Hmono. unfold children_for in Hq.
        destruct (olookup (Some q) (c_children c)) as [lq|] eqn:Eq; [|destruct Hq].
        apply (sound_child_state c HS _ _ _ Eq Hq).
      * exists q. split; [|apply Hch; exact Hq]. unfold parent_for. rewrite V2, seqb_refl. reflexivity.
    + intros Hk Hkind Hmem. destruct (sd_vmem c HS _ _ _ Hk Hkind Hmem) as [H1 [H2 [p [H3 H4]]]].
      split; [exact H1|]. split; [apply Hmono, H2|]. exists p. split; [|apply Hch, H4].
      unfold parent_for in *. rewrite V2. destruct (seqbP k nm); [congruence|exact H3].
Qed.

Lemma no_parent_true : forall p, no_parent p = true <-> p = None \/ p = @Some name "".
Proof.
  intros [[|a s]|]; unfold no_parent; simpl; split; auto; try discriminate.
  intros [H|H]; discriminate.
Qed.

Lemma add_state_inv : forall c st parent c' r,
  add_state c st parent = (c', r) -> r = EOk \/ r = EKeyError ->
  has_state c (s_name st) = false /\
  ((no_parent parent = true /\ truthy (root c) = None) \/
   (no_parent parent = false /\ exists p, parent = Some p /\ has_state c p = true)) /\
  match olookup parent (oset (Some (s_name st)) [] (c_children c)) with
  | Some l => c' = register_chart c st parent l /\ r = EOk
  | None => r = EKeyError
  end.
Proof.
  intros c st parent c' r H Hr. unfold add_state in H.
  destruct (has_state c (s_name st)) eqn:Ehs; [inv H; destruct Hr; discriminate|].
  split; [reflexivity|].
  assert (Hreg : forall (cond : Prop), cond ->
     (let c1 := with_states c (dset (s_name st) st (c_states c)) in
      let c2 := with_parent c1 (dset (s_name st) parent (c_parent c1)) in
      let c3 := with_children c2 (oset (Some (s_name st)) [] (c_children c2)) in
      match olookup parent (c_children c3) with
      | Some l => (with_children c3 (oset parent (l ++ [s_name st]) (c_children c3)), EOk)
      | None => (c3, EKeyError)
      end) = (c', r) ->
     cond /\ match olookup parent (oset (Some (s_name st)) [] (c_children c)) with
             | Some l => c' = register_chart c st parent l /\ r = EOk
             | None => r = EKeyError
             end).
  { intros cond Hc H0. split; [exact Hc|]. cbv zeta in H0. cbn [c_children with_children with_parent with_states c_parent c_states] in H0.
    destruct (olookup parent (oset (Some (s_name st)) [] (c_children c))) as [l|]; inv H0; auto. }
  destruct (no_parent parent) eqn:Enp.
  - destruct (truthy (root c)) eqn:Er; [inv H; destruct Hr; discriminate|].
    destruct (is_history (s_kind st)); [inv H; destruct Hr; discriminate|].
    apply Hreg; auto.
  - destruct parent as [p|]; [|inv H; destruct Hr; discriminate].
    unfold state_for in H. destruct (lookup p (c_states c)) as [ps|] eqn:Ep; [|inv H; destruct Hr; discriminate].
    destruct (negb (is_composite (s_kind ps))); [inv H; destruct Hr; discriminate|].
    destruct (is_history (s_kind st) && negb (kind_eqb (s_kind ps) KCompound)); [inv H; destruct Hr; discriminate|].
    apply Hreg; [|exact H]. right. split; [reflexivity|]. exists p. split; [reflexivity|].
    unfold has_state. rewrite Ep. reflexivity.
Qed.

Lemma add_state_ok : forall c st parent c' r,
  sound c -> no_empty_name c -> s_name st <> "" ->
  add_state c st parent = (c', r) -> r = EOk \/ r = EKeyError ->
  (r = EOk /\ exists l, olookup parent (c_children c) = Some l /\ (parent = None -> l = []) /\
     (forall q, parent = Some q -> has_state c q = true) /\
     has_state c (s_name st) = false /\ c' = register_chart c st parent l)
  \/ (r = EKeyError /\ parent = Some "").
Proof.
  intros c st parent c' r HS Hne Hnm H Hr.
  destruct (add_state_inv _ _ _ _ _ H Hr) as [Hfresh [Hcond Hreg]].
  rewrite olookup_oset in Hreg.
  destruct Hcond as [[Hnp Hroot]|[Hnp [p [-> Hp]]]].
  - pose proof (sound_no_root_empty c HS Hne Hroot) as Hempty.
    apply no_parent_true in Hnp. destruct Hnp as [->| ->].
    + simpl in Hreg. destruct (olookup None (c_children c)) as [l|] eqn:El.
      * destruct Hreg as [-> ->]. left. split; [reflexivity|]. exists l. split; [reflexivity|].
        split; [|split; [intros q E; discriminate|split; [exact Hfresh|reflexivity]]].
        intros _. destruct l as [|x l]; [reflexivity|].
        specialize (Hempty x). rewrite (sound_child_state c HS _ _ x El) in Hempty; [discriminate|left; reflexivity].
      * exfalso. apply (sd_ctop c HS). exact El.
    + destruct (oeqbP (@Some name "") (Some (s_name st))) as [E|_]; [inv E; congruence|].
      rewrite (sound_nostate_children c HS "" (Hempty "")) in Hreg. right. auto.
  - destruct (oeqbP (Some p) (Some (s_name st))) as [E|_]; [inv E; congruence|].
    destruct (sound_state_children c HS p Hp) as [l El]. rewrite El in Hreg. destruct Hreg as [-> ->].
    left. split; [reflexivity|]. exists l. split; [exact El|]. split; [discriminate|].
    split; [intros q E; inv E; exact Hp|]. split; [exact Hfresh|reflexivity].
Qed.

Lemma add_state_sound : forall c st parent c',
  sound c -> no_empty_name c ->
  s_name st <> "" -> s_initial st = None -> memory_ok c st parent ->
  add_state c st parent = (c', EOk) -> sound c'.
Proof.
  intros c st parent c' HS Hne Hnm Hi Hm H.
  destruct (add_state_ok _ _ _ _ _ HS Hne Hnm H (or_introl eq_refl)) as [[_ [l [Hl [Htop [Hpar [Hfresh ->]]]]]]|[E _]]; [|discriminate].
  apply register_sound; assumption.
Qed.

Lemma add_state_no_keyerror : forall c st parent c',
  sound c -> no_empty_name c -> s_name st <> "" -> parent <> Some "" ->
  add_state c st parent = (c', EKeyError) -> False.
Proof.
  intros c st parent c' HS Hne Hnm Hp H.
  destruct (add_state_ok _ _ _ _ _ HS Hne Hnm H (or_intror eq_refl)) as [[E _]|[_ E]]; [discriminate|auto].
Qed.

(* ------------------------------------------------------------------ ancestors as a relation, bfs *)
Inductive anc (c : chart) : name -> name -> Prop :=
| anc_parent : forall x a, lookup x (c_parent c) = Some (Some a) -> anc c x a
| anc_step : forall x q a, lookup x (c_parent c) = Some (Some q) -> anc c q a -> anc c x a.

Lemma anc_inv : forall c x a, anc c x a ->
  exists q, lookup x (c_parent c) = Some (Some q) /\ (q = a \/ anc c q a).
Proof. intros c x a H. inversion H; subst; eauto. Qed.

Lemma anc_trans : forall c x y z, anc c x y -> anc c y z -> anc c x z.
Proof.
  intros c x y z H; induction H as [x a H|x q a H H' IH]; intros Hz.
  - eapply anc_step; eauto.
  - eapply anc_step; eauto.
Qed.

Lemma anc_rank : forall c rank, rank_ok c rank -> forall x a, anc c x a -> rank a < rank x.
Proof.
  intros c rank Hr x a H; induction H as [x a H|x q a H H' IH].
  - apply (Hr _ _ H).
  - specialize (Hr _ _ H). lia.
Qed.

Lemma sound_anc_irrefl : forall c, sound c -> forall x, ~ anc c x x.
Proof.
  intros c HS x H. destruct (sd_acyc c HS) as [rank Hr]. pose proof (anc_rank c rank Hr _ _ H). lia.
Qed.

Lemma sound_child_parent : forall c, sound c ->
  forall x ch, In ch (children_for c x) -> lookup ch (c_parent c) = Some (Some x).
Proof.
  intros c HS x ch Hin. unfold children_for in Hin.
  destruct (olookup (Some x) (c_children c)) as [l|] eqn:E; [|destruct Hin].
  apply (sd_cp c HS _ _ _ E Hin).
Qed.

Lemma sound_parent_child : forall c, sound c ->
  forall x ch, lookup ch (c_parent c) = Some (Some x) -> In ch (children_for c x).
Proof.
  intros c HS x ch Hp. destruct (sd_pc c HS _ _ Hp) as [_ [l [Hl Hc]]].
  unfold children_for. rewrite Hl. apply count_occ_one_In; exact Hc.
Qed.

Lemma sound_children_for_NoDup : forall c, sound c -> forall x, NoDup (children_for c x).
Proof.
  intros c HS x. unfold children_for.
  destruct (olookup (Some x) (c_children c)) as [l|] eqn:E; [|constructor].
  apply (sound_children_NoDup c HS _ _ E).
Qed.

Lemma bfs_S : forall c f n q,
  bfs c (S f) (n :: q) = children_for c n ++ bfs c f (q ++ children_for c n).
Proof. reflexivity. Qed.

(* everything bfs outputs is a strict descendant of a queue element *)
Lemma bfs_sound : forall c, sound c -> forall f q y,
  In y (bfs c f q) -> exists x, In x q /\ anc c y x.
Proof.
  intros c HS f; induction f as [|f IH]; intros q y Hy; [destruct Hy|].
  destruct q as [|n q]; [destruct Hy|]. rewrite bfs_S in Hy.
  apply in_app_or in Hy. destruct Hy as [Hy|Hy].
  - exists n. split; [left; reflexivity|]. apply anc_parent. apply sound_child_parent; assumption.
  - destruct (IH _ _ Hy) as [x [Hx Ha]]. apply in_app_or in Hx. destruct Hx as [Hx|Hx].
    + exists x. split; [right; exact Hx|exact Ha].
    + exists n. split; [left; reflexivity|]. eapply anc_trans; [exact Ha|].
      apply anc_parent. apply sound_child_parent; assumption.
Qed.

(* if the fuel was not exhausted the output is closed under children *)
Lemma bfs_closed : forall c f q,
  length q + length (bfs c f q) <= f ->
  forall x, In x (q ++ bfs c f q) -> incl (children_for c x) (bfs c f q).
Proof.
  intros c f; induction f as [|f IH]; intros q Hlen x Hx.
  - destruct q; simpl in *; [destruct Hx|lia].
  - destruct q as [|n q]; [destruct Hx|]. rewrite bfs_S in *.
    assert (Hlen' : length (q ++ children_for c n) + length (bfs c f (q ++ children_for c n)) <= f).
    { rewrite app_length in *. simpl in Hlen. lia. }
    specialize (IH _ Hlen'). destruct Hx as [<-|Hx].
    + intros y Hy. apply in_or_app; left; exact Hy.
    + intros y Hy. apply in_or_app; right. apply (IH x); [|exact Hy].
      rewrite <- app_assoc. exact Hx.
Qed.

Lemma NoDup_app_intro : forall {A} (l1 l2 : list A),
  NoDup l1 -> NoDup l2 -> (forall x, In x l1 -> In x l2 -> False) -> NoDup (l1 ++ l2).
Proof.
  intros A l1; induction l1 as [|a l1 IH]; simpl; intros l2 H1 H2 H; [exact H2|].
  inv H1. constructor.
  - intros Hin. apply in_app_or in Hin. destruct Hin as [Hin|Hin]; [auto|]. apply (H a); auto.
  - apply IH; auto. intros x Hx1 Hx2. apply (H x); auto.
Qed.

Definition antichain (c : chart) (q : list name) : Prop :=
  NoDup q /\ forall x y, In x q -> In y q -> ~ anc c x y.

Lemma antichain_step : forall c, sound c -> forall n q,
  antichain c (n :: q) -> antichain c (q ++ children_for c n).
Proof.
  intros c HS n q [Hnd Han]. inv Hnd.
  assert (Hchp : forall ch, In ch (children_for c n) -> anc c ch n).
  { intros ch Hch. apply anc_parent. apply sound_child_parent; assumption. }
  split.
  - apply NoDup_app_intro; [assumption|apply sound_children_for_NoDup; assumption|].
    intros x Hx Hch. apply (Han x n); [right; exact Hx|left; reflexivity|apply Hchp; exact Hch].
  - intros x y Hx Hy Ha. apply in_app_or in Hx. apply in_app_or in Hy.
    destruct Hx as [Hx|Hx], Hy as [Hy|Hy].
    + apply (Han x y); [right; assumption|right; assumption|exact Ha].
    + (* y child of n, x in q, y ancestor of x: then n ancestor of x *)
      apply (Han x n); [right; assumption|left; reflexivity|].
      eapply anc_trans; [exact Ha|apply Hchp; exact Hy].
    + (* x child of n, y in q ancestor of x: y = n or y ancestor of n *)
      destruct (anc_inv _ _ _ Ha) as [p [Hp Hor]].
      rewrite (sound_child_parent c HS _ _ Hx) in Hp. inv Hp.
      destruct Hor as [->|Hor]; [apply H1; exact Hy|].
      apply (Han p y); [left; reflexivity|right; assumption|exact Hor].
    + destruct (anc_inv _ _ _ Ha) as [p [Hp Hor]].
      rewrite (sound_child_parent c HS _ _ Hx) in Hp. inv Hp.
      destruct Hor as [->|Hor].
      * apply (sound_anc_irrefl c HS y). apply Hchp; exact Hy.
      * apply (sound_anc_irrefl c HS p). eapply anc_trans; [exact Hor|apply Hchp; exact Hy].
Qed.

Lemma bfs_NoDup : forall c, sound c -> forall f q,
  antichain c q -> NoDup (q ++ bfs c f q).
Proof.
  intros c HS f; induction f as [|f IH]; intros q Haq.
  - simpl. rewrite app_nil_r. apply Haq.
  - destruct q as [|n q]; [constructor|]. rewrite bfs_S.
    pose proof (IH _ (antichain_step c HS n q Haq)) as Hnd. rewrite <- app_assoc in Hnd.
    simpl. constructor; [|exact Hnd]. destruct Haq as [Hq Han]. inv Hq.
    intros Hin. apply in_app_or in Hin. destruct Hin as [Hin|Hin]; [auto|].
    apply in_app_or in Hin. destruct Hin as [Hin|Hin].
    + apply (sound_anc_irrefl c HS n). apply anc_parent. apply sound_child_parent; assumption.
    + destruct (bfs_sound c HS _ _ _ Hin) as [x [Hx Ha]]. apply in_app_or in Hx.
      destruct Hx as [Hx|Hx].
      * apply (Han n x); [left; reflexivity|right; assumption|exact Ha].
      * apply (sound_anc_irrefl c HS n). eapply anc_trans; [exact Ha|].
        apply anc_parent. apply sound_child_parent; assumption.
Qed.

Lemma NoDup_app_r : forall {A} (l1 l2 : list A), NoDup (l1 ++ l2) -> NoDup l2.
Proof. intros A l1; induction l1 as [|x l1 IH]; simpl; intros l2 H; [exact H|inv H; auto]. Qed.

Theorem descendants_for_spec : forall c, sound c -> forall n x,
  In x (descendants_for c n) <-> anc c x n.
Proof.
  intros c HS n x. unfold descendants_for. split.
  - intros H. destruct (bfs_sound c HS _ _ _ H) as [y [[<-|[]] Ha]]. exact Ha.
  - assert (Hac : antichain c [n]).
    { split; [constructor; [intros []|constructor]|].
      intros a b [<-|[]] [<-|[]]. apply sound_anc_irrefl; assumption. }
    pose proof (bfs_NoDup c HS (S (length (c_states c))) [n] Hac) as Hnd.
    apply NoDup_app_r in Hnd.
    assert (Hincl : incl (bfs c (S (length (c_states c))) [n]) (map fst (c_states c))).
    { intros y Hy. destruct (bfs_sound c HS _ _ _ Hy) as [z [_ Ha]].
      destruct (anc_inv _ _ _ Ha) as [p [Hp _]]. apply has_state_In. apply (sd_pkeys c HS). congruence. }
    pose proof (NoDup_incl_length Hnd Hincl) as Hlen. rewrite map_length in Hlen.
    assert (Hcl := bfs_closed c (S (length (c_states c))) [n]).
    change (length [n]) with 1 in Hcl. specialize (Hcl ltac:(lia)).
    intros Ha. induction Ha as [x a Hp|x q a Hp Ha IH].
    + apply (Hcl a); [left; reflexivity|]. apply sound_parent_child; assumption.
    + apply (Hcl q); [right; apply IH; assumption|]. apply sound_parent_child; assumption.
Qed.

(* ------------------------------------------------------------------ move_state *)
Definition mv_state (n k : name) (s : state) : state :=
  clear_refs_move n (if str_eqb k n && is_history (s_kind s) then set_memory_ s None else s).

Definition mv_list (n np : name) (k : option name) (l : list name) : list name :=
  if opt_eqb str_eqb k (Some np) then remove_first n l ++ [n] else remove_first n l.

Lemma ostr_eqb_Some_false : forall (i n : name), ostr_eqb (Some i) (Some n) = false -> i <> n.
Proof. intros i n H E. subst. unfold ostr_eqb in H. simpl in H. rewrite seqb_refl in H. discriminate. Qed.

Lemma kind_compound_not_history : forall k, k = KCompound -> is_history k = true -> False.
Proof. intros k -> H; discriminate. Qed.

Ltac fin_refs :=
  repeat split; try discriminate; try congruence;
  let Hk := fresh "Hk" in
  intros Hk;
  first
    [ match goal with E : kind_eqb _ _ = false |- _ => rewrite Hk in E; discriminate end
    | match goal with E : kind_eqb ?k _ = true, E2 : is_history ?k = true |- _ =>
        apply kind_eqb_eq in E; rewrite E in E2; discriminate end
    | match goal with E : ostr_eqb ?a (Some _) = false, H : ?a = Some _ |- _ =>
        rewrite H in E; apply ostr_eqb_Some_false; exact E end
    | idtac ].

Lemma clear_refs_move_spec : forall n s,
  s_name (clear_refs_move n s) = s_name s /\ s_kind (clear_refs_move n s) = s_kind s /\
  (forall i, s_initial (clear_refs_move n s) = Some i ->
     s_initial s = Some i /\ (s_kind s = KCompound -> i <> n)) /\
  (forall m, s_memory (clear_refs_move n s) = Some m ->
     s_memory s = Some m /\ (is_history (s_kind s) = true -> m <> n)).
Proof.
  intros n s. unfold clear_refs_move.
  destruct (kind_eqb (s_kind s) KCompound) eqn:Ec;
  destruct (ostr_eqb (s_initial s) (Some n)) eqn:Ei; simpl;
  destruct (is_history (s_kind s)) eqn:Eh;
  destruct (ostr_eqb (s_memory s) (Some n)) eqn:Em; simpl; fin_refs.
Qed.

Lemma mv_state_spec : forall n k s,
  s_name (mv_state n k s) = s_name s /\ s_kind (mv_state n k s) = s_kind s /\
  (forall i, s_initial (mv_state n k s) = Some i ->
     s_initial s = Some i /\ (s_kind s = KCompound -> i <> n)) /\
  (forall m, s_memory (mv_state n k s) = Some m ->
     s_memory s = Some m /\ (is_history (s_kind s) = true -> m <> n /\ k <> n)).
Proof.
  intros n k s. unfold mv_state.
  set (s0 := if str_eqb k n && is_history (s_kind s) then set_memory_ s None else s).
  destruct (clear_refs_move_spec n s0) as [H1 [H2 [H3 H4]]].
  assert (E : s_name s0 = s_name s /\ s_kind s0 = s_kind s /\ s_initial s0 = s_initial s /\
              (forall m, s_memory s0 = Some m -> s_memory s = Some m /\ (is_history (s_kind s) = true -> k <> n))).
  { unfold s0. destruct (seqbP k n) as [Ek|Ek]; destruct (is_history (s_kind s)) eqn:Eh; simpl;
      repeat split; try discriminate; auto. }
  destruct E as [E1 [E2 [E3 E4]]].
  rewrite H1, H2, E1, E2. split; [reflexivity|]. split; [reflexivity|]. split.
  - intros i Hi. destruct (H3 i Hi) as [Ha Hb]. rewrite E3, E2 in *. auto.
  - intros m Hm. destruct (H4 m Hm) as [Ha Hb]. destruct (E4 m Ha) as [Hc Hd]. rewrite E2 in *. auto.
Qed.

Lemma move_state_inv : forall c n np c' r,
  move_state c n np = (c', r) -> r = EOk \/ r = EKeyError ->
  exists st, lookup n (c_states c) = Some st /\ has_state c np = true /\
    mem np (n :: descendants_for c n) = false /\
    match olookup (parent_for c n) (c_children c) with
    | None => r = EKeyError
    | Some l =>
        r = EOk /\
        c' = mkChart (c_name c) (c_description c) (c_preamble c)
               (map (fun kv => (fst kv, clear_refs_move n (snd kv)))
                    (if is_history (s_kind st) then dset n (set_memory_ st None) (c_states c) else c_states c))
               (dset n (Some np) (c_parent c))
               (let ch1 := oset (parent_for c n) (remove_first n l) (c_children c) in
                oset (Some np) ((match olookup (Some np) ch1 with Some x => x | None => [] end) ++ [n]) ch1)
               (c_transitions c)
    end.
Proof.
  intros c n np c' r H Hr. unfold move_state, state_for in H.
  destruct (lookup n (c_states c)) as [st|] eqn:Est; [|inv H; destruct Hr; discriminate].
  exists st. split; [reflexivity|].
  destruct (has_state c np) eqn:Enp; cbn [negb] in H; [|inv H; destruct Hr; discriminate].
  split; [reflexivity|].
  destruct (mem np (n :: descendants_for c n)) eqn:Em; [inv H; destruct Hr; discriminate|].
  split; [reflexivity|].
  destruct (olookup (parent_for c n) (c_children c)) as [l|]; inv H; auto.
Qed.

Lemma move_state_sound : forall c n np c',
  sound c -> move_state c n np = (c', EOk) -> sound c'.
Proof.
  intros c n np c' HS H.
  destruct (move_state_inv _ _ _ _ _ H (or_introl eq_refl)) as [st [Hst [Hnp [Hguard Hm]]]].
  assert (Hn : has_state c n = true) by (unfold has_state; rewrite Hst; reflexivity).
  destruct (sound_state_parent c HS n Hn) as [op Hop].
  rewrite (parent_for_lookup _ _ _ Hop) in Hm.
  destruct (sd_pc c HS _ _ Hop) as [Hopq [l [Hl Hcnt]]]. rewrite Hl in Hm.
  destruct Hm as [_ Hc']. cbv zeta in Hc'. subst c'.
  match goal with |- sound ?x => set (c' := x) end.
  (* the guard: np is neither n nor a descendant *)
  assert (Hnpn : np <> n /\ ~ anc c np n).
  { apply mem_false_iff in Hguard. split.
    - intros E; apply Hguard; left; auto.
    - intros E; apply Hguard; right. apply descendants_for_spec; assumption. }
  destruct Hnpn as [Hnpn Hnanc].
  (* lists containing n *)
  assert (Hnin : forall k lk, olookup k (c_children c) = Some lk -> k <> op -> ~ In n lk).
  { intros k lk Hk Hne Hin. rewrite (sd_cp c HS _ _ _ Hk Hin) in Hop. congruence. }
  destruct (sound_state_children c HS np Hnp) as [lnp Hlnp].
  assert (V1 : forall k, lookup k (c_states c') = option_map (mv_state n k) (lookup k (c_states c))).
  { intros k. unfold c'. cbn [c_states]. rewrite lookup_mapv. unfold mv_state.
    destruct (is_history (s_kind st)) eqn:Eh.
    - rewrite lookup_dset. destruct (seqbP k n) as [->|Hk]; simpl.
      + rewrite Hst. simpl. rewrite Eh. reflexivity.
      + destruct (lookup k (c_states c)); reflexivity.
    - destruct (seqbP k n) as [->|Hk]; simpl.
      + rewrite Hst. simpl. rewrite Eh. reflexivity.
      + destruct (lookup k (c_states c)); reflexivity. }
  assert (V2 : forall k, lookup k (c_parent c') = if str_eqb k n then Some (Some np) else lookup k (c_parent c)).
  { intros k. unfold c'. cbn [c_parent]. apply lookup_dset. }
  assert (V3 : forall k, olookup k (c_children c') = option_map (mv_list n np k) (olookup k (c_children c))).
  { intros k. unfold c'. cbn [c_children]. rewrite !olookup_oset. unfold mv_list.
    destruct (oeqbP k (Some np)) as [->|Hk].
    - rewrite Hlnp. cbn [option_map]. destruct (oeqbP (Some np) op) as [E|E].
      + assert (E2 : l = lnp) by congruence. rewrite E2. reflexivity.
      + rewrite (remove_first_notin n lnp); [reflexivity|]. apply (Hnin _ _ Hlnp E).
    - destruct (oeqbP k op) as [->|Hk2].
      + rewrite Hl. reflexivity.
      + destruct (olookup k (c_children c)) as [lk|] eqn:Ek; [|reflexivity]. simpl.
        rewrite (remove_first_notin n lk); [reflexivity|]. apply (Hnin _ _ Ek Hk2). }
  assert (V4 : forall k, has_state c' k = has_state c k).
  { intros k. unfold has_state. rewrite V1. destruct (lookup k (c_states c)); reflexivity. }
  assert (Hmv : forall k lk x, olookup k (c_children c) = Some lk -> x <> n -> In x lk -> In x (mv_list n np k lk)).
  { intros k lk x _ Hx Hin. unfold mv_list.
    destruct (opt_eqb str_eqb k (Some np)); [apply in_or_app; left|]; apply In_remove_first_neq; assumption. }
  assert (Hchf : forall k x, x <> n -> In x (children_for c k) -> In x (children_for c' k)).
  { intros k x Hx Hin. unfold children_for in *. rewrite V3.
    destruct (olookup (Some k) (c_children c)) as [lk|] eqn:Ek; [|destruct Hin]. simpl.
    eapply Hmv; eauto. }
  constructor.
  - unfold c'. cbn [c_states]. rewrite keys_mapv.
    destruct (is_history (s_kind st)); [apply NoDup_keys_dset|]; apply (sd_nd_states c HS).
  - unfold c'. cbn [c_parent]. apply NoDup_keys_dset. apply (sd_nd_parent c HS).
  - unfold c'. cbn [c_children]. do 2 apply NoDup_keys_oset. apply (sd_nd_children c HS).
  - intros k s. rewrite V1. destruct (lookup k (c_states c)) as [s0|] eqn:E; [|discriminate].
    simpl. intros E2; inv E2. destruct (mv_state_spec n k s0) as [-> _]. apply (sd_keyname c HS _ _ E).
  - intros k. rewrite V2, V4. destruct (seqbP k n) as [->|Hk]; [|apply (sd_pkeys c HS)].
    split; [intros _; exact Hn|discriminate].
  - intros k. rewrite V3, V4. rewrite <- (sd_ckeys c HS).
    destruct (olookup (Some k) (c_children c)); simpl; split; congruence.
  - rewrite V3. pose proof (sd_ctop c HS). destruct (olookup None (c_children c)); simpl; congruence.
  - intros x p. rewrite V2. destruct (seqbP x n) as [->|Hx].
    + intros E; inv E. split; [intros q E; inv E; rewrite V4; exact Hnp|].
      exists (mv_list n np (Some np) lnp). rewrite V3, Hlnp. split; [reflexivity|].
      unfold mv_list. rewrite oeqb_refl, count_occ_snoc.
      destruct (string_dec n n); [|congruence].
      assert (count_occ string_dec (remove_first n lnp) n = 0); [|lia].
      apply (count_occ_not_In string_dec). apply NoDup_remove_first_notin.
      apply (sound_children_NoDup c HS _ _ Hlnp).
    + intros Hp. destruct (sd_pc c HS _ _ Hp) as [H1 [l0 [H2 H3]]].
      split; [intros q E; rewrite V4; apply (H1 q E)|].
      exists (mv_list n np p l0). rewrite V3, H2. split; [reflexivity|].
      unfold mv_list. destruct (opt_eqb str_eqb p (Some np)).
      * rewrite count_occ_snoc, count_occ_remove_first_neq by assumption.
        destruct (string_dec n x); [congruence|lia].
      * rewrite count_occ_remove_first_neq by assumption. exact H3.
  - intros k l' ch. rewrite V3, V2.
    destruct (olookup k (c_children c)) as [lk|] eqn:Ek; [|discriminate]. simpl.
    intros E; inv E. intros Hin.
    assert (Hrm : In ch (remove_first n lk) -> (if str_eqb ch n then Some (Some np) else lookup ch (c_parent c)) = Some k).
    { intros Hin'. destruct (seqbP ch n) as [->|Hch].
      - exfalso. revert Hin'. apply NoDup_remove_first_notin. apply (sound_children_NoDup c HS _ _ Ek).
      - apply (sd_cp c HS _ _ _ Ek). eapply In_remove_first; eauto. }
    unfold mv_list in Hin. destruct (oeqbP k (Some np)) as [->|Hk]; [|auto].
    apply in_app_or in Hin. destruct Hin as [Hin|[<-|[]]]; [auto|].
    rewrite seqb_refl. reflexivity.
  - intros l'. rewrite V3. destruct (olookup None (c_children c)) as [l0|] eqn:E0; [|discriminate].
    simpl. intros E; inv E. unfold mv_list. simpl.
    pose proof (sd_top c HS _ E0) as Hlen.
    assert (length (remove_first n l0) <= length l0); [|lia].
    clear. induction l0 as [|y l0 IH]; simpl; [lia|]. destruct (str_eqb n y); simpl; lia.
  - destruct (sd_acyc c HS) as [rank Hr].
    exists (fun x => if mem x (n :: descendants_for c n) then rank x + rank np + 1 else rank x).
    assert (Hsub : forall x, mem x (n :: descendants_for c n) = true <-> x = n \/ anc c x n).
    { intros x. rewrite mem_In. simpl. rewrite (descendants_for_spec c HS). split; intros [E|E]; auto. }
    intros x q. rewrite V2. destruct (seqbP x n) as [->|Hx].
    + intros E; inv E. rewrite Hguard.
      assert (E : mem n (n :: descendants_for c n) = true) by (apply Hsub; left; reflexivity).
      rewrite E. lia.
    + intros Hp. pose proof (Hr _ _ Hp) as Hlt.
      destruct (mem x (n :: descendants_for c n)) eqn:Ex.
      * apply Hsub in Ex. destruct Ex as [Ex|Ex]; [congruence|].
        destruct (anc_inv _ _ _ Ex) as [q' [Hq' Hor]]. rewrite Hp in Hq'. inv Hq'.
        assert (E : mem q' (n :: descendants_for c n) = true) by (apply Hsub; destruct Hor; auto).
        rewrite E. lia.
      * destruct (mem q (n :: descendants_for c n)) eqn:Eq; [|exact Hlt].
        exfalso. apply Hsub in Eq.
        assert (E : mem x (n :: descendants_for c n) = true).
        { apply Hsub. right. destruct Eq as [->|Eq]; [apply anc_parent; exact Hp|eapply anc_step; eauto]. }
        congruence.
  - intros t Hin. assert (Hin' : In t (c_transitions c)) by exact Hin.
    destruct (sd_trans c HS t Hin') as [[s [H1 H2]] H3]. split.
    + exists (mv_state n (t_source t) s). rewrite V1, H1. split; [reflexivity|].
      destruct (mv_state_spec n (t_source t) s) as [_ [-> _]]. exact H2.
    + intros tg E. rewrite V4. apply (H3 tg E).
  - intros k s. rewrite V1. destruct (lookup k (c_states c)) as [s0|] eqn:E; [|discriminate].
    simpl. intros E2; inv E2. destruct (mv_state_spec n k s0) as [_ [_ [Hi Hm]]].
    destruct (sd_refs c HS _ _ E) as [H1 H2].
    split; intros x Hx; rewrite V4.
    + apply H1. apply (Hi x Hx).
    + apply H2. apply (Hm x Hx).
  - intros k s i. rewrite V1. destruct (lookup k (c_states c)) as [s0|] eqn:E; [|discriminate].
    simpl. intros E2; inv E2. destruct (mv_state_spec n k s0) as [_ [Hk [Hi _]]].
    rewrite Hk. intros Hkind Hini. apply truthy_Some in Hini. destruct Hini as [Hini Hine].
    destruct (Hi i Hini) as [Hi0 Hin]. specialize (Hin Hkind).
    destruct (sd_vinit c HS k s0 i E Hkind) as [H1 H2]; [rewrite Hi0; apply truthy_nonempty; exact Hine|].
    rewrite V4. split; [exact H1|apply Hchf; assumption].
  - intros k s m. rewrite V1. destruct (lookup k (c_states c)) as [s0|] eqn:E; [|discriminate].
    simpl. intros E2; inv E2. destruct (mv_state_spec n k s0) as [_ [Hk [_ Hmm]]].
    rewrite Hk. intros Hkind Hmem. destruct (Hmm m Hmem) as [Hm0 Hmn]. destruct (Hmn Hkind) as [Hmn1 Hkn].
    destruct (sd_vmem c HS k s0 m E Hkind Hm0) as [H1 [H2 [p [H3 H4]]]].
    split; [exact H1|]. split; [rewrite V4; exact H2|]. exists p. split; [|apply Hchf; assumption].
    unfold parent_for in *. rewrite V2. destruct (seqbP k n); [congruence|exact H3].
Qed.

(* ================================================================== 4. remove_state *)

(* ------------------------------------------------------------------ filters on dictionaries *)
Lemma filter_filter : forall {A} (p q : A -> bool) l,
  filter p (filter q l) = filter (fun x => q x && p x) l.
Proof.
  intros A p q l; induction l as [|x l IH]; simpl; [reflexivity|].
  destruct (q x); simpl; [destruct (p x); rewrite IH; reflexivity|exact IH].
Qed.

Lemma filter_map_comm : forall {A B} (g : A -> B) (p : B -> bool) l,
  filter p (map g l) = map g (filter (fun x => p (g x)) l).
Proof.
  intros A B g p l; induction l as [|x l IH]; simpl; [reflexivity|].
  destruct (p (g x)); simpl; rewrite IH; reflexivity.
Qed.

Lemma filter_true : forall {A} (p : A -> bool) l, (forall x, In x l -> p x = true) -> filter p l = l.
Proof.
  intros A p l; induction l as [|x l IH]; simpl; intros H; [reflexivity|].
  rewrite (H x (or_introl eq_refl)). rewrite IH; [reflexivity|]. intros y Hy; apply H; right; exact Hy.
Qed.

Lemma map_id_in : forall {A} (g : A -> A) l, (forall x, In x l -> g x = x) -> map g l = l.
Proof.
  intros A g l; induction l as [|x l IH]; simpl; intros H; [reflexivity|].
  rewrite (H x (or_introl eq_refl)). rewrite IH; [reflexivity|]. intros y Hy; apply H; right; exact Hy.
Qed.

Lemma lookup_filter_key : forall {V} (p : name -> bool) k (d : list (name * V)),
  lookup k (filter (fun kv => p (fst kv)) d) = if p k then lookup k d else None.
Proof.
  intros V p k d; induction d as [|[k0 v0] d IH]; simpl; [destruct (p k); reflexivity|].
  destruct (p k0) eqn:E0; simpl.
  - destruct (seqbP k k0) as [->|Hn]; [rewrite E0; reflexivity|exact IH].
  - destruct (seqbP k k0) as [->|Hn]; [rewrite E0 in *; exact IH|exact IH].
Qed.

Lemma olookup_filter_key : forall {V} (p : option name -> bool) k (d : list (option name * V)),
  olookup k (filter (fun kv => p (fst kv)) d) = if p k then olookup k d else None.
Proof.
  intros V p k d; induction d as [|[k0 v0] d IH]; simpl; [destruct (p k); reflexivity|].
  destruct (p k0) eqn:E0; simpl.
  - destruct (oeqbP k k0) as [->|Hn]; [rewrite E0; reflexivity|exact IH].
  - destruct (oeqbP k k0) as [->|Hn]; [rewrite E0 in *; exact IH|exact IH].
Qed.

Lemma olookup_mapv : forall {V W} (f : V -> W) k (d : list (option name * V)),
  olookup k (map (fun kv => (fst kv, f (snd kv))) d) = option_map f (olookup k d).
Proof.
  intros V W f k d; induction d as [|[k0 v0] d IH]; simpl; [reflexivity|].
  destruct (oeqbP k k0); [reflexivity|exact IH].
Qed.

Lemma NoDup_map_filter : forall {A B} (g : A -> B) (p : A -> bool) l,
  NoDup (map g l) -> NoDup (map g (filter p l)).
Proof.
  intros A B g p l; induction l as [|x l IH]; simpl; intros H; [constructor|].
  inv H. destruct (p x); simpl; [|auto]. constructor; [|auto].
  intros Hin. apply H2. apply in_map_iff in Hin. destruct Hin as [y [E Hy]].
  apply filter_In in Hy. rewrite <- E. apply in_map. apply Hy.
Qed.

Lemma dremove_filter : forall {V} k (d : list (name * V)), NoDup (map fst d) ->
  dremove k d = filter (fun kv => negb (str_eqb (fst kv) k)) d.
Proof.
  intros V k d; induction d as [|[k0 v0] d IH]; simpl; intros H; [reflexivity|].
  inv H. rewrite (seqb_sym k0 k). destruct (seqbP k k0) as [->|Hn]; simpl.
  - symmetry. apply filter_true. intros [k1 v1] Hin. simpl.
    apply negb_true_iff, seqb_neq. intros ->. apply H2.
    change k0 with (fst (k0, v1)). apply in_map. exact Hin.
  - rewrite IH by assumption. reflexivity.
Qed.

Lemma oremove_filter : forall {V} k (d : list (option name * V)), NoDup (map fst d) ->
  oremove k d = filter (fun kv => negb (opt_eqb str_eqb (fst kv) k)) d.
Proof.
  intros V k d; induction d as [|[k0 v0] d IH]; simpl; intros H; [reflexivity|].
  inv H. destruct (oeqbP k k0) as [->|Hn]; simpl.
  - rewrite oeqb_refl. simpl. symmetry. apply filter_true. intros [k1 v1] Hin. simpl.
    apply negb_true_iff, oeqb_neq. intros ->. apply H2.
    change k0 with (fst (k0, v1)). apply in_map. exact Hin.
  - destruct (oeqbP k0 k); [congruence|]. simpl. rewrite IH by assumption. reflexivity.
Qed.

Lemma oset_map : forall {V} k (v : V) d, NoDup (map fst d) -> In k (map fst d) ->
  oset k v d = map (fun kv => if opt_eqb str_eqb (fst kv) k then (k, v) else kv) d.
Proof.
  intros V k v d; induction d as [|[k0 v0] d IH]; simpl; intros Hnd Hin; [destruct Hin|].
  inv Hnd. destruct (oeqbP k k0) as [->|Hn]; simpl.
  - rewrite oeqb_refl. f_equal. symmetry. apply map_id_in. intros [k1 v1] Hin1. simpl.
    destruct (oeqbP k1 k0) as [->|_]; [|reflexivity]. exfalso. apply H1.
    change k0 with (fst (k0, v1)). apply in_map. exact Hin1.
  - destruct (oeqbP k0 k); [congruence|]. f_equal. apply IH; [assumption|].
    destruct Hin; [congruence|assumption].
Qed.

Lemma remove_first_filter : forall k l, NoDup l ->
  remove_first k l = filter (fun x => negb (str_eqb x k)) l.
Proof.
  intros k l; induction l as [|y l IH]; simpl; intros H; [reflexivity|].
  inv H. rewrite (seqb_sym y k). destruct (seqbP k y) as [->|Hn]; simpl.
  - symmetry. apply filter_true. intros x Hx. apply negb_true_iff, seqb_neq. intros ->; auto.
  - rewrite IH by assumption. reflexivity.
Qed.

Lemma count_occ_filter : forall (p : name -> bool) l x,
  count_occ string_dec (filter p l) x = if p x then count_occ string_dec l x else 0.
Proof.
  intros p l x; induction l as [|y l IH]; simpl; [destruct (p x); reflexivity|].
  destruct (p y) eqn:Ey; simpl.
  - destruct (string_dec y x) as [->|Hn]; [rewrite Ey in *; rewrite IH; reflexivity|exact IH].
  - destruct (string_dec y x) as [->|Hn]; [rewrite Ey in *; exact IH|exact IH].
Qed.

Lemma filter_length_le : forall {A} (p : A -> bool) l, length (filter p l) <= length l.
Proof. intros A p l; induction l as [|x l IH]; simpl; [lia|]. destruct (p x); simpl; lia. Qed.

(* ------------------------------------------------------------------ removing a set of states *)
Definition oin (D : name -> bool) (o : option name) : bool :=
  match o with Some x => D x | None => false end.

Definition clr (D : name -> bool) (s : state) : state :=
  if kind_eqb (s_kind s) KCompound && oin D (s_initial s) then set_initial s None
  else if is_history (s_kind s) && oin D (s_memory s) then set_memory_ s None
  else s.

(* the chart without the states in D: entries of the three dictionaries keyed by a member of D
   disappear, members of D disappear from every children list, transitions with an end in D
   disappear, initial / memory naming a member of D are reset; order is kept everywhere *)
Definition rm (D : name -> bool) (c : chart) : chart :=
  mkChart (c_name c) (c_description c) (c_preamble c)
    (filter (fun kv => negb (D (fst kv))) (map (fun kv => (fst kv, clr D (snd kv))) (c_states c)))
    (filter (fun kv => negb (D (fst kv))) (c_parent c))
    (filter (fun kv => negb (oin D (fst kv)))
            (map (fun kv => (fst kv, filter (fun x => negb (D x)) (snd kv))) (c_children c)))
    (filter (fun t => negb (D (t_source t) || oin D (t_target t))) (c_transitions c)).

Lemma clr_ext : forall D D' s, (forall x, D x = D' x) -> clr D s = clr D' s.
Proof.
  intros D D' s H. unfold clr.
  assert (E : forall o, oin D o = oin D' o) by (intros [x|]; simpl; auto).
  rewrite !E. reflexivity.
Qed.

Lemma filter_ext_all : forall {A} (p q : A -> bool) l, (forall x, p x = q x) -> filter p l = filter q l.
Proof. intros A p q l H. apply filter_ext. exact H. Qed.

Lemma rm_ext : forall D D' c, (forall x, D x = D' x) -> rm D c = rm D' c.
Proof.
  intros D D' c H. unfold rm.
  assert (E : forall o, oin D o = oin D' o) by (intros [x|]; simpl; auto).
  f_equal.
  - rewrite (filter_ext_all (fun kv : name * state => negb (D (fst kv))) (fun kv => negb (D' (fst kv))))
      by (intros x; rewrite H; reflexivity).
    f_equal. apply map_ext. intros [k s]. simpl. f_equal. apply clr_ext; exact H.
  - apply filter_ext_all. intros x; rewrite H; reflexivity.
  - rewrite (filter_ext_all (fun kv : option name * list name => negb (oin D (fst kv))) (fun kv => negb (oin D' (fst kv))))
      by (intros x; rewrite E; reflexivity).
    f_equal. apply map_ext. intros [k l]. simpl. f_equal. apply filter_ext_all. intros x; rewrite H; reflexivity.
  - apply filter_ext_all. intros t. rewrite H, E. reflexivity.
Qed.

Lemma clr_spec : forall D s,
  s_name (clr D s) = s_name s /\ s_kind (clr D s) = s_kind s /\
  (forall i, s_initial (clr D s) = Some i ->
     s_initial s = Some i /\ (s_kind s = KCompound -> D i = false)) /\
  (forall m, s_memory (clr D s) = Some m ->
     s_memory s = Some m /\ (is_history (s_kind s) = true -> D m = false)).
Proof.
  intros D s. unfold clr.
  destruct (kind_eqb (s_kind s) KCompound) eqn:Ec; destruct (is_history (s_kind s)) eqn:Eh;
    try (apply kind_eqb_eq in Ec; rewrite Ec in Eh; discriminate);
    destruct (s_initial s) as [i|] eqn:Ei; destruct (s_memory s) as [m|] eqn:Em; simpl;
    try destruct (D i) eqn:Di; try destruct (D m) eqn:Dm; simpl; rewrite ?Ei, ?Em;
    repeat split; try discriminate; try congruence;
    try (intros Hk; rewrite Hk in Ec; discriminate).
Qed.

Lemma clr_false : forall D s, (forall x, D x = false) -> clr D s = s.
Proof.
  intros D s H. unfold clr.
  assert (E : forall o, oin D o = false) by (intros [x|]; simpl; auto).
  rewrite !E, !andb_false_r. reflexivity.
Qed.

Lemma rm_false : forall D c, (forall x, D x = false) -> rm D c = c.
Proof.
  intros D c H. unfold rm.
  assert (E : forall o, oin D o = false) by (intros [x|]; simpl; auto).
  destruct c as [a b d S P C T]. cbn [c_name c_description c_preamble c_states c_parent c_children c_transitions].
  f_equal.
  - rewrite filter_true by (intros x _; rewrite H; reflexivity).
    apply map_id_in. intros [k s] _. simpl. rewrite clr_false by exact H. reflexivity.
  - apply filter_true. intros x _; rewrite H; reflexivity.
  - rewrite filter_true by (intros x _; rewrite E; reflexivity).
    apply map_id_in. intros [k l] _. simpl. f_equal. apply filter_true. intros x _; rewrite H; reflexivity.
  - apply filter_true. intros t _. rewrite H, E. reflexivity.
Qed.

Lemma clr_clr : forall D1 D2 s, clr D2 (clr D1 s) = clr (fun x => D1 x || D2 x) s.
Proof.
  intros D1 D2 s. unfold clr.
  destruct (kind_eqb (s_kind s) KCompound) eqn:Ec; destruct (is_history (s_kind s)) eqn:Eh;
    try (apply kind_eqb_eq in Ec; rewrite Ec in Eh; discriminate);
    destruct (s_initial s) as [i|] eqn:Ei; destruct (s_memory s) as [m|] eqn:Em; simpl;
    try destruct (D1 i) eqn:Di; try destruct (D1 m) eqn:Dm; simpl;
    rewrite ?Ec, ?Eh, ?Ei, ?Em; simpl;
    try destruct (D2 i) eqn:Di2; try destruct (D2 m) eqn:Dm2; simpl; try reflexivity.
Qed.

Lemma rm_rm : forall D1 D2 c, rm D2 (rm D1 c) = rm (fun x => D1 x || D2 x) c.
Proof.
  intros D1 D2 c. unfold rm.
  cbn [c_name c_description c_preamble c_states c_parent c_children c_transitions].
  assert (E : forall o, oin (fun x => D1 x || D2 x) o = oin D1 o || oin D2 o) by (intros [x|]; reflexivity).
  f_equal.
  - rewrite (filter_map_comm (fun kv : name * state => (fst kv, clr D2 (snd kv)))). simpl.
    rewrite filter_filter.
    rewrite (filter_map_comm (fun kv : name * state => (fst kv, clr D1 (snd kv)))). simpl.
    rewrite (filter_map_comm (fun kv : name * state => (fst kv, clr (fun x => D1 x || D2 x) (snd kv)))). simpl.
    rewrite map_map. simpl.
    rewrite (filter_ext_all _ (fun x : name * state => negb (D1 (fst x) || D2 (fst x))))
      by (intros x; rewrite negb_orb; reflexivity).
    apply map_ext. intros [k s]. simpl. rewrite clr_clr. reflexivity.
  - rewrite filter_filter. apply filter_ext_all. intros x. rewrite negb_orb. reflexivity.
  - rewrite (filter_map_comm (fun kv : option name * list name => (fst kv, filter (fun x => negb (D2 x)) (snd kv)))). simpl.
    rewrite filter_filter.
    rewrite (filter_map_comm (fun kv : option name * list name => (fst kv, filter (fun x => negb (D1 x)) (snd kv)))). simpl.
    rewrite (filter_map_comm (fun kv : option name * list name => (fst kv, filter (fun x => negb (D1 x || D2 x)) (snd kv)))). simpl.
    rewrite map_map. simpl.
    rewrite (filter_ext_all _ (fun x : option name * list name => negb (oin (fun x0 => D1 x0 || D2 x0) (fst x))))
      by (intros x; rewrite E, negb_orb; reflexivity).
    apply map_ext. intros [k l]. simpl. f_equal. rewrite filter_filter.
    apply filter_ext_all. intros x. rewrite negb_orb. reflexivity.
  - rewrite filter_filter. apply filter_ext_all. intros t. rewrite E.
    destruct (D1 (t_source t)), (D2 (t_source t)), (oin D1 (t_target t)), (oin D2 (t_target t)); reflexivity.
Qed.

(* ------------------------------------------------------------------ lookups in rm D c *)
Definition closed (c : chart) (D : name -> bool) : Prop :=
  forall x q, lookup x (c_parent c) = Some (Some q) -> D q = true -> D x = true.

Lemma rm_states : forall D c k,
  lookup k (c_states (rm D c)) = if D k then None else option_map (clr D) (lookup k (c_states c)).
Proof.
  intros D c k. unfold rm. cbn [c_states].
  rewrite (lookup_filter_key (fun x => negb (D x))), lookup_mapv. destruct (D k); reflexivity.
Qed.

Lemma rm_parent : forall D c k,
  lookup k (c_parent (rm D c)) = if D k then None else lookup k (c_parent c).
Proof.
  intros D c k. unfold rm. cbn [c_parent].
  rewrite (lookup_filter_key (fun x => negb (D x))). destruct (D k); reflexivity.
Qed.

Lemma rm_children : forall D c k,
  olookup k (c_children (rm D c)) =
  if oin D k then None else option_map (filter (fun x => negb (D x))) (olookup k (c_children c)).
Proof.
  intros D c k. unfold rm. cbn [c_children].
  rewrite (olookup_filter_key (fun x => negb (oin D x))), olookup_mapv. destruct (oin D k); reflexivity.
Qed.

Lemma rm_has_state : forall D c k, has_state (rm D c) k = negb (D k) && has_state c k.
Proof.
  intros D c k. unfold has_state. rewrite rm_states.
  destruct (D k); [reflexivity|]. destruct (lookup k (c_states c)); reflexivity.
Qed.

Lemma rm_transitions : forall D c t,
  In t (c_transitions (rm D c)) <->
  In t (c_transitions c) /\ D (t_source t) = false /\ oin D (t_target t) = false.
Proof.
  intros D c t. unfold rm. cbn [c_transitions]. rewrite filter_In, negb_true_iff, orb_false_iff. tauto.
Qed.

Lemma rm_children_for : forall D c k x,
  D k = false -> (In x (children_for (rm D c) k) <-> In x (children_for c k) /\ D x = false).
Proof.
  intros D c k x Hk. unfold children_for. rewrite rm_children. simpl. rewrite Hk.
  destruct (olookup (Some k) (c_children c)) as [l|]; simpl.
  - rewrite filter_In, negb_true_iff. tauto.
  - tauto.
Qed.

Lemma rm_fields_ok : forall D c, fields_ok c -> fields_ok (rm D c).
Proof.
  intros D c H k s. rewrite rm_states. destruct (D k); [discriminate|].
  destruct (lookup k (c_states c)) as [s0|] eqn:E; [|discriminate]. simpl. intros E2; inv E2.
  destruct (clr_spec D s0) as [_ [Hk [Hi Hm]]]. destruct (H _ _ E) as [H1 H2]. rewrite Hk.
  split; intros x Hx; [apply (H1 x), (Hi x Hx)|apply (H2 x), (Hm x Hx)].
Qed.

Lemma rm_no_empty_name : forall D c, no_empty_name c -> no_empty_name (rm D c).
Proof. intros D c H. unfold no_empty_name in *. rewrite rm_has_state, H. apply andb_false_r. Qed.

Theorem rm_sound : forall D c, sound c -> fields_ok c -> closed c D -> sound (rm D c).
Proof.
  intros D c HS HF HD.
  assert (HDn : forall x q, lookup x (c_parent c) = Some (Some q) -> D x = false -> D q = false).
  { intros x q Hp Hx. destruct (D q) eqn:E; [|reflexivity]. rewrite (HD _ _ Hp E) in Hx. discriminate. }
  constructor.
  - unfold rm. cbn [c_states]. apply NoDup_map_filter. rewrite keys_mapv. apply (sd_nd_states c HS).
  - unfold rm. cbn [c_parent]. apply NoDup_map_filter. apply (sd_nd_parent c HS).
  - unfold rm. cbn [c_children]. apply NoDup_map_filter. rewrite keys_mapv. apply (sd_nd_children c HS).
  - intros k s. rewrite rm_states. destruct (D k); [discriminate|].
    destruct (lookup k (c_states c)) as [s0|] eqn:E; [|discriminate]. simpl. intros E2; inv E2.
    destruct (clr_spec D s0) as [-> _]. apply (sd_keyname c HS _ _ E).
  - intros k. rewrite rm_parent, rm_has_state. destruct (D k); simpl; [split; [congruence|discriminate]|].
    apply (sd_pkeys c HS).
  - intros k. rewrite rm_children, rm_has_state. simpl. destruct (D k); simpl; [split; [congruence|discriminate]|].
    rewrite <- (sd_ckeys c HS). destruct (olookup (Some k) (c_children c)); simpl; split; congruence.
  - rewrite rm_children. simpl. pose proof (sd_ctop c HS). destruct (olookup None (c_children c)); simpl; congruence.
  - intros n p. rewrite rm_parent. destruct (D n) eqn:Dn; [discriminate|]. intros Hp.
    destruct (sd_pc c HS _ _ Hp) as [H1 [l [H2 H3]]]. split.
    + intros q ->. rewrite rm_has_state, (H1 q eq_refl), (HDn _ _ Hp Dn). reflexivity.
    + exists (filter (fun x => negb (D x)) l). rewrite rm_children, H2.
      assert (E : oin D p = false) by (destruct p as [q|]; [apply (HDn _ _ Hp Dn)|reflexivity]).
      rewrite E. split; [reflexivity|]. rewrite count_occ_filter, Dn. exact H3.
  - intros k l ch. rewrite rm_children, rm_parent. destruct (oin D k) eqn:Dk; [discriminate|].
    destruct (olookup k (c_children c)) as [l0|] eqn:E; [|discriminate]. simpl. intros E2; inv E2.
    intros Hin. apply filter_In in Hin. destruct Hin as [Hin Hd]. apply negb_true_iff in Hd. rewrite Hd.
    apply (sd_cp c HS _ _ _ E Hin).
  - intros l. rewrite rm_children. simpl.
    destruct (olookup None (c_children c)) as [l0|] eqn:E; [|discriminate]. simpl. intros E2; inv E2.
    pose proof (sd_top c HS _ E). pose proof (filter_length_le (fun x => negb (D x)) l0). lia.
  - destruct (sd_acyc c HS) as [rank Hr]. exists rank. intros n q. rewrite rm_parent.
    destruct (D n); [discriminate|]. apply Hr.
  - intros t Hin. apply rm_transitions in Hin. destruct Hin as [Hin [Hs Ht]].
    destruct (sd_trans c HS t Hin) as [[s [H1 H2]] H3]. split.
    + exists (clr D s). rewrite rm_states, Hs, H1. split; [reflexivity|].
      destruct (clr_spec D s) as [_ [-> _]]. exact H2.
    + intros tg E. rewrite E in Ht. simpl in Ht. rewrite rm_has_state, Ht, (H3 tg E). reflexivity.
  - intros k s. rewrite rm_states. destruct (D k); [discriminate|].
    destruct (lookup k (c_states c)) as [s0|] eqn:E; [|discriminate]. simpl. intros E2; inv E2.
    destruct (clr_spec D s0) as [_ [_ [Hi Hm]]]. destruct (sd_refs c HS _ _ E) as [H1 H2].
    destruct (HF _ _ E) as [F1 F2].
    split; intros x Hx; rewrite rm_has_state.
    + destruct (Hi x Hx) as [Ha Hb]. rewrite (Hb (F1 x Ha)), (H1 x Ha). reflexivity.
    + destruct (Hm x Hx) as [Ha Hb]. rewrite (Hb (F2 x Ha)), (H2 x Ha). reflexivity.
  - intros k s i. rewrite rm_states. destruct (D k) eqn:Dk; [discriminate|].
    destruct (lookup k (c_states c)) as [s0|] eqn:E; [|discriminate]. simpl. intros E2; inv E2.
    destruct (clr_spec D s0) as [_ [Hk [Hi _]]]. rewrite Hk. intros Hkind Hini.
    apply truthy_Some in Hini. destruct Hini as [Hini Hine]. destruct (Hi i Hini) as [Ha Hb].
    specialize (Hb Hkind).
    destruct (sd_vinit c HS k s0 i E Hkind) as [H1 H2]; [rewrite Ha; apply truthy_nonempty; exact Hine|].
    rewrite rm_has_state, Hb, H1. split; [reflexivity|]. apply rm_children_for; auto.
  - intros k s m. rewrite rm_states. destruct (D k) eqn:Dk; [discriminate|].
    destruct (lookup k (c_states c)) as [s0|] eqn:E; [|discriminate]. simpl. intros E2; inv E2.
    destruct (clr_spec D s0) as [_ [Hk [_ Hm]]]. rewrite Hk. intros Hkind Hmem.
    destruct (Hm m Hmem) as [Ha Hb]. specialize (Hb Hkind).
    destruct (sd_vmem c HS k s0 m E Hkind Ha) as [H1 [H2 [p [H3 H4]]]].
    split; [exact H1|]. rewrite rm_has_state, Hb, H2. split; [reflexivity|]. exists p.
    assert (Hpk : lookup k (c_parent c) = Some (Some p)).
    { unfold parent_for in H3. destruct (lookup k (c_parent c)) as [pp|]; [congruence|discriminate]. }
    split.
    + unfold parent_for. rewrite rm_parent, Dk, Hpk. reflexivity.
    + apply rm_children_for; [apply (HDn _ _ Hpk Dk)|auto].
Qed.

(* ------------------------------------------------------------------ ancestors in rm D c *)
Lemma rm_anc : forall D c x y, anc (rm D c) x y -> anc c x y /\ D x = false.
Proof.
  intros D c x y H. induction H as [x a H|x q a H H' IH]; rewrite rm_parent in H;
    destruct (D x) eqn:Dx; try discriminate.
  - split; [apply anc_parent; exact H|reflexivity].
  - split; [eapply anc_step; [exact H|apply IH]|reflexivity].
Qed.

Lemma anc_rm : forall D c, closed c D -> forall x y, anc c x y -> D x = false -> anc (rm D c) x y.
Proof.
  intros D c HD x y H. induction H as [x a H|x q a H H' IH]; intros Dx.
  - apply anc_parent. rewrite rm_parent, Dx. exact H.
  - eapply anc_step; [rewrite rm_parent, Dx; exact H|]. apply IH.
    destruct (D q) eqn:E; [|reflexivity]. rewrite (HD _ _ H E) in Dx. discriminate.
Qed.

Lemma subtree_closed : forall c (D : name -> bool) (P : name -> Prop),
  (forall x, D x = true <-> exists r, P r /\ (x = r \/ anc c x r)) -> closed c D.
Proof.
  intros c D P H x q Hp Hq. apply H. apply H in Hq. destruct Hq as [r [Hr [->|Ha]]]; exists r; split; auto.
  - right. apply anc_parent. exact Hp.
  - right. eapply anc_step; eauto.
Qed.

(* ------------------------------------------------------------------ remove_one is rm {n} *)
Lemma clear_refs_clr : forall n s, clear_refs n s = clr (fun x => str_eqb x n) s.
Proof.
  intros n s. unfold clear_refs, clr.
  assert (E : forall o, ostr_eqb o (Some n) = oin (fun x => str_eqb x n) o) by (intros [x|]; reflexivity).
  rewrite !E. reflexivity.
Qed.

Lemma remove_one_rm : forall c n, sound c -> has_state c n = true ->
  remove_one c n = (rm (fun x => str_eqb x n) c, EOk).
Proof.
  intros c n HS Hn. unfold remove_one.
  destruct (sound_state_parent c HS n Hn) as [p Hp]. rewrite Hp.
  destruct (sd_pc c HS _ _ Hp) as [Hpq [l [Hl Hcnt]]].
  assert (Hpn : p <> Some n).
  { intros ->. destruct (sd_acyc c HS) as [rank Hr]. specialize (Hr _ _ Hp). lia. }
  rewrite olookup_oremove_neq, Hl by exact Hpn.
  pose proof (sd_nd_children c HS) as Hndc.
  unfold rm. f_equal. f_equal.
  - rewrite dremove_filter by (rewrite keys_mapv; apply (sd_nd_states c HS)).
    apply f_equal. apply map_ext. intros [k s]. simpl. rewrite clear_refs_clr. reflexivity.
  - apply dremove_filter. apply (sd_nd_parent c HS).
  - rewrite (filter_map_comm (fun kv : option name * list name => (fst kv, filter (fun x => negb (str_eqb x n)) (snd kv)))). simpl.
    rewrite oremove_filter by exact Hndc.
    rewrite (filter_ext_all (fun kv : option name * list name => negb (opt_eqb str_eqb (fst kv) (Some n)))
                            (fun x => negb (oin (fun x0 => str_eqb x0 n) (fst x))))
      by (intros [[k|] v]; reflexivity).
    set (d := filter (fun x : option name * list name => negb (oin (fun x0 => str_eqb x0 n) (fst x))) (c_children c)).
    assert (Hndd : NoDup (map fst d)) by (apply NoDup_map_filter; exact Hndc).
    assert (Hind : In (p, l) d).
    { apply filter_In. split; [apply olookup_In; exact Hl|]. simpl.
      destruct p as [q|]; simpl; [|reflexivity]. apply negb_true_iff, seqb_neq. congruence. }
    rewrite oset_map; [|exact Hndd|change p with (fst (p, l)); apply in_map; exact Hind].
    apply map_ext_in. intros [k lk] Hk. simpl.
    assert (Hk' : olookup k (c_children c) = Some lk).
    { apply In_olookup; [exact Hndc|]. apply filter_In in Hk. apply Hk. }
    destruct (oeqbP k p) as [->|Hkp].
    + rewrite Hl in Hk'. inv Hk'. f_equal. apply remove_first_filter.
      apply (sound_children_NoDup c HS _ _ Hl).
    + f_equal. symmetry. apply filter_true. intros x Hx. apply negb_true_iff, seqb_neq. intros ->.
      rewrite (sd_cp c HS _ _ _ Hk' Hx) in Hp. congruence.
Qed.

(* ------------------------------------------------------------------ the recursion of remove_state *)
Definition corank (c : chart) (h : name -> nat) : Prop :=
  forall x q, lookup x (c_parent c) = Some (Some q) -> h x < h q.

Section RemoveLoop.
  Variable f : nat.
  Fixpoint remove_loop (c : chart) (chs : list name) : chart * eres :=
    match chs with
    | [] => (c, EOk)
    | ch :: rest =>
        match remove_state_fuel f c ch with
        | (c', EOk) => remove_loop c' rest
        | (c', e) => (c', e)
        end
    end.
End RemoveLoop.

Lemma remove_state_fuel_S : forall f c n,
  remove_state_fuel (S f) c n =
  if negb (has_state c n) then (c, EStatechartError) else
  match remove_loop f c (children_for c n) with
  | (c', EOk) => remove_one c' n
  | (c', e) => (c', e)
  end.
Proof. reflexivity. Qed.

Definition subtree_spec (c : chart) (roots : list name) (D : name -> bool) : Prop :=
  forall x, D x = true <-> exists r, In r roots /\ (x = r \/ anc c x r).

Definition remove_ok (f : nat) : Prop :=
  forall c n h, sound c -> fields_ok c -> has_state c n = true -> corank c h -> h n < f ->
    exists D, subtree_spec c [n] D /\ remove_state_fuel f c n = (rm D c, EOk).

Lemma corank_rm : forall D c h, corank c h -> corank (rm D c) h.
Proof. intros D c h H x q. rewrite rm_parent. destruct (D x); [discriminate|apply H]. Qed.

Lemma remove_loop_spec : forall f, remove_ok f ->
  forall chs c h, sound c -> fields_ok c -> corank c h ->
    (forall ch, In ch chs -> has_state c ch = true /\ h ch < f) ->
    antichain c chs ->
    exists D, subtree_spec c chs D /\ remove_loop f c chs = (rm D c, EOk).
Proof.
  intros f IHf chs; induction chs as [|ch chs IH]; intros c h HS HF Hh Hst [Hnd Han].
  - exists (fun _ => false). split.
    + intros x. split; [discriminate|intros [r [[] _]]].
    + simpl. rewrite rm_false by reflexivity. reflexivity.
  - inv Hnd.
    destruct (Hst ch (or_introl eq_refl)) as [Hch Hlt].
    destruct (IHf c ch h HS HF Hch Hh Hlt) as [D1 [HD1 E1]].
    assert (Hcl : closed c D1) by (apply (subtree_closed c D1 (fun r => In r [ch])); exact HD1).
    pose proof (rm_sound D1 c HS HF Hcl) as HS2.
    assert (Hout : forall x, In x chs -> D1 x = false).
    { intros x Hx. destruct (D1 x) eqn:E; [|reflexivity]. exfalso.
      apply HD1 in E. destruct E as [r [[<-|[]] [->|Ha]]]; [auto|].
      apply (Han x ch); [right; exact Hx|left; reflexivity|exact Ha]. }
    destruct (IH (rm D1 c) h HS2 (rm_fields_ok D1 c HF) (corank_rm D1 c h Hh)) as [D2 [HD2 E2]].
    + intros x Hx. destruct (Hst x (or_intror Hx)) as [Hs1 Hs2].
      rewrite rm_has_state, (Hout x Hx), Hs1. split; [reflexivity|exact Hs2].
    + split; [assumption|]. intros x y Hx Hy Ha. apply rm_anc in Ha.
      apply (Han x y); [right; exact Hx|right; exact Hy|apply Ha].
    + exists (fun x => D1 x || D2 x). split.
      * intros x. rewrite orb_true_iff, (HD1 x), (HD2 x). split.
        -- intros [[r [[<-|[]] Hr]]|[r [Hr [->|Ha]]]].
           ++ exists ch. split; [left; reflexivity|exact Hr].
           ++ exists r. split; [right; exact Hr|left; reflexivity].
           ++ exists r. split; [right; exact Hr|right; apply (rm_anc _ _ _ _ Ha)].
        -- intros [r [[<-|Hr] Hx]].
           ++ left. exists ch. split; [left; reflexivity|exact Hx].
           ++ destruct (D1 x) eqn:Dx.
              ** left. apply HD1. exact Dx.
              ** right. exists r. split; [exact Hr|]. destruct Hx as [->|Ha]; [left; reflexivity|].
                 right. apply anc_rm; assumption.
      * simpl. rewrite E1, E2, rm_rm. reflexivity.
Qed.

Lemma anc_via_child : forall c, sound c -> forall x n,
  anc c x n <-> exists ch, In ch (children_for c n) /\ (x = ch \/ anc c x ch).
Proof.
  intros c HS x n. split.
  - intros H. induction H as [x a H|x q a H H' IH].
    + exists x. split; [apply sound_parent_child; assumption|left; reflexivity].
    + destruct IH as [ch [Hch [->|Ha]]]; exists ch; (split; [exact Hch|right]).
      * apply anc_parent; exact H.
      * eapply anc_step; eauto.
  - intros [ch [Hch [->|Ha]]].
    + apply anc_parent. apply sound_child_parent; assumption.
    + eapply anc_trans; [exact Ha|]. apply anc_parent. apply sound_child_parent; assumption.
Qed.

Lemma children_antichain : forall c, sound c -> forall n, antichain c (children_for c n).
Proof.
  intros c HS n. split; [apply sound_children_for_NoDup; exact HS|].
  intros x y Hx Hy Ha. destruct (anc_inv _ _ _ Ha) as [q [Hq Hor]].
  rewrite (sound_child_parent c HS _ _ Hx) in Hq. inv Hq.
  pose proof (anc_parent c _ _ (sound_child_parent c HS _ _ Hy)) as Hyq.
  destruct Hor as [->|Hor]; [apply (sound_anc_irrefl c HS y); exact Hyq|].
  apply (sound_anc_irrefl c HS q). eapply anc_trans; eauto.
Qed.

Lemma remove_state_fuel_ok : forall f, remove_ok f.
Proof.
  induction f as [|f IHf]; intros c n h HS HF Hn Hh Hlt; [lia|].
  rewrite remove_state_fuel_S, Hn. cbn [negb].
  destruct (remove_loop_spec f IHf (children_for c n) c h HS HF Hh) as [D1 [HD1 E1]].
  - intros ch Hch. split.
    + unfold children_for in Hch. destruct (olookup (Some n) (c_children c)) as [l|] eqn:E; [|destruct Hch].
      apply (sound_child_state c HS _ _ _ E Hch).
    + specialize (Hh _ _ (sound_child_parent c HS _ _ Hch)). lia.
  - apply children_antichain; exact HS.
  - rewrite E1.
    assert (HD1' : forall x, D1 x = true <-> anc c x n).
    { intros x. rewrite (HD1 x), (anc_via_child c HS x n). reflexivity. }
    assert (Hcl : closed c D1) by (apply (subtree_closed c D1 (fun r => In r (children_for c n))); exact HD1).
    assert (Dn : D1 n = false).
    { destruct (D1 n) eqn:E; [|reflexivity]. apply HD1' in E. destruct (sound_anc_irrefl c HS n E). }
    rewrite remove_one_rm; [|apply rm_sound; assumption|rewrite rm_has_state, Dn, Hn; reflexivity].
    rewrite rm_rm. exists (fun x => D1 x || str_eqb x n). split; [|reflexivity].
    intros x. rewrite orb_true_iff, HD1', seqb_eq. split.
    + intros [H|H]; exists n; (split; [left; reflexivity|auto]).
    + intros [r [[<-|[]] [H|H]]]; auto.
Qed.

(* ------------------------------------------------------------------ the fuel of remove_state suffices *)
Lemma descendants_NoDup : forall c, sound c -> forall n, NoDup (descendants_for c n).
Proof.
  intros c HS n. unfold descendants_for.
  assert (Hac : antichain c [n]).
  { split; [constructor; [intros []|constructor]|].
    intros a b [<-|[]] [<-|[]]. apply sound_anc_irrefl; assumption. }
  pose proof (bfs_NoDup c HS (S (length (c_states c))) [n] Hac) as Hnd.
  apply NoDup_app_r in Hnd. exact Hnd.
Qed.

Lemma anc_has_state : forall c, sound c -> forall x a, anc c x a -> has_state c x = true.
Proof.
  intros c HS x a H. destruct (anc_inv _ _ _ H) as [q [Hq _]]. apply (sd_pkeys c HS). congruence.
Qed.

Lemma descendants_length : forall c, sound c -> forall n,
  length (descendants_for c n) <= length (c_states c).
Proof.
  intros c HS n. rewrite <- (map_length fst (c_states c)).
  apply NoDup_incl_length; [apply descendants_NoDup; exact HS|].
  intros x Hx. apply has_state_In. apply (descendants_for_spec c HS) in Hx.
  eapply anc_has_state; eauto.
Qed.

Lemma descendants_corank : forall c, sound c -> corank c (fun x => length (descendants_for c x)).
Proof.
  intros c HS x q Hp.
  assert (Hnd : NoDup (x :: descendants_for c x)).
  { constructor; [|apply descendants_NoDup; exact HS].
    rewrite (descendants_for_spec c HS). apply sound_anc_irrefl; exact HS. }
  assert (Hincl : incl (x :: descendants_for c x) (descendants_for c q)).
  { intros y [<-|Hy]; apply (descendants_for_spec c HS).
    - apply anc_parent; exact Hp.
    - apply (descendants_for_spec c HS) in Hy. eapply anc_trans; [exact Hy|apply anc_parent; exact Hp]. }
  pose proof (NoDup_incl_length Hnd Hincl) as Hlen. simpl in Hlen. lia.
Qed.

Definition subtree_b (c : chart) (n : name) : name -> bool :=
  fun x => mem x (n :: descendants_for c n).

Lemma subtree_b_spec : forall c, sound c -> forall n x,
  subtree_b c n x = true <-> x = n \/ anc c x n.
Proof.
  intros c HS n x. unfold subtree_b. rewrite mem_In. simpl. rewrite (descendants_for_spec c HS).
  split; intros [H|H]; auto.
Qed.

(* remove_state n on a sound chart: either n is unknown and nothing happens (StatechartError), or
   the result is exactly the chart without subtree+(n); the fuel never runs out and no KeyError
   escapes *)
Theorem remove_state_spec : forall c n, sound c -> fields_ok c ->
  remove_state c n =
  if has_state c n then (rm (subtree_b c n) c, EOk) else (c, EStatechartError).
Proof.
  intros c n HS HF. unfold remove_state. destruct (has_state c n) eqn:Hn.
  - destruct (remove_state_fuel_ok (S (length (c_states c))) c n (fun x => length (descendants_for c x))
                HS HF Hn (descendants_corank c HS)) as [D [HD E]].
    + pose proof (descendants_length c HS n). lia.
    + rewrite E. f_equal. apply rm_ext. intros x.
      destruct (D x) eqn:Dx; destruct (subtree_b c n x) eqn:Sx; try reflexivity; exfalso.
      * apply HD in Dx. destruct Dx as [r [[<-|[]] Hr]].
        apply (subtree_b_spec c HS) in Hr. congruence.
      * apply (subtree_b_spec c HS) in Sx.
        assert (D x = true) by (apply HD; exists n; split; [left; reflexivity|exact Sx]). congruence.
  - rewrite remove_state_fuel_S, Hn. reflexivity.
Qed.

Lemma subtree_b_closed : forall c, sound c -> forall n, closed c (subtree_b c n).
Proof.
  intros c HS n. apply (subtree_closed c _ (fun r => r = n)). intros x.
  rewrite (subtree_b_spec c HS). split; [intros H; exists n; auto|intros [r [-> H]]; exact H].
Qed.

Theorem remove_state_atomic : forall c n c' r, sound c -> fields_ok c ->
  remove_state c n = (c', r) -> r = EStatechartError \/ r = EValueError -> c' = c.
Proof.
  intros c n c' r HS HF H Hr. rewrite (remove_state_spec c n HS HF) in H.
  destruct (has_state c n); inv H; [destruct Hr; discriminate|reflexivity].
Qed.

Theorem remove_state_no_keyerror : forall c n c', sound c -> fields_ok c ->
  remove_state c n = (c', EKeyError) -> False.
Proof.
  intros c n c' HS HF H. rewrite (remove_state_spec c n HS HF) in H.
  destruct (has_state c n); discriminate.
Qed.

Theorem remove_state_sound : forall c n c', sound c -> fields_ok c ->
  remove_state c n = (c', EOk) -> sound c' /\ fields_ok c'.
Proof.
  intros c n c' HS HF H. rewrite (remove_state_spec c n HS HF) in H.
  destruct (has_state c n); inv H.
  split; [apply rm_sound; [assumption|assumption|apply subtree_b_closed; assumption]|apply rm_fields_ok; assumption].
Qed.

(* without soundness remove_state is not atomic: a children list that names a missing state makes
   the recursion fail after the first children have been removed (not reachable through the API) *)
Definition st0 (n : name) (k : kind) : state := mkState n k None None None None [] [] [].
Definition unsound_chart : chart :=
  mkChart "u" None None
    [("a", st0 "a" KCompound); ("b", st0 "b" KBasic)]
    [("a", None); ("b", Some "a")]
    [(None, ["a"]); (Some "a", ["b"; "ghost"]); (Some "b", [])]
    [].

Lemma remove_state_atomic_unsound_refuted :
  exists c n c' r, remove_state c n = (c', r) /\ r = EStatechartError /\ c' <> c.
Proof.
  exists unsound_chart, "a".
  eexists. eexists. split; [vm_compute; reflexivity|]. split; [reflexivity|]. intros E. discriminate E.
Qed.

(* ================================================================== 5. rename_state *)
Definition ren (old new : name) : name -> name := fun x => if str_eqb x old then new else x.

Definition map_state (r : name -> name) (s : state) : state :=
  mkState (r (s_name s)) (s_kind s) (option_map r (s_initial s)) (option_map r (s_memory s))
          (s_on_entry s) (s_on_exit s) (s_pre s) (s_post s) (s_inv s).

(* every transition keeps its shape: an internal transition (target None) stays internal *)
Definition map_trans (r : name -> name) (t : transition) : transition :=
  mkTrans (r (t_source t)) (option_map r (t_target t)) (t_event t) (t_guard t) (t_action t)
          (t_priority t) (t_pre t) (t_post t) (t_inv t).

Definition map_chart (r : name -> name) (c : chart) : chart :=
  mkChart (c_name c) (c_description c) (c_preamble c)
    (map (fun kv => (r (fst kv), map_state r (snd kv))) (c_states c))
    (map (fun kv => (r (fst kv), option_map r (snd kv))) (c_parent c))
    (map (fun kv => (option_map r (fst kv), map r (snd kv))) (c_children c))
    (map (map_trans r) (c_transitions c)).

Definition rn_trans (old new : name) (t : transition) : transition :=
  let t1 := if str_eqb (t_source t) old then set_source t new else t in
  if ostr_eqb (t_target t1) (Some old) then set_target t1 (Some new) else t1.

Lemma rn_trans_map : forall old new t, rn_trans old new t = map_trans (ren old new) t.
Proof.
  intros old new [src [tg|] ev g a p pre post iv]; unfold rn_trans, map_trans, ren, set_source, set_target, ostr_eqb;
    simpl; destruct (str_eqb src old); simpl; try destruct (str_eqb tg old); reflexivity.
Qed.

Definition rn_parent (old new : name) (p : option name) : option name :=
  if ostr_eqb p (Some old) then Some new else p.

Lemma rn_parent_map : forall old new p, rn_parent old new p = option_map (ren old new) p.
Proof.
  intros old new [p|]; unfold rn_parent, ren, ostr_eqb; simpl; [|reflexivity].
  destruct (str_eqb p old); reflexivity.
Qed.

Lemma rename_refs_map : forall old new s,
  (forall i, s_initial s = Some i -> s_kind s = KCompound) ->
  (forall m, s_memory s = Some m -> is_history (s_kind s) = true) ->
  rename_refs old new s =
  mkState (s_name s) (s_kind s) (option_map (ren old new) (s_initial s)) (option_map (ren old new) (s_memory s))
          (s_on_entry s) (s_on_exit s) (s_pre s) (s_post s) (s_inv s).
Proof.
  intros old new [nm k i m en ex pre post iv] Hi Hm. simpl in Hi, Hm.
  destruct k; destruct i as [i|]; destruct m as [m|];
    try (specialize (Hi _ eq_refl); discriminate); try (specialize (Hm _ eq_refl); discriminate);
    unfold rename_refs, ren, ostr_eqb, set_initial, set_memory_; simpl;
    try destruct (str_eqb i old); simpl; try destruct (str_eqb m old); simpl; reflexivity.
Qed.

(* the chart built by rename_state when it succeeds with old <> new *)
Definition renamed (c : chart) (old new : name) (st : state) (po : option name) (l lo : list name) : chart :=
  mkChart (c_name c) (c_description c) (c_preamble c)
    (dset new (set_name (rename_refs old new st) new)
          (dremove old (map (fun kv => (fst kv, rename_refs old new (snd kv))) (c_states c))))
    (dset new po (dremove old (map (fun kv => (fst kv, rn_parent old new (snd kv))) (c_parent c))))
    (oset (Some new) lo (oremove (Some old) (oset po (remove_first old l ++ [new]) (c_children c))))
    (map (rn_trans old new) (c_transitions c)).

Lemma rename_state_eq : forall c old new,
  rename_state c old new =
  if str_eqb old new then (c, EOk) else
  if has_state c new then (c, EStatechartError) else
  match lookup old (c_states c) with
  | None => (c, EStatechartError)
  | Some st =>
      let sts := map (fun kv => (fst kv, rename_refs old new (snd kv))) (c_states c) in
      let par := map (fun kv => (fst kv, rn_parent old new (snd kv))) (c_parent c) in
      let pn := match lookup old par with Some p => p | None => None end in
      let ch1 := match olookup pn (c_children c) with
                 | Some l => oset pn (remove_first old l ++ [new]) (c_children c)
                 | None => c_children c
                 end in
      let st' := match lookup old sts with Some s => s | None => st end in
      let chl := match olookup (Some old) ch1 with Some l => l | None => [] end in
      (mkChart (c_name c) (c_description c) (c_preamble c)
         (dset new (set_name st' new) (dremove old sts))
         (dset new pn (dremove old par))
         (oset (Some new) chl (oremove (Some old) ch1))
         (map (rn_trans old new) (c_transitions c)), EOk)
  end.
Proof. reflexivity. Qed.

Lemma rename_state_ok : forall c old new st, sound c ->
  old <> new -> has_state c new = false -> lookup old (c_states c) = Some st ->
  exists po l lo,
    lookup old (c_parent c) = Some po /\ po <> Some old /\ po <> Some new /\
    olookup po (c_children c) = Some l /\ count_occ string_dec l old = 1 /\
    olookup (Some old) (c_children c) = Some lo /\
    rename_state c old new = (renamed c old new st po l lo, EOk).
Proof.
  intros c old new st HS Hne Hnew Hst.
  assert (Hold : has_state c old = true) by (unfold has_state; rewrite Hst; reflexivity).
  destruct (sound_state_parent c HS old Hold) as [po Hpo].
  destruct (sd_pc c HS _ _ Hpo) as [Hpq [l [Hl Hcnt]]].
  destruct (sound_state_children c HS old Hold) as [lo Hlo].
  assert (Hpo1 : po <> Some old).
  { intros ->. destruct (sd_acyc c HS) as [rank Hr]. specialize (Hr _ _ Hpo). lia. }
  assert (Hpo2 : po <> Some new).
  { intros ->. rewrite (Hpq new eq_refl) in Hnew. discriminate. }
  exists po, l, lo. repeat (split; [assumption|]).
  rewrite rename_state_eq. apply seqb_neq in Hne. rewrite Hne, Hnew, Hst. cbv zeta.
  rewrite !lookup_mapv, Hpo, Hst. cbn [option_map].
  assert (E : rn_parent old new po = po).
  { unfold rn_parent. destruct (ostr_eqb po (Some old)) eqn:E; [|reflexivity]. apply ostr_eqb_eq in E. congruence. }
  rewrite E, Hl, olookup_oset.
  destruct (oeqbP (Some old) po) as [E2|_]; [congruence|]. rewrite Hlo. reflexivity.
Qed.

Lemma remove_first_length : forall k l, In k l -> S (length (remove_first k l)) = length l.
Proof.
  intros k l; induction l as [|y l IH]; simpl; intros H; [destruct H|].
  destruct (seqbP k y) as [->|Hn]; [reflexivity|]. simpl. f_equal. apply IH.
  destruct H; [congruence|assumption].
Qed.

Section Renamed.
  Variables (c : chart) (old new : name) (st : state) (po : option name) (l lo : list name).
  Hypothesis HS : sound c.
  Hypothesis HF : fields_ok c.
  Hypothesis Hne : old <> new.
  Hypothesis Hnew : has_state c new = false.
  Hypothesis Hst : lookup old (c_states c) = Some st.
  Hypothesis Hpo : lookup old (c_parent c) = Some po.
  Hypothesis Hpo1 : po <> Some old.
  Hypothesis Hpo2 : po <> Some new.
  Hypothesis Hl : olookup po (c_children c) = Some l.
  Hypothesis Hcnt : count_occ string_dec l old = 1.
  Hypothesis Hlo : olookup (Some old) (c_children c) = Some lo.

  Let c' := renamed c old new st po l lo.
  Let r := ren old new.
  Let rr := rename_refs old new.

  Lemma rnd_states : forall k,
    lookup k (c_states c') =
    if str_eqb k new then Some (set_name (rr st) new)
    else if str_eqb k old then None else option_map rr (lookup k (c_states c)).
  Proof.
    intros k. unfold c', renamed. cbn [c_states]. rewrite lookup_dset, lookup_dremove, lookup_mapv.
    - reflexivity.
    - rewrite keys_mapv. apply (sd_nd_states c HS).
  Qed.

  Lemma rnd_parent : forall k,
    lookup k (c_parent c') =
    if str_eqb k new then Some po
    else if str_eqb k old then None else option_map (rn_parent old new) (lookup k (c_parent c)).
  Proof.
    intros k. unfold c', renamed. cbn [c_parent]. rewrite lookup_dset, lookup_dremove, lookup_mapv.
    - reflexivity.
    - rewrite keys_mapv. apply (sd_nd_parent c HS).
  Qed.

  Lemma rnd_children : forall k,
    olookup k (c_children c') =
    if opt_eqb str_eqb k (Some new) then Some lo
    else if opt_eqb str_eqb k (Some old) then None
    else if opt_eqb str_eqb k po then Some (remove_first old l ++ [new]) else olookup k (c_children c).
  Proof.
    intros k. unfold c', renamed. cbn [c_children]. rewrite olookup_oset, olookup_oremove, olookup_oset.
    - reflexivity.
    - apply NoDup_keys_oset. apply (sd_nd_children c HS).
  Qed.

  Lemma rnd_has_state : forall k,
    has_state c' k = str_eqb k new || (negb (str_eqb k old) && has_state c k).
  Proof.
    intros k. unfold has_state. rewrite rnd_states.
    destruct (str_eqb k new); [reflexivity|]. destruct (str_eqb k old); [reflexivity|].
    destruct (lookup k (c_states c)); reflexivity.
  Qed.

  Lemma rnd_state_not_new : forall x, has_state c x = true -> x <> new.
  Proof. intros x H ->. congruence. Qed.

  Lemma rnd_rr : forall k s, lookup k (c_states c) = Some s ->
    s_name (rr s) = s_name s /\ s_kind (rr s) = s_kind s /\
    s_initial (rr s) = option_map r (s_initial s) /\ s_memory (rr s) = option_map r (s_memory s).
  Proof.
    intros k s H. destruct (HF _ _ H) as [H1 H2]. unfold rr. rewrite (rename_refs_map old new s H1 H2).
    repeat split.
  Qed.

  Lemma rnd_old_state : has_state c old = true.
  Proof. unfold has_state. rewrite Hst. reflexivity. Qed.

  Lemma rnd_r_state : forall x, has_state c x = true -> has_state c' (r x) = true.
  Proof.
    intros x H. rewrite rnd_has_state. unfold r, ren. destruct (seqbP x old) as [->|Hx].
    - rewrite seqb_refl. reflexivity.
    - destruct (seqbP x old); [congruence|]. rewrite H. simpl. apply orb_true_r.
  Qed.

  Lemma rnd_r_inj : forall a b, has_state c a = true -> has_state c b = true -> r a = r b -> a = b.
  Proof.
    intros a b Ha Hb. unfold r, ren. pose proof (rnd_state_not_new _ Ha). pose proof (rnd_state_not_new _ Hb).
    destruct (seqbP a old), (seqbP b old); congruence.
  Qed.

  (* every state of c' is the image of a state of c *)
  Lemma rnd_back : forall k s, lookup k (c_states c') = Some s ->
    exists k0 s0, lookup k0 (c_states c) = Some s0 /\ k = r k0 /\ s_name s = k /\
      s_kind s = s_kind s0 /\
      s_initial s = option_map r (s_initial s0) /\ s_memory s = option_map r (s_memory s0).
  Proof.
    intros k s. rewrite rnd_states. destruct (seqbP k new) as [->|Hk].
    - intros E; inv E. exists old, st. destruct (rnd_rr _ _ Hst) as [_ [H2 [H3 H4]]].
      split; [exact Hst|]. split; [unfold r, ren; rewrite seqb_refl; reflexivity|].
      simpl. auto.
    - destruct (seqbP k old) as [->|Hk2]; [discriminate|].
      destruct (lookup k (c_states c)) as [s0|] eqn:E; [|discriminate]. simpl. intros E2; inv E2.
      exists k, s0. destruct (rnd_rr _ _ E) as [H1 [H2 [H3 H4]]].
      split; [exact E|]. split; [unfold r, ren; destruct (seqbP k old); congruence|].
      split; [rewrite H1; apply (sd_keyname c HS _ _ E)|]. auto.
  Qed.

  Lemma rnd_children_for : forall y x, has_state c y = true ->
    In x (children_for c y) -> In (r x) (children_for c' (r y)).
  Proof.
    intros y x Hy. unfold children_for.
    destruct (olookup (Some y) (c_children c)) as [ly|] eqn:Ey; [|intros []]. intros Hx.
    pose proof (sd_cp c HS _ _ _ Ey Hx) as Hpx.
    pose proof (rnd_state_not_new _ Hy) as Hyn.
    rewrite rnd_children. unfold r, ren. destruct (seqbP y old) as [->|Hyo].
    - rewrite oeqb_refl. assert (ly = lo) by congruence. subst ly.
      destruct (seqbP x old) as [->|_]; [congruence|exact Hx].
    - destruct (oeqbP (Some y) (Some new)); [congruence|]. destruct (oeqbP (Some y) (Some old)); [congruence|].
      destruct (oeqbP (Some y) po) as [E|E].
      + assert (ly = l) by (rewrite E in Ey; congruence). subst ly. apply in_or_app.
        destruct (seqbP x old) as [->|Hxo]; [right; left; reflexivity|left].
        apply In_remove_first_neq; assumption.
      + rewrite Ey. destruct (seqbP x old) as [->|_]; [congruence|exact Hx].
  Qed.

  Lemma rnd_parent_r : forall k0 p0, lookup k0 (c_parent c) = Some p0 ->
    lookup (r k0) (c_parent c') = Some (option_map r p0).
  Proof.
    intros k0 p0 H. rewrite rnd_parent. unfold r, ren. destruct (seqbP k0 old) as [->|Hk].
    - rewrite seqb_refl. assert (p0 = po) by congruence. subst p0. f_equal.
      destruct po as [q|]; [|reflexivity]. simpl. destruct (seqbP q old); congruence.
    - assert (k0 <> new).
      { apply rnd_state_not_new. apply (sd_pkeys c HS). congruence. }
      destruct (seqbP k0 new); [congruence|]. destruct (seqbP k0 old); [congruence|].
      rewrite H. simpl. rewrite rn_parent_map. reflexivity.
  Qed.

  Theorem renamed_sound : old <> "" -> sound c'.
  Proof.
    intros Hone.
    assert (Hrp : rn_parent old new po = po).
    { unfold rn_parent. destruct (ostr_eqb po (Some old)) eqn:E; [|reflexivity]. apply ostr_eqb_eq in E. congruence. }
    assert (Hnewl : forall k lk, olookup k (c_children c) = Some lk -> ~ In new lk).
    { intros k lk Hk Hin. rewrite (sound_child_state c HS _ _ _ Hk Hin) in Hnew. discriminate. }
    assert (Hpq : forall q, po = Some q -> has_state c q = true).
    { apply (sd_pc c HS _ _ Hpo). }
    assert (Hndl : NoDup l) by apply (sound_children_NoDup c HS _ _ Hl).
    constructor.
    - unfold c', renamed. cbn [c_states]. apply NoDup_keys_dset, NoDup_keys_dremove.
      rewrite keys_mapv. apply (sd_nd_states c HS).
    - unfold c', renamed. cbn [c_parent]. apply NoDup_keys_dset, NoDup_keys_dremove.
      rewrite keys_mapv. apply (sd_nd_parent c HS).
    - unfold c', renamed. cbn [c_children]. apply NoDup_keys_oset, NoDup_keys_oremove, NoDup_keys_oset.
      apply (sd_nd_children c HS).
    - intros k s H. destruct (rnd_back _ _ H) as [k0 [s0 [_ [_ [H1 _]]]]]. exact H1.
    - intros k. rewrite rnd_parent, rnd_has_state.
      destruct (seqbP k new); [split; [reflexivity|discriminate]|].
      destruct (seqbP k old); simpl; [split; [congruence|discriminate]|].
      rewrite <- (sd_pkeys c HS). destruct (lookup k (c_parent c)); simpl; split; congruence.
    - intros k. rewrite rnd_children, rnd_has_state.
      destruct (oeqbP (Some k) (Some new)) as [E|E].
      { inv E. rewrite seqb_refl. split; [reflexivity|discriminate]. }
      destruct (seqbP k new); [congruence|].
      destruct (oeqbP (Some k) (Some old)) as [E2|E2].
      { inv E2. rewrite seqb_refl. simpl. split; [congruence|discriminate]. }
      destruct (seqbP k old); [congruence|]. cbn [negb andb orb].
      destruct (oeqbP (Some k) po) as [E3|E3]; [|apply (sd_ckeys c HS)].
      split; [intros _; apply Hpq; auto|discriminate].
    - rewrite rnd_children. destruct (oeqbP None (Some new)); [discriminate|].
      destruct (oeqbP None (Some old)); [discriminate|].
      destruct (oeqbP None po); [discriminate|apply (sd_ctop c HS)].
    - intros n p. rewrite rnd_parent. destruct (seqbP n new) as [->|Hn].
      + intros E. assert (Ep : p = po) by congruence. subst p. clear E. split.
        * intros q Eq. pose proof (rnd_r_state q (Hpq q Eq)) as Hq. unfold r, ren in Hq.
          destruct (seqbP q old); [congruence|exact Hq].
        * exists (remove_first old l ++ [new]). rewrite rnd_children.
          destruct (oeqbP po (Some new)); [congruence|]. destruct (oeqbP po (Some old)); [congruence|].
          rewrite oeqb_refl. split; [reflexivity|].
          rewrite count_occ_snoc, count_occ_remove_first_neq by congruence.
          destruct (string_dec new new); [|congruence].
          assert (count_occ string_dec l new = 0); [|lia].
          apply (count_occ_not_In string_dec). apply (Hnewl _ _ Hl).
      + destruct (seqbP n old) as [->|Hn2]; [discriminate|].
        destruct (lookup n (c_parent c)) as [p0|] eqn:E; [|discriminate]. simpl. intros E2; inv E2.
        destruct (sd_pc c HS _ _ E) as [H1 [l0 [H2 H3]]]. rewrite rn_parent_map. split.
        * intros q Hq. destruct p0 as [q0|]; [|discriminate]. simpl in Hq. inv Hq.
          apply rnd_r_state. apply H1; reflexivity.
        * destruct p0 as [q0|]; simpl.
          -- rewrite rnd_children. unfold ren.
             assert (Hq0 : q0 <> new) by (apply rnd_state_not_new, H1; reflexivity).
             destruct (seqbP q0 old) as [->|Hq].
             ++ rewrite oeqb_refl. exists lo. split; [reflexivity|]. congruence.
             ++ destruct (oeqbP (Some q0) (Some new)); [congruence|].
                destruct (oeqbP (Some q0) (Some old)); [congruence|].
                destruct (oeqbP (Some q0) po) as [Ep|Ep]; [|eauto].
                assert (l0 = l) by (rewrite Ep in H2; congruence). subst l0.
                exists (remove_first old l ++ [new]). split; [reflexivity|].
                rewrite count_occ_snoc, count_occ_remove_first_neq by assumption.
                destruct (string_dec new n); [congruence|lia].
          -- rewrite rnd_children. destruct (oeqbP None (Some new)); [discriminate|].
             destruct (oeqbP None (Some old)); [discriminate|].
             destruct (oeqbP None po) as [Ep|Ep]; [|eauto].
             assert (l0 = l) by (rewrite Ep in H2; congruence). subst l0.
             exists (remove_first old l ++ [new]). split; [reflexivity|].
             rewrite count_occ_snoc, count_occ_remove_first_neq by assumption.
             destruct (string_dec new n); [congruence|lia].
    - intros k l' ch. rewrite rnd_children. destruct (oeqbP k (Some new)) as [->|Hk].
      + intros E. assert (l' = lo) by congruence. subst l'. clear E.
        intros Hin. pose proof (sd_cp c HS _ _ _ Hlo Hin) as Hp.
        pose proof (rnd_parent_r _ _ Hp) as Hp'. unfold r, ren in Hp'. cbn [option_map] in Hp'.
        rewrite seqb_refl in Hp'. destruct (seqbP ch old); [congruence|exact Hp'].
      + destruct (oeqbP k (Some old)) as [->|Hk2]; [discriminate|].
        destruct (oeqbP k po) as [->|Hk3].
        * intros E; inv E. intros Hin. apply in_app_or in Hin. destruct Hin as [Hin|[<-|[]]].
          -- assert (Hch : ch <> old).
             { intros ->. revert Hin. apply NoDup_remove_first_notin. exact Hndl. }
             apply In_remove_first in Hin. pose proof (sd_cp c HS _ _ _ Hl Hin) as Hp.
             pose proof (rnd_parent_r _ _ Hp) as Hp'. unfold r, ren in Hp'.
             destruct (seqbP ch old); [congruence|]. rewrite Hp'.
             change (fun x : name => if str_eqb x old then new else x) with (ren old new).
             rewrite <- rn_parent_map, Hrp. reflexivity.
          -- rewrite rnd_parent, seqb_refl. reflexivity.
        * intros Hl' Hin. pose proof (sd_cp c HS _ _ _ Hl' Hin) as Hp.
          assert (Hch : ch <> old) by (intros ->; congruence).
          pose proof (rnd_parent_r _ _ Hp) as Hp'. unfold r, ren in Hp'.
          destruct (seqbP ch old); [congruence|]. rewrite Hp'. f_equal.
          destruct k as [q|]; [|reflexivity]. simpl. destruct (seqbP q old); congruence.
    - intros l'. rewrite rnd_children. destruct (oeqbP None (Some new)); [discriminate|].
      destruct (oeqbP None (Some old)); [discriminate|].
      destruct (oeqbP None po) as [E|E]; [|apply (sd_top c HS)].
      intros E2. injection E2 as <-. pose proof Hl as Hl0. rewrite <- E in Hl0. pose proof (sd_top c HS _ Hl0) as Hlen.
      rewrite app_length. simpl.
      pose proof (remove_first_length old l (count_occ_one_In _ _ Hcnt)). lia.
    - destruct (sd_acyc c HS) as [rank Hr].
      exists (fun x => if str_eqb x new then rank old else rank x).
      intros n q. rewrite rnd_parent. destruct (seqbP n new) as [->|Hn].
      + intros E. assert (Epo : po = Some q) by congruence. pose proof Hpo as Hpo'. rewrite Epo in Hpo'.
        specialize (Hr _ _ Hpo'). destruct (seqbP q new); [congruence|exact Hr].
      + destruct (seqbP n old) as [->|Hn2]; [discriminate|].
        destruct (lookup n (c_parent c)) as [p0|] eqn:E; [|discriminate]. simpl. intros E2; inv E2.
        rewrite rn_parent_map in H0. destruct p0 as [q0|]; [|discriminate]. simpl in H0. inv H0.
        specialize (Hr _ _ E). unfold ren. destruct (seqbP q0 old) as [->|Hq].
        * rewrite seqb_refl. exact Hr.
        * destruct (seqbP q0 new) as [->|_]; [|exact Hr].
          exfalso. destruct (sd_pc c HS _ _ E) as [H1 _]. rewrite (H1 new eq_refl) in Hnew. discriminate.
    - intros t Hin. unfold c', renamed in Hin. cbn [c_transitions] in Hin.
      apply in_map_iff in Hin. destruct Hin as [t0 [<- Hin]]. rewrite rn_trans_map.
      destruct (sd_trans c HS t0 Hin) as [[s [H1 H2]] H3]. split.
      + assert (Hs : has_state c (t_source t0) = true) by (unfold has_state; rewrite H1; reflexivity).
        apply rnd_r_state in Hs. apply has_state_Some in Hs. destruct Hs as [s' Hs'].
        exists s'. split; [exact Hs'|]. destruct (rnd_back _ _ Hs') as [k0 [s0 [Hk0 [Hk [_ [Hkind _]]]]]].
        simpl in Hk. apply rnd_r_inj in Hk.
        * subst k0. rewrite Hk0 in H1. inv H1. rewrite Hkind. exact H2.
        * unfold has_state; rewrite H1; reflexivity.
        * unfold has_state; rewrite Hk0; reflexivity.
      + intros tg E. simpl in E. destruct (t_target t0) as [tg0|]; [|discriminate]. simpl in E. inv E.
        apply rnd_r_state. apply H3; reflexivity.
    - intros k s H. destruct (rnd_back _ _ H) as [k0 [s0 [Hk0 [_ [_ [_ [Hi Hm]]]]]]].
      destruct (sd_refs c HS _ _ Hk0) as [H1 H2]. rewrite Hi, Hm.
      split; intros x Hx.
      + destruct (s_initial s0) as [i0|]; [|discriminate]. simpl in Hx. inv Hx. apply rnd_r_state, H1; reflexivity.
      + destruct (s_memory s0) as [m0|]; [|discriminate]. simpl in Hx. inv Hx. apply rnd_r_state, H2; reflexivity.
    - intros k s i H Hkind Hini. destruct (rnd_back _ _ H) as [k0 [s0 [Hk0 [-> [_ [Hk [Hi _]]]]]]].
      rewrite Hi in Hini. destruct (s_initial s0) as [i0|] eqn:Ei0; [|discriminate].
      apply truthy_Some in Hini. destruct Hini as [Hini Hine]. simpl in Hini. inv Hini.
      assert (Hi0 : i0 <> "").
      { unfold r, ren in Hine. destruct (seqbP i0 old); congruence. }
      destruct (sd_vinit c HS k0 s0 i0 Hk0) as [H1 H2]; [congruence|rewrite Ei0; apply truthy_nonempty; exact Hi0|].
      split; [apply rnd_r_state; exact H1|]. apply rnd_children_for; [|exact H2].
      unfold has_state; rewrite Hk0; reflexivity.
    - intros k s m H Hkind Hmem. destruct (rnd_back _ _ H) as [k0 [s0 [Hk0 [-> [_ [Hk [_ Hm]]]]]]].
      rewrite Hm in Hmem. destruct (s_memory s0) as [m0|] eqn:Em0; [|discriminate]. simpl in Hmem. inv Hmem.
      rewrite Hk in Hkind.
      destruct (sd_vmem c HS k0 s0 m0 Hk0 Hkind Em0) as [H1 [H2 [p [H3 H4]]]].
      assert (Hk0s : has_state c k0 = true) by (unfold has_state; rewrite Hk0; reflexivity).
      split; [intros E; apply H1; apply rnd_r_inj; assumption|].
      split; [apply rnd_r_state; exact H2|]. exists (r p).
      assert (Hpk : lookup k0 (c_parent c) = Some (Some p)).
      { unfold parent_for in H3. destruct (lookup k0 (c_parent c)) as [pp|]; [congruence|discriminate]. }
      split.
      + unfold parent_for. rewrite (rnd_parent_r _ _ Hpk). reflexivity.
      + apply rnd_children_for; [|exact H4]. apply (sd_pc c HS _ _ Hpk). reflexivity.
  Qed.

  Lemma renamed_fields_ok : fields_ok c'.
  Proof.
    intros k s H. destruct (rnd_back _ _ H) as [k0 [s0 [Hk0 [_ [_ [Hk [Hi Hm]]]]]]].
    destruct (HF _ _ Hk0) as [H1 H2]. rewrite Hk, Hi, Hm. split; intros x Hx.
    - destruct (s_initial s0) as [i0|]; [|discriminate]. apply (H1 i0); reflexivity.
    - destruct (s_memory s0) as [m0|]; [|discriminate]. apply (H2 m0); reflexivity.
  Qed.

  Lemma renamed_no_empty_name : no_empty_name c -> new <> "" -> no_empty_name c'.
  Proof.
    intros H Hn. unfold no_empty_name in *. rewrite rnd_has_state, H.
    destruct (seqbP "" new); [congruence|]. simpl. apply andb_false_r.
  Qed.
End Renamed.

(* the three possible outcomes of rename_state on a sound chart *)
Lemma rename_state_result : forall c old new c' r, sound c ->
  rename_state c old new = (c', r) ->
  (c' = c /\ (r = EStatechartError \/ (r = EOk /\ old = new))) \/
  (r = EOk /\ old <> new /\ has_state c new = false /\
   exists st po l lo,
     lookup old (c_states c) = Some st /\
     lookup old (c_parent c) = Some po /\ po <> Some old /\ po <> Some new /\
     olookup po (c_children c) = Some l /\ count_occ string_dec l old = 1 /\
     olookup (Some old) (c_children c) = Some lo /\
     c' = renamed c old new st po l lo).
Proof.
  intros c old new c' r HS H. destruct (seqbP old new) as [E|Hne].
  - left. rewrite rename_state_eq in H. apply seqb_eq in E. rewrite E in H. inv H.
    split; [reflexivity|right; split; [reflexivity|apply seqb_eq; exact E]].
  - destruct (has_state c new) eqn:Hnew.
    + left. rewrite rename_state_eq in H. apply seqb_neq in Hne. rewrite Hne, Hnew in H. inv H. auto.
    + destruct (lookup old (c_states c)) as [st|] eqn:Hst.
      * right. destruct (rename_state_ok c old new st HS Hne Hnew Hst)
          as [po [l [lo [H1 [H2 [H3 [H4 [H5 [H6 H7]]]]]]]]].
        rewrite H7 in H. inv H. split; [reflexivity|]. split; [assumption|]. split; [reflexivity|].
        exists st, po, l, lo. auto 10.
      * left. rewrite rename_state_eq in H. apply seqb_neq in Hne. rewrite Hne, Hnew, Hst in H. inv H. auto.
Qed.

Theorem rename_state_sound : forall c old new c',
  sound c -> fields_ok c -> no_empty_name c ->
  rename_state c old new = (c', EOk) ->
  sound c' /\ fields_ok c' /\ (new <> "" -> no_empty_name c').
Proof.
  intros c old new c' HS HF HN H.
  destruct (rename_state_result _ _ _ _ _ HS H) as [[-> _]|[_ [Hne [Hnew [st [po [l [lo [H1 [H2 [H3 [H4 [H5 [H6 [H7 ->]]]]]]]]]]]]]]].
  - auto.
  - assert (Hone : old <> "").
    { intros ->. unfold no_empty_name, has_state in HN. rewrite H1 in HN. discriminate. }
    split; [apply renamed_sound; assumption|].
    split; [apply renamed_fields_ok; assumption|].
    intros Hn. apply renamed_no_empty_name; assumption.
Qed.

(* ================================================================== 6. C16: the invariant, all operations *)

(* the invariant of the editing API: soundness plus the two representation facts that sound_b does
   not contain (no state is called "", only compound states carry `initial` and only history
   states carry `memory`) *)
Definition einv (c : chart) : Prop := sound c /\ no_empty_name c /\ fields_ok c.

(* side conditions on the arguments *)
Definition op_ok (c : chart) (op : eop) : Prop :=
  match op with
  | EAddState st p =>
      s_name st <> "" /\ p <> Some "" /\ s_initial st = None /\ memory_ok c st p
  | ERenameState _ new => new <> ""
  | _ => True
  end.

Lemma fields_ok_states : forall c c', c_states c' = c_states c -> fields_ok c -> fields_ok c'.
Proof. intros c c' E H k s. rewrite E. apply H. Qed.

Lemma no_empty_name_states : forall c c', c_states c' = c_states c -> no_empty_name c -> no_empty_name c'.
Proof. intros c c' E H. unfold no_empty_name, has_state in *. rewrite E. exact H. Qed.

Lemma add_transition_states : forall c t c' r, add_transition c t = (c', r) -> c_states c' = c_states c.
Proof.
  intros c t c' r H. unfold add_transition in H.
  repeat break_match_hyp H; inv H; reflexivity.
Qed.

Lemma remove_transition_states : forall c t c' r, remove_transition c t = (c', r) -> c_states c' = c_states c.
Proof.
  intros c t c' r H. unfold remove_transition in H.
  repeat break_match_hyp H; inv H; reflexivity.
Qed.

Lemma rotate_transition_states : forall c i s t c' r,
  rotate_transition c i s t = (c', r) -> c_states c' = c_states c.
Proof.
  intros c i s t c' r H. unfold rotate_transition in H.
  destruct s, t, i; try (inv H; reflexivity);
  repeat break_match_hyp H; inv H; reflexivity.
Qed.

Lemma register_fields_ok : forall c st parent l,
  fields_ok c -> s_initial st = None -> memory_ok c st parent -> fields_ok (register_chart c st parent l).
Proof.
  intros c st parent l HF Hi Hm k s. unfold register_chart. cbn [c_states]. rewrite lookup_dset.
  destruct (seqbP k (s_name st)); [|apply HF]. intros E; inv E. split; intros x Hx; [congruence|].
  apply (Hm x Hx).
Qed.

Lemma register_no_empty_name : forall c st parent l,
  no_empty_name c -> s_name st <> "" -> no_empty_name (register_chart c st parent l).
Proof.
  intros c st parent l HN Hn. unfold no_empty_name, has_state, register_chart in *. cbn [c_states].
  rewrite lookup_dset. destruct (seqbP "" (s_name st)); [congruence|exact HN].
Qed.

Lemma move_states_lookup : forall c n st k, lookup n (c_states c) = Some st ->
  lookup k (map (fun kv => (fst kv, clear_refs_move n (snd kv)))
                (if is_history (s_kind st) then dset n (set_memory_ st None) (c_states c) else c_states c))
  = option_map (mv_state n k) (lookup k (c_states c)).
Proof.
  intros c n st k Hst. rewrite lookup_mapv. unfold mv_state.
  destruct (is_history (s_kind st)) eqn:Eh.
  - rewrite lookup_dset. destruct (seqbP k n) as [->|Hk]; simpl.
    + rewrite Hst. simpl. rewrite Eh. reflexivity.
    + destruct (lookup k (c_states c)); reflexivity.
  - destruct (seqbP k n) as [->|Hk]; simpl.
    + rewrite Hst. simpl. rewrite Eh. reflexivity.
    + destruct (lookup k (c_states c)); reflexivity.
Qed.

Lemma move_state_ok_states : forall c n np c', move_state c n np = (c', EOk) ->
  forall k, lookup k (c_states c') = option_map (mv_state n k) (lookup k (c_states c)).
Proof.
  intros c n np c' H k.
  destruct (move_state_inv _ _ _ _ _ H (or_introl eq_refl)) as [st [Hst [_ [_ Hm]]]].
  destruct (olookup (parent_for c n) (c_children c)) as [l|]; [|discriminate].
  destruct Hm as [_ ->]. cbn [c_states]. apply move_states_lookup. exact Hst.
Qed.

Lemma move_state_fields_ok : forall c n np c', fields_ok c -> move_state c n np = (c', EOk) -> fields_ok c'.
Proof.
  intros c n np c' HF H k s. rewrite (move_state_ok_states _ _ _ _ H).
  destruct (lookup k (c_states c)) as [s0|] eqn:E; [|discriminate]. simpl. intros E2; inv E2.
  destruct (mv_state_spec n k s0) as [_ [Hk [Hi Hm]]]. destruct (HF _ _ E) as [H1 H2]. rewrite Hk.
  split; intros x Hx; [apply (H1 x), (Hi x Hx)|apply (H2 x), (Hm x Hx)].
Qed.

Lemma move_state_no_empty_name : forall c n np c',
  no_empty_name c -> move_state c n np = (c', EOk) -> no_empty_name c'.
Proof.
  intros c n np c' HN H. unfold no_empty_name, has_state in *. rewrite (move_state_ok_states _ _ _ _ H).
  destruct (lookup "" (c_states c)); [discriminate|reflexivity].
Qed.

Lemma move_state_no_keyerror : forall c n np c', sound c -> move_state c n np = (c', EKeyError) -> False.
Proof.
  intros c n np c' HS H.
  destruct (move_state_inv _ _ _ _ _ H (or_intror eq_refl)) as [st [Hst [_ [_ Hm]]]].
  assert (Hn : has_state c n = true) by (unfold has_state; rewrite Hst; reflexivity).
  destruct (sound_state_parent c HS n Hn) as [op Hop].
  rewrite (parent_for_lookup _ _ _ Hop) in Hm.
  destruct (sd_pc c HS _ _ Hop) as [_ [l [Hl _]]]. rewrite Hl in Hm. destruct Hm; discriminate.
Qed.

(* ------------------------------------------------------------------ C16_preserve *)
Theorem C16_preserve : forall c op c',
  einv c -> op_ok c op -> apply_eop c op = (c', EOk) -> einv c'.
Proof.
  intros c op c' [HS [HN HF]] Hok H. destruct op as [st p|n|o n|n p|t|t|i s t]; simpl in H, Hok.
  - destruct Hok as [Hnm [Hp [Hi Hm]]].
    destruct (add_state_ok _ _ _ _ _ HS HN Hnm H (or_introl eq_refl))
      as [[_ [l [Hl [Htop [Hpar [Hfresh ->]]]]]]|[E _]]; [|discriminate].
    split; [apply register_sound; assumption|].
    split; [apply register_no_empty_name; assumption|apply register_fields_ok; assumption].
  - destruct (remove_state_sound _ _ _ HS HF H) as [H1 H2]. split; [exact H1|]. split; [|exact H2].
    rewrite (remove_state_spec c n HS HF) in H. destruct (has_state c n); inv H.
    apply rm_no_empty_name; exact HN.
  - destruct (rename_state_sound _ _ _ _ HS HF HN H) as [H1 [H2 H3]]. split; [exact H1|]. split; auto.
  - split; [eapply move_state_sound; eauto|].
    split; [eapply move_state_no_empty_name; eauto|eapply move_state_fields_ok; eauto].
  - pose proof (add_transition_states _ _ _ _ H) as E.
    split; [eapply add_transition_sound; eauto|].
    split; [eapply no_empty_name_states; eauto|eapply fields_ok_states; eauto].
  - pose proof (remove_transition_states _ _ _ _ H) as E.
    split; [eapply remove_transition_sound; eauto|].
    split; [eapply no_empty_name_states; eauto|eapply fields_ok_states; eauto].
  - pose proof (rotate_transition_states _ _ _ _ _ _ H) as E.
    split; [eapply rotate_transition_sound; eauto|].
    split; [eapply no_empty_name_states; eauto|eapply fields_ok_states; eauto].
Qed.

(* ------------------------------------------------------------------ C16_atomic *)
Theorem C16_atomic : forall c op c' r,
  sound c -> fields_ok c ->
  apply_eop c op = (c', r) -> r = EStatechartError \/ r = EValueError -> c' = c.
Proof.
  intros c op c' r HS HF H Hr. destruct op as [st p|n|o n|n p|t|t|i s t]; simpl in H.
  - eapply add_state_atomic; eauto.
  - eapply remove_state_atomic; eauto.
  - eapply rename_state_atomic; eauto.
  - eapply move_state_atomic; eauto.
  - eapply add_transition_atomic; eauto.
  - eapply remove_transition_atomic; eauto.
  - eapply rotate_transition_atomic; eauto.
Qed.

(* every operation except remove_state is atomic on arbitrary (even unsound) charts *)
Theorem C16_atomic_any : forall c op c' r,
  (forall n, op <> ERemoveState n) ->
  apply_eop c op = (c', r) -> r = EStatechartError \/ r = EValueError -> c' = c.
Proof.
  intros c op c' r Hop H Hr. destruct op as [st p|n|o n|n p|t|t|i s t]; simpl in H.
  - eapply add_state_atomic; eauto.
  - destruct (Hop n eq_refl).
  - eapply rename_state_atomic; eauto.
  - eapply move_state_atomic; eauto.
  - eapply add_transition_atomic; eauto.
  - eapply remove_transition_atomic; eauto.
  - eapply rotate_transition_atomic; eauto.
Qed.

(* no undocumented KeyError escapes *)
Theorem C16_no_keyerror : forall c op c',
  einv c -> op_ok c op -> apply_eop c op = (c', EKeyError) -> False.
Proof.
  intros c op c' [HS [HN HF]] Hok H. destruct op as [st p|n|o n|n p|t|t|i s t]; simpl in H, Hok.
  - destruct Hok as [Hnm [Hp _]]. eapply add_state_no_keyerror; eauto.
  - eapply remove_state_no_keyerror; eauto.
  - destruct (rename_state_result _ _ _ _ _ HS H) as [[_ [E|[E _]]]|[E _]]; discriminate.
  - eapply move_state_no_keyerror; eauto.
  - unfold add_transition in H. repeat break_match_hyp H; inv H.
  - unfold remove_transition in H. repeat break_match_hyp H; inv H.
  - unfold rotate_transition in H. destruct s, t, i; try (inv H; fail); repeat break_match_hyp H; inv H.
Qed.

(* ------------------------------------------------------------------ C16_seq *)
Theorem C16_step : forall c op, einv c -> op_ok c op -> einv (fst (apply_eop c op)).
Proof.
  intros c op HI Hok. destruct (apply_eop c op) as [c' r] eqn:E. simpl. destruct r.
  - eapply C16_preserve; eauto.
  - destruct HI as [HS [HN HF]]. rewrite (C16_atomic _ _ _ _ HS HF E); [exact (conj HS (conj HN HF))|auto].
  - destruct HI as [HS [HN HF]]. rewrite (C16_atomic _ _ _ _ HS HF E); [exact (conj HS (conj HN HF))|auto].
  - destruct (C16_no_keyerror _ _ _ HI Hok E).
Qed.

(* the chart after a sequence of calls; a call that raises leaves what it leaves (by C16_atomic:
   the chart as it was) and the sequence goes on *)
Fixpoint run_ops (c : chart) (ops : list eop) : chart :=
  match ops with
  | [] => c
  | op :: rest => run_ops (fst (apply_eop c op)) rest
  end.

Fixpoint ops_ok (c : chart) (ops : list eop) : Prop :=
  match ops with
  | [] => True
  | op :: rest => op_ok c op /\ ops_ok (fst (apply_eop c op)) rest
  end.

Theorem C16_seq : forall ops c, einv c -> ops_ok c ops -> einv (run_ops c ops).
Proof.
  induction ops as [|op ops IH]; intros c HI Hok; simpl; [exact HI|].
  destruct Hok as [H1 H2]. apply IH; [apply C16_step; assumption|exact H2].
Qed.

(* failed calls are skipped: same chart as the run of the successful calls only *)
Fixpoint successful (c : chart) (ops : list eop) : list eop :=
  match ops with
  | [] => []
  | op :: rest =>
      match apply_eop c op with
      | (c', EOk) => op :: successful c' rest
      | (c', _) => successful c' rest
      end
  end.

Fixpoint outcomes (c : chart) (ops : list eop) : list eres :=
  match ops with
  | [] => []
  | op :: rest => snd (apply_eop c op) :: outcomes (fst (apply_eop c op)) rest
  end.

Theorem C16_seq_skip : forall ops c, einv c -> ops_ok c ops ->
  run_ops c ops = run_ops c (successful c ops) /\
  Forall (fun r => r = EOk) (outcomes c (successful c ops)).
Proof.
  induction ops as [|op ops IH]; intros c HI Hok; simpl; [split; [reflexivity|constructor]|].
  destruct Hok as [H1 H2].
  pose proof (C16_step c op HI H1) as HI'.
  destruct (apply_eop c op) as [c' r] eqn:E. simpl in *.
  destruct (IH c' HI' H2) as [IH1 IH2].
  destruct r.
  - simpl. rewrite E. simpl. split; [exact IH1|constructor; [reflexivity|exact IH2]].
  - destruct HI as [HS [HN HF]]. assert (c' = c) by (eapply C16_atomic; eauto). subst c'. split; assumption.
  - destruct HI as [HS [HN HF]]. assert (c' = c) by (eapply C16_atomic; eauto). subst c'. split; assumption.
  - destruct (C16_no_keyerror _ _ _ HI H1 E).
Qed.

(* ================================================================== 7. C16_effect: exact post-states *)

(* a dictionary with unique keys is determined by the order of its keys and its lookup function:
   the effect theorems below that give "keys + lookup" are therefore complete descriptions *)
Lemma dict_ext : forall {V} (d1 d2 : list (name * V)),
  NoDup (map fst d1) -> map fst d1 = map fst d2 ->
  (forall k, lookup k d1 = lookup k d2) -> d1 = d2.
Proof.
  intros V d1; induction d1 as [|[k1 v1] d1 IH]; intros [|[k2 v2] d2] Hnd Hk Hl; simpl in *;
    try discriminate; [reflexivity|].
  injection Hk as Ek Hk'. subst k2. inversion Hnd as [|? ? Hnin Hnd']; subst.
  pose proof (Hl k1) as H0. rewrite seqb_refl in H0. injection H0 as <-. f_equal.
  assert (E1 : lookup k1 d1 = None) by (apply lookup_None_iff; assumption).
  assert (E2 : lookup k1 d2 = None) by (apply lookup_None_iff; rewrite <- Hk'; assumption).
  apply IH; [assumption|assumption|]. intros k. destruct (seqbP k k1) as [E|Hn].
  - subst k. congruence.
  - specialize (Hl k). destruct (seqbP k k1); [congruence|exact Hl].
Qed.

Lemma odict_ext : forall {V} (d1 d2 : list (option name * V)),
  NoDup (map fst d1) -> map fst d1 = map fst d2 ->
  (forall k, olookup k d1 = olookup k d2) -> d1 = d2.
Proof.
  intros V d1; induction d1 as [|[k1 v1] d1 IH]; intros [|[k2 v2] d2] Hnd Hk Hl; simpl in *;
    try discriminate; [reflexivity|].
  injection Hk as Ek Hk'. subst k2. inversion Hnd as [|? ? Hnin Hnd']; subst.
  pose proof (Hl k1) as H0. rewrite oeqb_refl in H0. injection H0 as <-. f_equal.
  assert (E1 : olookup k1 d1 = None) by (apply olookup_None_iff; assumption).
  assert (E2 : olookup k1 d2 = None) by (apply olookup_None_iff; rewrite <- Hk'; assumption).
  apply IH; [assumption|assumption|]. intros k. destruct (oeqbP k k1) as [E|Hn].
  - subst k. congruence.
  - specialize (Hl k). destruct (oeqbP k k1); [congruence|exact Hl].
Qed.

(* ------------------------------------------------------------------ transitions *)
Theorem C16_effect_add_transition : forall c t c',
  add_transition c t = (c', EOk) -> c' = with_transitions c (c_transitions c ++ [t]).
Proof.
  intros c t c' H. unfold add_transition in H. repeat break_match_hyp H; inv H; reflexivity.
Qed.

Lemma remove_first_trans_spec : forall t l l', remove_first_trans t l = Some l' ->
  exists l1 x l2, l = l1 ++ x :: l2 /\ l' = l1 ++ l2 /\ trans_eqb x t = true /\
                  forall y, In y l1 -> trans_eqb y t = false.
Proof.
  intros t l; induction l as [|y l IH]; intros l' H; simpl in H; [discriminate|].
  destruct (trans_eqb y t) eqn:E.
  - inv H. exists [], y, l'. repeat split; auto. intros z [].
  - destruct (remove_first_trans t l) as [r|]; [|discriminate]. inv H.
    destruct (IH r eq_refl) as [l1 [x [l2 [H1 [H2 [H3 H4]]]]]]. subst.
    exists (y :: l1), x, l2. repeat split; auto. intros z [<-|Hz]; auto.
Qed.

(* the first transition equal (==) to t disappears, nothing else *)
Theorem C16_effect_remove_transition : forall c t c',
  remove_transition c t = (c', EOk) ->
  exists l1 x l2, c_transitions c = l1 ++ x :: l2 /\ trans_eqb x t = true /\
    (forall y, In y l1 -> trans_eqb y t = false) /\
    c' = with_transitions c (l1 ++ l2).
Proof.
  intros c t c' H. unfold remove_transition in H.
  destruct (remove_first_trans t (c_transitions c)) as [l|] eqn:E; inv H.
  destruct (remove_first_trans_spec _ _ _ E) as [l1 [x [l2 [H1 [H2 [H3 H4]]]]]].
  exists l1, x, l2. subst l. auto.
Qed.

Lemma nth_error_set_nth : forall {A} i (x : A) l j, i < length l ->
  nth_error (set_nth i x l) j = if Nat.eqb j i then Some x else nth_error l j.
Proof.
  intros A i x l; revert i; induction l as [|y l IH]; intros i j Hi; simpl in Hi; [lia|].
  destruct i as [|i]; destruct j as [|j]; simpl; try reflexivity. apply IH. lia.
Qed.

Lemma length_set_nth : forall {A} i (x : A) l, length (set_nth i x l) = length l.
Proof.
  intros A i x l; revert i; induction l as [|y l IH]; intros [|i]; simpl; auto.
Qed.

(* the i-th transition gets the new source and/or target, nothing else *)
Theorem C16_effect_rotate_transition : forall c i ns nt c',
  rotate_transition c i ns nt = (c', EOk) ->
  exists j t, i = Some j /\ nth_error (c_transitions c) j = Some t /\
    c' = with_transitions c
           (set_nth j (mkTrans (match ns with Some s => s | None => t_source t end)
                               (match nt with Some tg => tg | None => t_target t end)
                               (t_event t) (t_guard t) (t_action t) (t_priority t)
                               (t_pre t) (t_post t) (t_inv t))
                    (c_transitions c)).
Proof.
  intros c i ns nt c' H. unfold rotate_transition in H.
  destruct i as [j|]; [|destruct ns, nt; discriminate].
  destruct (nth_error (c_transitions c) j) as [t|] eqn:En; [|destruct ns, nt; discriminate].
  exists j, t. split; [reflexivity|]. split; [exact En|].
  destruct t as [src tg ev g a p pre post iv].
  destruct ns as [s|], nt as [tg'|]; try discriminate;
    match type of H with (if ?b then _ else _) = _ => destruct b end; inv H; reflexivity.
Qed.

(* ------------------------------------------------------------------ add_state *)
Theorem C16_effect_add_state : forall c st p c',
  sound c -> no_empty_name c -> s_name st <> "" ->
  add_state c st p = (c', EOk) ->
  has_state c (s_name st) = false /\
  c_name c' = c_name c /\ c_description c' = c_description c /\ c_preamble c' = c_preamble c /\
  c_states c' = c_states c ++ [(s_name st, st)] /\
  c_parent c' = c_parent c ++ [(s_name st, p)] /\
  map fst (c_children c') = map fst (c_children c) ++ [Some (s_name st)] /\
  (forall k, olookup k (c_children c') =
             if opt_eqb str_eqb k p
             then option_map (fun l => l ++ [s_name st]) (olookup p (c_children c))
             else if opt_eqb str_eqb k (Some (s_name st)) then Some [] else olookup k (c_children c)) /\
  c_transitions c' = c_transitions c.
Proof.
  intros c st p c' HS HN Hnm H.
  destruct (add_state_ok _ _ _ _ _ HS HN Hnm H (or_introl eq_refl))
    as [[_ [l [Hl [Htop [Hpar [Hfresh ->]]]]]]|[E _]]; [|discriminate].
  split; [exact Hfresh|]. unfold register_chart.
  cbn [c_name c_description c_preamble c_states c_parent c_children c_transitions].
  repeat (split; [reflexivity|]).
  split; [apply dset_fresh; apply has_state_false; exact Hfresh|].
  split; [apply dset_fresh; apply (sound_nostate_parent c HS); exact Hfresh|].
  split.
  - rewrite !okeys_oset.
    destruct (in_dec oname_dec (Some (s_name st)) (map fst (c_children c))) as [Hin|Hnin].
    + exfalso. apply olookup_None_iff_not in Hin. apply Hin. apply (sound_nostate_children c HS); exact Hfresh.
    + destruct (in_dec oname_dec p (map fst (c_children c) ++ [Some (s_name st)])) as [_|Hnin2]; [reflexivity|].
      exfalso. apply Hnin2. apply in_or_app. left. apply olookup_None_iff_not. congruence.
  - split; [|reflexivity]. intros k. rewrite !olookup_oset, Hl. reflexivity.
Qed.

(* ------------------------------------------------------------------ remove_state *)
Definition reset_refs (D : name -> bool) (s : state) : state :=
  mkState (s_name s) (s_kind s)
          (if oin D (s_initial s) then None else s_initial s)
          (if oin D (s_memory s) then None else s_memory s)
          (s_on_entry s) (s_on_exit s) (s_pre s) (s_post s) (s_inv s).

Lemma clr_reset : forall D s,
  (forall i, s_initial s = Some i -> s_kind s = KCompound) ->
  (forall m, s_memory s = Some m -> is_history (s_kind s) = true) ->
  clr D s = reset_refs D s.
Proof.
  intros D [nm k i m en ex pre post iv] Hi Hm. simpl in Hi, Hm.
  destruct k; destruct i as [i|]; destruct m as [m|];
    try (specialize (Hi _ eq_refl); discriminate); try (specialize (Hm _ eq_refl); discriminate);
    unfold clr, reset_refs, set_initial, set_memory_; simpl;
    try destruct (D i); try destruct (D m); reflexivity.
Qed.

(* remove_state n removes exactly subtree+(n) = n :: descendants_for c n from the three
   dictionaries and from every children list, removes exactly the transitions with an end in it,
   resets exactly the initial / memory fields naming a removed state, keeps every order and
   changes nothing else *)
Theorem C16_effect_remove_state : forall c n c',
  sound c -> fields_ok c -> remove_state c n = (c', EOk) ->
  let D := fun x => mem x (n :: descendants_for c n) in
  has_state c n = true /\
  c_name c' = c_name c /\ c_description c' = c_description c /\ c_preamble c' = c_preamble c /\
  c_states c' = filter (fun kv => negb (D (fst kv)))
                       (map (fun kv => (fst kv, reset_refs D (snd kv))) (c_states c)) /\
  c_parent c' = filter (fun kv => negb (D (fst kv))) (c_parent c) /\
  c_children c' = filter (fun kv => negb (oin D (fst kv)))
                         (map (fun kv => (fst kv, filter (fun x => negb (D x)) (snd kv))) (c_children c)) /\
  c_transitions c' = filter (fun t => negb (D (t_source t) || oin D (t_target t))) (c_transitions c).
Proof.
  intros c n c' HS HF H D. rewrite (remove_state_spec c n HS HF) in H.
  destruct (has_state c n); inv H. split; [reflexivity|].
  unfold rm. cbn [c_name c_description c_preamble c_states c_parent c_children c_transitions].
  repeat (split; [reflexivity|]). split; [|repeat split].
  apply f_equal. apply map_ext_in. intros [k s] Hin. simpl. f_equal.
  destruct (HF k s (In_lookup _ _ _ (sd_nd_states c HS) Hin)) as [H1 H2].
  apply clr_reset; assumption.
Qed.

(* ------------------------------------------------------------------ move_state *)
Definition reset_moved (n k : name) (s : state) : state :=
  mkState (s_name s) (s_kind s)
          (if ostr_eqb (s_initial s) (Some n) then None else s_initial s)
          (if str_eqb k n || ostr_eqb (s_memory s) (Some n) then None else s_memory s)
          (s_on_entry s) (s_on_exit s) (s_pre s) (s_post s) (s_inv s).

Lemma mv_state_reset : forall n k s,
  (forall i, s_initial s = Some i -> s_kind s = KCompound) ->
  (forall m, s_memory s = Some m -> is_history (s_kind s) = true) ->
  mv_state n k s = reset_moved n k s.
Proof.
  intros n k [nm kd i m en ex pre post iv] Hi Hm. simpl in Hi, Hm.
  destruct kd; destruct i as [i|]; destruct m as [m|];
    try (specialize (Hi _ eq_refl); discriminate); try (specialize (Hm _ eq_refl); discriminate);
    unfold mv_state, reset_moved, clear_refs_move, set_initial, set_memory_, ostr_eqb; simpl;
    destruct (str_eqb k n); simpl; try destruct (str_eqb i n); try destruct (str_eqb m n); reflexivity.
Qed.

Lemma lookup_mapkv : forall {V W} (f : name -> V -> W) k (d : list (name * V)),
  lookup k (map (fun kv => (fst kv, f (fst kv) (snd kv))) d) = option_map (f k) (lookup k d).
Proof.
  intros V W f k d; induction d as [|[k0 v0] d IH]; simpl; [reflexivity|].
  destruct (seqbP k k0) as [->|]; [reflexivity|exact IH].
Qed.

Lemma move_children_lookup : forall c n np op l, sound c ->
  lookup n (c_parent c) = Some op -> olookup op (c_children c) = Some l -> has_state c np = true ->
  forall k,
    olookup k (let ch1 := oset op (remove_first n l) (c_children c) in
               oset (Some np) ((match olookup (Some np) ch1 with Some x => x | None => [] end) ++ [n]) ch1)
    = option_map (mv_list n np k) (olookup k (c_children c)).
Proof.
  intros c n np op l HS Hop Hl Hnp k. cbv zeta.
  assert (Hnin : forall k lk, olookup k (c_children c) = Some lk -> k <> op -> ~ In n lk).
  { intros k0 lk Hk Hne Hin. rewrite (sd_cp c HS _ _ _ Hk Hin) in Hop. congruence. }
  destruct (sound_state_children c HS np Hnp) as [lnp Hlnp].
  rewrite !olookup_oset. unfold mv_list.
  destruct (oeqbP k (Some np)) as [->|Hk].
  - rewrite Hlnp. cbn [option_map]. destruct (oeqbP (Some np) op) as [E|E].
    + assert (E2 : l = lnp) by congruence. rewrite E2. reflexivity.
    + rewrite (remove_first_notin n lnp); [reflexivity|]. apply (Hnin _ _ Hlnp E).
  - destruct (oeqbP k op) as [->|Hk2].
    + rewrite Hl. reflexivity.
    + destruct (olookup k (c_children c)) as [lk|] eqn:Ek; [|reflexivity]. simpl.
      rewrite (remove_first_notin n lk); [reflexivity|]. apply (Hnin _ _ Ek Hk2).
Qed.

Lemma okeys_oset_in : forall {V} k (v : V) d, olookup k d <> None -> map fst (oset k v d) = map fst d.
Proof.
  intros V k v d H. rewrite okeys_oset.
  destruct (in_dec oname_dec k (map fst d)) as [_|Hn]; [reflexivity|].
  exfalso. apply H. apply olookup_None_iff. exact Hn.
Qed.

(* move_state n p: the parent of n becomes p; n leaves the children list of its old parent and is
   appended to the one of p; `initial` of the old parent and `memory` of the history states below
   the old parent are reset if they named n, and so is the memory of n itself; every order is kept
   and nothing else changes *)
Theorem C16_effect_move_state : forall c n p c',
  sound c -> fields_ok c -> move_state c n p = (c', EOk) ->
  has_state c n = true /\ has_state c p = true /\ ~ In p (n :: descendants_for c n) /\
  c_name c' = c_name c /\ c_description c' = c_description c /\ c_preamble c' = c_preamble c /\
  c_states c' = map (fun kv => (fst kv, reset_moved n (fst kv) (snd kv))) (c_states c) /\
  map fst (c_parent c') = map fst (c_parent c) /\
  (forall k, lookup k (c_parent c') = if str_eqb k n then Some (Some p) else lookup k (c_parent c)) /\
  map fst (c_children c') = map fst (c_children c) /\
  (forall k, olookup k (c_children c') =
             option_map (fun l => if opt_eqb str_eqb k (Some p) then remove_first n l ++ [n]
                                  else remove_first n l)
                        (olookup k (c_children c))) /\
  c_transitions c' = c_transitions c.
Proof.
  intros c n p c' HS HF H.
  destruct (move_state_inv _ _ _ _ _ H (or_introl eq_refl)) as [st [Hst [Hp [Hguard Hm]]]].
  assert (Hn : has_state c n = true) by (unfold has_state; rewrite Hst; reflexivity).
  destruct (sound_state_parent c HS n Hn) as [op Hop].
  rewrite (parent_for_lookup _ _ _ Hop) in Hm.
  destruct (sd_pc c HS _ _ Hop) as [_ [l [Hl _]]]. rewrite Hl in Hm. destruct Hm as [_ ->].
  split; [exact Hn|]. split; [exact Hp|]. split; [apply mem_false_iff; exact Hguard|].
  cbn [c_name c_description c_preamble c_states c_parent c_children c_transitions].
  repeat (split; [reflexivity|]).
  split; [|split; [|split; [|split; [|split; [|reflexivity]]]]].
  - apply dict_ext.
    + rewrite keys_mapv. destruct (is_history (s_kind st)); [apply NoDup_keys_dset|]; apply (sd_nd_states c HS).
    + rewrite keys_mapv.
      assert (E : forall (d : list (name * state)) (g : name -> state -> state),
                 map fst (map (fun kv => (fst kv, g (fst kv) (snd kv))) d) = map fst d).
      { intros d g. rewrite map_map. reflexivity. }
      rewrite E. destruct (is_history (s_kind st)); [|reflexivity].
      rewrite keys_dset. assert (Hmem : mem n (map fst (c_states c)) = true).
      { apply mem_In. apply has_state_In. exact Hn. }
      rewrite Hmem. reflexivity.
    + intros k. rewrite (move_states_lookup c n st k Hst), lookup_mapkv.
      destruct (lookup k (c_states c)) as [s|] eqn:E; [|reflexivity]. simpl. f_equal.
      destruct (HF _ _ E) as [H1 H2]. apply mv_state_reset; assumption.
  - rewrite keys_dset. assert (Hmem : mem n (map fst (c_parent c)) = true).
    { apply mem_In. apply lookup_Some_In_keys. congruence. }
    rewrite Hmem. reflexivity.
  - intros k. apply lookup_dset.
  - rewrite !okeys_oset_in; [reflexivity|congruence|].
    rewrite olookup_oset. destruct (opt_eqb str_eqb (Some p) op); [discriminate|].
    apply (sd_ckeys c HS). exact Hp.
  - intros k. pose proof (move_children_lookup c n p op l HS Hop Hl Hp k) as Hc.
    cbv zeta in Hc. cbv zeta. rewrite Hc. reflexivity.
Qed.

(* who can be touched by the resets of move_state *)
Lemma move_state_touched : forall c n k s, sound c -> n <> "" ->
  lookup k (c_states c) = Some s ->
  (s_kind s = KCompound -> s_initial s = Some n -> parent_for c n = Some k) /\
  (is_history (s_kind s) = true -> s_memory s = Some n -> parent_for c k = parent_for c n).
Proof.
  intros c n k s HS Hn Hk. split.
  - intros Hkind Hi. destruct (sd_vinit c HS k s n Hk Hkind) as [_ Hin].
    + rewrite Hi. apply truthy_nonempty. exact Hn.
    + apply parent_for_lookup. apply sound_child_parent; assumption.
  - intros Hkind Hm. destruct (sd_vmem c HS k s n Hk Hkind Hm) as [_ [_ [p [Hp Hin]]]].
    rewrite Hp. symmetry. apply parent_for_lookup. apply sound_child_parent; assumption.
Qed.

Lemma reset_moved_id : forall n k s,
  s_initial s <> Some n -> s_memory s <> Some n -> (k = n -> s_memory s = None) -> reset_moved n k s = s.
Proof.
  intros n k [nm kd i m en ex pre post iv] Hi Hm Hk. simpl in *. unfold reset_moved. simpl.
  assert (E1 : ostr_eqb i (Some n) = false).
  { destruct (ostr_eqb i (Some n)) eqn:E; [|reflexivity]. apply ostr_eqb_eq in E. congruence. }
  assert (E2 : ostr_eqb m (Some n) = false).
  { destruct (ostr_eqb m (Some n)) eqn:E; [|reflexivity]. apply ostr_eqb_eq in E. congruence. }
  rewrite E1, E2. destruct (seqbP k n) as [E|_]; [|reflexivity]. simpl. rewrite (Hk E). reflexivity.
Qed.

(* ------------------------------------------------------------------ rename_state *)
Lemma ren_id : forall old new x, x <> old -> ren old new x = x.
Proof. intros old new x H. unfold ren. destruct (seqbP x old); congruence. Qed.

Lemma ren_old : forall old new, ren old new old = new.
Proof. intros old new. unfold ren. rewrite seqb_refl. reflexivity. Qed.

Lemma ren_refl : forall old x, ren old old x = x.
Proof. intros old x. unfold ren. destruct (seqbP x old); congruence. Qed.

Lemma lookup_map_ren : forall {V W} old new (g : V -> W) (d : list (name * V)) k,
  old <> new -> ~ In new (map fst d) ->
  lookup k (map (fun kv => (ren old new (fst kv), g (snd kv))) d) =
  if str_eqb k old then None else option_map g (lookup (if str_eqb k new then old else k) d).
Proof.
  intros V W old new g d k Hne; induction d as [|[k0 v0] d IH]; simpl; intros Hnin.
  - destruct (str_eqb k old); reflexivity.
  - assert (Hk0 : k0 <> new) by tauto. assert (Hd : ~ In new (map fst d)) by tauto.
    specialize (IH Hd). unfold ren at 1. destruct (seqbP k0 old) as [->|Hk0o].
    + destruct (seqbP k new) as [->|Hkn].
      * destruct (seqbP new old); [congruence|]. rewrite seqb_refl. reflexivity.
      * rewrite IH. destruct (seqbP k old); [reflexivity|]. destruct (seqbP k new); [congruence|].
        destruct (seqbP k old); [congruence|reflexivity].
    + destruct (seqbP k k0) as [->|Hkk].
      * destruct (seqbP k0 old); [congruence|]. destruct (seqbP k0 new); [congruence|].
        rewrite seqb_refl. reflexivity.
      * rewrite IH. destruct (seqbP k old); [reflexivity|].
        destruct (seqbP k new) as [->|_].
        -- destruct (seqbP old k0); [congruence|reflexivity].
        -- destruct (seqbP k k0); [congruence|reflexivity].
Qed.

Lemma olookup_map_ren : forall {V W} old new (g : V -> W) (d : list (option name * V)) k,
  old <> new -> ~ In (Some new) (map fst d) ->
  olookup k (map (fun kv => (option_map (ren old new) (fst kv), g (snd kv))) d) =
  if opt_eqb str_eqb k (Some old) then None
  else option_map g (olookup (if opt_eqb str_eqb k (Some new) then Some old else k) d).
Proof.
  intros V W old new g d k Hne; induction d as [|[k0 v0] d IH]; simpl; intros Hnin.
  - destruct (opt_eqb str_eqb k (Some old)); reflexivity.
  - assert (Hk0 : k0 <> Some new) by tauto. assert (Hd : ~ In (Some new) (map fst d)) by tauto.
    specialize (IH Hd).
    destruct (oeqbP k0 (Some old)) as [->|Hk0o].
    + cbn [option_map]. rewrite ren_old. destruct (oeqbP k (Some new)) as [->|Hkn].
      * destruct (oeqbP (Some new) (Some old)); [congruence|]. rewrite oeqb_refl. reflexivity.
      * rewrite IH. destruct (oeqbP k (Some old)); [reflexivity|].
        destruct (oeqbP k (Some new)); [congruence|]. destruct (oeqbP k (Some old)); [congruence|reflexivity].
    + assert (E : option_map (ren old new) k0 = k0).
      { destruct k0 as [q|]; [|reflexivity]. simpl. rewrite ren_id; [reflexivity|congruence]. }
      rewrite E. destruct (oeqbP k k0) as [->|Hkk].
      * destruct (oeqbP k0 (Some old)); [congruence|]. destruct (oeqbP k0 (Some new)); [congruence|].
        rewrite oeqb_refl. reflexivity.
      * rewrite IH. destruct (oeqbP k (Some old)); [reflexivity|].
        destruct (oeqbP k (Some new)) as [->|_].
        -- destruct (oeqbP (Some old) k0); [congruence|reflexivity].
        -- destruct (oeqbP k k0); [congruence|reflexivity].
Qed.

Lemma map_ren_id : forall old new l, ~ In old l -> map (ren old new) l = l.
Proof.
  intros old new l H. apply map_id_in. intros x Hx. apply ren_id. intros ->; auto.
Qed.

Lemma remove_first_map_ren : forall old new l, ~ In new l -> NoDup l ->
  remove_first new (map (ren old new) l) = remove_first old l.
Proof.
  intros old new l; induction l as [|y l IH]; simpl; intros Hnew Hnd; [reflexivity|].
  inv Hnd. destruct (seqbP y old) as [->|Hy].
  - rewrite ren_old, !seqb_refl. apply map_ren_id. assumption.
  - rewrite (ren_id old new y Hy).
    destruct (seqbP new y); [exfalso; apply Hnew; left; congruence|].
    destruct (seqbP old y); [congruence|]. f_equal. apply IH; [tauto|assumption].
Qed.

(* a list in which x (if present) is moved to the end *)
Definition to_end (x : name) (l : list name) : list name :=
  if mem x l then remove_first x l ++ [x] else l.

Lemma map_state_rename_refs : forall old new k s,
  (forall i, s_initial s = Some i -> s_kind s = KCompound) ->
  (forall m, s_memory s = Some m -> is_history (s_kind s) = true) ->
  s_name s = k ->
  map_state (ren old new) s =
  if str_eqb k old then set_name (rename_refs old new s) new else rename_refs old new s.
Proof.
  intros old new k s Hi Hm Hk. rewrite (rename_refs_map old new s Hi Hm). unfold map_state, set_name. simpl.
  rewrite Hk. unfold ren at 1. destruct (str_eqb k old); reflexivity.
Qed.

(* C17_structure / C16_effect_rename: after rename_state old new (old <> new) the chart is
   map_chart (old |-> new) c, except that the entry of the renamed state sits at the end of the
   three dictionaries and at the end of its parent's children list (Python: d[new] = d.pop(old),
   list.remove + list.append).  Every transition keeps its shape. *)
Theorem C17_structure : forall c old new c',
  sound c -> fields_ok c -> old <> new ->
  rename_state c old new = (c', EOk) ->
  let M := map_chart (ren old new) c in
  has_state c old = true /\ has_state c new = false /\
  c_name c' = c_name c /\ c_description c' = c_description c /\ c_preamble c' = c_preamble c /\
  c_transitions c' = c_transitions M /\
  (forall k, lookup k (c_states c') = lookup k (c_states M)) /\
  (forall k, lookup k (c_parent c') = lookup k (c_parent M)) /\
  (forall k, olookup k (c_children c') = option_map (to_end new) (olookup k (c_children M))) /\
  map fst (c_states c') = remove_first old (map fst (c_states c)) ++ [new] /\
  map fst (c_parent c') = remove_first old (map fst (c_parent c)) ++ [new] /\
  map fst (c_children c') =
    filter (fun k => negb (opt_eqb str_eqb k (Some old))) (map fst (c_children c)) ++ [Some new].
Proof.
  intros c old new c' HS HF Hne H M.
  destruct (rename_state_result _ _ _ _ _ HS H)
    as [[_ [E|[_ E]]]|[_ [_ [Hnew [st [po [l [lo [Hst [Hpo [Hpo1 [Hpo2 [Hl [Hcnt [Hlo ->]]]]]]]]]]]]]]];
    [discriminate|congruence|].
  assert (Hold : has_state c old = true) by (unfold has_state; rewrite Hst; reflexivity).
  assert (HnewS : ~ In new (map fst (c_states c))).
  { rewrite <- has_state_In. congruence. }
  assert (HnewP : ~ In new (map fst (c_parent c))).
  { rewrite <- lookup_Some_In_keys. rewrite (sd_pkeys c HS). congruence. }
  assert (HnewC : ~ In (Some new) (map fst (c_children c))).
  { rewrite <- olookup_None_iff_not. rewrite (sd_ckeys c HS). congruence. }
  assert (Hnewl : forall k lk, olookup k (c_children c) = Some lk -> ~ In new lk).
  { intros k lk Hk Hin. rewrite (sound_child_state c HS _ _ _ Hk Hin) in Hnew. discriminate. }
  split; [exact Hold|]. split; [exact Hnew|].
  unfold renamed at 1 2 3 4. cbn [c_name c_description c_preamble c_transitions].
  repeat (split; [reflexivity|]).
  split; [|split; [|split; [|split; [|split; [|split]]]]].
  - unfold M, map_chart. cbn [c_transitions]. apply map_ext. apply rn_trans_map.
  - intros k. rewrite (rnd_states c old new st po l lo HS).
    unfold M, map_chart. cbn [c_states].
    rewrite (lookup_map_ren old new (map_state (ren old new)) (c_states c) k Hne HnewS).
    destruct (seqbP k new) as [->|Hkn].
    + destruct (seqbP new old); [congruence|]. rewrite Hst. simpl. f_equal.
      destruct (HF _ _ Hst) as [H1 H2].
      rewrite (map_state_rename_refs old new old st H1 H2 (sd_keyname c HS _ _ Hst)), seqb_refl. reflexivity.
    + destruct (seqbP k old); [reflexivity|].
      destruct (lookup k (c_states c)) as [s|] eqn:E; [|reflexivity]. simpl. f_equal.
      destruct (HF _ _ E) as [H1 H2].
      rewrite (map_state_rename_refs old new k s H1 H2 (sd_keyname c HS _ _ E)).
      destruct (seqbP k old); [congruence|reflexivity].
  - intros k. rewrite (rnd_parent c old new st po l lo HS).
    unfold M, map_chart. cbn [c_parent].
    rewrite (lookup_map_ren old new (option_map (ren old new)) (c_parent c) k Hne HnewP).
    destruct (seqbP k new) as [->|Hkn].
    + destruct (seqbP new old); [congruence|]. rewrite Hpo. simpl. f_equal.
      destruct po as [q|]; [|reflexivity]. simpl. rewrite ren_id; [reflexivity|congruence].
    + destruct (seqbP k old); [reflexivity|].
      destruct (lookup k (c_parent c)) as [p0|]; [|reflexivity]. simpl. rewrite rn_parent_map. reflexivity.
  - intros k. rewrite (rnd_children c old new st po l lo HS).
    unfold M, map_chart. cbn [c_children].
    rewrite (olookup_map_ren old new (map (ren old new)) (c_children c) k Hne HnewC).
    assert (Holdl : forall k0 lk, olookup k0 (c_children c) = Some lk -> k0 <> po -> ~ In old lk).
    { intros k0 lk Hk Hk0 Hin. rewrite (sd_cp c HS _ _ _ Hk Hin) in Hpo. congruence. }
    assert (Hsame : forall k0 lk, olookup k0 (c_children c) = Some lk -> k0 <> po ->
                      to_end new (map (ren old new) lk) = lk).
    { intros k0 lk Hk Hk0. rewrite map_ren_id by (eapply Holdl; eauto). unfold to_end.
      assert (Em : mem new lk = false) by (apply mem_false_iff; eapply Hnewl; eauto).
      rewrite Em. reflexivity. }
    destruct (oeqbP k (Some new)) as [->|Hkn].
    + destruct (oeqbP (Some new) (Some old)); [congruence|]. rewrite Hlo. simpl. f_equal. symmetry.
      apply (Hsame _ _ Hlo). congruence.
    + destruct (oeqbP k (Some old)); [reflexivity|].
      destruct (oeqbP k po) as [->|Hkp].
      * rewrite Hl. simpl. f_equal. unfold to_end.
        assert (Em : mem new (map (ren old new) l) = true).
        { apply mem_In. apply in_map_iff. exists old. split; [apply ren_old|apply count_occ_one_In; exact Hcnt]. }
        rewrite Em. rewrite remove_first_map_ren; [reflexivity|eapply Hnewl; eauto|].
        apply (sound_children_NoDup c HS _ _ Hl).
      * destruct (olookup k (c_children c)) as [lk|] eqn:E; [|reflexivity]. simpl. f_equal. symmetry.
        apply (Hsame _ _ E Hkp).
  - unfold renamed. cbn [c_states]. rewrite keys_dset, keys_dremove, keys_mapv.
    assert (Em : mem new (remove_first old (map fst (c_states c))) = false).
    { apply mem_false_iff. intros Hin. apply HnewS. eapply In_remove_first; eauto. }
    rewrite Em. reflexivity.
  - unfold renamed. cbn [c_parent]. rewrite keys_dset, keys_dremove, keys_mapv.
    assert (Em : mem new (remove_first old (map fst (c_parent c))) = false).
    { apply mem_false_iff. intros Hin. apply HnewP. eapply In_remove_first; eauto. }
    rewrite Em. reflexivity.
  - unfold renamed. cbn [c_children].
    assert (Hndo : NoDup (map fst (oset po (remove_first old l ++ [new]) (c_children c)))).
    { apply NoDup_keys_oset. apply (sd_nd_children c HS). }
    rewrite okeys_oset, (oremove_filter _ _ Hndo).
    assert (Ek : forall (d : list (option name * list name)) (q : option name -> bool),
               map fst (filter (fun kv => q (fst kv)) d) = filter q (map fst d)).
    { intros d q. induction d as [|[k0 v0] d IHd]; simpl; [reflexivity|].
      destruct (q k0); simpl; rewrite IHd; reflexivity. }
    rewrite (Ek _ (fun k => negb (opt_eqb str_eqb k (Some old)))).
    rewrite okeys_oset_in by congruence.
    destruct (in_dec oname_dec (Some new) _) as [Hin|_]; [|reflexivity].
    exfalso. apply filter_In in Hin. apply HnewC. apply Hin.
Qed.

(* internal transitions stay internal, whatever the chart *)
Theorem C17_internal_stay_internal : forall c old new c',
  rename_state c old new = (c', EOk) ->
  c_transitions c' = map (map_trans (ren old new)) (c_transitions c) /\
  forall i t', nth_error (c_transitions c') i = Some t' ->
    exists t, nth_error (c_transitions c) i = Some t /\
      (t_target t' = None <-> t_target t = None) /\
      t_source t' = ren old new (t_source t) /\ t_target t' = option_map (ren old new) (t_target t).
Proof.
  intros c old new c' H.
  assert (E : c_transitions c' = map (map_trans (ren old new)) (c_transitions c)).
  { rewrite rename_state_eq in H. destruct (seqbP old new) as [->|Hne].
    - inv H. symmetry. apply map_id_in. intros [src tg ev g a p pre post iv] _. unfold map_trans. simpl.
      rewrite ren_refl. destruct tg as [tg|]; simpl; [rewrite ren_refl|]; reflexivity.
    - destruct (has_state c new); [discriminate|].
      destruct (lookup old (c_states c)); [|discriminate]. cbv zeta in H. inv H.
      cbn [c_transitions]. apply map_ext. apply rn_trans_map. }
  split; [exact E|]. intros i t' Hn. rewrite E in Hn.
  rewrite nth_error_map in Hn. destruct (nth_error (c_transitions c) i) as [t|]; [|discriminate].
  simpl in Hn. inv Hn. exists t. split; [reflexivity|]. simpl.
  split; [|split; reflexivity]. destruct (t_target t); simpl; split; congruence.
Qed.

(* ------------------------------------------------------------------ the side condition of add_state is needed *)
Theorem add_state_side_condition_needed : forall c st p c',
  einv c -> s_name st <> "" -> add_state c st p = (c', EOk) -> einv c' ->
  s_initial st = None /\ memory_ok c st p.
Proof.
  intros c st p c' [HS [HN HF]] Hnm H [HS' [HN' HF']].
  destruct (add_state_ok _ _ _ _ _ HS HN Hnm H (or_introl eq_refl))
    as [[_ [l [Hl [Htop [Hpar [Hfresh ->]]]]]]|[E _]]; [|discriminate].
  set (nm := s_name st) in *.
  assert (Hst : lookup nm (c_states (register_chart c st p l)) = Some st).
  { unfold register_chart. cbn [c_states]. rewrite lookup_dset, seqb_refl. reflexivity. }
  assert (Hpn : p <> Some nm).
  { intros E. rewrite (Hpar nm E) in Hfresh. discriminate. }
  assert (Hch : forall k, olookup k (c_children (register_chart c st p l)) =
                          if opt_eqb str_eqb k p then Some (l ++ [nm])
                          else if opt_eqb str_eqb k (Some nm) then Some [] else olookup k (c_children c)).
  { intros k. unfold register_chart. cbn [c_children]. rewrite !olookup_oset. reflexivity. }
  destruct (HF' _ _ Hst) as [F1 F2]. split.
  - destruct (s_initial st) as [i|] eqn:Ei; [|reflexivity]. exfalso.
    destruct (seqbP i "") as [->|Hi].
    + destruct (sd_refs _ HS' _ _ Hst) as [R1 _]. specialize (R1 "" Ei).
      unfold no_empty_name in HN'. congruence.
    + destruct (sd_vinit _ HS' nm st i Hst (F1 i eq_refl)) as [_ Hin].
      * rewrite Ei. apply truthy_nonempty. exact Hi.
      * unfold children_for in Hin. rewrite Hch in Hin.
        destruct (oeqbP (Some nm) p); [congruence|]. rewrite oeqb_refl in Hin. destruct Hin.
  - intros m Hm. split; [apply (F2 m Hm)|].
    destruct (sd_vmem _ HS' nm st m Hst (F2 m Hm) Hm) as [Hmn [_ [q [Hq Hin]]]].
    split; [exact Hmn|]. exists q.
    assert (Ep : p = Some q).
    { unfold parent_for, register_chart in Hq. cbn [c_parent] in Hq. rewrite lookup_dset, seqb_refl in Hq. exact Hq. }
    split; [exact Ep|]. unfold children_for in Hin |- *. rewrite Hch in Hin. subst p.
    rewrite oeqb_refl in Hin. rewrite Hl. apply in_app_or in Hin. destruct Hin as [Hin|[E|[]]]; [exact Hin|congruence].
Qed.

(* ================================================================== 8. non-vacuity: a concrete chart and a concrete run *)
Definition stx (n : name) (k : kind) (i m : option name) : state := mkState n k i m None None [] [] [].
Definition trx (s : name) (t : option name) (e : string) : transition :=
  mkTrans s t (Some e) None None 0%Z [] [] [].

(* root > A{a1,a2,H(shallow, memory a1)}, P(orthogonal){R1{r1a}, R2{r2a(final)}} *)
Definition ex_chart : chart :=
  mkChart "ex" None None
    [("root", stx "root" KCompound (Some "A") None);
     ("A", stx "A" KCompound (Some "a1") None);
     ("a1", stx "a1" KBasic None None);
     ("a2", stx "a2" KBasic None None);
     ("H", stx "H" KShallow None (Some "a1"));
     ("P", stx "P" KOrthogonal None None);
     ("R1", stx "R1" KCompound (Some "r1a") None);
     ("r1a", stx "r1a" KBasic None None);
     ("R2", stx "R2" KCompound None None);
     ("r2a", stx "r2a" KFinal None None)]
    [("root", None); ("A", Some "root"); ("a1", Some "A"); ("a2", Some "A"); ("H", Some "A");
     ("P", Some "root"); ("R1", Some "P"); ("r1a", Some "R1"); ("R2", Some "P"); ("r2a", Some "R2")]
    [(None, ["root"]); (Some "root", ["A"; "P"]); (Some "A", ["a1"; "a2"; "H"]); (Some "a1", []);
     (Some "a2", []); (Some "H", []); (Some "P", ["R1"; "R2"]); (Some "R1", ["r1a"]);
     (Some "r1a", []); (Some "R2", ["r2a"]); (Some "r2a", [])]
    [trx "a1" (Some "a2") "go"; trx "a2" None "tick"; trx "A" None "ping";
     trx "a2" (Some "P") "par"; trx "r1a" (Some "H") "back"; trx "R2" (Some "a1") "out";
     trx "r1a" (Some "R2") "swap"].

Example ex_einv : einv ex_chart.
Proof.
  split; [|split].
  - apply sound_b_sound; vm_compute; reflexivity.
  - vm_compute; reflexivity.
  - apply fields_ok_b_sound. vm_compute; reflexivity.
Qed.

(* boolean version of the side conditions, to check them by computation *)
Definition memory_ok_b (c : chart) (st : state) (p : option name) : bool :=
  match s_memory st with
  | None => true
  | Some m => is_history (s_kind st) && negb (str_eqb m (s_name st))
              && match p with Some q => mem m (children_for c q) | None => false end
  end.

Definition op_ok_b (c : chart) (op : eop) : bool :=
  match op with
  | EAddState st p =>
      negb (str_eqb (s_name st) "") && negb (ostr_eqb p (Some ""))
      && match s_initial st with None => true | Some _ => false end && memory_ok_b c st p
  | ERenameState _ new => negb (str_eqb new "")
  | _ => true
  end.

Fixpoint ops_ok_b (c : chart) (ops : list eop) : bool :=
  match ops with
  | [] => true
  | op :: rest => op_ok_b c op && ops_ok_b (fst (apply_eop c op)) rest
  end.

Lemma op_ok_b_sound : forall c op, op_ok_b c op = true -> op_ok c op.
Proof.
  intros c [st p|n|o n|n p|t|t|i s t] H; simpl in *; auto.
  - apply andb_true_iff in H. destruct H as [H H4]. apply andb_true_iff in H. destruct H as [H H3].
    apply andb_true_iff in H. destruct H as [H1 H2].
    apply negb_true_iff in H1, H2. apply seqb_neq in H1.
    split; [exact H1|]. split; [intros E; apply ostr_eqb_eq in E; congruence|].
    split; [destruct (s_initial st); [discriminate|reflexivity]|].
    intros m Hm. unfold memory_ok_b in H4. rewrite Hm in H4.
    apply andb_true_iff in H4. destruct H4 as [H4 H7]. apply andb_true_iff in H4. destruct H4 as [H5 H6].
    split; [exact H5|]. split; [apply seqb_neq, negb_true_iff; exact H6|].
    destruct p as [q|]; [|discriminate]. exists q. split; [reflexivity|apply mem_In; exact H7].
  - apply negb_true_iff, seqb_neq in H. exact H.
Qed.

Lemma ops_ok_b_sound : forall ops c, ops_ok_b c ops = true -> ops_ok c ops.
Proof.
  induction ops as [|op ops IH]; intros c H; simpl in *; [exact I|].
  apply andb_true_iff in H. destruct H as [H1 H2]. split; [apply op_ok_b_sound; exact H1|apply IH; exact H2].
Qed.

(* a run in which 8 of the 18 calls fail *)
Definition ex_ops : list eop :=
  [ EAddState (stx "n1" KBasic None None) (Some "A");
    EAddState (stx "a1" KBasic None None) (Some "A");                 (* fails: exists *)
    EAddState (stx "H2" KDeep None (Some "r1a")) (Some "R1");         (* history with a valid memory *)
    EAddState (stx "x" KBasic None None) (Some "a1");                 (* fails: a1 is not composite *)
    EAddTransition (trx "n1" (Some "a2") "n");
    EAddTransition (trx "ghost" (Some "a1") "g");                      (* fails: unknown source *)
    ERotate (Some 0) (Some "a2") (Some (Some "nope"));                (* fails: unknown target *)
    ERotate (Some 0) None None;                                        (* fails: ValueError *)
    ERotate (Some 0) (Some "a2") (Some None);
    ERenameState "A" "B";
    ERenameState "a1" "a2";                                            (* fails: a2 exists *)
    EMoveState "a2" "R1";
    EMoveState "P" "r1a";                                              (* fails: into a descendant *)
    ERemoveTransition (trx "nobody" None "none");                      (* fails: unknown transition *)
    ERemoveState "P";
    ERemoveState "zzz";                                                (* fails: unknown state *)
    ERemoveTransition (trx "B" None "ping");
    EAddTransition (trx "B" (Some "H") "h") ].

Example ex_ops_ok : ops_ok ex_chart ex_ops.
Proof. apply ops_ok_b_sound. vm_compute. reflexivity. Qed.

Example ex_outcomes :
  outcomes ex_chart ex_ops =
  [EOk; EStatechartError; EOk; EStatechartError; EOk; EStatechartError; EStatechartError; EValueError;
   EOk; EOk; EStatechartError; EOk; EStatechartError; EStatechartError; EOk; EStatechartError; EOk; EOk].
Proof. vm_compute. reflexivity. Qed.

Example ex_seq : einv (run_ops ex_chart ex_ops).
Proof. apply C16_seq; [exact ex_einv|exact ex_ops_ok]. Qed.

(* cross-check by computation, and the final chart *)
Example ex_seq_check :
  sound_b (run_ops ex_chart ex_ops) = true /\
  map fst (c_states (run_ops ex_chart ex_ops)) = ["root"; "a1"; "H"; "n1"; "B"] /\
  c_children (run_ops ex_chart ex_ops) =
    [(None, ["root"]); (Some "root", ["B"]); (Some "a1", []); (Some "H", []); (Some "n1", []);
     (Some "B", ["a1"; "H"; "n1"])] /\
  c_transitions (run_ops ex_chart ex_ops) = [trx "B" (Some "H") "h"].
Proof. vm_compute. repeat split; reflexivity. Qed.

(* C16_atomic / C16_preserve: failing and succeeding single calls on ex_chart *)
Example ex_atomic_instance :
  apply_eop ex_chart (ERotate (Some 0) (Some "a2") (Some (Some "nope"))) = (ex_chart, EStatechartError) /\
  apply_eop ex_chart (ERemoveState "zzz") = (ex_chart, EStatechartError) /\
  apply_eop ex_chart (ERotate (Some 0) None None) = (ex_chart, EValueError).
Proof. vm_compute. repeat split; reflexivity. Qed.

(* C16_effect_remove_state: removing the compound state A (4 states, 6 transitions, root.initial) *)
Example ex_remove :
  let r := remove_state ex_chart "A" in
  snd r = EOk /\
  descendants_for ex_chart "A" = ["a1"; "a2"; "H"] /\
  map fst (c_states (fst r)) = ["root"; "P"; "R1"; "r1a"; "R2"; "r2a"] /\
  option_map s_initial (lookup "root" (c_states (fst r))) = Some None /\
  c_transitions (fst r) = [trx "r1a" (Some "R2") "swap"] /\
  sound_b (fst r) = true.
Proof. vm_compute. repeat split; reflexivity. Qed.

(* C16_effect_move_state: moving a1 (initial of A, memory of H) below R1 *)
Example ex_move :
  let r := move_state ex_chart "a1" "R1" in
  snd r = EOk /\
  children_for (fst r) "A" = ["a2"; "H"] /\ children_for (fst r) "R1" = ["r1a"; "a1"] /\
  parent_for (fst r) "a1" = Some "R1" /\
  option_map s_initial (lookup "A" (c_states (fst r))) = Some None /\
  option_map s_memory (lookup "H" (c_states (fst r))) = Some None /\
  c_transitions (fst r) = c_transitions ex_chart /\
  sound_b (fst r) = true.
Proof. vm_compute. repeat split; reflexivity. Qed.

(* C17_structure: renaming A (which owns the internal transition "ping", is root.initial and the
   parent of three states) *)
Example ex_rename :
  let r := rename_state ex_chart "A" "B" in
  snd r = EOk /\
  nth_error (c_transitions (fst r)) 2 = Some (trx "B" None "ping") /\
  map fst (c_states (fst r)) = ["root"; "a1"; "a2"; "H"; "P"; "R1"; "r1a"; "R2"; "r2a"; "B"] /\
  children_for (fst r) "root" = ["P"; "B"] /\ children_for (fst r) "B" = ["a1"; "a2"; "H"] /\
  option_map s_initial (lookup "root" (c_states (fst r))) = Some (Some "B") /\
  parent_for (fst r) "a1" = Some "B" /\
  sound_b (fst r) = true.
Proof. vm_compute. repeat split; reflexivity. Qed.

(* add_state with a history state whose memory is already valid (memory_ok is not vacuous) *)
Example ex_add_history :
  let st := stx "H2" KDeep None (Some "r1a") in
  op_ok ex_chart (EAddState st (Some "R1")) /\
  snd (add_state ex_chart st (Some "R1")) = EOk /\
  sound_b (fst (add_state ex_chart st (Some "R1"))) = true.
Proof.
  split; [apply op_ok_b_sound; vm_compute; reflexivity|]. vm_compute. split; reflexivity.
Qed.

(* the KeyError of add_state(s, '') on an empty chart (DESIGN section 8(7), second part): not a
   StatechartError / ValueError, hence outside C16_atomic; excluded from op_ok by p <> Some "" *)
Definition empty_chart : chart := mkChart "e" None None [] [] [(None, [])] [].
Example add_state_empty_parent_keyerror :
  sound_b empty_chart = true /\
  snd (add_state empty_chart (stx "s" KBasic None None) (Some "")) = EKeyError /\
  fst (add_state empty_chart (stx "s" KBasic None None) (Some "")) <> empty_chart.
Proof. split; [vm_compute; reflexivity|]. split; [vm_compute; reflexivity|]. vm_compute. intros E; discriminate E. Qed.

(* fields_ok cannot be dropped from remove_state_sound / rename_state_sound in the model: a basic
   state record carrying an `initial` passes sound_b, and remove_state does not reset it.  (Not a
   finding about sismic: a Python BasicState has no `initial` attribute, so the embedding of Python
   charts always satisfies fields_ok.) *)
Definition odd_chart : chart :=
  mkChart "odd" None None
    [("root", stx "root" KCompound None None); ("a", stx "a" KBasic (Some "b") None); ("b", stx "b" KBasic None None)]
    [("root", None); ("a", Some "root"); ("b", Some "root")]
    [(None, ["root"]); (Some "root", ["a"; "b"]); (Some "a", []); (Some "b", [])]
    [].

Lemma remove_state_sound_needs_fields_ok :
  exists c n, sound_b c = true /\ no_empty_name c /\ fields_ok_b c = false /\
    snd (remove_state c n) = EOk /\ sound_b (fst (remove_state c n)) = false.
Proof. exists odd_chart, "b". vm_compute. repeat split; reflexivity. Qed.

(* ================================================================== assumptions *)
Print Assumptions sound_b_iff.
Print Assumptions descendants_for_spec.
Print Assumptions remove_state_spec.
Print Assumptions remove_state_atomic.
Print Assumptions remove_state_sound.
Print Assumptions remove_state_no_keyerror.
Print Assumptions rename_state_sound.
Print Assumptions move_state_sound.
Print Assumptions add_state_sound.
Print Assumptions add_state_side_condition_needed.
Print Assumptions C16_preserve.
Print Assumptions C16_atomic.
Print Assumptions C16_atomic_any.
Print Assumptions C16_no_keyerror.
Print Assumptions C16_seq.
Print Assumptions C16_seq_skip.
Print Assumptions C16_effect_add_transition.
Print Assumptions C16_effect_remove_transition.
Print Assumptions C16_effect_rotate_transition.
Print Assumptions C16_effect_add_state.
Print Assumptions C16_effect_remove_state.
Print Assumptions C16_effect_move_state.
Print Assumptions C17_structure.
Print Assumptions C17_internal_stay_internal.
Print Assumptions remove_state_atomic_unsound_refuted.
Print Assumptions ex_seq.
