(* EditProofs.v -- C16 "Structural editing keeps a statechart sound; failed edits change nothing"
   and the structural half of C17 "renaming changes nothing but the name",
   for the model of theories/Edit.v.

   (summary of results and of what is weakened/refuted: see the end of this header, filled in
   as the development proceeds) *)
From Coq Require Import String Ascii List Bool ZArith NArith Arith Lia Permutation Sorted.
From Sismic Require Import Base Chart Edit.
From SismicProofs Require Import SortLib.
Import ListNotations.
Open Scope string_scope.
Open Scope list_scope.

(* ================================================================== 0. basic facts *)

Lemma seqbP : forall x y : name, reflect (x = y) (str_eqb x y).
Proof. intros x y. unfold str_eqb. apply String.eqb_spec. Qed.

Lemma seqb_refl : forall x, str_eqb x x = true.
Proof. intros x. destruct (seqbP x x); congruence. Qed.

Lemma seqb_eq : forall x y, str_eqb x y = true <-> x = y.
Proof. intros x y. destruct (seqbP x y); split; congruence. Qed.

Lemma seqb_neq : forall x y, str_eqb x y = false <-> x <> y.
Proof. intros x y. destruct (seqbP x y); split; congruence. Qed.

Lemma seqb_sym : forall x y, str_eqb x y = str_eqb y x.
Proof. intros x y. destruct (seqbP x y), (seqbP y x); congruence. Qed.

Lemma oeqbP : forall a b : option name, reflect (a = b) (opt_eqb str_eqb a b).
Proof.
  intros [a|] [b|]; simpl; try (constructor; congruence).
  destruct (seqbP a b); constructor; congruence.
Qed.

Lemma oeqb_refl : forall a, opt_eqb str_eqb a a = true.
Proof. intros a. destruct (oeqbP a a); congruence. Qed.

Lemma oeqb_eq : forall a b, opt_eqb str_eqb a b = true <-> a = b.
Proof. intros a b. destruct (oeqbP a b); split; congruence. Qed.

Lemma oeqb_neq : forall a b, opt_eqb str_eqb a b = false <-> a <> b.
Proof. intros a b. destruct (oeqbP a b); split; congruence. Qed.

Lemma ostr_eqb_eq : forall a b, ostr_eqb a b = true <-> a = b.
Proof. intros a b. unfold ostr_eqb. apply oeqb_eq. Qed.

Ltac break_match_hyp H :=
  match type of H with
  | context [match ?x with _ => _ end] => destruct x eqn:?
  end.

Ltac break_match_goal :=
  match goal with
  | |- context [match ?x with _ => _ end] => destruct x eqn:?
  end.

Ltac inv H := inversion H; subst; clear H.

(* ------------------------------------------------------------------ lookup / dset / dremove *)
Section Dict.
  Context {V : Type}.
  Implicit Types (d : list (name * V)) (k : name) (v : V).

  Lemma lookup_dset : forall k k' v d,
    lookup k (dset k' v d) = if str_eqb k k' then Some v else lookup k d.
  Proof.
    intros k k' v d; induction d as [|[k0 v0] d IH]; simpl.
    - destruct (seqbP k k'); reflexivity.
    - destruct (seqbP k' k0) as [->|Hn]; simpl.
      + destruct (seqbP k k0); reflexivity.
      + destruct (seqbP k k0) as [->|Hn2].
        * destruct (seqbP k0 k'); [congruence|reflexivity].
        * exact IH.
  Qed.

  Lemma lookup_dremove_neq : forall k k' d, k <> k' -> lookup k (dremove k' d) = lookup k d.
  Proof.
    intros k k' d Hne; induction d as [|[k0 v0] d IH]; simpl; [reflexivity|].
    destruct (seqbP k' k0) as [->|Hn]; simpl.
    - destruct (seqbP k k0); [congruence|reflexivity].
    - destruct (seqbP k k0); [reflexivity|exact IH].
  Qed.

  Lemma lookup_None_iff : forall k d, lookup k d = None <-> ~ In k (map fst d).
  Proof.
    intros k d; induction d as [|[k0 v0] d IH]; simpl.
    - split; [intros _ []|reflexivity].
    - destruct (seqbP k k0) as [->|Hn].
      + split; [discriminate|intros H; exfalso; apply H; left; reflexivity].
      + rewrite IH. split; intros H; [intros [E|E]; [congruence|auto]|intros E; apply H; right; exact E].
  Qed.

  Lemma lookup_Some_In_keys : forall k d, lookup k d <> None <-> In k (map fst d).
  Proof.
    intros k d. rewrite lookup_None_iff. split; [|tauto].
    intros H. destruct (in_dec string_dec k (map fst d)); tauto.
  Qed.

  Lemma lookup_In : forall k v d, lookup k d = Some v -> In (k, v) d.
  Proof.
    intros k v d; induction d as [|[k0 v0] d IH]; simpl; [discriminate|].
    destruct (seqbP k k0) as [->|Hn]; intros H; [inv H; left; reflexivity|right; auto].
  Qed.

  Lemma In_lookup : forall k v d, NoDup (map fst d) -> In (k, v) d -> lookup k d = Some v.
  Proof.
    intros k v d; induction d as [|[k0 v0] d IH]; simpl; intros Hnd Hin; [destruct Hin|].
    inv Hnd. destruct Hin as [E|Hin].
    - inv E. rewrite seqb_refl. reflexivity.
    - destruct (seqbP k k0) as [->|Hn]; [|auto].
      exfalso. apply H1. change k0 with (fst (k0, v)). apply in_map. exact Hin.
  Qed.

  Lemma lookup_dremove_eq : forall k d, NoDup (map fst d) -> lookup k (dremove k d) = None.
  Proof.
    intros k d; induction d as [|[k0 v0] d IH]; simpl; intros Hnd; [reflexivity|].
    inv Hnd. destruct (seqbP k k0) as [->|Hn]; simpl.
    - apply lookup_None_iff. exact H1.
    - destruct (seqbP k k0); [congruence|auto].
  Qed.

  Lemma lookup_dremove : forall k k' d, NoDup (map fst d) ->
    lookup k (dremove k' d) = if str_eqb k k' then None else lookup k d.
  Proof.
    intros k k' d Hnd. destruct (seqbP k k') as [->|Hn].
    - apply lookup_dremove_eq; exact Hnd.
    - apply lookup_dremove_neq; exact Hn.
  Qed.

  Lemma keys_dset : forall k v d,
    map fst (dset k v d) = if mem k (map fst d) then map fst d else map fst d ++ [k].
  Proof.
    intros k v d; induction d as [|[k0 v0] d IH]; simpl; [reflexivity|].
    destruct (seqbP k k0) as [->|Hn]; simpl; [reflexivity|].
    rewrite IH. destruct (mem k (map fst d)); reflexivity.
  Qed.

  Lemma keys_dremove : forall k d, map fst (dremove k d) = remove_first k (map fst d).
  Proof.
    intros k d; induction d as [|[k0 v0] d IH]; simpl; [reflexivity|].
    destruct (seqbP k k0); simpl; [reflexivity|]. rewrite IH; reflexivity.
  Qed.

  Lemma dset_fresh : forall k v d, lookup k d = None -> dset k v d = d ++ [(k, v)].
  Proof.
    intros k v d; induction d as [|[k0 v0] d IH]; simpl; [reflexivity|].
    destruct (seqbP k k0); [discriminate|]. intros H; rewrite IH; auto.
  Qed.
End Dict.

Lemma lookup_mapv : forall {V W} (f : V -> W) k (d : list (name * V)),
  lookup k (map (fun kv => (fst kv, f (snd kv))) d) = option_map f (lookup k d).
Proof.
  intros V W f k d; induction d as [|[k0 v0] d IH]; simpl; [reflexivity|].
  destruct (seqbP k k0); [reflexivity|exact IH].
Qed.

Lemma keys_mapv : forall {K V W} (f : V -> W) (d : list (K * V)),
  map fst (map (fun kv => (fst kv, f (snd kv))) d) = map fst d.
Proof. intros K V W f d. rewrite map_map. simpl. reflexivity. Qed.

(* ------------------------------------------------------------------ olookup / oset / oremove *)
Section ODict.
  Context {V : Type}.
  Implicit Types (d : list (option name * V)) (k : option name) (v : V).

  Lemma olookup_oset : forall k k' v d,
    olookup k (oset k' v d) = if opt_eqb str_eqb k k' then Some v else olookup k d.
  Proof.
    intros k k' v d; induction d as [|[k0 v0] d IH]; simpl.
    - destruct (oeqbP k k'); reflexivity.
    - destruct (oeqbP k' k0) as [->|Hn]; simpl.
      + destruct (oeqbP k k0); reflexivity.
      + destruct (oeqbP k k0) as [->|Hn2].
        * destruct (oeqbP k0 k'); [congruence|reflexivity].
        * exact IH.
  Qed.

  Lemma olookup_oremove_neq : forall k k' d, k <> k' -> olookup k (oremove k' d) = olookup k d.
  Proof.
    intros k k' d Hne; induction d as [|[k0 v0] d IH]; simpl; [reflexivity|].
    destruct (oeqbP k' k0) as [->|Hn]; simpl.
    - destruct (oeqbP k k0); [congruence|reflexivity].
    - destruct (oeqbP k k0); [reflexivity|exact IH].
  Qed.

  Lemma olookup_None_iff : forall k d, olookup k d = None <-> ~ In k (map fst d).
  Proof.
    intros k d; induction d as [|[k0 v0] d IH]; simpl.
    - split; [intros _ []|reflexivity].
    - destruct (oeqbP k k0) as [->|Hn].
      + split; [discriminate|intros H; exfalso; apply H; left; reflexivity].
      + rewrite IH. split; intros H; [intros [E|E]; [congruence|auto]|intros E; apply H; right; exact E].
  Qed.

  Lemma olookup_In : forall k v d, olookup k d = Some v -> In (k, v) d.
  Proof.
    intros k v d; induction d as [|[k0 v0] d IH]; simpl; [discriminate|].
    destruct (oeqbP k k0) as [->|Hn]; intros H; [inv H; left; reflexivity|right; auto].
  Qed.

  Lemma In_olookup : forall k v d, NoDup (map fst d) -> In (k, v) d -> olookup k d = Some v.
  Proof.
    intros k v d; induction d as [|[k0 v0] d IH]; simpl; intros Hnd Hin; [destruct Hin|].
    inv Hnd. destruct Hin as [E|Hin].
    - inv E. rewrite oeqb_refl. reflexivity.
    - destruct (oeqbP k k0) as [->|Hn]; [|auto].
      exfalso. apply H1. change k0 with (fst (k0, v)). apply in_map. exact Hin.
  Qed.

  Lemma olookup_oremove_eq : forall k d, NoDup (map fst d) -> olookup k (oremove k d) = None.
  Proof.
    intros k d; induction d as [|[k0 v0] d IH]; simpl; intros Hnd; [reflexivity|].
    inv Hnd. destruct (oeqbP k k0) as [->|Hn]; simpl.
    - apply olookup_None_iff. exact H1.
    - destruct (oeqbP k k0); [congruence|auto].
  Qed.

  Lemma olookup_oremove : forall k k' d, NoDup (map fst d) ->
    olookup k (oremove k' d) = if opt_eqb str_eqb k k' then None else olookup k d.
  Proof.
    intros k k' d Hnd. destruct (oeqbP k k') as [->|Hn].
    - apply olookup_oremove_eq; exact Hnd.
    - apply olookup_oremove_neq; exact Hn.
  Qed.
End ODict.

Lemma oname_dec : forall a b : option name, {a = b} + {a <> b}.
Proof. decide equality. apply string_dec. Qed.

Lemma olookup_None_iff_not : forall {V} k (d : list (option name * V)),
  olookup k d <> None <-> In k (map fst d).
Proof.
  intros V k d. rewrite olookup_None_iff. split; [|tauto].
  intros H. destruct (in_dec oname_dec k (map fst d)); tauto.
Qed.

(* ================================================================== 1. C16: atomicity *)

Lemma add_state_atomic : forall c st p c' r,
  add_state c st p = (c', r) -> r = EStatechartError \/ r = EValueError -> c' = c.
Proof.
  intros c st p c' r H Hr. unfold add_state in H.
  repeat break_match_hyp H; inv H; try reflexivity; destruct Hr; discriminate.
Qed.

Lemma add_transition_atomic : forall c t c' r,
  add_transition c t = (c', r) -> r = EStatechartError \/ r = EValueError -> c' = c.
Proof.
  intros c t c' r H Hr. unfold add_transition in H.
  repeat break_match_hyp H; inv H; try reflexivity; destruct Hr; discriminate.
Qed.

Lemma remove_transition_atomic : forall c t c' r,
  remove_transition c t = (c', r) -> r = EStatechartError \/ r = EValueError -> c' = c.
Proof.
  intros c t c' r H Hr. unfold remove_transition in H.
  repeat break_match_hyp H; inv H; try reflexivity; destruct Hr; discriminate.
Qed.

Lemma rotate_transition_atomic : forall c i s t c' r,
  rotate_transition c i s t = (c', r) -> r = EStatechartError \/ r = EValueError -> c' = c.
Proof.
  intros c i s t c' r H Hr. unfold rotate_transition in H.
  destruct s, t, i; try (inv H; reflexivity);
  repeat break_match_hyp H; inv H; try reflexivity; destruct Hr; discriminate.
Qed.

Lemma rename_state_atomic : forall c o n c' r,
  rename_state c o n = (c', r) -> r = EStatechartError \/ r = EValueError -> c' = c.
Proof.
  intros c o n c' r H Hr. unfold rename_state in H.
  repeat break_match_hyp H; inv H; try reflexivity; destruct Hr; discriminate.
Qed.

Lemma move_state_atomic : forall c n p c' r,
  move_state c n p = (c', r) -> r = EStatechartError \/ r = EValueError -> c' = c.
Proof.
  intros c n p c' r H Hr. unfold move_state in H.
  repeat break_match_hyp H; inv H; try reflexivity; destruct Hr; discriminate.
Qed.

(* ================================================================== 2. soundness as a Prop *)

(* ------------------------------------------------------------------ list facts *)
Lemma nodup_names_iff : forall l, nodup_names l = true <-> NoDup l.
Proof.
  induction l as [|x l IH]; simpl.
  - split; [constructor|reflexivity].
  - rewrite andb_true_iff, negb_true_iff, mem_false_iff, IH.
    split; [intros [H1 H2]; constructor; assumption|intros H; inv H; split; assumption].
Qed.

Lemma list_eqb_eq : forall {A} (eqb : A -> A -> bool),
  (forall a b, eqb a b = true <-> a = b) ->
  forall l1 l2, list_eqb eqb l1 l2 = true <-> l1 = l2.
Proof.
  intros A eqb Heq; induction l1 as [|x l1 IH]; intros [|y l2]; simpl;
    try (split; [reflexivity || discriminate|reflexivity || discriminate]).
  rewrite andb_true_iff, Heq, IH. split; [intros [-> ->]; reflexivity|intros H; inv H; auto].
Qed.

Lemma opt_eqb_eq : forall {A} (eqb : A -> A -> bool),
  (forall a b, eqb a b = true <-> a = b) ->
  forall x y, opt_eqb eqb x y = true <-> x = y.
Proof.
  intros A eqb Heq [x|] [y|]; simpl; try (split; [reflexivity || discriminate|reflexivity || discriminate]).
  rewrite Heq. split; [intros ->; reflexivity|intros H; inv H; reflexivity].
Qed.

Lemma strs_eqb_eq : forall a b, strs_eqb a b = true <-> a = b.
Proof. apply list_eqb_eq. apply seqb_eq. Qed.

Lemma sorted_perm_eq : forall {A} (R : A -> A -> Prop),
  (forall a b, R a b -> R b a -> a = b) ->
  forall l1 l2, StronglySorted R l1 -> StronglySorted R l2 -> Permutation l1 l2 -> l1 = l2.
Proof.
  intros A R Hanti; induction l1 as [|a l1 IH]; intros l2 H1 H2 HP.
  - apply Permutation_nil in HP. auto.
  - destruct l2 as [|b l2]; [apply Permutation_sym, Permutation_nil in HP; discriminate|].
    inversion H1 as [|? ? H1a H1b]; inversion H2 as [|? ? H2a H2b]; subst.
    rewrite Forall_forall in H1b, H2b.
    assert (E : a = b).
    { assert (Ha : In a (b :: l2)) by (eapply Permutation_in; [exact HP|left; reflexivity]).
      assert (Hb : In b (a :: l1)) by (eapply Permutation_in; [apply Permutation_sym; exact HP|left; reflexivity]).
      destruct Ha as [Ha|Ha]; [auto|]. destruct Hb as [Hb|Hb]; [auto|].
      apply Hanti; auto. }
    subst b. f_equal. apply IH; auto. eapply Permutation_cons_inv; exact HP.
Qed.

Lemma sort_perm_eq : forall {A} (leb : A -> A -> bool),
  (forall a b, leb a b = true \/ leb b a = true) ->
  (forall a b c, leb a b = true -> leb b c = true -> leb a c = true) ->
  (forall a b, leb a b = true -> leb b a = true -> a = b) ->
  forall l1 l2, Permutation l1 l2 -> sort leb l1 = sort leb l2.
Proof.
  intros A leb Ht Htr Ha l1 l2 HP.
  apply (sorted_perm_eq (lebP leb)); [exact Ha| | |].
  - apply sort_strongly_sorted; assumption.
  - apply sort_strongly_sorted; assumption.
  - eapply Permutation_trans; [apply sort_perm|].
    eapply Permutation_trans; [exact HP|apply Permutation_sym, sort_perm].
Qed.

Definition ole (a b : option string) : bool :=
  match a with
  | Some x => match b with Some y => str_leb x y | None => false end
  | None => true
  end.

Lemma ole_total : forall a b, ole a b = true \/ ole b a = true.
Proof. intros [a|] [b|]; simpl; auto. apply str_leb_total. Qed.
Lemma ole_trans : forall a b c, ole a b = true -> ole b c = true -> ole a c = true.
Proof. intros [a|] [b|] [c|]; simpl; auto; try discriminate. apply str_leb_trans. Qed.
Lemma ole_antisym : forall a b, ole a b = true -> ole b a = true -> a = b.
Proof.
  intros [a|] [b|]; simpl; auto; try discriminate. intros H1 H2. f_equal. apply str_leb_antisym; auto.
Qed.

Lemma sort_ole_Some : forall l, sort ole (map Some l) = map Some (sort str_leb l).
Proof.
  induction l as [|x l IH]; simpl; [reflexivity|]. rewrite IH.
  generalize (sort str_leb l) as m. induction m as [|y m IHm]; simpl; [reflexivity|].
  destruct (str_leb x y); simpl; [reflexivity|]. rewrite IHm. reflexivity.
Qed.

Lemma sort_ole_None : forall l, sort ole (None :: l) = None :: sort ole l.
Proof. intros l. simpl. destruct (sort ole l); reflexivity. Qed.

Lemma NoDup_map_Some : forall {A} (l : list A), NoDup l -> NoDup (None :: map Some l).
Proof.
  intros A l H. constructor.
  - rewrite in_map_iff. intros [x [E _]]; discriminate.
  - induction H as [|x l Hx Hl IH]; simpl; constructor; [|exact IH].
    rewrite in_map_iff. intros [y [E Hy]]. inv E. auto.
Qed.

(* ------------------------------------------------------------------ remove_first, count_occ *)
Lemma In_remove_first : forall x k l, In x (remove_first k l) -> In x l.
Proof.
  intros x k l; induction l as [|y l IH]; simpl; [auto|].
  destruct (seqbP k y); simpl; intros H; [right; exact H|destruct H; auto].
Qed.

Lemma In_remove_first_neq : forall x k l, x <> k -> In x l -> In x (remove_first k l).
Proof.
  intros x k l Hne; induction l as [|y l IH]; simpl; [auto|].
  destruct (seqbP k y) as [->|Hn]; simpl; intros [H|H]; auto; congruence.
Qed.

Lemma NoDup_remove_first : forall k l, NoDup l -> NoDup (remove_first k l).
Proof.
  intros k l; induction l as [|y l IH]; simpl; intros H; [constructor|].
  inv H. destruct (seqbP k y); [assumption|]. constructor; [|auto].
  intros Hin; apply In_remove_first in Hin; auto.
Qed.

Lemma remove_first_notin : forall k l, ~ In k l -> remove_first k l = l.
Proof.
  intros k l; induction l as [|y l IH]; simpl; intros H; [reflexivity|].
  destruct (seqbP k y) as [->|Hn]; [exfalso; apply H; left; reflexivity|].
  rewrite IH; auto.
Qed.

Lemma NoDup_remove_first_notin : forall k l, NoDup l -> ~ In k (remove_first k l).
Proof.
  intros k l; induction l as [|y l IH]; simpl; intros H; [auto|].
  inv H. destruct (seqbP k y) as [->|Hn]; [assumption|].
  simpl. intros [E|E]; [congruence|]. apply IH; assumption.
Qed.

Lemma count_occ_remove_first_neq : forall x k l, x <> k ->
  count_occ string_dec (remove_first k l) x = count_occ string_dec l x.
Proof.
  intros x k l Hne; induction l as [|y l IH]; simpl; [reflexivity|].
  destruct (seqbP k y) as [->|Hn]; simpl.
  - destruct (string_dec y x); [congruence|reflexivity].
  - destruct (string_dec y x); rewrite IH; reflexivity.
Qed.

Lemma count_occ_remove_first_eq : forall k l,
  count_occ string_dec (remove_first k l) k = pred (count_occ string_dec l k).
Proof.
  intros k l; induction l as [|y l IH]; simpl; [reflexivity|].
  destruct (seqbP k y) as [->|Hn]; simpl.
  - destruct (string_dec y y); [reflexivity|congruence].
  - destruct (string_dec y k); [congruence|exact IH].
Qed.

Lemma count_occ_snoc : forall l x y,
  count_occ string_dec (l ++ [y]) x = count_occ string_dec l x + (if string_dec y x then 1 else 0).
Proof. intros l x y. rewrite count_occ_app. simpl. destruct (string_dec y x); reflexivity. Qed.

Lemma count_occ_one_In : forall l x, count_occ string_dec l x = 1 -> In x l.
Proof. intros l x H. apply (count_occ_In string_dec). lia. Qed.

Lemma NoDup_count_one : forall l x, NoDup l -> In x l -> count_occ string_dec l x = 1.
Proof.
  intros l x Hnd Hin. rewrite (NoDup_count_occ string_dec) in Hnd.
  specialize (Hnd x). apply (count_occ_In string_dec) in Hin. lia.
Qed.

(* ------------------------------------------------------------------ has_state *)
Lemma has_state_iff : forall c n, has_state c n = true <-> lookup n (c_states c) <> None.
Proof. intros c n. unfold has_state. destruct (lookup n (c_states c)); split; congruence. Qed.

Lemma has_state_false : forall c n, has_state c n = false <-> lookup n (c_states c) = None.
Proof. intros c n. unfold has_state. destruct (lookup n (c_states c)); split; congruence. Qed.

Lemma has_state_In : forall c n, has_state c n = true <-> In n (map fst (c_states c)).
Proof. intros c n. rewrite has_state_iff. apply lookup_Some_In_keys. Qed.

Lemma has_state_Some : forall c n, has_state c n = true <-> exists s, lookup n (c_states c) = Some s.
Proof.
  intros c n. unfold has_state. destruct (lookup n (c_states c)) as [s|].
  - split; [eauto|reflexivity].
  - split; [discriminate|intros [s H]; discriminate].
Qed.

(* ------------------------------------------------------------------ the definition *)
Definition rank_ok (c : chart) (rank : name -> nat) : Prop :=
  forall n q, lookup n (c_parent c) = Some (Some q) -> rank q < rank n.

Record sound (c : chart) : Prop := mkSound {
  (* the three dictionaries have unique keys, the same key sets (plus None for _children),
     and every state object is stored under its own name *)
  sd_nd_states : NoDup (map fst (c_states c));
  sd_nd_parent : NoDup (map fst (c_parent c));
  sd_nd_children : NoDup (map fst (c_children c));
  sd_keyname : forall k s, lookup k (c_states c) = Some s -> s_name s = k;
  sd_pkeys : forall n, lookup n (c_parent c) <> None <-> has_state c n = true;
  sd_ckeys : forall n, olookup (Some n) (c_children c) <> None <-> has_state c n = true;
  sd_ctop : olookup None (c_children c) <> None;
  (* parent and children agree, children lists have no duplicates, parents exist *)
  sd_pc : forall n p, lookup n (c_parent c) = Some p ->
      (forall q, p = Some q -> has_state c q = true) /\
      exists l, olookup p (c_children c) = Some l /\ count_occ string_dec l n = 1;
  sd_cp : forall k l ch, olookup k (c_children c) = Some l -> In ch l ->
      lookup ch (c_parent c) = Some k;
  (* at most one root, no cycle *)
  sd_top : forall l, olookup None (c_children c) = Some l -> length l <= 1;
  sd_acyc : exists rank, rank_ok c rank;
  (* transitions start from existing transition-owning states and target existing states *)
  sd_trans : forall t, In t (c_transitions c) ->
      (exists s, lookup (t_source t) (c_states c) = Some s /\ owns_transitions (s_kind s) = true) /\
      (forall tg, t_target t = Some tg -> has_state c tg = true);
  (* initial / memory name existing states; validate() *)
  sd_refs : forall k s, lookup k (c_states c) = Some s ->
      (forall i, s_initial s = Some i -> has_state c i = true) /\
      (forall m, s_memory s = Some m -> has_state c m = true);
  sd_vinit : forall k s i, lookup k (c_states c) = Some s -> s_kind s = KCompound ->
      truthy (s_initial s) = Some i -> has_state c i = true /\ In i (children_for c k);
  sd_vmem : forall k s m, lookup k (c_states c) = Some s -> is_history (s_kind s) = true ->
      s_memory s = Some m ->
      m <> k /\ has_state c m = true /\
      exists p, parent_for c k = Some p /\ In m (children_for c p)
}.

(* extra well-formedness not contained in sound_b (see the header):
   no state is named "" and only compound states carry `initial`, only history states `memory` *)
Definition no_empty_name (c : chart) : Prop := has_state c "" = false.

Definition fields_ok_b (c : chart) : bool :=
  forallb (fun kv : name * state =>
             (match s_initial (snd kv) with Some _ => kind_eqb (s_kind (snd kv)) KCompound | None => true end)
             && (match s_memory (snd kv) with Some _ => is_history (s_kind (snd kv)) | None => true end))
          (c_states c).

Definition fields_ok (c : chart) : Prop :=
  forall k s, lookup k (c_states c) = Some s ->
    (forall i, s_initial s = Some i -> s_kind s = KCompound) /\
    (forall m, s_memory s = Some m -> is_history (s_kind s) = true).

Lemma kind_eqb_eq : forall a b, kind_eqb a b = true <-> a = b.
Proof. intros [] []; simpl; split; congruence. Qed.

Lemma fields_ok_b_sound : forall c, fields_ok_b c = true -> fields_ok c.
Proof.
  intros c H k s Hl. unfold fields_ok_b in H. rewrite forallb_forall in H.
  specialize (H _ (lookup_In _ _ _ Hl)). simpl in H. apply andb_true_iff in H. destruct H as [H1 H2].
  split; intros x E; rewrite E in *; [apply kind_eqb_eq|]; assumption.
Qed.

Lemma fields_ok_b_complete : forall c, NoDup (map fst (c_states c)) -> fields_ok c -> fields_ok_b c = true.
Proof.
  intros c Hnd H. unfold fields_ok_b. rewrite forallb_forall. intros [k s] Hin. simpl.
  destruct (H k s (In_lookup _ _ _ Hnd Hin)) as [H1 H2].
  apply andb_true_iff; split.
  - destruct (s_initial s) eqn:E; [|reflexivity]. apply kind_eqb_eq. eapply H1; reflexivity.
  - destruct (s_memory s) eqn:E; [|reflexivity]. eapply H2; reflexivity.
Qed.

(* ------------------------------------------------------------------ ancestors and ranks *)
Lemma ancestors_fuel_stable : forall c f p,
  length (ancestors_fuel c f p) < f ->
  forall f', f <= f' -> ancestors_fuel c f' p = ancestors_fuel c f p.
Proof.
  intros c f; induction f as [|f IH]; intros p Hlen f' Hle; [inversion Hlen|].
  destruct f' as [|f']; [lia|]. simpl in *.
  destruct (truthy p) as [q|]; [|reflexivity].
  simpl in Hlen. f_equal. apply IH; lia.
Qed.

Lemma ancestors_fuel_S : forall c f p,
  ancestors_fuel c (S f) p =
  match truthy p with Some q => q :: ancestors_fuel c f (parent_for c q) | None => [] end.
Proof. reflexivity. Qed.

Lemma parent_for_lookup : forall c n p, lookup n (c_parent c) = Some p -> parent_for c n = p.
Proof. intros c n p H. unfold parent_for. rewrite H. reflexivity. Qed.

Lemma truthy_Some : forall (p : option name) (q : name), truthy p = Some q -> p = Some q /\ q <> "".
Proof.
  intros [[|a s]|] q H; simpl in H; inv H; split; auto; discriminate.
Qed.

Lemma truthy_nonempty : forall q : name, q <> "" -> truthy (Some q) = Some q.
Proof. intros [|a s] H; [congruence|reflexivity]. Qed.

(* the chain computed by ancestors_for, whatever the fuel, strictly decreases a rank *)
Lemma ancestors_chain : forall c rank,
  rank_ok c rank ->
  (forall n q, lookup n (c_parent c) = Some (Some q) -> lookup q (c_parent c) <> None) ->
  forall f n, lookup n (c_parent c) <> None ->
    Forall (fun x => rank x < rank n /\ lookup x (c_parent c) <> None)
           (ancestors_fuel c f (parent_for c n))
    /\ NoDup (ancestors_fuel c f (parent_for c n)).
Proof.
  intros c rank Hr Hex f; induction f as [|f IH]; intros n Hn; simpl; [split; constructor|].
  destruct (truthy (parent_for c n)) as [q|] eqn:E; [|split; constructor].
  apply truthy_Some in E. destruct E as [E Hq].
  unfold parent_for in E. destruct (lookup n (c_parent c)) as [p|] eqn:El; [|discriminate].
  subst p. pose proof (Hr _ _ El) as Hlt. pose proof (Hex _ _ El) as Hqin.
  destruct (IH q Hqin) as [IH1 IH2]. split.
  - constructor; [split; assumption|].
    eapply Forall_impl; [|exact IH1]. simpl. intros x [Hx1 Hx2]. split; [lia|assumption].
  - constructor; [|exact IH2]. intros Hin. rewrite Forall_forall in IH1.
    destruct (IH1 _ Hin) as [Hx _]. lia.
Qed.

Lemma ancestors_short : forall c rank,
  rank_ok c rank ->
  (forall n q, lookup n (c_parent c) = Some (Some q) -> lookup q (c_parent c) <> None) ->
  forall n, lookup n (c_parent c) <> None ->
    length (ancestors_for c n) < length (c_parent c).
Proof.
  intros c rank Hr Hex n Hn. unfold ancestors_for.
  destruct (ancestors_chain c rank Hr Hex (length (c_parent c)) n Hn) as [H1 H2].
  set (l := ancestors_fuel c (length (c_parent c)) (parent_for c n)) in *.
  assert (Hnd : NoDup (n :: l)).
  { constructor; [|exact H2]. intros Hin. rewrite Forall_forall in H1. destruct (H1 _ Hin); lia. }
  assert (Hincl : incl (n :: l) (map fst (c_parent c))).
  { intros x [<-|Hx]; [apply lookup_Some_In_keys; exact Hn|].
    rewrite Forall_forall in H1. apply lookup_Some_In_keys. apply (H1 _ Hx). }
  pose proof (NoDup_incl_length Hnd Hincl) as Hlen. simpl in Hlen. rewrite map_length in Hlen. lia.
Qed.

(* ------------------------------------------------------------------ sound_b, clause by clause *)
Definition sb_nd_states (c : chart) := nodup_names (map fst (c_states c)).
Definition sb_keyname (c : chart) :=
  forallb (fun kv : string * state => str_eqb (fst kv) (s_name (snd kv))) (c_states c).
Definition sb_pkeys (c : chart) :=
  strs_eqb (sort_names (map fst (c_states c))) (sort_names (map fst (c_parent c))).
Definition sb_nd_parent (c : chart) := nodup_names (map fst (c_parent c)).
Definition sb_ckeys (c : chart) :=
  list_eqb ostr_eqb (None :: map Some (sort_names (map fst (c_states c))))
           (sort ole (map fst (c_children c))).
Definition sb_pc (c : chart) :=
  forallb (fun kv : string * option name =>
     match snd kv with
     | Some p => has_state c p && (count_occ string_dec (children_for c p) (fst kv) =? 1)%nat
     | None => match olookup None (c_children c) with
               | Some l => (count_occ string_dec l (fst kv) =? 1)%nat
               | None => false
               end
     end) (c_parent c).
Definition sb_cp (c : chart) :=
  forallb (fun kv : option string * list name =>
     forallb (fun ch : name => opt_eqb ostr_eqb (lookup ch (c_parent c)) (Some (fst kv))) (snd kv))
    (c_children c).
Definition sb_top (c : chart) :=
  (length (match olookup None (c_children c) with Some l => l | None => [] end) <=? 1)%nat.
Definition sb_acyc (c : chart) :=
  forallb (fun n : name => (length (ancestors_for c n) <? length (c_parent c))%nat)
          (map fst (c_states c)).
Definition sb_trans (c : chart) :=
  forallb (fun t : transition =>
     match state_for c (t_source t) with
     | Some s => owns_transitions (s_kind s)
     | None => false
     end && match t_target t with Some tg => has_state c tg | None => true end)
    (c_transitions c).
Definition sb_refs (c : chart) :=
  forallb (fun kv : name * state =>
     match s_initial (snd kv) with Some i => has_state c i | None => true end
     && match s_memory (snd kv) with Some m => has_state c m | None => true end)
    (c_states c).

Lemma sound_b_unfold : forall c,
  sound_b c = sb_nd_states c && sb_keyname c && sb_pkeys c && sb_nd_parent c && sb_ckeys c
              && sb_pc c && sb_cp c && sb_top c && sb_acyc c && sb_trans c && sb_refs c
              && validate c.
Proof. reflexivity. Qed.

Lemma sb_pkeys_iff : forall c,
  sb_pkeys c = true <-> Permutation (map fst (c_states c)) (map fst (c_parent c)).
Proof.
  intros c. unfold sb_pkeys. rewrite strs_eqb_eq. split; intros H.
  - eapply Permutation_trans; [apply Permutation_sym, sort_names_perm|].
    rewrite H. apply sort_names_perm.
  - apply (sort_perm_eq str_leb str_leb_total str_leb_trans str_leb_antisym). exact H.
Qed.

Lemma sb_ckeys_iff : forall c,
  sb_ckeys c = true <->
  Permutation (map fst (c_children c)) (None :: map Some (map fst (c_states c))).
Proof.
  intros c. unfold sb_ckeys.
  rewrite (list_eqb_eq ostr_eqb ostr_eqb_eq). split; intros H.
  - eapply Permutation_trans; [apply Permutation_sym, (sort_perm ole)|].
    rewrite <- H. apply perm_skip. apply Permutation_map. apply sort_names_perm.
  - rewrite (sort_perm_eq ole ole_total ole_trans ole_antisym _ _ H).
    rewrite sort_ole_None, sort_ole_Some. reflexivity.
Qed.

Lemma validate_initial_iff : forall c, NoDup (map fst (c_states c)) ->
  (validate_initial c = true <->
   forall k s i, lookup k (c_states c) = Some s -> s_kind s = KCompound ->
     truthy (s_initial s) = Some i -> has_state c i = true /\ In i (children_for c k)).
Proof.
  intros c Hnd. unfold validate_initial. rewrite forallb_forall. split.
  - intros H k s i Hl Hk Hi. specialize (H _ (lookup_In _ _ _ Hl)). simpl in H.
    rewrite Hk, Hi in H. simpl in H. apply andb_true_iff in H. destruct H as [H1 H2].
    split; [exact H1|apply mem_In; exact H2].
  - intros H [k s] Hin. simpl. destruct (kind_eqb (s_kind s) KCompound) eqn:Ek; [|reflexivity].
    apply kind_eqb_eq in Ek. destruct (truthy (s_initial s)) as [i|] eqn:Ei; [|reflexivity].
    destruct (H k s i (In_lookup _ _ _ Hnd Hin) Ek Ei) as [H1 H2].
    rewrite H1. simpl. apply mem_In. exact H2.
Qed.

Lemma validate_memory_iff : forall c, NoDup (map fst (c_states c)) ->
  (validate_memory c = true <->
   forall k s m, lookup k (c_states c) = Some s -> is_history (s_kind s) = true ->
     s_memory s = Some m ->
     m <> k /\ has_state c m = true /\
     exists p, parent_for c k = Some p /\ In m (children_for c p)).
Proof.
  intros c Hnd. unfold validate_memory. rewrite forallb_forall. split.
  - intros H k s m Hl Hk Hm. specialize (H _ (lookup_In _ _ _ Hl)). simpl in H.
    rewrite Hk, Hm in H. apply andb_true_iff in H. destruct H as [H H3].
    apply andb_true_iff in H. destruct H as [H1 H2].
    apply negb_true_iff, seqb_neq in H1. split; [exact H1|]. split; [exact H2|].
    destruct (parent_for c k) as [p|]; [|discriminate]. exists p. split; [reflexivity|].
    apply mem_In; exact H3.
  - intros H [k s] Hin. simpl. destruct (is_history (s_kind s)) eqn:Ek; [|reflexivity].
    destruct (s_memory s) as [m|] eqn:Em; [|reflexivity].
    destruct (H k s m (In_lookup _ _ _ Hnd Hin) Ek Em) as [H1 [H2 [p [H3 H4]]]].
    rewrite H2, H3. apply seqb_neq in H1. rewrite H1. simpl. apply mem_In. exact H4.
Qed.

Theorem sound_b_sound : forall c, sound_b c = true -> no_empty_name c -> sound c.
Proof.
  intros c H Hne. rewrite sound_b_unfold in H.
  apply andb_true_iff in H; destruct H as [H Hval].
  apply andb_true_iff in H; destruct H as [H Hrefs].
  apply andb_true_iff in H; destruct H as [H Htrans].
  apply andb_true_iff in H; destruct H as [H Hacyc].
  apply andb_true_iff in H; destruct H as [H Htop].
  apply andb_true_iff in H; destruct H as [H Hcp].
  apply andb_true_iff in H; destruct H as [H Hpc].
  apply andb_true_iff in H; destruct H as [H Hck].
  apply andb_true_iff in H; destruct H as [H Hndp].
  apply andb_true_iff in H; destruct H as [H Hpk].
  apply andb_true_iff in H; destruct H as [Hnds Hkn].
  apply nodup_names_iff in Hnds. apply nodup_names_iff in Hndp.
  apply sb_pkeys_iff in Hpk. apply sb_ckeys_iff in Hck.
  assert (Hndc : NoDup (map fst (c_children c))).
  { eapply Permutation_NoDup; [apply Permutation_sym; exact Hck|]. apply NoDup_map_Some; exact Hnds. }
  assert (Hpk' : forall n, lookup n (c_parent c) <> None <-> has_state c n = true).
  { intros n. rewrite lookup_Some_In_keys, has_state_In. split; apply Permutation_in; [apply Permutation_sym|]; exact Hpk. }
  assert (Hpc' : forall n p, lookup n (c_parent c) = Some p ->
      (forall q, p = Some q -> has_state c q = true) /\
      exists l, olookup p (c_children c) = Some l /\ count_occ string_dec l n = 1).
  { intros n p Hl. apply lookup_In in Hl. unfold sb_pc in Hpc. rewrite forallb_forall in Hpc.
    specialize (Hpc _ Hl). simpl in Hpc. destruct p as [q|].
    - apply andb_true_iff in Hpc. destruct Hpc as [Hq Hc]. apply Nat.eqb_eq in Hc.
      split; [intros q' E; inv E; exact Hq|]. unfold children_for in Hc.
      destruct (olookup (Some q) (c_children c)) as [l|]; [|simpl in Hc; discriminate].
      exists l; split; [reflexivity|exact Hc].
    - split; [intros q' E; discriminate|].
      destruct (olookup None (c_children c)) as [l|]; [|discriminate].
      apply Nat.eqb_eq in Hpc. exists l; split; [reflexivity|exact Hpc]. }
  assert (Hval' := Hval). unfold validate in Hval'. apply andb_true_iff in Hval'.
  destruct Hval' as [Hvi Hvm].
  constructor; try assumption.
  - intros k s Hl. apply lookup_In in Hl. unfold sb_keyname in Hkn. rewrite forallb_forall in Hkn.
    specialize (Hkn _ Hl). simpl in Hkn. apply seqb_eq in Hkn. auto.
  - intros n. rewrite has_state_In. split.
    + intros Hn. apply olookup_None_iff_not in Hn.
      apply (Permutation_in _ Hck) in Hn. destruct Hn as [E|Hn]; [discriminate|].
      apply in_map_iff in Hn. destruct Hn as [x [E Hx]]. inv E. exact Hx.
    + intros Hn. apply olookup_None_iff_not.
      apply (Permutation_in _ (Permutation_sym Hck)). right. apply in_map. exact Hn.
  - apply olookup_None_iff_not. apply (Permutation_in _ (Permutation_sym Hck)). left; reflexivity.
  - intros k l ch Hol Hin. apply olookup_In in Hol. unfold sb_cp in Hcp.
    rewrite forallb_forall in Hcp. specialize (Hcp _ Hol). simpl in Hcp.
    rewrite forallb_forall in Hcp. specialize (Hcp _ Hin).
    apply (opt_eqb_eq ostr_eqb ostr_eqb_eq) in Hcp. exact Hcp.
  - intros l Hl. unfold sb_top in Htop. rewrite Hl in Htop. apply Nat.leb_le in Htop. exact Htop.
  - exists (fun n => length (ancestors_for c n)). intros n q Hl.
    assert (Hn : has_state c n = true) by (apply Hpk'; congruence).
    destruct (Hpc' _ _ Hl) as [Hq _]. specialize (Hq q eq_refl).
    assert (Hqne : q <> "") by (intros ->; unfold no_empty_name in Hne; congruence).
    unfold sb_acyc in Hacyc. rewrite forallb_forall in Hacyc.
    apply has_state_In in Hn. specialize (Hacyc _ Hn). apply Nat.ltb_lt in Hacyc.
    unfold ancestors_for in *. rewrite (parent_for_lookup _ _ _ Hl) in *.
    destruct (length (c_parent c)) as [|N]; [inversion Hacyc|].
    assert (E1 : ancestors_fuel c (S N) (Some q) = q :: ancestors_fuel c N (parent_for c q)).
    { rewrite ancestors_fuel_S, (truthy_nonempty q Hqne). reflexivity. }
    rewrite E1 in *. cbn [length] in *.
    assert (Hlt : length (ancestors_fuel c N (parent_for c q)) < N) by lia.
    rewrite (ancestors_fuel_stable c N _ Hlt (S N) (Nat.le_succ_diag_r N)). lia.
  - intros t Hin. unfold sb_trans in Htrans. rewrite forallb_forall in Htrans.
    specialize (Htrans _ Hin). apply andb_true_iff in Htrans. destruct Htrans as [H1 H2].
    unfold state_for in H1. split.
    + destruct (lookup (t_source t) (c_states c)) as [s|]; [|discriminate]. exists s; auto.
    + intros tg E. rewrite E in H2. exact H2.
  - intros k s Hl. apply lookup_In in Hl. unfold sb_refs in Hrefs. rewrite forallb_forall in Hrefs.
    specialize (Hrefs _ Hl). simpl in Hrefs. apply andb_true_iff in Hrefs. destruct Hrefs as [H1 H2].
    split; intros x E; rewrite E in *; assumption.
  - apply (validate_initial_iff c Hnds); exact Hvi.
  - apply (validate_memory_iff c Hnds); exact Hvm.
Qed.

Lemma sound_parent_exists : forall c, sound c ->
  forall n q, lookup n (c_parent c) = Some (Some q) -> lookup q (c_parent c) <> None.
Proof.
  intros c S n q Hl. apply (sd_pkeys c S). destruct (sd_pc c S _ _ Hl) as [H _]. apply H; reflexivity.
Qed.

Theorem sound_sound_b : forall c, sound c -> sound_b c = true.
Proof.
  intros c S. rewrite sound_b_unfold.
  pose proof (sd_nd_states c S) as Hnds. pose proof (sd_nd_parent c S) as Hndp.
  pose proof (sd_nd_children c S) as Hndc.
  repeat (apply andb_true_iff; split).
  - apply nodup_names_iff; exact Hnds.
  - unfold sb_keyname. rewrite forallb_forall. intros [k s] Hin. simpl.
    apply seqb_eq. symmetry. apply (sd_keyname c S). apply In_lookup; assumption.
  - apply sb_pkeys_iff. apply NoDup_Permutation; [assumption|assumption|].
    intros x. rewrite <- has_state_In, <- lookup_Some_In_keys. symmetry. apply (sd_pkeys c S).
  - apply nodup_names_iff; exact Hndp.
  - apply sb_ckeys_iff. apply NoDup_Permutation; [assumption|apply NoDup_map_Some; assumption|].
    intros [x|].
    + rewrite <- olookup_None_iff_not, (sd_ckeys c S), has_state_In. split.
      * intros H; right; apply in_map; exact H.
      * intros [E|H]; [discriminate|]. apply in_map_iff in H. destruct H as [y [E Hy]]. inv E. exact Hy.
    + rewrite <- olookup_None_iff_not. split; [intros _; left; reflexivity|intros _; apply (sd_ctop c S)].
  - unfold sb_pc. rewrite forallb_forall. intros [n p] Hin. simpl.
    destruct (sd_pc c S n p (In_lookup _ _ _ Hndp Hin)) as [H1 [l [H2 H3]]].
    destruct p as [q|].
    + rewrite (H1 q eq_refl). simpl. unfold children_for. rewrite H2. apply Nat.eqb_eq. exact H3.
    + rewrite H2. apply Nat.eqb_eq. exact H3.
  - unfold sb_cp. rewrite forallb_forall. intros [k l] Hin. simpl.
    rewrite forallb_forall. intros ch Hch.
    apply (opt_eqb_eq ostr_eqb ostr_eqb_eq).
    apply (sd_cp c S k l ch); [apply In_olookup; assumption|exact Hch].
  - unfold sb_top. destruct (olookup None (c_children c)) as [l|] eqn:E.
    + apply Nat.leb_le. apply (sd_top c S); exact E.
    + reflexivity.
  - unfold sb_acyc. rewrite forallb_forall. intros n Hn. apply Nat.ltb_lt.
    destruct (sd_acyc c S) as [rank Hr].
    apply (ancestors_short c rank Hr (sound_parent_exists c S)).
    apply (sd_pkeys c S). apply has_state_In. exact Hn.
  - unfold sb_trans. rewrite forallb_forall. intros t Hin.
    destruct (sd_trans c S t Hin) as [[s [H1 H2]] H3]. unfold state_for. rewrite H1, H2. simpl.
    destruct (t_target t) as [tg|]; [apply H3; reflexivity|reflexivity].
  - unfold sb_refs. rewrite forallb_forall. intros [k s] Hin. simpl.
    destruct (sd_refs c S k s (In_lookup _ _ _ Hnds Hin)) as [H1 H2].
    apply andb_true_iff; split.
    + destruct (s_initial s); [apply H1; reflexivity|reflexivity].
    + destruct (s_memory s); [apply H2; reflexivity|reflexivity].
  - apply (validate_initial_iff c Hnds). apply (sd_vinit c S).
  - apply (validate_memory_iff c Hnds). apply (sd_vmem c S).
Qed.

Theorem sound_b_iff : forall c, no_empty_name c -> (sound_b c = true <-> sound c).
Proof. intros c Hne; split; [intros H; apply sound_b_sound; assumption|apply sound_sound_b]. Qed.

(* ------------------------------------------------------------------ consequences of soundness *)
Ltac dseq :=
  match goal with
  | H : context [str_eqb ?a ?b] |- _ => destruct (seqbP a b)
  | |- context [str_eqb ?a ?b] => destruct (seqbP a b)
  | H : context [opt_eqb str_eqb ?a ?b] |- _ => destruct (oeqbP a b)
  | |- context [opt_eqb str_eqb ?a ?b] => destruct (oeqbP a b)
  end.

Lemma sound_child_state : forall c, sound c ->
  forall k l ch, olookup k (c_children c) = Some l -> In ch l -> has_state c ch = true.
Proof.
  intros c S k l ch Hl Hin. apply (sd_pkeys c S). rewrite (sd_cp c S _ _ _ Hl Hin). discriminate.
Qed.

Lemma sound_children_NoDup : forall c, sound c ->
  forall k l, olookup k (c_children c) = Some l -> NoDup l.
Proof.
  intros c S k l Hl. apply (NoDup_count_occ string_dec). intros x.
  destruct (in_dec string_dec x l) as [Hin|Hnin].
  - pose proof (sd_cp c S _ _ _ Hl Hin) as Hp.
    destruct (sd_pc c S _ _ Hp) as [_ [l' [Hl' Hc]]]. rewrite Hl in Hl'. inv Hl'. lia.
  - apply (count_occ_not_In string_dec) in Hnin. lia.
Qed.

Lemma sound_state_parent : forall c, sound c ->
  forall n, has_state c n = true -> exists p, lookup n (c_parent c) = Some p.
Proof.
  intros c S n Hn. apply (sd_pkeys c S) in Hn.
  destruct (lookup n (c_parent c)) as [p|]; [eauto|congruence].
Qed.

Lemma sound_state_children : forall c, sound c ->
  forall n, has_state c n = true -> exists l, olookup (Some n) (c_children c) = Some l.
Proof.
  intros c S n Hn. apply (sd_ckeys c S) in Hn.
  destruct (olookup (Some n) (c_children c)) as [l|]; [eauto|congruence].
Qed.

Lemma sound_nostate_children : forall c, sound c ->
  forall n, has_state c n = false -> olookup (Some n) (c_children c) = None.
Proof.
  intros c S n Hn. destruct (olookup (Some n) (c_children c)) as [l|] eqn:E; [|reflexivity].
  assert (H : has_state c n = true) by (apply (sd_ckeys c S); congruence). congruence.
Qed.

Lemma sound_nostate_parent : forall c, sound c ->
  forall n, has_state c n = false -> lookup n (c_parent c) = None.
Proof.
  intros c S n Hn. destruct (lookup n (c_parent c)) as [l|] eqn:E; [|reflexivity].
  assert (H : has_state c n = true) by (apply (sd_pkeys c S); congruence). congruence.
Qed.

Lemma children_for_lookup : forall c n l, olookup (Some n) (c_children c) = Some l -> children_for c n = l.
Proof. intros c n l H. unfold children_for. rewrite H. reflexivity. Qed.

(* every state has a root above it *)
Lemma sound_has_root : forall c, sound c ->
  forall x, has_state c x = true -> exists r, lookup r (c_parent c) = Some None.
Proof.
  intros c S. destruct (sd_acyc c S) as [rank Hr].
  assert (H : forall k x, rank x < k -> has_state c x = true -> exists r, lookup r (c_parent c) = Some None).
  { induction k as [|k IH]; intros x Hk Hx; [inversion Hk|].
    destruct (sound_state_parent c S x Hx) as [[q|] Hp]; [|eauto].
    apply (IH q).
    - specialize (Hr _ _ Hp). lia.
    - destruct (sd_pc c S _ _ Hp) as [H _]. apply H; reflexivity. }
  intros x Hx. apply (H (Datatypes.S (rank x)) x); auto.
Qed.

Lemma root_of_some : forall (P : list (name * option name)) r,
  In (r, None) P -> exists r', root_of P = Some r' /\ In r' (map fst P).
Proof.
  induction P as [|[n [p|]] P IH]; intros r Hin; simpl in *; [destruct Hin| |].
  - destruct Hin as [E|Hin]; [discriminate|]. destruct (IH _ Hin) as [r' [H1 H2]]. eauto.
  - exists n; auto.
Qed.

Lemma sound_no_root_empty : forall c, sound c -> no_empty_name c ->
  truthy (root c) = None -> forall x, has_state c x = false.
Proof.
  intros c S Hne Hroot x. destruct (has_state c x) eqn:Hx; [|reflexivity]. exfalso.
  destruct (sound_has_root c S x Hx) as [r Hr].
  destruct (root_of_some _ _ (lookup_In _ _ _ Hr)) as [r' [H1 H2]].
  unfold root in Hroot. rewrite H1 in Hroot.
  assert (Hr' : has_state c r' = true) by (apply (sd_pkeys c S); apply lookup_Some_In_keys; exact H2).
  assert (r' <> "") by (intros ->; unfold no_empty_name in Hne; congruence).
  rewrite truthy_nonempty in Hroot by assumption. discriminate.
Qed.

(* ================================================================== 3. C16: preservation *)

(* ------------------------------------------------------------------ transitions only *)
Lemma sound_with_transitions : forall c ts, sound c ->
  (forall t, In t ts ->
      (exists s, lookup (t_source t) (c_states c) = Some s /\ owns_transitions (s_kind s) = true) /\
      (forall tg, t_target t = Some tg -> has_state c tg = true)) ->
  sound (with_transitions c ts).
Proof.
  intros c ts S H. destruct S. constructor; assumption.
Qed.

Lemma add_transition_sound : forall c t c',
  sound c -> add_transition c t = (c', EOk) -> sound c'.
Proof.
  intros c t c' S H. unfold add_transition, state_for in H.
  destruct (lookup (t_source t) (c_states c)) as [s|] eqn:Es; [|discriminate].
  destruct (owns_transitions (s_kind s)) eqn:Eo; simpl in H; [|discriminate].
  assert (Ht : (exists s, lookup (t_source t) (c_states c) = Some s /\ owns_transitions (s_kind s) = true) /\
               (forall tg, t_target t = Some tg -> has_state c tg = true) /\
               c' = with_transitions c (c_transitions c ++ [t])).
  { split; [eauto|]. destruct (t_target t) as [tg|].
    - destruct (has_state c tg) eqn:Etg; inv H. split; [intros x E; inv E; assumption|reflexivity].
    - inv H. split; [intros x E; discriminate|reflexivity]. }
  destruct Ht as [H1 [H2 ->]]. apply sound_with_transitions; [assumption|].
  intros t' Hin. apply in_app_or in Hin. destruct Hin as [Hin|[<-|[]]].
  - apply (sd_trans c S); assumption.
  - split; assumption.
Qed.

Lemma remove_first_trans_In : forall t l l', remove_first_trans t l = Some l' ->
  forall x, In x l' -> In x l.
Proof.
  intros t l; induction l as [|y l IH]; intros l' H x Hx; simpl in H; [discriminate|].
  destruct (trans_eqb y t).
  - inv H. right; assumption.
  - destruct (remove_first_trans t l) as [r|]; [|discriminate]. inv H.
    destruct Hx as [<-|Hx]; [left; reflexivity|right; eapply IH; eauto].
Qed.

Lemma remove_transition_sound : forall c t c',
  sound c -> remove_transition c t = (c', EOk) -> sound c'.
Proof.
  intros c t c' S H. unfold remove_transition in H.
  destruct (remove_first_trans t (c_transitions c)) as [l|] eqn:E; inv H.
  apply sound_with_transitions; [assumption|]. intros t' Hin.
  apply (sd_trans c S). eapply remove_first_trans_In; eauto.
Qed.

Lemma In_set_nth : forall {A} i (y : A) l x, In x (set_nth i y l) -> x = y \/ In x l.
Proof.
  intros A i y l; revert i; induction l as [|z l IH]; intros [|i] x H; simpl in *; auto.
  - destruct H as [<-|H]; auto.
  - destruct H as [<-|H]; auto. destruct (IH _ _ H); auto.
Qed.

Lemma rotate_transition_sound : forall c i s t c',
  sound c -> rotate_transition c i s t = (c', EOk) -> sound c'.
Proof.
  intros c i ns nt c' S H. unfold rotate_transition in H.
  assert (H' : match i with
               | None => (c, EStatechartError)
               | Some i =>
                 match nth_error (c_transitions c) i with
                 | None => (c, EStatechartError)
                 | Some t =>
                   if (match ns with
                       | None => true
                       | Some s => match state_for c s with
                                   | Some st => owns_transitions (s_kind st)
                                   | None => false end end)
                      && (match nt with Some (Some tg) => has_state c tg | _ => true end)
                   then (with_transitions c
                           (set_nth i (match nt with
                                       | Some tg => set_target (match ns with Some s => set_source t s | None => t end) tg
                                       | None => (match ns with Some s => set_source t s | None => t end) end)
                                    (c_transitions c)), EOk)
                   else (c, EStatechartError)
                 end
               end = (c', EOk)).
  { destruct ns, nt; try exact H. discriminate. }
  clear H. destruct i as [i|]; [|discriminate].
  destruct (nth_error (c_transitions c) i) as [t|] eqn:En; [|discriminate].
  match type of H' with (if ?b then _ else _) = _ => destruct b eqn:Eb end; [|discriminate].
  inv H'. apply andb_true_iff in Eb. destruct Eb as [Es Et].
  apply sound_with_transitions; [assumption|]. intros t' Hin.
  apply In_set_nth in Hin. destruct Hin as [->|Hin]; [|apply (sd_trans c S); assumption].
  apply nth_error_In in En. destruct (sd_trans c S t En) as [Hsrc Htgt].
  assert (Hsrc' : exists s, lookup (t_source (match ns with Some s => set_source t s | None => t end)) (c_states c) = Some s
                            /\ owns_transitions (s_kind s) = true).
  { destruct ns as [s|]; [|exact Hsrc]. simpl. unfold state_for in Es.
    destruct (lookup s (c_states c)) as [st|]; [eauto|discriminate]. }
  assert (Htgt' : forall tg, t_target (match ns with Some s => set_source t s | None => t end) = Some tg -> has_state c tg = true).
  { destruct ns; exact Htgt. }
  destruct nt as [[tg|]|]; simpl.
  - split; [exact Hsrc'|]. intros x E; inv E; exact Et.
  - split; [exact Hsrc'|]. intros x E; discriminate.
  - split; assumption.
Qed.

(* ------------------------------------------------------------------ key lists stay duplicate-free *)
Lemma NoDup_keys_dset : forall {V} k (v : V) d, NoDup (map fst d) -> NoDup (map fst (dset k v d)).
Proof.
  intros V k v d H. rewrite keys_dset. destruct (mem k (map fst d)) eqn:E; [exact H|].
  apply NoDup_snoc; [exact H|]. apply mem_false_iff; exact E.
Qed.

Lemma NoDup_keys_dremove : forall {V} k (d : list (name * V)), NoDup (map fst d) -> NoDup (map fst (dremove k d)).
Proof. intros V k d H. rewrite keys_dremove. apply NoDup_remove_first; exact H. Qed.

Lemma okeys_oset : forall {V} k (v : V) d,
  map fst (oset k v d) = if in_dec oname_dec k (map fst d) then map fst d else map fst d ++ [k].
Proof.
  intros V k v d; induction d as [|[k0 v0] d IH]; simpl; [reflexivity|].
  destruct (oeqbP k k0) as [->|Hn]; simpl.
  - destruct (oname_dec k0 k0); [reflexivity|congruence].
  - rewrite IH. destruct (oname_dec k0 k); [congruence|].
    destruct (in_dec oname_dec k (map fst d)); reflexivity.
Qed.

Lemma NoDup_keys_oset : forall {V} k (v : V) d, NoDup (map fst d) -> NoDup (map fst (oset k v d)).
Proof.
  intros V k v d H. rewrite okeys_oset. destruct (in_dec oname_dec k (map fst d)); [exact H|].
  apply NoDup_snoc; assumption.
Qed.

Lemma NoDup_keys_oremove : forall {V} k (d : list (option name * V)),
  NoDup (map fst d) -> NoDup (map fst (oremove k d)).
Proof.
  intros V k d; induction d as [|[k0 v0] d IH]; simpl; intros H; [constructor|].
  inv H. destruct (oeqbP k k0); [assumption|]. simpl. constructor; [|auto].
  intros Hin. apply H2. clear - Hin. induction d as [|[k1 v1] d IH]; simpl in *; [auto|].
  destruct (opt_eqb str_eqb k k1); simpl in *; [right; assumption|destruct Hin; auto].
Qed.

(* ------------------------------------------------------------------ add_state *)
Definition register_chart (c : chart) (st : state) (parent : option name) (l : list name) : chart :=
  mkChart (c_name c) (c_description c) (c_preamble c)
          (dset (s_name st) st (c_states c))
          (dset (s_name st) parent (c_parent c))
          (oset parent (l ++ [s_name st]) (oset (Some (s_name st)) [] (c_children c)))
          (c_transitions c).

Lemma has_state_mk : forall a b d S P C T k,
  has_state (mkChart a b d S P C T) k = match lookup k S with Some _ => true | None => false end.
Proof. reflexivity. Qed.

Lemma register_sound : forall c st parent l,
  sound c -> has_state c (s_name st) = false ->
  s_initial st = None -> s_memory st = None ->
  (forall q, parent = Some q -> has_state c q = true) ->
  olookup parent (c_children c) = Some l ->
  (parent = None -> l = []) ->
  sound (register_chart c st parent l).
Proof.
  intros c st parent l HS Hfresh Hi Hm Hpar Hl Htop.
  set (nm := s_name st) in *.
  set (c' := register_chart c st parent l).
  assert (V1 : forall k, lookup k (c_states c') = if str_eqb k nm then Some st else lookup k (c_states c)).
  { intros k. apply lookup_dset. }
  assert (V2 : forall k, lookup k (c_parent c') = if str_eqb k nm then Some parent else lookup k (c_parent c)).
  { intros k. apply lookup_dset. }
  assert (Hpn : parent <> Some nm).
  { intros E. rewrite (Hpar nm E) in Hfresh. discriminate. }
  assert (V3 : forall k, olookup k (c_children c') =
                         if opt_eqb str_eqb k parent then Some (l ++ [nm])
                         else if opt_eqb str_eqb k (Some nm) then Some [] else olookup k (c_children c)).
  { intros k. unfold c', register_chart. cbn [c_children]. rewrite !olookup_oset. reflexivity. }
  assert (V4 : forall k, has_state c' k = str_eqb k nm || has_state c k).
  { intros k. unfold has_state. rewrite V1. destruct (str_eqb k nm); reflexivity. }
  assert (Hmono : forall k, has_state c k = true -> has_state c' k = true).
  { intros k Hk. rewrite V4, Hk. apply orb_true_r. }
  assert (Hlst : forall x, In x l -> x <> nm).
  { intros x Hx ->. rewrite (sound_child_state c HS _ _ _ Hl Hx) in Hfresh. discriminate. }
  assert (Hch : forall k, incl (children_for c k) (children_for c' k)).
  { intros k x Hx. unfold children_for in *. rewrite V3.
    destruct (oeqbP (Some k) parent) as [E|E].
    - rewrite <- E in Hl. rewrite Hl in Hx. apply in_or_app; left; exact Hx.
    - destruct (oeqbP (Some k) (Some nm)) as [E2|E2]; [|exact Hx].
      inv E2. rewrite (sound_nostate_children c HS _ Hfresh) in Hx. destruct Hx. }
  constructor.
  - apply NoDup_keys_dset. apply (sd_nd_states c HS).
  - apply NoDup_keys_dset. apply (sd_nd_parent c HS).
  - unfold c', register_chart. cbn [c_children]. do 2 apply NoDup_keys_oset. apply (sd_nd_children c HS).
  - intros k s. rewrite V1. destruct (seqbP k nm) as [->|Hn]; [intros E; inv E; reflexivity|apply (sd_keyname c HS)].
  - intros k. rewrite V2, V4. destruct (seqbP k nm); simpl; [split; [reflexivity|discriminate]|apply (sd_pkeys c HS)].
  - intros k. rewrite V3, V4. destruct (oeqbP (Some k) parent) as [E|E].
    + split; [intros _|discriminate]. rewrite (Hpar k (eq_sym E)). apply orb_true_r.
    + destruct (oeqbP (Some k) (Some nm)) as [E2|E2].
      * inv E2. rewrite seqb_refl. simpl. split; [reflexivity|discriminate].
      * destruct (seqbP k nm); [congruence|]. simpl. apply (sd_ckeys c HS).
  - rewrite V3. destruct (oeqbP None parent); [discriminate|]. simpl. apply (sd_ctop c HS).
  - intros n p. rewrite V2. destruct (seqbP n nm) as [->|Hn].
    + intros E; inv E. split; [intros q E; apply Hmono, Hpar, E|].
      exists (l ++ [nm]). rewrite V3, oeqb_refl. split; [reflexivity|].
      rewrite count_occ_snoc. destruct (string_dec nm nm); [|congruence].
      assert (count_occ string_dec l nm = 0); [|lia].
      apply (count_occ_not_In string_dec). intros Hin. apply (Hlst _ Hin). reflexivity.
    + intros Hp. destruct (sd_pc c HS _ _ Hp) as [H1 [l0 [H2 H3]]].
      split; [intros q E; apply Hmono, (H1 q E)|].
      rewrite V3. destruct (oeqbP p parent) as [->|E].
      * rewrite Hl in H2. inv H2. exists (l0 ++ [nm]). split; [reflexivity|].
        rewrite count_occ_snoc. destruct (string_dec nm n); [congruence|lia].
      * destruct (oeqbP p (Some nm)) as [->|E2]; [|eauto].
        rewrite (H1 nm eq_refl) in Hfresh. discriminate.
  - intros k l' ch. rewrite V3, V2. destruct (oeqbP k parent) as [->|E].
    + intros E; inv E. intros Hin. apply in_app_or in Hin. destruct Hin as [Hin|[<-|[]]].
      * destruct (seqbP ch nm) as [->|_]; [exfalso; apply (Hlst _ Hin); reflexivity|].
        apply (sd_cp c HS _ _ _ Hl Hin).
      * rewrite seqb_refl. reflexivity.
    + destruct (oeqbP k (Some nm)); [intros E2; inv E2; intros []|].
      intros Hl' Hin. destruct (seqbP ch nm) as [->|_].
      * rewrite (sound_child_state c HS _ _ _ Hl' Hin) in Hfresh. discriminate.
      * apply (sd_cp c HS _ _ _ Hl' Hin).
  - intros l'. rewrite V3. destruct (oeqbP None parent) as [E|E].
    + rewrite (Htop (eq_sym E)). intros E2; inv E2. simpl. lia.
    + simpl. apply (sd_top c HS).
  - destruct (sd_acyc c HS) as [rank Hr].
    exists (fun x => if str_eqb x nm then Datatypes.S (match parent with Some q => rank q | None => 0 end) else rank x).
    intros n q. rewrite V2. destruct (seqbP n nm) as [->|Hn].
    + intros E; inv E. destruct (seqbP q nm) as [->|_]; [congruence|lia].
    + intros Hp. destruct (seqbP q nm) as [->|_].
      * destruct (sd_pc c HS _ _ Hp) as [H1 _]. rewrite (H1 nm eq_refl) in Hfresh. discriminate.
      * apply (Hr _ _ Hp).
  - intros t Hin. destruct (sd_trans c HS t Hin) as [[s [H1 H2]] H3]. split.
    + exists s. rewrite V1. destruct (seqbP (t_source t) nm) as [E|_]; [|auto].
      apply has_state_false in Hfresh. fold nm in Hfresh. rewrite <- E in Hfresh. congruence.
    + intros tg E. apply Hmono, (H3 tg E).
  - intros k s. rewrite V1. destruct (seqbP k nm) as [->|Hn].
    + intros E; inv E. rewrite Hi, Hm. split; intros x E; discriminate.
    + intros Hk. destruct (sd_refs c HS _ _ Hk) as [H1 H2]. split; intros x E; apply Hmono; auto.
  - intros k s i. rewrite V1. destruct (seqbP k nm) as [->|Hn].
    + intros E; inv E. rewrite Hi. simpl. discriminate.
    + intros Hk Hkind Hini. destruct (sd_vinit c HS _ _ _ Hk Hkind Hini) as [H1 H2].
      split; [apply Hmono, H1|apply Hch, H2].
  - intros k s m. rewrite V1. destruct (seqbP k nm) as [->|Hn].
    + intros E; inv E. rewrite Hm. discriminate.
    + intros Hk Hkind Hmem. destruct (sd_vmem c HS _ _ _ Hk Hkind Hmem) as [H1 [H2 [p [H3 H4]]]].
      split; [exact H1|]. split; [apply Hmono, H2|]. exists p. split; [|apply Hch, H4].
      unfold parent_for in *. rewrite V2. destruct (seqbP k nm); [congruence|exact H3].
Qed.

Lemma no_parent_true : forall p, no_parent p = true <-> p = None \/ p = @Some name "".
Proof.
  intros [[|a s]|]; unfold no_parent; simpl; split; auto; try discriminate.
  intros [H|H]; discriminate.
Qed.

Lemma add_state_inv : forall c st parent c' r,
  add_state c st parent = (c', r) -> r = EOk \/ r = EKeyError ->
  has_state c (s_name st) = false /\
  ((no_parent parent = true /\ truthy (root c) = None) \/
   (no_parent parent = false /\ exists p, parent = Some p /\ has_state c p = true)) /\
  match olookup parent (oset (Some (s_name st)) [] (c_children c)) with
  | Some l => c' = register_chart c st parent l /\ r = EOk
  | None => r = EKeyError
  end.
Proof.
  intros c st parent c' r H Hr. unfold add_state in H.
  destruct (has_state c (s_name st)) eqn:Ehs; [inv H; destruct Hr; discriminate|].
  split; [reflexivity|].
  assert (Hreg : forall (cond : Prop), cond ->
     (let c1 := with_states c (dset (s_name st) st (c_states c)) in
      let c2 := with_parent c1 (dset (s_name st) parent (c_parent c1)) in
      let c3 := with_children c2 (oset (Some (s_name st)) [] (c_children c2)) in
      match olookup parent (c_children c3) with
      | Some l => (with_children c3 (oset parent (l ++ [s_name st]) (c_children c3)), EOk)
      | None => (c3, EKeyError)
      end) = (c', r) ->
     cond /\ match olookup parent (oset (Some (s_name st)) [] (c_children c)) with
             | Some l => c' = register_chart c st parent l /\ r = EOk
             | None => r = EKeyError
             end).
  { intros cond Hc H0. split; [exact Hc|]. cbv zeta in H0. cbn [c_children with_children with_parent with_states c_parent c_states] in H0.
    destruct (olookup parent (oset (Some (s_name st)) [] (c_children c))) as [l|]; inv H0; auto. }
  destruct (no_parent parent) eqn:Enp.
  - destruct (truthy (root c)) eqn:Er; [inv H; destruct Hr; discriminate|].
    destruct (is_history (s_kind st)); [inv H; destruct Hr; discriminate|].
    apply Hreg; auto.
  - destruct parent as [p|]; [|inv H; destruct Hr; discriminate].
    unfold state_for in H. destruct (lookup p (c_states c)) as [ps|] eqn:Ep; [|inv H; destruct Hr; discriminate].
    destruct (negb (is_composite (s_kind ps))); [inv H; destruct Hr; discriminate|].
    destruct (is_history (s_kind st) && negb (kind_eqb (s_kind ps) KCompound)); [inv H; destruct Hr; discriminate|].
    apply Hreg; [|exact H]. right. split; [reflexivity|]. exists p. split; [reflexivity|].
    unfold has_state. rewrite Ep. reflexivity.
Qed.

Lemma add_state_ok : forall c st parent c' r,
  sound c -> no_empty_name c -> s_name st <> "" ->
  add_state c st parent = (c', r) -> r = EOk \/ r = EKeyError ->
  (r = EOk /\ exists l, olookup parent (c_children c) = Some l /\ (parent = None -> l = []) /\
     (forall q, parent = Some q -> has_state c q = true) /\
     has_state c (s_name st) = false /\ c' = register_chart c st parent l)
  \/ (r = EKeyError /\ parent = Some "").
Proof.
  intros c st parent c' r HS Hne Hnm H Hr.
  destruct (add_state_inv _ _ _ _ _ H Hr) as [Hfresh [Hcond Hreg]].
  rewrite olookup_oset in Hreg.
  destruct Hcond as [[Hnp Hroot]|[Hnp [p [-> Hp]]]].
  - pose proof (sound_no_root_empty c HS Hne Hroot) as Hempty.
    apply no_parent_true in Hnp. destruct Hnp as [->| ->].
    + simpl in Hreg. destruct (olookup None (c_children c)) as [l|] eqn:El.
      * destruct Hreg as [-> ->]. left. split; [reflexivity|]. exists l. split; [reflexivity|].
        split; [|split; [intros q E; discriminate|split; [exact Hfresh|reflexivity]]].
        intros _. destruct l as [|x l]; [reflexivity|].
        specialize (Hempty x). rewrite (sound_child_state c HS _ _ x El) in Hempty; [discriminate|left; reflexivity].
      * exfalso. apply (sd_ctop c HS). exact El.
    + destruct (oeqbP (@Some name "") (Some (s_name st))) as [E|_]; [inv E; congruence|].
      rewrite (sound_nostate_children c HS "" (Hempty "")) in Hreg. right. auto.
  - destruct (oeqbP (Some p) (Some (s_name st))) as [E|_]; [inv E; congruence|].
    destruct (sound_state_children c HS p Hp) as [l El]. rewrite El in Hreg. destruct Hreg as [-> ->].
    left. split; [reflexivity|]. exists l. split; [exact El|]. split; [discriminate|].
    split; [intros q E; inv E; exact Hp|]. split; [exact Hfresh|reflexivity].
Qed.

Lemma add_state_sound : forall c st parent c',
  sound c -> no_empty_name c ->
  s_name st <> "" -> s_initial st = None -> s_memory st = None ->
  add_state c st parent = (c', EOk) -> sound c'.
Proof.
  intros c st parent c' HS Hne Hnm Hi Hm H.
  destruct (add_state_ok _ _ _ _ _ HS Hne Hnm H (or_introl eq_refl)) as [[_ [l [Hl [Htop [Hpar [Hfresh ->]]]]]]|[E _]]; [|discriminate].
  apply register_sound; assumption.
Qed.

Lemma add_state_no_keyerror : forall c st parent c',
  sound c -> no_empty_name c -> s_name st <> "" -> parent <> Some "" ->
  add_state c st parent = (c', EKeyError) -> False.
Proof.
  intros c st parent c' HS Hne Hnm Hp H.
  destruct (add_state_ok _ _ _ _ _ HS Hne Hnm H (or_intror eq_refl)) as [[E _]|[_ E]]; [discriminate|auto].
Qed.

(* ------------------------------------------------------------------ ancestors as a relation, bfs *)
Inductive anc (c : chart) : name -> name -> Prop :=
| anc_parent : forall x a, lookup x (c_parent c) = Some (Some a) -> anc c x a
| anc_step : forall x q a, lookup x (c_parent c) = Some (Some q) -> anc c q a -> anc c x a.

Lemma anc_inv : forall c x a, anc c x a ->
  exists q, lookup x (c_parent c) = Some (Some q) /\ (q = a \/ anc c q a).
Proof. intros c x a H. inversion H; subst; eauto. Qed.

Lemma anc_trans : forall c x y z, anc c x y -> anc c y z -> anc c x z.
Proof.
  intros c x y z H; induction H as [x a H|x q a H H' IH]; intros Hz.
  - eapply anc_step; eauto.
  - eapply anc_step; eauto.
Qed.

Lemma anc_rank : forall c rank, rank_ok c rank -> forall x a, anc c x a -> rank a < rank x.
Proof.
  intros c rank Hr x a H; induction H as [x a H|x q a H H' IH].
  - apply (Hr _ _ H).
  - specialize (Hr _ _ H). lia.
Qed.

Lemma sound_anc_irrefl : forall c, sound c -> forall x, ~ anc c x x.
Proof.
  intros c HS x H. destruct (sd_acyc c HS) as [rank Hr]. pose proof (anc_rank c rank Hr _ _ H). lia.
Qed.

Lemma sound_child_parent : forall c, sound c ->
  forall x ch, In ch (children_for c x) -> lookup ch (c_parent c) = Some (Some x).
Proof.
  intros c HS x ch Hin. unfold children_for in Hin.
  destruct (olookup (Some x) (c_children c)) as [l|] eqn:E; [|destruct Hin].
  apply (sd_cp c HS _ _ _ E Hin).
Qed.

Lemma sound_parent_child : forall c, sound c ->
  forall x ch, lookup ch (c_parent c) = Some (Some x) -> In ch (children_for c x).
Proof.
  intros c HS x ch Hp. destruct (sd_pc c HS _ _ Hp) as [_ [l [Hl Hc]]].
  unfold children_for. rewrite Hl. apply count_occ_one_In; exact Hc.
Qed.

Lemma sound_children_for_NoDup : forall c, sound c -> forall x, NoDup (children_for c x).
Proof.
  intros c HS x. unfold children_for.
  destruct (olookup (Some x) (c_children c)) as [l|] eqn:E; [|constructor].
  apply (sound_children_NoDup c HS _ _ E).
Qed.

Lemma bfs_S : forall c f n q,
  bfs c (S f) (n :: q) = children_for c n ++ bfs c f (q ++ children_for c n).
Proof. reflexivity. Qed.

(* everything bfs outputs is a strict descendant of a queue element *)
Lemma bfs_sound : forall c, sound c -> forall f q y,
  In y (bfs c f q) -> exists x, In x q /\ anc c y x.
Proof.
  intros c HS f; induction f as [|f IH]; intros q y Hy; [destruct Hy|].
  destruct q as [|n q]; [destruct Hy|]. rewrite bfs_S in Hy.
  apply in_app_or in Hy. destruct Hy as [Hy|Hy].
  - exists n. split; [left; reflexivity|]. apply anc_parent. apply sound_child_parent; assumption.
  - destruct (IH _ _ Hy) as [x [Hx Ha]]. apply in_app_or in Hx. destruct Hx as [Hx|Hx].
    + exists x. split; [right; exact Hx|exact Ha].
    + exists n. split; [left; reflexivity|]. eapply anc_trans; [exact Ha|].
      apply anc_parent. apply sound_child_parent; assumption.
Qed.

(* if the fuel was not exhausted the output is closed under children *)
Lemma bfs_closed : forall c f q,
  length q + length (bfs c f q) <= f ->
  forall x, In x (q ++ bfs c f q) -> incl (children_for c x) (bfs c f q).
Proof.
  intros c f; induction f as [|f IH]; intros q Hlen x Hx.
  - destruct q; simpl in *; [destruct Hx|lia].
  - destruct q as [|n q]; [destruct Hx|]. rewrite bfs_S in *.
    assert (Hlen' : length (q ++ children_for c n) + length (bfs c f (q ++ children_for c n)) <= f).
    { rewrite app_length in *. simpl in Hlen. lia. }
    specialize (IH _ Hlen'). destruct Hx as [<-|Hx].
    + intros y Hy. apply in_or_app; left; exact Hy.
    + intros y Hy. apply in_or_app; right. apply (IH x); [|exact Hy].
      rewrite <- app_assoc. exact Hx.
Qed.

Lemma NoDup_app_intro : forall {A} (l1 l2 : list A),
  NoDup l1 -> NoDup l2 -> (forall x, In x l1 -> In x l2 -> False) -> NoDup (l1 ++ l2).
Proof.
  intros A l1; induction l1 as [|a l1 IH]; simpl; intros l2 H1 H2 H; [exact H2|].
  inv H1. constructor.
  - intros Hin. apply in_app_or in Hin. destruct Hin as [Hin|Hin]; [auto|]. apply (H a); auto.
  - apply IH; auto. intros x Hx1 Hx2. apply (H x); auto.
Qed.

Definition antichain (c : chart) (q : list name) : Prop :=
  NoDup q /\ forall x y, In x q -> In y q -> ~ anc c x y.

Lemma antichain_step : forall c, sound c -> forall n q,
  antichain c (n :: q) -> antichain c (q ++ children_for c n).
Proof.
  intros c HS n q [Hnd Han]. inv Hnd.
  assert (Hchp : forall ch, In ch (children_for c n) -> anc c ch n).
  { intros ch Hch. apply anc_parent. apply sound_child_parent; assumption. }
  split.
  - apply NoDup_app_intro; [assumption|apply sound_children_for_NoDup; assumption|].
    intros x Hx Hch. apply (Han x n); [right; exact Hx|left; reflexivity|apply Hchp; exact Hch].
  - intros x y Hx Hy Ha. apply in_app_or in Hx. apply in_app_or in Hy.
    destruct Hx as [Hx|Hx], Hy as [Hy|Hy].
    + apply (Han x y); [right; assumption|right; assumption|exact Ha].
    + (* y child of n, x in q, y ancestor of x: then n ancestor of x *)
      apply (Han x n); [right; assumption|left; reflexivity|].
      eapply anc_trans; [exact Ha|apply Hchp; exact Hy].
    + (* x child of n, y in q ancestor of x: y = n or y ancestor of n *)
      destruct (anc_inv _ _ _ Ha) as [p [Hp Hor]].
      rewrite (sound_child_parent c HS _ _ Hx) in Hp. inv Hp.
      destruct Hor as [->|Hor]; [apply H1; exact Hy|].
      apply (Han p y); [left; reflexivity|right; assumption|exact Hor].
    + destruct (anc_inv _ _ _ Ha) as [p [Hp Hor]].
      rewrite (sound_child_parent c HS _ _ Hx) in Hp. inv Hp.
      destruct Hor as [->|Hor].
      * apply (sound_anc_irrefl c HS y). apply Hchp; exact Hy.
      * apply (sound_anc_irrefl c HS p). eapply anc_trans; [exact Hor|apply Hchp; exact Hy].
Qed.

Lemma bfs_NoDup : forall c, sound c -> forall f q,
  antichain c q -> NoDup (q ++ bfs c f q).
Proof.
  intros c HS f; induction f as [|f IH]; intros q Haq.
  - simpl. rewrite app_nil_r. apply Haq.
  - destruct q as [|n q]; [constructor|]. rewrite bfs_S.
    pose proof (IH _ (antichain_step c HS n q Haq)) as Hnd. rewrite <- app_assoc in Hnd.
    simpl. constructor; [|exact Hnd]. destruct Haq as [Hq Han]. inv Hq.
    intros Hin. apply in_app_or in Hin. destruct Hin as [Hin|Hin]; [auto|].
    apply in_app_or in Hin. destruct Hin as [Hin|Hin].
    + apply (sound_anc_irrefl c HS n). apply anc_parent. apply sound_child_parent; assumption.
    + destruct (bfs_sound c HS _ _ _ Hin) as [x [Hx Ha]]. apply in_app_or in Hx.
      destruct Hx as [Hx|Hx].
      * apply (Han n x); [left; reflexivity|right; assumption|exact Ha].
      * apply (sound_anc_irrefl c HS n). eapply anc_trans; [exact Ha|].
        apply anc_parent. apply sound_child_parent; assumption.
Qed.

Lemma NoDup_app_r : forall {A} (l1 l2 : list A), NoDup (l1 ++ l2) -> NoDup l2.
Proof. intros A l1; induction l1 as [|x l1 IH]; simpl; intros l2 H; [exact H|inv H; auto]. Qed.

Theorem descendants_for_spec : forall c, sound c -> forall n x,
  In x (descendants_for c n) <-> anc c x n.
Proof.
  intros c HS n x. unfold descendants_for. split.
  - intros H. destruct (bfs_sound c HS _ _ _ H) as [y [[<-|[]] Ha]]. exact Ha.
  - assert (Hac : antichain c [n]).
    { split; [constructor; [intros []|constructor]|].
      intros a b [<-|[]] [<-|[]]. apply sound_anc_irrefl; assumption. }
    pose proof (bfs_NoDup c HS (S (length (c_states c))) [n] Hac) as Hnd.
    apply NoDup_app_r in Hnd.
    assert (Hincl : incl (bfs c (S (length (c_states c))) [n]) (map fst (c_states c))).
    { intros y Hy. destruct (bfs_sound c HS _ _ _ Hy) as [z [_ Ha]].
      destruct (anc_inv _ _ _ Ha) as [p [Hp _]]. apply has_state_In. apply (sd_pkeys c HS). congruence. }
    pose proof (NoDup_incl_length Hnd Hincl) as Hlen. rewrite map_length in Hlen.
    assert (Hcl := bfs_closed c (S (length (c_states c))) [n]).
    change (length [n]) with 1 in Hcl. specialize (Hcl ltac:(lia)).
    intros Ha. induction Ha as [x a Hp|x q a Hp Ha IH].
    + apply (Hcl a); [left; reflexivity|]. apply sound_parent_child; assumption.
    + apply (Hcl q); [right; apply IH; assumption|]. apply sound_parent_child; assumption.
Qed.

(* ------------------------------------------------------------------ move_state *)
Definition mv_state (n k : name) (s : state) : state :=
  clear_refs_move n (if str_eqb k n && is_history (s_kind s) then set_memory_ s None else s).

Definition mv_list (n np : name) (k : option name) (l : list name) : list name :=
  if opt_eqb str_eqb k (Some np) then remove_first n l ++ [n] else remove_first n l.

Lemma ostr_eqb_Some_false : forall (i n : name), ostr_eqb (Some i) (Some n) = false -> i <> n.
Proof. intros i n H E. subst. unfold ostr_eqb in H. simpl in H. rewrite seqb_refl in H. discriminate. Qed.

Lemma kind_compound_not_history : forall k, k = KCompound -> is_history k = true -> False.
Proof. intros k -> H; discriminate. Qed.

Ltac fin_refs :=
  repeat split; try discriminate; try congruence;
  let Hk := fresh "Hk" in
  intros Hk;
  first
    [ match goal with E : kind_eqb _ _ = false |- _ => rewrite Hk in E; discriminate end
    | match goal with E : kind_eqb ?k _ = true, E2 : is_history ?k = true |- _ =>
        apply kind_eqb_eq in E; rewrite E in E2; discriminate end
    | match goal with E : ostr_eqb ?a (Some _) = false, H : ?a = Some _ |- _ =>
        rewrite H in E; apply ostr_eqb_Some_false; exact E end
    | idtac ].

Lemma clear_refs_move_spec : forall n s,
  s_name (clear_refs_move n s) = s_name s /\ s_kind (clear_refs_move n s) = s_kind s /\
  (forall i, s_initial (clear_refs_move n s) = Some i ->
     s_initial s = Some i /\ (s_kind s = KCompound -> i <> n)) /\
  (forall m, s_memory (clear_refs_move n s) = Some m ->
     s_memory s = Some m /\ (is_history (s_kind s) = true -> m <> n)).
Proof.
  intros n s. unfold clear_refs_move.
  destruct (kind_eqb (s_kind s) KCompound) eqn:Ec;
  destruct (ostr_eqb (s_initial s) (Some n)) eqn:Ei; simpl;
  destruct (is_history (s_kind s)) eqn:Eh;
  destruct (ostr_eqb (s_memory s) (Some n)) eqn:Em; simpl; fin_refs.
Qed.

Lemma mv_state_spec : forall n k s,
  s_name (mv_state n k s) = s_name s /\ s_kind (mv_state n k s) = s_kind s /\
  (forall i, s_initial (mv_state n k s) = Some i ->
     s_initial s = Some i /\ (s_kind s = KCompound -> i <> n)) /\
  (forall m, s_memory (mv_state n k s) = Some m ->
     s_memory s = Some m /\ (is_history (s_kind s) = true -> m <> n /\ k <> n)).
Proof.
  intros n k s. unfold mv_state.
  set (s0 := if str_eqb k n && is_history (s_kind s) then set_memory_ s None else s).
  destruct (clear_refs_move_spec n s0) as [H1 [H2 [H3 H4]]].
  assert (E : s_name s0 = s_name s /\ s_kind s0 = s_kind s /\ s_initial s0 = s_initial s /\
              (forall m, s_memory s0 = Some m -> s_memory s = Some m /\ (is_history (s_kind s) = true -> k <> n))).
  { unfold s0. destruct (seqbP k n) as [Ek|Ek]; destruct (is_history (s_kind s)) eqn:Eh; simpl;
      repeat split; try discriminate; auto. }
  destruct E as [E1 [E2 [E3 E4]]].
  rewrite H1, H2, E1, E2. split; [reflexivity|]. split; [reflexivity|]. split.
  - intros i Hi. destruct (H3 i Hi) as [Ha Hb]. rewrite E3, E2 in *. auto.
  - intros m Hm. destruct (H4 m Hm) as [Ha Hb]. destruct (E4 m Ha) as [Hc Hd]. rewrite E2 in *. auto.
Qed.

Lemma move_state_inv : forall c n np c' r,
  move_state c n np = (c', r) -> r = EOk \/ r = EKeyError ->
  exists st, lookup n (c_states c) = Some st /\ has_state c np = true /\
    mem np (n :: descendants_for c n) = false /\
    match olookup (parent_for c n) (c_children c) with
    | None => r = EKeyError
    | Some l =>
        r = EOk /\
        c' = mkChart (c_name c) (c_description c) (c_preamble c)
               (map (fun kv => (fst kv, clear_refs_move n (snd kv)))
                    (if is_history (s_kind st) then dset n (set_memory_ st None) (c_states c) else c_states c))
               (dset n (Some np) (c_parent c))
               (let ch1 := oset (parent_for c n) (remove_first n l) (c_children c) in
                oset (Some np) ((match olookup (Some np) ch1 with Some x => x | None => [] end) ++ [n]) ch1)
               (c_transitions c)
    end.
Proof.
  intros c n np c' r H Hr. unfold move_state, state_for in H.
  destruct (lookup n (c_states c)) as [st|] eqn:Est; [|inv H; destruct Hr; discriminate].
  exists st. split; [reflexivity|].
  destruct (has_state c np) eqn:Enp; cbn [negb] in H; [|inv H; destruct Hr; discriminate].
  split; [reflexivity|].
  destruct (mem np (n :: descendants_for c n)) eqn:Em; [inv H; destruct Hr; discriminate|].
  split; [reflexivity|].
  destruct (olookup (parent_for c n) (c_children c)) as [l|]; inv H; auto.
Qed.

Lemma move_state_sound : forall c n np c',
  sound c -> move_state c n np = (c', EOk) -> sound c'.
Proof.
  intros c n np c' HS H.
  destruct (move_state_inv _ _ _ _ _ H (or_introl eq_refl)) as [st [Hst [Hnp [Hguard Hm]]]].
  assert (Hn : has_state c n = true) by (unfold has_state; rewrite Hst; reflexivity).
  destruct (sound_state_parent c HS n Hn) as [op Hop].
  rewrite (parent_for_lookup _ _ _ Hop) in Hm.
  destruct (sd_pc c HS _ _ Hop) as [Hopq [l [Hl Hcnt]]]. rewrite Hl in Hm.
  destruct Hm as [_ Hc']. cbv zeta in Hc'. subst c'.
  match goal with |- sound ?x => set (c' := x) end.
  (* the guard: np is neither n nor a descendant *)
  assert (Hnpn : np <> n /\ ~ anc c np n).
  { apply mem_false_iff in Hguard. split.
    - intros E; apply Hguard; left; auto.
    - intros E; apply Hguard; right. apply descendants_for_spec; assumption. }
  destruct Hnpn as [Hnpn Hnanc].
  (* lists containing n *)
  assert (Hnin : forall k lk, olookup k (c_children c) = Some lk -> k <> op -> ~ In n lk).
  { intros k lk Hk Hne Hin. rewrite (sd_cp c HS _ _ _ Hk Hin) in Hop. congruence. }
  destruct (sound_state_children c HS np Hnp) as [lnp Hlnp].
  assert (V1 : forall k, lookup k (c_states c') = option_map (mv_state n k) (lookup k (c_states c))).
  { intros k. unfold c'. cbn [c_states]. rewrite lookup_mapv. unfold mv_state.
    destruct (is_history (s_kind st)) eqn:Eh.
    - rewrite lookup_dset. destruct (seqbP k n) as [->|Hk]; simpl.
      + rewrite Hst. simpl. rewrite Eh. reflexivity.
      + destruct (lookup k (c_states c)); reflexivity.
    - destruct (seqbP k n) as [->|Hk]; simpl.
      + rewrite Hst. simpl. rewrite Eh. reflexivity.
      + destruct (lookup k (c_states c)); reflexivity. }
  assert (V2 : forall k, lookup k (c_parent c') = if str_eqb k n then Some (Some np) else lookup k (c_parent c)).
  { intros k. unfold c'. cbn [c_parent]. apply lookup_dset. }
  assert (V3 : forall k, olookup k (c_children c') = option_map (mv_list n np k) (olookup k (c_children c))).
  { intros k. unfold c'. cbn [c_children]. rewrite !olookup_oset. unfold mv_list.
    destruct (oeqbP k (Some np)) as [->|Hk].
    - rewrite Hlnp. cbn [option_map]. destruct (oeqbP (Some np) op) as [E|E].
      + assert (E2 : l = lnp) by congruence. rewrite E2. reflexivity.
      + rewrite (remove_first_notin n lnp); [reflexivity|]. apply (Hnin _ _ Hlnp E).
    - destruct (oeqbP k op) as [->|Hk2].
      + rewrite Hl. reflexivity.
      + destruct (olookup k (c_children c)) as [lk|] eqn:Ek; [|reflexivity]. simpl.
        rewrite (remove_first_notin n lk); [reflexivity|]. apply (Hnin _ _ Ek Hk2). }
  assert (V4 : forall k, has_state c' k = has_state c k).
  { intros k. unfold has_state. rewrite V1. destruct (lookup k (c_states c)); reflexivity. }
  assert (Hmv : forall k lk x, olookup k (c_children c) = Some lk -> x <> n -> In x lk -> In x (mv_list n np k lk)).
  { intros k lk x _ Hx Hin. unfold mv_list.
    destruct (opt_eqb str_eqb k (Some np)); [apply in_or_app; left|]; apply In_remove_first_neq; assumption. }
  assert (Hchf : forall k x, x <> n -> In x (children_for c k) -> In x (children_for c' k)).
  { intros k x Hx Hin. unfold children_for in *. rewrite V3.
    destruct (olookup (Some k) (c_children c)) as [lk|] eqn:Ek; [|destruct Hin]. simpl.
    eapply Hmv; eauto. }
  constructor.
  - unfold c'. cbn [c_states]. rewrite keys_mapv.
    destruct (is_history (s_kind st)); [apply NoDup_keys_dset|]; apply (sd_nd_states c HS).
  - unfold c'. cbn [c_parent]. apply NoDup_keys_dset. apply (sd_nd_parent c HS).
  - unfold c'. cbn [c_children]. do 2 apply NoDup_keys_oset. apply (sd_nd_children c HS).
  - intros k s. rewrite V1. destruct (lookup k (c_states c)) as [s0|] eqn:E; [|discriminate].
    simpl. intros E2; inv E2. destruct (mv_state_spec n k s0) as [-> _]. apply (sd_keyname c HS _ _ E).
  - intros k. rewrite V2, V4. destruct (seqbP k n) as [->|Hk]; [|apply (sd_pkeys c HS)].
    split; [intros _; exact Hn|discriminate].
  - intros k. rewrite V3, V4. rewrite <- (sd_ckeys c HS).
    destruct (olookup (Some k) (c_children c)); simpl; split; congruence.
  - rewrite V3. pose proof (sd_ctop c HS). destruct (olookup None (c_children c)); simpl; congruence.
  - intros x p. rewrite V2. destruct (seqbP x n) as [->|Hx].
    + intros E; inv E. split; [intros q E; inv E; rewrite V4; exact Hnp|].
      exists (mv_list n np (Some np) lnp). rewrite V3, Hlnp. split; [reflexivity|].
      unfold mv_list. rewrite oeqb_refl, count_occ_snoc.
      destruct (string_dec n n); [|congruence].
      assert (count_occ string_dec (remove_first n lnp) n = 0); [|lia].
      apply (count_occ_not_In string_dec). apply NoDup_remove_first_notin.
      apply (sound_children_NoDup c HS _ _ Hlnp).
    + intros Hp. destruct (sd_pc c HS _ _ Hp) as [H1 [l0 [H2 H3]]].
      split; [intros q E; rewrite V4; apply (H1 q E)|].
      exists (mv_list n np p l0). rewrite V3, H2. split; [reflexivity|].
      unfold mv_list. destruct (opt_eqb str_eqb p (Some np)).
      * rewrite count_occ_snoc, count_occ_remove_first_neq by assumption.
        destruct (string_dec n x); [congruence|lia].
      * rewrite count_occ_remove_first_neq by assumption. exact H3.
  - intros k l' ch. rewrite V3, V2.
    destruct (olookup k (c_children c)) as [lk|] eqn:Ek; [|discriminate]. simpl.
    intros E; inv E. intros Hin.
    assert (Hrm : In ch (remove_first n lk) -> (if str_eqb ch n then Some (Some np) else lookup ch (c_parent c)) = Some k).
    { intros Hin'. destruct (seqbP ch n) as [->|Hch].
      - exfalso. revert Hin'. apply NoDup_remove_first_notin. apply (sound_children_NoDup c HS _ _ Ek).
      - apply (sd_cp c HS _ _ _ Ek). eapply In_remove_first; eauto. }
    unfold mv_list in Hin. destruct (oeqbP k (Some np)) as [->|Hk]; [|auto].
    apply in_app_or in Hin. destruct Hin as [Hin|[<-|[]]]; [auto|].
    rewrite seqb_refl. reflexivity.
  - intros l'. rewrite V3. destruct (olookup None (c_children c)) as [l0|] eqn:E0; [|discriminate].
    simpl. intros E; inv E. unfold mv_list. simpl.
    pose proof (sd_top c HS _ E0) as Hlen.
    assert (length (remove_first n l0) <= length l0); [|lia].
    clear. induction l0 as [|y l0 IH]; simpl; [lia|]. destruct (str_eqb n y); simpl; lia.
  - destruct (sd_acyc c HS) as [rank Hr].
    exists (fun x => if mem x (n :: descendants_for c n) then rank x + rank np + 1 else rank x).
    assert (Hsub : forall x, mem x (n :: descendants_for c n) = true <-> x = n \/ anc c x n).
    { intros x. rewrite mem_In. simpl. rewrite (descendants_for_spec c HS). split; intros [E|E]; auto. }
    intros x q. rewrite V2. destruct (seqbP x n) as [->|Hx].
    + intros E; inv E. rewrite Hguard.
      assert (E : mem n (n :: descendants_for c n) = true) by (apply Hsub; left; reflexivity).
      rewrite E. lia.
    + intros Hp. pose proof (Hr _ _ Hp) as Hlt.
      destruct (mem x (n :: descendants_for c n)) eqn:Ex.
      * apply Hsub in Ex. destruct Ex as [Ex|Ex]; [congruence|].
        destruct (anc_inv _ _ _ Ex) as [q' [Hq' Hor]]. rewrite Hp in Hq'. inv Hq'.
        assert (E : mem q' (n :: descendants_for c n) = true) by (apply Hsub; destruct Hor; auto).
        rewrite E. lia.
      * destruct (mem q (n :: descendants_for c n)) eqn:Eq; [|exact Hlt].
        exfalso. apply Hsub in Eq.
        assert (E : mem x (n :: descendants_for c n) = true).
        { apply Hsub. right. destruct Eq as [->|Eq]; [apply anc_parent; exact Hp|eapply anc_step; eauto]. }
        congruence.
  - intros t Hin. assert (Hin' : In t (c_transitions c)) by exact Hin.
    destruct (sd_trans c HS t Hin') as [[s [H1 H2]] H3]. split.
    + exists (mv_state n (t_source t) s). rewrite V1, H1. split; [reflexivity|].
      destruct (mv_state_spec n (t_source t) s) as [_ [-> _]]. exact H2.
    + intros tg E. rewrite V4. apply (H3 tg E).
  - intros k s. rewrite V1. destruct (lookup k (c_states c)) as [s0|] eqn:E; [|discriminate].
    simpl. intros E2; inv E2. destruct (mv_state_spec n k s0) as [_ [_ [Hi Hm]]].
    destruct (sd_refs c HS _ _ E) as [H1 H2].
    split; intros x Hx; rewrite V4.
    + apply H1. apply (Hi x Hx).
    + apply H2. apply (Hm x Hx).
  - intros k s i. rewrite V1. destruct (lookup k (c_states c)) as [s0|] eqn:E; [|discriminate].
    simpl. intros E2; inv E2. destruct (mv_state_spec n k s0) as [_ [Hk [Hi _]]].
    rewrite Hk. intros Hkind Hini. apply truthy_Some in Hini. destruct Hini as [Hini Hine].
    destruct (Hi i Hini) as [Hi0 Hin]. specialize (Hin Hkind).
    destruct (sd_vinit c HS k s0 i E Hkind) as [H1 H2]; [rewrite Hi0; apply truthy_nonempty; exact Hine|].
    rewrite V4. split; [exact H1|apply Hchf; assumption].
  - intros k s m. rewrite V1. destruct (lookup k (c_states c)) as [s0|] eqn:E; [|discriminate].
    simpl. intros E2; inv E2. destruct (mv_state_spec n k s0) as [_ [Hk [_ Hmm]]].
    rewrite Hk. intros Hkind Hmem. destruct (Hmm m Hmem) as [Hm0 Hmn]. destruct (Hmn Hkind) as [Hmn1 Hkn].
    destruct (sd_vmem c HS k s0 m E Hkind Hm0) as [H1 [H2 [p [H3 H4]]]].
    split; [exact H1|]. split; [rewrite V4; exact H2|]. exists p. split; [|apply Hchf; assumption].
    unfold parent_for in *. rewrite V2. destruct (seqbP k n); [congruence|exact H3].
Qed.
