(* BddProofs.v -- theorems about the BDD model (theories/Bdd.v) for property C19.

   Everything is proved for an ARBITRARY interpreter (Section ModelProofs: any state type with
   queue / clock advance / execute / configuration / final / context / expression evaluation), any
   feature, any scenario, any fuel for which the model returns a result (fuel only bounds the nesting
   of reproduce; running out of it is Python's RecursionError and outside the domain).

   Main theorems (all Qed, all "Closed under the global context"):
     C19_testing        every predicate of sismic/testing.py (state_is_entered, state_is_exited,
                        event_is_fired, event_is_consumed, transition_is_processed) and the loop of
                        `no event is fired` <-> its declarative reading over micro steps.  No hypotheses.
     C19_given_when     a given/when step passes iff its documented effect on a plain interpreter
                        (plain_act) is defined, and then the context holds exactly that interpreter state;
                        given: monitored trace untouched, when: all macro steps of its execute() calls
                        appended; plus the documented effect kind by kind.  Hypothesis: inv c (the
                        invariant of environment.py, true initially and preserved).
     C19_block          after a prefix whose steps passed: context.interpreter = the plain interpreter
                        after the same steps, context.monitored_trace = Some (block) for the block as
                        is_block delimits it, None iff no when step yet; a block exists iff there was a when.
     C19_skip           every step after the first one that did not pass is Skipped.
     C19_verdict        a then step whose predecessors passed, preceded by a when step, whose state names
                        exist, is Passed iff fact holds of (block, plain interpreter state).
     fact_b_sound       the decidable fact_b evaluated by the harness <-> fact.
     C19_dispatch       for Doc.patterns (hand-written from docs/behavior.rst; = the list extracted from
                        steps.py by the obligation regenerated in gen/C19/Dispatch.v): every predefined
                        step in documented spelling with plain arguments (doc_plain) is dispatched to the
                        intended function with the intended arguments, for both matching modes ci.
     C19_expression_unquoted   the quotes of `expression "..." holds` never reach the expression.
     match_complete     completeness of the matcher for plain arguments, arbitrary patterns.
     doc_samples_ok     sample spellings decode (matcher + literal reader) to the intended model steps.
   Non-vacuity: C19_testing_nonvacuous, C19_verdict_nonvacuous (Module Toy), match_complete_nonvacuous,
   C19_dispatch_nonvacuous.

   Where the code differs from a naive reading of the property text (characterised exactly, see the
   harness report): (1) the block is "all when steps since the then step that precedes the most recent
   when step": given steps inside it do not end it (is_block allows HG items in seg), and a then step
   that follows `then; given` still sees the old block; (2) every repeat/reproduce step adds one
   more execute() of its own after its nested steps.  (A former corner -- reproduce dropped the Gherkin
   tables of the reproduced steps -- was a defect, repaired in /repo; the model follows the repaired code.)

   Partial / not covered: numeric fields are proved complete for decimal digit strings only (other
   forms -- 2.5, +3, 1e3, 0x10 -- are covered by the matcher correspondence run, not by a theorem);
   plainness (doc_plain) is sufficient, not necessary; behave and parse themselves are not modelled. *)
From Coq Require Import QArith Lia.
From Sismic Require Import Base Chart Interp Bdd.
Open Scope string_scope.
Open Scope list_scope.


(* ================================================================== small library *)
Lemma mem_In : forall x l, mem x l = true <-> In x l.
Proof.
  induction l as [|y l IH]; cbn [mem]; [split; [discriminate|intros []]|].
  unfold str_eqb. split.
  - intro H. apply orb_true_iff in H. destruct H as [H|H].
    + apply String.eqb_eq in H. left. congruence.
    + right. apply IH, H.
  - intros [H|H]; apply orb_true_iff.
    + left. subst. apply String.eqb_refl.
    + right. apply IH, H.
Qed.

Lemma mem_false_In : forall x l, mem x l = false <-> ~ In x l.
Proof.
  intros x l. split.
  - intros H HI. apply mem_In in HI. congruence.
  - intro H. destruct (mem x l) eqn:E; [|reflexivity]. exfalso. apply H, mem_In, E.
Qed.

Lemma existsb_str_In : forall x l, existsb (str_eqb x) l = true <-> In x l.
Proof.
  intros x l. rewrite existsb_exists. unfold str_eqb. split.
  - intros [y [Hy E]]. apply String.eqb_eq in E. subst. exact Hy.
  - intro H. exists x. split; [exact H|apply String.eqb_refl].
Qed.

Lemma in_flat_map_iff {A B} (f : A -> list B) (l : list A) (y : B) :
  In y (flat_map f l) <-> exists x, In x l /\ In y (f x).
Proof. apply in_flat_map. Qed.

(* ================================================================== C19_testing *)
Definition entered_in (steps : list macrostep) (n : name) : Prop :=
  exists m mi, In m steps /\ In mi (snd m) /\ In n (ms_entered mi).
Definition exited_in (steps : list macrostep) (n : name) : Prop :=
  exists m mi, In m steps /\ In mi (snd m) /\ In n (ms_exited mi).

Lemma state_is_entered_spec : forall steps n, state_is_entered steps n = true <-> entered_in steps n.
Proof.
  unfold entered_in. induction steps as [|s r IH]; intro n; cbn [state_is_entered].
  - split; [discriminate|]. intros (m & mi & [] & _).
  - destruct (mem n (macro_entered s)) eqn:E.
    + split; [intros _|reflexivity]. apply mem_In in E. unfold macro_entered in E.
      apply in_flat_map in E. destruct E as (mi & H1 & H2). exists s, mi. cbn. auto.
    + rewrite IH. split.
      * intros (m & mi & H1 & H2 & H3). exists m, mi. cbn. auto.
      * intros (m & mi & [H1|H1] & H2 & H3).
        -- subst m. apply mem_false_In in E. exfalso. apply E. unfold macro_entered.
           apply in_flat_map. exists mi. auto.
        -- exists m, mi. auto.
Qed.

Lemma state_is_exited_spec : forall steps n, state_is_exited steps n = true <-> exited_in steps n.
Proof.
  unfold exited_in. induction steps as [|s r IH]; intro n; cbn [state_is_exited].
  - split; [discriminate|]. intros (m & mi & [] & _).
  - destruct (mem n (macro_exited s)) eqn:E.
    + split; [intros _|reflexivity]. apply mem_In in E. unfold macro_exited in E.
      apply in_flat_map in E. destruct E as (mi & H1 & H2). exists s, mi. cbn. auto.
    + rewrite IH. split.
      * intros (m & mi & H1 & H2 & H3). exists m, mi. cbn. auto.
      * intros (m & mi & [H1|H1] & H2 & H3).
        -- subst m. apply mem_false_In in E. exfalso. apply E. unfold macro_exited.
           apply in_flat_map. exists mi. auto.
        -- exists m, mi. auto.
Qed.

(* "the event matches": name (None = any) and every provided parameter equals the attribute *)
Definition ev_matches (n : option name) (ps : list (name * value)) (e : event) : Prop :=
  match n with None => True | Some x => e_name e = x end /\
  forall k v, In (k, v) ps -> attr_eqb (event_attr e k) v = true.

Lemma params_match_spec : forall e ps,
  params_match e ps = true <-> forall k v, In (k, v) ps -> attr_eqb (event_attr e k) v = true.
Proof.
  induction ps as [|[k v] r IH]; cbn [params_match].
  - split; [intros _ k v []|reflexivity].
  - destruct (attr_eqb (event_attr e k) v) eqn:E; cbn [negb].
    + rewrite IH. split.
      * intros H k' v' [H1|H1]; [inversion H1; subst; exact E|apply H, H1].
      * intros H k' v' H1. apply H. right. exact H1.
    + split; [discriminate|]. intro H. rewrite (H k v) in E; [discriminate|left; reflexivity].
Qed.

Lemma name_matches_spec : forall n e,
  name_matches n e = true <-> match n with None => True | Some x => e_name e = x end.
Proof.
  intros [x|] e; cbn [name_matches]; [|tauto]. unfold str_eqb. apply String.eqb_eq.
Qed.

Lemma ev_matches_b : forall n ps e,
  (name_matches n e && params_match e ps = true) <-> ev_matches n ps e.
Proof.
  intros. unfold ev_matches. rewrite andb_true_iff, name_matches_spec, params_match_spec. tauto.
Qed.

Lemma fired_among_spec : forall evs n ps,
  fired_among evs n ps = true <-> exists e, In e evs /\ ev_matches n ps e.
Proof.
  induction evs as [|e r IH]; intros n ps; cbn [fired_among].
  - split; [discriminate|intros (e & [] & _)].
  - destruct (name_matches n e) eqn:E1; [destruct (params_match e ps) eqn:E2|].
    + split; [intros _|reflexivity]. exists e. split; [left; reflexivity|].
      apply ev_matches_b. rewrite E1, E2. reflexivity.
    + rewrite IH. split.
      * intros (e' & H1 & H2). exists e'. split; [right; exact H1|exact H2].
      * intros (e' & [H1|H1] & H2); [subst e'|exists e'; auto].
        apply ev_matches_b in H2. rewrite E1, E2 in H2. discriminate.
    + rewrite IH. split.
      * intros (e' & H1 & H2). exists e'. split; [right; exact H1|exact H2].
      * intros (e' & [H1|H1] & H2); [subst e'|exists e'; auto].
        apply ev_matches_b in H2. rewrite E1 in H2. discriminate.
Qed.

Definition fired_in (steps : list macrostep) (n : option name) (ps : list (name * value)) : Prop :=
  exists m mi e, In m steps /\ In mi (snd m) /\ In e (ms_sent mi) /\ ev_matches n ps e.

Lemma event_is_fired_spec : forall steps n ps, event_is_fired steps n ps = true <-> fired_in steps n ps.
Proof.
  unfold fired_in. induction steps as [|s r IH]; intros n ps; cbn [event_is_fired].
  - split; [discriminate|]. intros (m & mi & e & [] & _).
  - destruct (fired_among (macro_sent s) n ps) eqn:E.
    + split; [intros _|reflexivity]. apply fired_among_spec in E. destruct E as (e & H1 & H2).
      unfold macro_sent in H1. apply in_flat_map in H1. destruct H1 as (mi & H3 & H4).
      exists s, mi, e. cbn. auto.
    + rewrite IH. split.
      * intros (m & mi & e & H1 & H2). exists m, mi, e. cbn. tauto.
      * intros (m & mi & e & [H1|H1] & H2 & H3 & H4); [subst m|exists m, mi, e; auto].
        assert (X : fired_among (macro_sent s) n ps = true).
        { apply fired_among_spec. exists e. split; [|exact H4]. unfold macro_sent.
          apply in_flat_map. exists mi. auto. }
        rewrite X in E. discriminate.
Qed.

(* MacroStep.event: the event of the first micro step that has one *)
Lemma macro_event_spec : forall steps e,
  macro_event steps = Some e <->
  exists pre mi post, steps = pre ++ mi :: post /\ ms_event mi = Some e /\
                      forall x, In x pre -> ms_event x = None.
Proof.
  induction steps as [|s r IH]; intro e; cbn [macro_event].
  - split; [discriminate|]. intros (pre & mi & post & H & _). destruct pre; discriminate.
  - destruct (ms_event s) as [e0|] eqn:E.
    + split.
      * intro H. inversion H; subst. exists [], s, r. cbn. split; [reflexivity|]. split; [exact E|intros x []].
      * intros (pre & mi & post & H1 & H2 & H3). destruct pre as [|p pre]; cbn in H1; inversion H1; subst.
        -- congruence.
        -- rewrite (H3 p) in E; [discriminate|left; reflexivity].
    + rewrite IH. split.
      * intros (pre & mi & post & H1 & H2 & H3). exists (s :: pre), mi, post. subst r. cbn.
        split; [reflexivity|]. split; [exact H2|]. intros x [Hx|Hx]; [subst; exact E|apply H3, Hx].
      * intros (pre & mi & post & H1 & H2 & H3). destruct pre as [|p pre]; cbn in H1; inversion H1; subst.
        -- congruence.
        -- exists pre, mi, post. split; [reflexivity|]. split; [exact H2|]. intros x Hx. apply H3. right. exact Hx.
Qed.

Definition consumed_in (steps : list macrostep) (n : option name) (ps : list (name * value)) : Prop :=
  exists m e, In m steps /\ macro_event (snd m) = Some e /\ ev_matches n ps e.

Lemma event_is_consumed_spec : forall steps n ps,
  event_is_consumed steps n ps = true <-> consumed_in steps n ps.
Proof.
  unfold consumed_in. induction steps as [|s r IH]; intros n ps; cbn [event_is_consumed].
  - split; [discriminate|]. intros (m & e & [] & _).
  - assert (REST : (exists m e, In m r /\ macro_event (snd m) = Some e /\ ev_matches n ps e) ->
                   exists m e, In m (s :: r) /\ macro_event (snd m) = Some e /\ ev_matches n ps e).
    { intros (m & e & H1 & H2). exists m, e. cbn. tauto. }
    destruct (macro_event (snd s)) as [e0|] eqn:E.
    + destruct (name_matches n e0 && params_match e0 ps) eqn:M.
      * apply andb_true_iff in M as M'. destruct M' as [M1 M2]. rewrite M1, M2.
        split; [intros _|reflexivity]. exists s, e0. split; [left; reflexivity|]. split; [exact E|].
        apply ev_matches_b. exact M.
      * assert (X : (if name_matches n e0 then if params_match e0 ps then true else event_is_consumed r n ps
                     else event_is_consumed r n ps) = event_is_consumed r n ps).
        { destruct (name_matches n e0); [destruct (params_match e0 ps); [discriminate|]|]; reflexivity. }
        rewrite X, IH. split; [exact REST|].
        intros (m & e & [H1|H1] & H2 & H3); [subst m|exists m, e; auto].
        rewrite E in H2. inversion H2; subst. apply ev_matches_b in H3. rewrite H3 in M. discriminate.
    + rewrite IH. split; [exact REST|].
      intros (m & e & [H1|H1] & H2 & H3); [subst m; rewrite E in H2; discriminate|exists m, e; auto].
Qed.

Lemma macro_transitions_In : forall steps t,
  In t (macro_transitions steps) <-> exists mi, In mi steps /\ ms_trans mi = Some t.
Proof.
  induction steps as [|s r IH]; intro t; cbn [macro_transitions].
  - split; [intros []|intros (mi & [] & _)].
  - destruct (ms_trans s) as [t0|] eqn:E.
    + cbn [In]. rewrite IH. split.
      * intros [H|(mi & H1 & H2)]; [subst; exists s; cbn; auto|exists mi; cbn; auto].
      * intros (mi & [H1|H1] & H2); [subst; left; congruence|right; exists mi; auto].
    + rewrite IH. split.
      * intros (mi & H1 & H2). exists mi. cbn. auto.
      * intros (mi & [H1|H1] & H2); [subst; congruence|exists mi; auto].
Qed.

Definition processed_in (teq : nat -> nat -> bool) (steps : list macrostep) (t : option nat) : Prop :=
  exists m mi u, In m steps /\ In mi (snd m) /\ ms_trans mi = Some u /\
                 match t with None => True | Some x => teq x u = true end.

Lemma transition_is_processed_spec : forall teq steps t,
  transition_is_processed teq steps t = true <-> processed_in teq steps t.
Proof.
  unfold processed_in. intros teq. induction steps as [|s r IH]; intro t; cbn [transition_is_processed].
  - split; [discriminate|]. intros (m & mi & u & [] & _).
  - assert (HERE : forall u, In u (macro_transitions (snd s)) ->
                   match t with None => True | Some x => teq x u = true end ->
                   exists m mi u, In m (s :: r) /\ In mi (snd m) /\ ms_trans mi = Some u /\
                                  match t with None => True | Some x => teq x u = true end).
    { intros u Hu Ht. apply macro_transitions_In in Hu. destruct Hu as (mi & H1 & H2).
      exists s, mi, u. cbn. auto. }
    assert (REST : (exists m mi u, In m r /\ In mi (snd m) /\ ms_trans mi = Some u /\
                                   match t with None => True | Some x => teq x u = true end) ->
                   exists m mi u, In m (s :: r) /\ In mi (snd m) /\ ms_trans mi = Some u /\
                                  match t with None => True | Some x => teq x u = true end).
    { intros (m & mi & u & H1 & H2). exists m, mi, u. cbn. tauto. }
    destruct t as [x|].
    + destruct (existsb (teq x) (macro_transitions (snd s))) eqn:E.
      * split; [intros _|reflexivity]. apply existsb_exists in E. destruct E as (u & H1 & H2).
        apply (HERE u H1 H2).
      * rewrite IH. split; [exact REST|].
        intros (m & mi & u & [H1|H1] & H2 & H3 & H4); [subst m|exists m, mi, u; auto].
        assert (X : existsb (teq x) (macro_transitions (snd s)) = true).
        { apply existsb_exists. exists u. split; [|exact H4]. apply macro_transitions_In. exists mi. auto. }
        rewrite X in E. discriminate.
    + destruct (macro_transitions (snd s)) as [|u0 l] eqn:E; cbn [length Nat.ltb Nat.leb].
      * rewrite IH. split; [exact REST|].
        intros (m & mi & u & [H1|H1] & H2 & H3 & H4); [subst m|exists m, mi, u; auto].
        assert (X : In u (macro_transitions (snd s))) by (apply macro_transitions_In; exists mi; auto).
        rewrite E in X. destruct X.
      * split; [intros _|reflexivity]. apply (HERE u0); [first [left; reflexivity|rewrite E; left; reflexivity]|exact I].
Qed.

Definition any_sent (steps : list macrostep) : Prop :=
  exists m mi e, In m steps /\ In mi (snd m) /\ In e (ms_sent mi).

Lemma no_event_is_fired_spec : forall steps, no_event_is_fired steps = true <-> ~ any_sent steps.
Proof.
  unfold any_sent. induction steps as [|s r IH]; cbn [no_event_is_fired].
  - split; [intros _ (m & mi & e & [] & _)|reflexivity].
  - destruct (macro_sent s) as [|e0 l] eqn:E; cbn [length Nat.ltb Nat.leb].
    + rewrite IH. split.
      * intros H (m & mi & e & [H1|H1] & H2 & H3).
        -- subst m. assert (X : In e (macro_sent s)) by (unfold macro_sent; apply in_flat_map; exists mi; auto).
           rewrite E in X. destruct X.
        -- apply H. exists m, mi, e. auto.
      * intros H (m & mi & e & H1 & H2). apply H. exists m, mi, e. cbn. tauto.
    + split; [discriminate|]. intro H. exfalso. apply H.
      assert (X : In e0 (macro_sent s)) by (rewrite E; left; reflexivity).
      unfold macro_sent in X. apply in_flat_map in X. destruct X as (mi & H1 & H2).
      exists s, mi, e0. cbn. auto.
Qed.

(* C19_testing: every predicate of sismic/testing.py (and the loop of `no event is fired`) is
   equivalent to its declarative reading over the micro steps of the given macro steps *)
Theorem C19_testing :
  forall (teq : nat -> nat -> bool) (steps : list macrostep),
    (forall n, state_is_entered steps n = true <-> entered_in steps n) /\
    (forall n, state_is_exited steps n = true <-> exited_in steps n) /\
    (forall n ps, event_is_fired steps n ps = true <-> fired_in steps n ps) /\
    (forall n ps, event_is_consumed steps n ps = true <-> consumed_in steps n ps) /\
    (forall t, transition_is_processed teq steps t = true <-> processed_in teq steps t) /\
    (no_event_is_fired steps = true <-> ~ any_sent steps).
Proof.
  intros teq steps. repeat split;
    try apply state_is_entered_spec; try apply state_is_exited_spec; try apply event_is_fired_spec;
    try apply event_is_consumed_spec; try apply transition_is_processed_spec; try apply no_event_is_fired_spec.
Qed.

(* non-vacuity: a macro step in which the predicates hold resp. fail *)
Example C19_testing_nonvacuous :
  let ev := mkEvent Internal "out" [("v", VInt 1)] in
  let m : macrostep := (3%Z, [mkMicro (Some (mkEvent External "go" [])) (Some 0%nat) ["b"] ["a"] [ev]]) in
  state_is_entered [m] "b" = true /\ state_is_entered [m] "a" = false /\
  state_is_exited [m] "a" = true /\
  event_is_fired [m] (Some "out") [("v", VBool true)] = true /\       (* True == 1 *)
  event_is_fired [m] (Some "out") [("v", VInt 2)] = false /\
  event_is_fired [m] (Some "out") [("w", VNone)] = true /\            (* absent attribute is None *)
  event_is_consumed [m] (Some "go") [] = true /\
  transition_is_processed Nat.eqb [m] (Some 0%nat) = true /\
  transition_is_processed Nat.eqb [m] (Some 1%nat) = false /\
  no_event_is_fired [m] = false.
Proof. vm_compute. repeat split; reflexivity. Qed.

(* ================================================================== parameters dictionary *)
Lemma lookup_app {V} (k : name) (a b : list (name * V)) :
  lookup k (a ++ b) = match lookup k a with Some v => Some v | None => lookup k b end.
Proof.
  induction a as [|[k' v'] a IH]; cbn [lookup app]; [reflexivity|].
  destruct (str_eqb k k'); [reflexivity|exact IH].
Qed.

Lemma lookup_dset_eqb {V} (k k' : name) (v : V) d :
  lookup k (dset k' v d) = if str_eqb k k' then Some v else lookup k d.
Proof.
  induction d as [|[k2 v2] d IH]; cbn [dset lookup].
  - destruct (str_eqb k k'); reflexivity.
  - destruct (str_eqb k' k2) eqn:E; cbn [lookup].
    + unfold str_eqb in *. apply String.eqb_eq in E. subst k2.
      destruct (String.eqb k k'); reflexivity.
    + destruct (str_eqb k k2) eqn:E2.
      * unfold str_eqb in *. apply String.eqb_eq in E2. subst k2.
        rewrite String.eqb_sym in E. rewrite E. reflexivity.
      * exact IH.
Qed.

Lemma keys_dset {V} (k : name) (v : V) d :
  map fst (dset k v d) = if mem k (map fst d) then map fst d else map fst d ++ [k].
Proof.
  induction d as [|[k2 v2] d IH]; cbn [dset map fst mem app]; [reflexivity|].
  destruct (str_eqb k k2) eqn:E; cbn [orb map fst].
  - unfold str_eqb in E. apply String.eqb_eq in E. subst. reflexivity.
  - rewrite IH. destruct (mem k (map fst d)); reflexivity.
Qed.

Lemma NoDup_app_snoc {A} (l : list A) (x : A) : NoDup l -> ~ In x l -> NoDup (l ++ [x]).
Proof.
  induction l as [|y l IH]; cbn [app]; intros H1 H2.
  - constructor; [intros []|constructor].
  - inversion H1; subst. constructor.
    + intro H. apply in_app_or in H. destruct H as [H|[H|[]]]; [contradiction|].
      subst. apply H2. left. reflexivity.
    + apply IH; [assumption|]. intro H. apply H2. right. exact H.
Qed.

Lemma nodup_dset {V} (k : name) (v : V) d : NoDup (map fst d) -> NoDup (map fst (dset k v d)).
Proof.
  intro H. rewrite keys_dset. destruct (mem k (map fst d)) eqn:E; [exact H|].
  apply mem_false_In in E. apply NoDup_app_snoc; assumption.
Qed.

Lemma lookup_In_nodup {V} (k : name) (v : V) d :
  NoDup (map fst d) -> (In (k, v) d <-> lookup k d = Some v).
Proof.
  induction d as [|[k2 v2] d IH]; cbn [map fst lookup In]; intro H.
  - split; [intros []|discriminate].
  - inversion H as [|? ? H1 H2]; subst. destruct (str_eqb k k2) eqn:E.
    + unfold str_eqb in E. apply String.eqb_eq in E. subst k2. split.
      * intros [X|X]; [inversion X; reflexivity|]. exfalso. apply H1.
        apply in_map_iff. exists (k, v). auto.
      * intro X. inversion X. left. reflexivity.
    + rewrite <- (IH H2). split.
      * intros [X|X]; [|exact X]. inversion X; subst. unfold str_eqb in E. rewrite String.eqb_refl in E. discriminate.
      * intro X. right. exact X.
Qed.

Definition bp (l d : list (name * value)) : list (name * value) :=
  fold_left (fun d kv => dset (fst kv) (snd kv) d) l d.

Lemma bp_lookup : forall l d k,
  lookup k (bp l d) = match lookup k (rev l) with Some v => Some v | None => lookup k d end.
Proof.
  induction l as [|[k1 v1] l IH]; intros d k; cbn [bp fold_left rev]; [reflexivity|].
  fold (bp l (dset k1 v1 d)). rewrite IH, lookup_app. cbn [fst snd lookup].
  destruct (lookup k (rev l)); [reflexivity|]. rewrite lookup_dset_eqb.
  destruct (str_eqb k k1); reflexivity.
Qed.

Lemma bp_nodup : forall l d, NoDup (map fst d) -> NoDup (map fst (bp l d)).
Proof.
  induction l as [|[k1 v1] l IH]; intros d H; cbn [bp fold_left]; [exact H|].
  apply IH. apply nodup_dset. exact H.
Qed.

Lemma build_params_bp : forall tbl inl_, build_params tbl inl_ = bp (bindings tbl inl_) [].
Proof.
  intros tbl [[k v]|]; unfold build_params, bindings, bp.
  - rewrite fold_left_app. reflexivity.
  - rewrite app_nil_r. reflexivity.
Qed.

(* the dictionary steps.py builds binds k to v iff (k, v) is the LAST binding of k *)
Lemma build_params_spec : forall tbl inl_ k v,
  In (k, v) (build_params tbl inl_) <-> last_binding k (bindings tbl inl_) = Some v.
Proof.
  intros. rewrite build_params_bp. rewrite lookup_In_nodup by (apply bp_nodup; constructor).
  rewrite bp_lookup. unfold last_binding. cbn [lookup].
  destruct (lookup k (rev (bindings tbl inl_))); split; intro H; try exact H; discriminate.
Qed.

(* ================================================================== then steps = fact *)
Lemma of_bool_passed : forall b, of_bool b = Passed <-> b = true.
Proof. intros [|]; cbn; split; intro H; try reflexivity; discriminate. Qed.

Lemma negb_true_not : forall b (P : Prop), (b = true <-> P) -> (negb b = true <-> ~ P).
Proof.
  intros b P H. destruct b; cbn; split; intro X; try discriminate; try reflexivity.
  - exfalso. apply X, H. reflexivity.
  - intro HP. apply H in HP. discriminate.
Qed.

Lemma lookup_Some_In_keys {V} (k : name) (d : list (name * V)) v : lookup k d = Some v -> In k (map fst d).
Proof.
  induction d as [|[k2 v2] d IH]; cbn [lookup map fst In]; [discriminate|].
  destruct (str_eqb k k2) eqn:E; intro H.
  - left. unfold str_eqb in E. apply String.eqb_eq in E. congruence.
  - right. apply IH, H.
Qed.

Lemma in_all_micro : forall blk mi, In mi (all_micro blk) <-> exists m, In m blk /\ In mi (snd m).
Proof. intros. unfold all_micro. apply in_flat_map. Qed.

Lemma in_all_sent : forall blk e, In e (all_sent blk) <-> sent_in blk e.
Proof.
  intros. unfold all_sent, sent_in. rewrite in_flat_map. split.
  - intros (mi & H1 & H2). apply in_all_micro in H1. destruct H1 as (m & H3 & H4). exists m, mi. auto.
  - intros (m & mi & H1 & H2 & H3). exists mi. split; [apply in_all_micro; exists m; auto|exact H3].
Qed.

Section ModelProofs.
  Variable I : Type.
  Variable i_queue : event -> I -> I.
  Variable i_advance : Q -> I -> I.
  Variable i_execute : I -> I * option (list macrostep).
  Variable i_config : I -> list name.
  Variable i_final : I -> bool.
  Variable i_ctx : I -> list (name * value).
  Variable i_eval : I -> string -> option bool.
  Variable states : list name.

  Notation Fact := (fact I i_config i_final i_ctx i_eval).
  Notation FactB := (fact_b I i_config i_final i_ctx i_eval).
  Notation EvalThen := (eval_then I i_config i_final i_ctx i_eval states).
  Notation RunAct := (run_act I i_queue i_advance i_execute).
  Notation RunThen := (run_then I i_config i_final i_ctx i_eval states).
  Notation RunStep := (run_step I i_queue i_advance i_execute i_config i_final i_ctx i_eval states).
  Notation RunSteps := (run_steps I i_queue i_advance i_execute i_config i_final i_ctx i_eval states).
  Notation RunScenario := (run_scenario I i_queue i_advance i_execute i_config i_final i_ctx i_eval states).
  Notation AfterStep := (after_step I i_execute).

  Lemma fired_fact : forall blk n tbl inl_ (i : I),
    fired_in blk (Some n) (build_params tbl inl_) <-> Fact (TFired n tbl inl_) blk i.
  Proof.
    intros. cbn [fact]. unfold fired_in, ev_matches, sent_in. split.
    - intros (m & mi & e & H1 & H2 & H3 & H4 & H5). exists e. split; [exists m, mi; auto|]. split; [exact H4|].
      intros k v Hk. apply H5. apply build_params_spec. exact Hk.
    - intros (e & (m & mi & H1 & H2 & H3) & H4 & H5). exists m, mi, e. repeat split; try assumption.
      intros k v Hk. apply H5. apply build_params_spec. exact Hk.
  Qed.

  (* steps.py + testing.py: a then step whose state name exists passes iff its fact holds *)
  Lemma then_fact : forall t tr i, states_ok states t = true -> (EvalThen t tr i = Passed <-> Fact t tr i).
  Proof.
    intros t tr i Hs. destruct t; cbn [states_ok] in Hs; cbn [eval_then fact]; try rewrite Hs.
    - rewrite of_bool_passed. apply state_is_entered_spec.
    - rewrite of_bool_passed. apply negb_true_not, state_is_entered_spec.
    - rewrite of_bool_passed. apply state_is_exited_spec.
    - rewrite of_bool_passed. apply negb_true_not, state_is_exited_spec.
    - rewrite of_bool_passed. apply mem_In.
    - rewrite of_bool_passed. apply negb_true_not, mem_In.
    - rewrite of_bool_passed, event_is_fired_spec. apply (fired_fact tr ev table inline i).
    - rewrite of_bool_passed. apply negb_true_not. rewrite event_is_fired_spec.
      unfold fired_in, ev_matches, sent_in. split.
      + intros (m & mi & e & H1 & H2 & H3 & H4 & _). exists e. split; [exists m, mi; auto|exact H4].
      + intros (e & (m & mi & H1 & H2 & H3) & H4). exists m, mi, e. repeat split; try assumption. intros k v [].
    - rewrite of_bool_passed, no_event_is_fired_spec. unfold any_sent, sent_in. split; intros H X; apply H.
      + destruct X as (e & m & mi & H1). exists m, mi, e. exact H1.
      + destruct X as (m & mi & e & H1). exists e, m, mi. exact H1.
    - destruct (lookup x (i_ctx i)) as [cur|].
      + rewrite of_bool_passed. split; [intro H; exists cur; auto|intros (c & H1 & H2); congruence].
      + split; [discriminate|intros (c & H1 & _); discriminate].
    - destruct (lookup x (i_ctx i)) as [cur|].
      + rewrite of_bool_passed. split.
        * intro H. exists cur. split; [reflexivity|]. destruct (py_eqb cur v); [discriminate|reflexivity].
        * intros (c & H1 & H2). inversion H1; subst. rewrite H2. reflexivity.
      + split; [discriminate|intros (c & H1 & _); discriminate].
    - destruct (i_eval i c) as [[|]|]; cbn; split; intro H; try reflexivity; try discriminate.
    - destruct (i_eval i c) as [[|]|]; cbn; split; intro H; try reflexivity; try discriminate.
    - apply of_bool_passed.
    - rewrite of_bool_passed. destruct (i_final i); cbn; split; intro H; try reflexivity; discriminate.
  Qed.

  Lemma existsb_micro (f : microstep -> list name) blk n :
    existsb (fun mi => existsb (str_eqb n) (f mi)) (all_micro blk) = true <->
    exists m mi, In m blk /\ In mi (snd m) /\ In n (f mi).
  Proof.
    rewrite existsb_exists. split.
    - intros (mi & H1 & H2). apply in_all_micro in H1. destruct H1 as (m & H3 & H4).
      apply existsb_str_In in H2. exists m, mi. auto.
    - intros (m & mi & H1 & H2 & H3). exists mi. split; [apply in_all_micro; exists m; auto|].
      apply existsb_str_In. exact H3.
  Qed.

  (* the decidable checker evaluated by the harness on the implementation's macro steps *)
  Lemma fact_b_sound : forall t blk i, FactB t blk i = true <-> Fact t blk i.
  Proof.
    intros t blk i. destruct t; cbn [fact_b fact].
    - apply existsb_micro.
    - apply negb_true_not, existsb_micro.
    - apply existsb_micro.
    - apply negb_true_not, existsb_micro.
    - apply existsb_str_In.
    - apply negb_true_not, existsb_str_In.
    - rewrite existsb_exists. split.
      + intros (e & H1 & H2). apply andb_true_iff in H2. destruct H2 as [H2 H3].
        exists e. split; [apply in_all_sent, H1|]. split; [apply String.eqb_eq, H2|].
        intros k v Hk. rewrite forallb_forall in H3.
        assert (X : In k (keys_of (bindings table inline))).
        { unfold last_binding in Hk. apply lookup_Some_In_keys in Hk. unfold keys_of.
          rewrite map_rev in Hk. apply in_rev in Hk. exact Hk. }
        specialize (H3 k X). rewrite Hk in H3. exact H3.
      + intros (e & H1 & H2 & H3). exists e. split; [apply in_all_sent, H1|]. apply andb_true_iff.
        split; [apply String.eqb_eq, H2|]. apply forallb_forall. intros k _.
        destruct (last_binding k (bindings table inline)) as [v|] eqn:E; [apply H3, E|reflexivity].
    - apply negb_true_not. rewrite existsb_exists. split.
      + intros (e & H1 & H2). exists e. split; [apply in_all_sent, H1|apply String.eqb_eq, H2].
      + intros (e & H1 & H2). exists e. split; [apply in_all_sent, H1|apply String.eqb_eq, H2].
    - destruct (all_sent blk) as [|e l] eqn:E.
      + split; [intros _ (e & H)|reflexivity]. apply in_all_sent in H. rewrite E in H. destruct H.
      + split; [discriminate|]. intro H. exfalso. apply H. exists e. apply in_all_sent. rewrite E. left. reflexivity.
    - destruct (lookup x (i_ctx i)) as [cur|].
      + split; [intro H; exists cur; auto|intros (c & H1 & H2); congruence].
      + split; [discriminate|intros (c & H1 & _); discriminate].
    - destruct (lookup x (i_ctx i)) as [cur|].
      + split.
        * intro H. exists cur. split; [reflexivity|]. destruct (py_eqb cur v); [discriminate|reflexivity].
        * intros (c & H1 & H2). inversion H1; subst. rewrite H2. reflexivity.
      + split; [discriminate|intros (c & H1 & _); discriminate].
    - destruct (i_eval i c) as [[|]|]; split; intro H; try reflexivity; discriminate.
    - destruct (i_eval i c) as [[|]|]; split; intro H; try reflexivity; discriminate.
    - tauto.
    - destruct (i_final i); cbn; split; intro H; try reflexivity; discriminate.
  Qed.


  (* ================================================================ given / when steps *)
  (* interpreter.execute() on a plain interpreter; None when it raises *)
  Definition exec (i : I) : option (I * list macrostep) :=
    match i_execute i with (i', Some ms) => Some (i', ms) | (_, None) => None end.

  (* The documented effect of a given/when step on a PLAIN interpreter (no behave, no hooks):
     new interpreter state and all macro steps its execute() calls returned.  None = some part
     does not succeed (unknown scenario, negative wait, execute raises) or out of fuel. *)
  Definition seq_of (pa : action -> I -> option (I * list macrostep)) :=
    fix go (l : list action) (i : I) : option (I * list macrostep) :=
      match l with
      | [] => Some (i, [])
      | a' :: r =>
          match pa a' i with
          | None => None
          | Some (i1, m1) =>
              match go r i1 with
              | None => None
              | Some (i2, m2) => Some (i2, m1 ++ m2)
              end
          end
      end.

  Fixpoint plain_act (fuel : nat) (feat : feature) (a : action) (i : I) : option (I * list macrostep) :=
    match fuel with
    | O => None
    | S f =>
        let body :=
          match a with
          | ANothing => Some (i, [])
          | AReproduce nm =>
              match find_scenario nm feat with
              | None => None
              | Some steps => seq_of (plain_act f feat) (actions_of steps) i
              end
          | ARepeat a' n => seq_of (plain_act f feat) (repeat a' n) i
          | ASend n tbl inl_ => Some (i_queue (mkEvent External n (build_params tbl inl_)) i, [])
          | AWait q => if Qle_bool 0 q then Some (i_advance q i, []) else None
          end in
        match body with
        | None => None
        | Some (i1, m1) =>
            match exec i1 with
            | None => None
            | Some (i2, m2) => Some (i2, m1 ++ m2)
            end
        end
    end.

  (* the nested-steps loop of run_act as a named function (same term) *)
  Definition run_list (ra : action -> ctx I -> option (ctx I * status)) :=
    fix go (l : list action) (c : ctx I) : option (ctx I * status) :=
      match l with
      | [] => Some (c, Passed)
      | a' :: r =>
          match ra a' c with
          | None => None
          | Some (c', s) => if is_passed s then go r c' else Some (c', Failed)
          end
      end.

  Definition act_body (f : nat) (feat : feature) (k : gw) (a : action) (c : ctx I) : option (ctx I * status) :=
    match a with
    | ANothing => Some (c, Passed)
    | AReproduce nm =>
        match find_scenario nm feat with
        | None => Some (c, Failed)
        | Some steps => run_list (RunAct f feat k) (actions_of steps) c
        end
    | ARepeat a' n => run_list (RunAct f feat k) (repeat a' n) c
    | ASend n tbl inl_ =>
        Some (set_interp I c (i_queue (mkEvent External n (build_params tbl inl_)) (c_interp c)), Passed)
    | AWait q => if Qle_bool 0 q then Some (set_interp I c (i_advance q (c_interp c)), Passed) else Some (c, Error)
    end.

  Lemma run_act_S : forall f feat k a c,
    RunAct (S f) feat k a c =
    match act_body f feat k a c with
    | None => None
    | Some (c1, st) => let '(c2, ok) := AfterStep k c1 in Some (c2, if ok then st else HookError)
    end.
  Proof. intros. destruct a; reflexivity. Qed.

  (* invariant of environment.py: monitoring implies that the monitored trace is a list *)
  Definition inv (c : ctx I) : Prop := c_monitoring c = true -> exists l, c_trace c = Some l.

  Definition base (c : ctx I) : list macrostep :=
    if c_monitoring c then match c_trace c with Some l => l | None => [] end else [].

  (* the behave context after a step of type k that took the interpreter to i' producing ms *)
  Definition upd (k : gw) (c : ctx I) (i' : I) (ms : list macrostep) : ctx I :=
    match k with
    | Given => set_interp I c i'
    | When => mkCtx i' true (Some (base c ++ ms))
    end.

  Lemma inv_upd : forall k c i' ms, inv c -> inv (upd k c i' ms).
  Proof. intros [|] c i' ms H; unfold inv, upd, set_interp; cbn; [exact H|intros _; eauto]. Qed.

  Lemma after_step_ok : forall k c i' ms, inv c -> exec (c_interp c) = Some (i', ms) ->
    AfterStep k c = (upd k c i' ms, true).
  Proof.
    intros k c i' ms Hi He. unfold exec in He. unfold after_step.
    destruct (i_execute (c_interp c)) as [i1 [m1|]]; [|discriminate]. inversion He; subst.
    destruct k; [reflexivity|]. unfold upd, base. destruct (c_monitoring c) eqn:M.
    - destruct (Hi M) as [l Hl]. rewrite Hl. reflexivity.
    - reflexivity.
  Qed.

  Lemma after_step_true : forall k c c2, inv c -> AfterStep k c = (c2, true) ->
    exists i' ms, exec (c_interp c) = Some (i', ms) /\ c2 = upd k c i' ms.
  Proof.
    intros k c c2 Hi H. unfold exec. unfold after_step in H.
    destruct (i_execute (c_interp c)) as [i1 [m1|]]; [|inversion H].
    exists i1, m1. split; [reflexivity|]. destruct k.
    - inversion H. reflexivity.
    - unfold upd, base. destruct (c_monitoring c) eqn:M.
      + destruct (Hi M) as [l Hl]. rewrite Hl in *. inversion H. reflexivity.
      + inversion H. reflexivity.
  Qed.

  (* context after a list of nested steps of type k: untouched if the list is empty *)
  Definition updl (k : gw) (c : ctx I) (i' : I) (ms : list macrostep) (l : list action) : ctx I :=
    match l with [] => c | _ => upd k c i' ms end.

  Lemma upd_upd : forall k c i1 m1 i2 m2, upd k (upd k c i1 m1) i2 m2 = upd k c i2 (m1 ++ m2).
  Proof. intros [|] c i1 m1 i2 m2; unfold upd, set_interp, base; cbn; [reflexivity|]. rewrite app_assoc. reflexivity. Qed.

  Lemma c_interp_upd : forall k c i ms, c_interp (upd k c i ms) = i.
  Proof. intros [|] c i ms; reflexivity. Qed.

  Section Fuel.
    Variable f : nat.
    Variable feat : feature.
    Variable k : gw.
    Hypothesis IHf : forall a c c', inv c -> RunAct f feat k a c = Some (c', Passed) ->
      exists i' ms, plain_act f feat a (c_interp c) = Some (i', ms) /\ c' = upd k c i' ms.
    Hypothesis IHb : forall a c i' ms, inv c -> plain_act f feat a (c_interp c) = Some (i', ms) ->
      RunAct f feat k a c = Some (upd k c i' ms, Passed).

    Lemma run_list_plain : forall l c c', inv c ->
      run_list (RunAct f feat k) l c = Some (c', Passed) ->
      exists i' ms, seq_of (plain_act f feat) l (c_interp c) = Some (i', ms) /\ c' = updl k c i' ms l /\
                    (l = [] -> i' = c_interp c /\ ms = []).
    Proof.
      induction l as [|a r IH]; intros c c' Hi H; cbn [run_list seq_of] in *.
      - inversion H; subst. exists (c_interp c'), []. auto.
      - destruct (RunAct f feat k a c) as [[c1 s1]|] eqn:E; [|discriminate].
        destruct s1; cbn [is_passed] in H; try discriminate.
        destruct (IHf a c c1 Hi E) as (i1 & m1 & P1 & U1). subst c1.
        destruct (IH (upd k c i1 m1) c' (inv_upd k c i1 m1 Hi) H) as (i2 & m2 & P2 & U2 & Z).
        rewrite c_interp_upd in P2. rewrite P1, P2. exists i2, (m1 ++ m2). split; [reflexivity|].
        split; [|discriminate]. cbn [updl]. destruct r as [|a2 r2].
        + destruct (Z eq_refl) as [Z1 Z2]. subst. cbn [updl]. rewrite c_interp_upd, app_nil_r. reflexivity.
        + cbn [updl] in U2. rewrite upd_upd in U2. exact U2.
    Qed.

    Lemma plain_run_list : forall l c i' ms, inv c ->
      seq_of (plain_act f feat) l (c_interp c) = Some (i', ms) ->
      run_list (RunAct f feat k) l c = Some (updl k c i' ms l, Passed) /\ (l = [] -> i' = c_interp c /\ ms = []).
    Proof.
      induction l as [|a r IH]; intros c i' ms Hi H; cbn [run_list seq_of] in *.
      - inversion H; subst. auto.
      - destruct (plain_act f feat a (c_interp c)) as [[i1 m1]|] eqn:E; [|discriminate].
        destruct (seq_of (plain_act f feat) r i1) as [[i2 m2]|] eqn:E2; [|discriminate].
        inversion H; subst. rewrite (IHb a c i1 m1 Hi E). cbn [is_passed].
        destruct (IH (upd k c i1 m1) i' m2 (inv_upd k c i1 m1 Hi)) as [R Z].
        { rewrite c_interp_upd. exact E2. }
        rewrite R. split; [|discriminate]. cbn [updl]. destruct r as [|a2 r2].
        + destruct (Z eq_refl) as [Z1 Z2]. subst. cbn [updl]. rewrite c_interp_upd, app_nil_r. reflexivity.
        + cbn [updl]. rewrite upd_upd. reflexivity.
    Qed.
  End Fuel.

  Lemma inv_updl : forall k c i ms l, inv c -> inv (updl k c i ms l).
  Proof. intros k c i ms [|a l] H; cbn [updl]; [exact H|apply inv_upd, H]. Qed.

  Lemma finish_step : forall k c l i1 m1 i2 m2, inv c -> (l = [] -> i1 = c_interp c /\ m1 = []) ->
    upd k (updl k c i1 m1 l) i2 m2 = upd k c i2 (m1 ++ m2).
  Proof.
    intros k c [|a l] i1 m1 i2 m2 Hi Z; cbn [updl].
    - destruct (Z eq_refl); subst. reflexivity.
    - apply upd_upd.
  Qed.

  Lemma c_interp_updl : forall k c i ms l, (l = [] -> i = c_interp c /\ ms = []) -> c_interp (updl k c i ms l) = i.
  Proof. intros k c i ms [|a l] Z; cbn [updl]; [destruct (Z eq_refl); congruence|apply c_interp_upd]. Qed.

  Lemma inv_set_interp : forall c i, inv c -> inv (set_interp I c i).
  Proof. intros c i H. exact H. Qed.

  Lemma upd_set_interp : forall k c i1 i2 m2, upd k (set_interp I c i1) i2 m2 = upd k c i2 ([] ++ m2).
  Proof. intros [|] c i1 i2 m2; reflexivity. Qed.

  (* a step that passes has exactly its documented effect ... *)
  Lemma run_act_plain : forall fuel feat k a c c', inv c ->
    RunAct fuel feat k a c = Some (c', Passed) ->
    exists i' ms, plain_act fuel feat a (c_interp c) = Some (i', ms) /\ c' = upd k c i' ms
  (* ... and a step whose documented effect is defined passes *)
  with plain_run_act : forall fuel feat k a c i' ms, inv c ->
    plain_act fuel feat a (c_interp c) = Some (i', ms) ->
    RunAct fuel feat k a c = Some (upd k c i' ms, Passed).
  Proof.
    - intros fuel. destruct fuel as [|f]; intros feat k a c c' Hi H; [discriminate|].
      rewrite run_act_S in H. cbn [plain_act].
      assert (FIN : forall c1 i1 m1, act_body f feat k a c = Some (c1, Passed) ->
                inv c1 -> c_interp c1 = i1 -> (forall i2 m2, upd k c1 i2 m2 = upd k c i2 (m1 ++ m2)) ->
                exists i' ms, match exec i1 with
                              | None => None
                              | Some (i2, m2) => Some (i2, m1 ++ m2)
                              end = Some (i', ms) /\ c' = upd k c i' ms).
      { intros c1 i1 m1 B Hi1 Hc U. rewrite B in H. destruct (AfterStep k c1) as [c2 ok] eqn:A.
        destruct ok; [|discriminate]. inversion H; subst c2.
        destruct (after_step_true k c1 c' Hi1 A) as (i2 & m2 & E & U2).
        rewrite Hc in E. rewrite E. exists i2, (m1 ++ m2). split; [reflexivity|].
        rewrite U2. apply U. }
      destruct a; cbn [act_body] in *.
      + apply (FIN c (c_interp c) []); auto.
      + destruct (find_scenario scenario feat) as [steps|].
        * destruct (run_list (RunAct f feat k) (actions_of steps) c) as [[c1 s1]|] eqn:R; [|discriminate].
          destruct (AfterStep k c1) as [c2 ok] eqn:A. destruct ok; [|discriminate]. destruct s1; try discriminate.
          destruct (run_list_plain f feat k (fun a c c' => run_act_plain f feat k a c c') _ c c1 Hi R) as (i1 & m1 & P & U & Z).
          rewrite P. apply (FIN c1 i1 m1); auto.
          -- subst c1. apply inv_updl, Hi.
          -- subst c1. apply c_interp_updl, Z.
          -- intros i2 m2. subst c1. apply finish_step; assumption.
        * destruct (AfterStep k c) as [c2 ok]. destruct ok; discriminate.
      + destruct (run_list (RunAct f feat k) (repeat a n) c) as [[c1 s1]|] eqn:R; [|discriminate].
        destruct (AfterStep k c1) as [c2 ok] eqn:A. destruct ok; [|discriminate]. destruct s1; try discriminate.
        destruct (run_list_plain f feat k (fun a c c' => run_act_plain f feat k a c c') _ c c1 Hi R) as (i1 & m1 & P & U & Z).
        rewrite P. apply (FIN c1 i1 m1); auto.
        * subst c1. apply inv_updl, Hi.
        * subst c1. apply c_interp_updl, Z.
        * intros i2 m2. subst c1. apply finish_step; assumption.
      + apply (FIN (set_interp I c (i_queue (mkEvent External ev (build_params table inline)) (c_interp c)))
                     (i_queue (mkEvent External ev (build_params table inline)) (c_interp c)) []); auto; try (intros i2 m2; apply upd_set_interp).
      + destruct (Qle_bool 0 seconds).
        * apply (FIN (set_interp I c (i_advance seconds (c_interp c))) (i_advance seconds (c_interp c)) []); auto; try (intros i2 m2; apply upd_set_interp).
        * destruct (AfterStep k c) as [c2 ok]. destruct ok; discriminate.
    - intros fuel. destruct fuel as [|f]; intros feat k a c i' ms Hi H; [discriminate|].
      rewrite run_act_S. cbn [plain_act] in H.
      assert (FIN : forall c1 i1 m1, inv c1 -> c_interp c1 = i1 ->
                (forall i2 m2, upd k c1 i2 m2 = upd k c i2 (m1 ++ m2)) ->
                match exec i1 with None => None | Some (i2, m2) => Some (i2, m1 ++ m2) end = Some (i', ms) ->
                (let '(c2, ok) := AfterStep k c1 in Some (c2, if ok then Passed else HookError))
                = Some (upd k c i' ms, Passed)).
      { intros c1 i1 m1 Hi1 Hc U E. destruct (exec i1) as [[i2 m2]|] eqn:X; [|discriminate]. inversion E; subst.
        rewrite (after_step_ok k c1 i' m2 Hi1 X). rewrite U. reflexivity. }
      destruct a; cbn [act_body].
      + apply (FIN c (c_interp c) []); auto.
      + destruct (find_scenario scenario feat) as [steps|]; [|discriminate].
        destruct (seq_of (plain_act f feat) (actions_of steps) (c_interp c)) as [[i1 m1]|] eqn:P; [|discriminate].
        destruct (plain_run_list f feat k (fun a c i' ms => plain_run_act f feat k a c i' ms) _ c i1 m1 Hi P) as [R Z].
        rewrite R. apply (FIN _ i1 m1); auto.
        * apply inv_updl, Hi.
        * apply c_interp_updl, Z.
        * intros i2 m2. apply finish_step; assumption.
      + destruct (seq_of (plain_act f feat) (repeat a n) (c_interp c)) as [[i1 m1]|] eqn:P; [|discriminate].
        destruct (plain_run_list f feat k (fun a c i' ms => plain_run_act f feat k a c i' ms) _ c i1 m1 Hi P) as [R Z].
        rewrite R. apply (FIN _ i1 m1); auto.
        * apply inv_updl, Hi.
        * apply c_interp_updl, Z.
        * intros i2 m2. apply finish_step; assumption.
      + apply (FIN (set_interp I c (i_queue (mkEvent External ev (build_params table inline)) (c_interp c)))
                     (i_queue (mkEvent External ev (build_params table inline)) (c_interp c)) []); auto; try (intros i2 m2; apply upd_set_interp).
      + destruct (Qle_bool 0 seconds); [|discriminate].
        apply (FIN (set_interp I c (i_advance seconds (c_interp c))) (i_advance seconds (c_interp c)) []); auto; try (intros i2 m2; apply upd_set_interp).
  Qed.


  (* C19_given_when.  (1) a given/when step passes iff its documented effect on a plain interpreter
     is defined, and then the interpreter is in exactly that state; a given step leaves the monitored
     trace alone, a when step appends all macro steps of its execute() calls (those of its nested steps
     included) to the block.  (2)-(7) the documented effect, kind by kind: what is queued, by how much
     the clock advances, repeat n = n-fold, reproduce = the given/when steps of the named scenario with their
     tables, each followed by execute(), and one more execute() for the step itself. *)
  Theorem C19_given_when :
    (forall fuel feat k a c c', inv c ->
       (RunAct fuel feat k a c = Some (c', Passed) <->
        exists i' ms, plain_act fuel feat a (c_interp c) = Some (i', ms) /\ c' = upd k c i' ms)) /\
    (forall f feat i, plain_act (S f) feat ANothing i = exec i) /\
    (forall f feat n tbl inl_ i,
       plain_act (S f) feat (ASend n tbl inl_) i = exec (i_queue (mkEvent External n (build_params tbl inl_)) i) /\
       forall k v, In (k, v) (build_params tbl inl_) <-> last_binding k (bindings tbl inl_) = Some v) /\
    (forall f feat q i, plain_act (S f) feat (AWait q) i = if Qle_bool 0 q then exec (i_advance q i) else None) /\
    (forall f feat a n i,
       plain_act (S f) feat (ARepeat a n) i =
       match seq_of (plain_act f feat) (repeat a n) i with
       | None => None
       | Some (i1, m1) => match exec i1 with None => None | Some (i2, m2) => Some (i2, m1 ++ m2) end
       end) /\
    (forall f feat nm i,
       plain_act (S f) feat (AReproduce nm) i =
       match find_scenario nm feat with
       | None => None
       | Some steps =>
           match seq_of (plain_act f feat) (actions_of steps) i with
           | None => None
           | Some (i1, m1) => match exec i1 with None => None | Some (i2, m2) => Some (i2, m1 ++ m2) end
           end
       end) /\
    (forall pa a l i,
       seq_of pa [] i = Some (i, []) /\
       seq_of pa (a :: l) i =
       match pa a i with
       | None => None
       | Some (i1, m1) => match seq_of pa l i1 with None => None | Some (i2, m2) => Some (i2, m1 ++ m2) end
       end).
  Proof.
    split; [|split; [|split; [|split; [|split; [|split]]]]].
    - intros fuel feat k a c c' Hi. split.
      + apply run_act_plain, Hi.
      + intros (i' & ms & P & U). subst c'. apply plain_run_act; assumption.
    - intros f feat i. cbn [plain_act]. destruct (exec i) as [[i2 m2]|]; reflexivity.
    - intros f feat n tbl inl_ i. split; [|apply build_params_spec]. cbn [plain_act].
      destruct (exec _) as [[i2 m2]|]; reflexivity.
    - intros f feat q i. cbn [plain_act]. destruct (Qle_bool 0 q); [|reflexivity].
      destruct (exec _) as [[i2 m2]|]; reflexivity.
    - intros. reflexivity.
    - intros f feat nm i. cbn [plain_act]. destruct (find_scenario nm feat); reflexivity.
    - intros. split; reflexivity.
  Qed.

  (* ================================================================ blocks *)
  Inductive hitem := HW (ms : list macrostep) | HG | HT.   (* a when step with its macro steps / a given / a then *)
  Definition is_when (x : hitem) : bool := match x with HW _ => true | _ => false end.
  Definition is_then (x : hitem) : bool := match x with HT => true | _ => false end.
  Fixpoint whens (h : list hitem) : list macrostep :=
    match h with
    | [] => []
    | HW ms :: r => ms ++ whens r
    | _ :: r => whens r
    end.

  (* What a scenario prefix does to a PLAIN interpreter, and its history.  then steps do nothing. *)
  Fixpoint plain_steps (fuel : nat) (feat : feature) (steps : list step) (i : I) : option (I * list hitem) :=
    match steps with
    | [] => Some (i, [])
    | SAct k a :: r =>
        match plain_act fuel feat a i with
        | None => None
        | Some (i1, ms) =>
            match plain_steps fuel feat r i1 with
            | None => None
            | Some (i2, h) => Some (i2, match k with When => HW ms | Given => HG end :: h)
            end
        end
    | SThen _ :: r =>
        match plain_steps fuel feat r i with
        | None => None
        | Some (i2, h) => Some (i2, HT :: h)
        end
    end.

  (* "the block of when steps" at the end of history h, exactly as environment.py delimits it:
     h = pre ++ seg ++ post where seg starts at the beginning of the scenario or right after a then
     step, contains no then step but at least one when step, and no when step follows it.
     Given steps inside seg do not end the block and contribute nothing. *)
  Definition is_block (h : list hitem) (blk : list macrostep) : Prop :=
    exists pre seg post,
      h = pre ++ seg ++ post /\
      (pre = [] \/ exists p, pre = p ++ [HT]) /\
      forallb (fun x => negb (is_then x)) seg = true /\
      existsb is_when seg = true /\
      forallb (fun x => negb (is_when x)) post = true /\
      blk = whens seg.

  (* the hook state machine on histories *)
  Definition mon_step (st : bool * option (list macrostep)) (x : hitem) : bool * option (list macrostep) :=
    match x with
    | HW ms => (true, Some ((if fst st then match snd st with Some l => l | None => [] end else []) ++ ms))
    | HG => st
    | HT => (false, snd st)
    end.

  Lemma mon_pre : forall pre t0, (pre = [] \/ exists p, pre = p ++ [HT]) ->
    fst (fold_left mon_step pre (false, t0)) = false.
  Proof.
    intros pre t0 [H|[p H]]; subst; [reflexivity|]. rewrite fold_left_app. reflexivity.
  Qed.

  Lemma mon_seg_open : forall seg acc, forallb (fun x => negb (is_then x)) seg = true ->
    fold_left mon_step seg (true, Some acc) = (true, Some (acc ++ whens seg)).
  Proof.
    induction seg as [|x seg IH]; intros acc H; cbn [fold_left whens]; [rewrite app_nil_r; reflexivity|].
    cbn [forallb] in H. apply andb_true_iff in H. destruct H as [H1 H2]. destruct x; cbn [is_then negb] in H1; try discriminate.
    - cbn [mon_step fst snd]. rewrite IH by exact H2. rewrite app_assoc. reflexivity.
    - cbn [mon_step]. apply IH, H2.
  Qed.

  Lemma mon_seg : forall seg t0, forallb (fun x => negb (is_then x)) seg = true -> existsb is_when seg = true ->
    fold_left mon_step seg (false, t0) = (true, Some (whens seg)).
  Proof.
    induction seg as [|x seg IH]; intros t0 H1 H2; cbn [existsb] in H2; [discriminate|].
    cbn [forallb] in H1. apply andb_true_iff in H1. destruct H1 as [H1 H3].
    destruct x; cbn [is_then negb] in H1; try discriminate; cbn [fold_left whens mon_step fst snd is_when orb] in *.
    - apply mon_seg_open, H3.
    - apply IH; assumption.
  Qed.

  Lemma mon_post : forall post st, forallb (fun x => negb (is_when x)) post = true ->
    snd (fold_left mon_step post st) = snd st.
  Proof.
    induction post as [|x post IH]; intros st H; cbn [fold_left]; [reflexivity|].
    cbn [forallb] in H. apply andb_true_iff in H. destruct H as [H1 H2].
    destruct x; cbn [is_when negb] in H1; try discriminate; rewrite IH by exact H2; reflexivity.
  Qed.

  Lemma block_mon : forall h blk, is_block h blk -> snd (fold_left mon_step h (false, None)) = Some blk.
  Proof.
    intros h blk (pre & seg & post & H & Hp & Hs & Hw & Hq & Hb). subst h blk.
    rewrite !fold_left_app. rewrite mon_post by exact Hq.
    destruct (fold_left mon_step pre (false, None)) as [m t] eqn:E.
    assert (X := mon_pre pre None Hp). rewrite E in X. cbn in X. subst m.
    rewrite mon_seg by assumption. reflexivity.
  Qed.

  Lemma then_free_suffix : forall h, exists p s, h = p ++ s /\ forallb (fun x => negb (is_then x)) s = true /\
    (p = [] \/ exists q, p = q ++ [HT]).
  Proof.
    induction h as [|x h IH] using rev_ind.
    - exists [], []. auto.
    - destruct IH as (p & s & H1 & H2 & H3). destruct x.
      + exists p, (s ++ [HW ms]). subst h. rewrite app_assoc. split; [reflexivity|]. split; [|exact H3].
        rewrite forallb_app, H2. reflexivity.
      + exists p, (s ++ [HG]). subst h. rewrite app_assoc. split; [reflexivity|]. split; [|exact H3].
        rewrite forallb_app, H2. reflexivity.
      + exists (h ++ [HT]), []. rewrite app_nil_r. split; [reflexivity|]. split; [reflexivity|]. right. exists h. reflexivity.
  Qed.

  (* a history that contains a when step has a block (so the statements below are not vacuous) *)
  Lemma block_exists : forall h, existsb is_when h = true -> exists blk, is_block h blk.
  Proof.
    induction h as [|x h IH] using rev_ind; intro H; [discriminate|].
    rewrite existsb_app in H. destruct x.
    - destruct (then_free_suffix h) as (p & s & H1 & H2 & H3). exists (whens (s ++ [HW ms])).
      exists p, (s ++ [HW ms]), []. subst h. rewrite app_nil_r, app_assoc. repeat split; try assumption.
      + rewrite forallb_app, H2. reflexivity.
      + rewrite existsb_app. cbn. apply orb_true_r.
    - cbn [existsb is_when] in H. rewrite orb_false_r in H. destruct (IH H) as (blk & pre & seg & post & H1 & H2 & H3 & H4 & H5 & H6).
      exists blk, pre, seg, (post ++ [HG]). subst h. rewrite <- !app_assoc. repeat split; try assumption.
      rewrite forallb_app, H5. reflexivity.
    - cbn [existsb is_when] in H. rewrite orb_false_r in H. destruct (IH H) as (blk & pre & seg & post & H1 & H2 & H3 & H4 & H5 & H6).
      exists blk, pre, seg, (post ++ [HT]). subst h. rewrite <- !app_assoc. repeat split; try assumption.
      rewrite forallb_app, H5. reflexivity.
  Qed.

  (* the behave context after a prefix all of whose steps passed *)
  Fixpoint ctx_after (fuel : nat) (feat : feature) (steps : list step) (c : ctx I) : option (ctx I) :=
    match steps with
    | [] => Some c
    | s :: r =>
        match RunStep fuel feat s c with
        | Some (c', Passed) => ctx_after fuel feat r c'
        | _ => None
        end
    end.

  Definition mon_of (c : ctx I) : bool * option (list macrostep) := (c_monitoring c, c_trace c).

  Lemma mon_upd : forall k c i ms, inv c ->
    mon_of (upd k c i ms) = mon_step (mon_of c) (match k with When => HW ms | Given => HG end).
  Proof.
    intros [|] c i ms Hi; unfold mon_of, upd, set_interp, base; cbn; [reflexivity|].
    destruct (c_monitoring c) eqn:M; [|reflexivity]. destruct (Hi M) as [l Hl]. rewrite Hl. reflexivity.
  Qed.

  Lemma ctx_after_plain : forall fuel feat steps c c', inv c ->
    ctx_after fuel feat steps c = Some c' ->
    exists i h, plain_steps fuel feat steps (c_interp c) = Some (i, h) /\ c_interp c' = i /\
                mon_of c' = fold_left mon_step h (mon_of c) /\ inv c'.
  Proof.
    intros fuel feat. induction steps as [|s r IH]; intros c c' Hi H; cbn [ctx_after plain_steps] in *.
    - inversion H; subst. exists (c_interp c'), []. auto.
    - destruct s as [k a|t]; cbn [run_step] in H.
      + destruct (RunAct fuel feat k a c) as [[c1 s1]|] eqn:E; [|discriminate]. destruct s1; try discriminate.
        destruct (run_act_plain fuel feat k a c c1 Hi E) as (i1 & ms & P & U). rewrite P.
        assert (Hi1 : inv c1) by (subst c1; apply inv_upd, Hi).
        destruct (IH c1 c' Hi1 H) as (i & h & P2 & Hc & Hm & Hv). subst c1. rewrite c_interp_upd in P2.
        rewrite P2. eexists _, _. split; [reflexivity|]. split; [exact Hc|]. split; [|exact Hv].
        cbn [fold_left]. rewrite <- (mon_upd k c i1 ms Hi). exact Hm.
      + unfold run_then in H. destruct (c_trace c) as [tr|] eqn:T; [|discriminate].
        destruct (EvalThen t tr (c_interp c)); try discriminate.
        assert (Hi1 : inv (mkCtx (c_interp c) false (Some tr))) by (intro X; discriminate).
        destruct (IH _ c' Hi1 H) as (i & h & P2 & Hc & Hm & Hv). cbn [c_interp] in P2. rewrite P2.
        eexists _, _. split; [reflexivity|]. split; [exact Hc|]. split; [|exact Hv].
        cbn [fold_left mon_step]. unfold mon_of at 2. cbn [snd]. rewrite T. exact Hm.
  Qed.

  (* C19_block: at any point of a scenario whose steps so far passed, context.interpreter is the plain
     interpreter after the same given/when steps and context.monitored_trace is the concatenation of
     the macro steps of the when steps of the block -- None iff there has been no when step yet. *)
  Theorem C19_block : forall fuel feat steps i0 c,
    ctx_after fuel feat steps (ctx_init I i0) = Some c ->
    exists i h, plain_steps fuel feat steps i0 = Some (i, h) /\ c_interp c = i /\
      (forall blk, is_block h blk -> c_trace c = Some blk) /\
      (existsb is_when h = true -> exists blk, is_block h blk) /\
      (existsb is_when h = false -> c_trace c = None).
  Proof.
    intros fuel feat steps i0 c H.
    assert (Hi : inv (ctx_init I i0)) by (intro X; discriminate).
    destruct (ctx_after_plain fuel feat steps _ c Hi H) as (i & h & P & Hc & Hm & _).
    exists i, h. split; [exact P|]. split; [exact Hc|]. split; [|split; [apply block_exists|]].
    - intros blk B. apply block_mon in B. unfold mon_of in Hm. cbn in Hm. rewrite <- Hm in B. exact B.
    - intro W. unfold mon_of in Hm. cbn in Hm.
      assert (X : forall l st, existsb is_when l = false -> snd (fold_left mon_step l st) = snd st).
      { induction l as [|x l IHl]; intros st HW; [reflexivity|]. cbn [existsb] in HW. apply orb_false_iff in HW.
        destruct HW as [W1 W2]. cbn [fold_left]. rewrite IHl by exact W2. destruct x; try discriminate; reflexivity. }
      specialize (X h (false, None) W). rewrite <- Hm in X. exact X.
  Qed.

  (* ================================================================ verdicts *)
  Lemma run_steps_false : forall fuel feat steps c sts,
    RunSteps fuel feat steps c false = Some sts -> sts = repeat Skipped (length steps).
  Proof.
    intros fuel feat. induction steps as [|s r IH]; intros c sts H; cbn [run_steps] in H.
    - inversion H. reflexivity.
    - destruct (RunSteps fuel feat r c false) as [l|] eqn:E; [|discriminate]. inversion H; subst.
      cbn [length repeat]. f_equal. apply (IH c), E.
  Qed.

  Lemma run_steps_length : forall fuel feat steps c ok sts,
    RunSteps fuel feat steps c ok = Some sts -> length sts = length steps.
  Proof.
    intros fuel feat. induction steps as [|s r IH]; intros c ok sts H; cbn [run_steps] in H.
    - inversion H. reflexivity.
    - destruct ok.
      + destruct (RunStep fuel feat s c) as [[c1 s1]|]; [|discriminate].
        destruct (RunSteps fuel feat r c1 (is_passed s1)) as [l|] eqn:E; [|discriminate]. inversion H; subst.
        cbn [length]. f_equal. apply (IH _ _ _ E).
      + destruct (RunSteps fuel feat r c false) as [l|] eqn:E; [|discriminate]. inversion H; subst.
        cbn [length]. f_equal. apply (IH _ _ _ E).
  Qed.

  (* behave: every step after the first one that did not pass is skipped *)
  Theorem C19_skip : forall fuel feat steps i0 sts j s,
    RunScenario fuel feat steps i0 = Some sts ->
    nth_error sts j = Some s -> s <> Passed ->
    forall k, (j < k)%nat -> (k < length steps)%nat -> nth_error sts k = Some Skipped.
  Proof.
    intros fuel feat steps i0. unfold run_scenario. generalize (ctx_init I i0).
    induction steps as [|x r IH]; intros c sts j s H Hj Hs k Hjk Hk; cbn [run_steps] in H.
    - cbn in Hk. lia.
    - destruct (RunStep fuel feat x c) as [[c1 s1]|]; [|discriminate].
      destruct (RunSteps fuel feat r c1 (is_passed s1)) as [l|] eqn:E; [|discriminate]. inversion H; subst.
      destruct k as [|k]; [lia|]. cbn [nth_error]. cbn [length] in Hk. destruct j as [|j].
      + cbn in Hj. inversion Hj; subst. destruct s; try (exfalso; apply Hs; reflexivity);
          cbn [is_passed] in E; apply run_steps_false in E; subst l; apply nth_error_repeat; lia.
      + cbn [nth_error] in Hj. destruct s1; cbn [is_passed] in E.
        * apply (IH c1 l j s E Hj Hs k); lia.
        * apply run_steps_false in E; subst l; apply nth_error_repeat; lia.
        * apply run_steps_false in E; subst l; apply nth_error_repeat; lia.
        * apply run_steps_false in E; subst l; apply nth_error_repeat; lia.
        * apply run_steps_false in E; subst l; apply nth_error_repeat; lia.
  Qed.

  Lemma run_steps_prefix : forall fuel feat pre s rest c sts,
    RunSteps fuel feat (pre ++ s :: rest) c true = Some sts ->
    (forall j, (j < length pre)%nat -> nth_error sts j = Some Passed) ->
    exists c', ctx_after fuel feat pre c = Some c' /\
               exists st c2, RunStep fuel feat s c' = Some (c2, st) /\ nth_error sts (length pre) = Some st.
  Proof.
    intros fuel feat. induction pre as [|x pre IH]; intros s rest c sts H Hp; cbn [app run_steps ctx_after length] in *.
    - destruct (RunStep fuel feat s c) as [[c1 s1]|] eqn:R0; [|discriminate].
      destruct (RunSteps fuel feat rest c1 (is_passed s1)) as [l|]; [|discriminate]. inversion H; subst.
      exists c. split; [reflexivity|]. exists s1, c1. split; [exact R0|reflexivity].
    - destruct (RunStep fuel feat x c) as [[c1 s1]|]; [|discriminate].
      destruct (RunSteps fuel feat (pre ++ s :: rest) c1 (is_passed s1)) as [l|] eqn:E; [|discriminate]. inversion H; subst.
      assert (X := Hp 0%nat (Nat.lt_0_succ _)). cbn in X. inversion X; subst s1. cbn [is_passed] in E.
      destruct (IH s rest c1 l E) as (c' & A & B).
      { intros j Hj. apply (Hp (S j)). lia. }
      exists c'. split; [exact A|exact B].
  Qed.

  (* C19_verdict: in a scenario run by execute_bdd, a then step all of whose predecessors passed, that
     is preceded by a when step and names existing states, is reported `passed` iff its fact holds of
     (the block of when steps as delimited above, the state of a plain interpreter after the same
     given/when steps). *)
  Theorem C19_verdict : forall fuel feat pre t rest i0 sts,
    RunScenario fuel feat (pre ++ SThen t :: rest) i0 = Some sts ->
    (forall j, (j < length pre)%nat -> nth_error sts j = Some Passed) ->
    (exists a, In (SAct When a) pre) ->
    states_ok states t = true ->
    exists i h blk,
      plain_steps fuel feat pre i0 = Some (i, h) /\ is_block h blk /\
      (nth_error sts (length pre) = Some Passed <-> Fact t blk i).
  Proof.
    intros fuel feat pre t rest i0 sts H Hp [a Ha] Hs. unfold run_scenario in H.
    destruct (run_steps_prefix fuel feat pre (SThen t) rest _ sts H Hp) as (c & A & st & c2 & R & N).
    destruct (C19_block fuel feat pre i0 c A) as (i & h & P & Hc & B1 & B2 & _).
    assert (W : existsb is_when h = true).
    { clear - P Ha. revert i0 i h P. induction pre as [|x pre IH]; intros i0 i h P; [destruct Ha|].
      cbn [plain_steps] in P. destruct x as [k a'|t'].
      - destruct (plain_act fuel feat a' i0) as [[i1 ms]|]; [|discriminate].
        destruct (plain_steps fuel feat pre i1) as [[i2 h2]|] eqn:E; [|discriminate]. inversion P; subst.
        destruct Ha as [X|X].
        + inversion X; subst. reflexivity.
        + cbn [existsb]. rewrite (IH X i1 i h2 E). apply orb_true_r.
      - destruct (plain_steps fuel feat pre i0) as [[i2 h2]|] eqn:E; [|discriminate]. inversion P; subst.
        destruct Ha as [X|X]; [discriminate|]. cbn [existsb is_when orb]. apply (IH X i0 i h2 E). }
    destruct (B2 W) as [blk B]. exists i, h, blk. split; [exact P|]. split; [exact B|].
    rewrite N. cbn [run_step] in R. unfold run_then in R. rewrite (B1 blk B) in R. inversion R; subst.
    split.
    - intro X. inversion X as [X']. apply then_fact; assumption.
    - intro X. f_equal. apply then_fact; assumption.
  Qed.

End ModelProofs.

(* ================================================================== non-vacuity of the model theorems *)
Module Toy.
  (* a small concrete interpreter: the state is the list of queued event names; execute() consumes
     them, one macro step per event, entering the state named like the event and sending out(v=1) *)
  Definition I := list name.
  Definition q (e : event) (i : I) : I := i ++ [e_name e].
  Definition adv (_ : Q) (i : I) : I := i.
  Definition ex (i : I) : I * option (list macrostep) :=
    ([], Some (map (fun n => (0%Z, [mkMicro (Some (mkEvent External n [])) None [n] [] [mkEvent Internal "out" [("v", VInt 1)]]])) i)).
  Definition config (_ : I) : list name := ["root"].
  Definition final (_ : I) := false.
  Definition cx (_ : I) : list (name * value) := [("x", VInt 1)].
  Definition ev (_ : I) (e : string) : option bool := if str_eqb e "x == 1" then Some true else None.
  Definition states : list name := ["root"; "a"; "b"].
  Definition steps : list step :=
    [SAct Given (ASend "a" [] None); SAct When (ARepeat (ASend "b" [("p", VInt 0)] (Some ("p", VInt 2))) 2);
     SAct Given ANothing; SAct When ANothing;
     SThen (TEntered "b"); SThen (TFired "out" [] (Some ("v", VBool true))); SThen (TEntered "a"); SThen TFinal].
End Toy.

Example C19_verdict_nonvacuous :
  run_scenario Toy.I Toy.q Toy.adv Toy.ex Toy.config Toy.final Toy.cx Toy.ev Toy.states 5 [] Toy.steps []
    = Some [Passed; Passed; Passed; Passed; Passed; Passed; Failed; Skipped] /\
  (exists a, In (SAct When a) (firstn 4 Toy.steps)) /\
  (exists i h, plain_steps Toy.I Toy.q Toy.adv Toy.ex 5 [] (firstn 4 Toy.steps) [] = Some (i, h) /\
               existsb is_when h = true /\ h = [HG; HW (whens h); HG; HW []]) /\
  inv Toy.I (ctx_init Toy.I []).
Proof.
  split; [vm_compute; reflexivity|]. split; [eexists; cbn; right; left; reflexivity|].
  split; [|intro X; discriminate]. eexists _, _. split; [vm_compute; reflexivity|]. split; vm_compute; reflexivity.
Qed.

(* ================================================================== documented patterns *)
(* Written by hand from docs/behavior.rst, section "Predefined steps" ("Given/when X" = both a
   given and a when definition), in the order steps.py registers them. *)
Module Doc.
  Definition patterns : list stepdef := [
    ("when", "I do nothing", "do_nothing");
    ("given", "I do nothing", "do_nothing");
    ("given", "I reproduce ""{scenario}""", "reproduce_scenario");
    ("when", "I reproduce ""{scenario}""", "_reproduce_scenario");
    ("given", "I repeat ""{step}"" {repeat:d} times", "repeat_step");
    ("when", "I repeat ""{step}"" {repeat:d} times", "_repeat_step");
    ("when", "I send event {name} with {parameter}={value}", "send_event");
    ("when", "I send event {name}", "send_event");
    ("given", "I send event {name} with {parameter}={value}", "send_event");
    ("given", "I send event {name}", "send_event");
    ("when", "I wait {seconds:g} second", "wait");
    ("when", "I wait {seconds:g} seconds", "wait");
    ("given", "I wait {seconds:g} second", "wait");
    ("given", "I wait {seconds:g} seconds", "wait");
    ("then", "state {name} is entered", "state_is_entered");
    ("then", "state {name} is not entered", "state_is_not_entered");
    ("then", "state {name} is exited", "state_is_exited");
    ("then", "state {name} is not exited", "state_is_not_exited");
    ("then", "state {name} is active", "state_is_active");
    ("then", "state {name} is not active", "state_is_not_active");
    ("then", "event {name} is fired with {parameter}={value}", "event_is_fired");
    ("then", "event {name} is fired", "event_is_fired");
    ("then", "event {name} is not fired", "event_is_not_fired");
    ("then", "no event is fired", "no_event_is_fired");
    ("then", "variable {variable} equals {value}", "variable_equals");
    ("then", "variable {variable} does not equal {value}", "variable_does_not_equal");
    ("then", "expression ""{expression}"" holds", "expression_holds");
    ("then", "expression {expression} holds", "expression_holds");
    ("then", "expression ""{expression}"" does not hold", "expression_does_not_hold");
    ("then", "expression {expression} does not hold", "expression_does_not_hold");
    ("then", "statechart is in a final configuration", "final_configuration");
    ("then", "statechart is not in a final configuration", "not_final_configuration")
  ].

  (* every predefined step in the documented spelling, with sample plain arguments, and the step
     of the model it must denote *)
  Definition samples : list (stype * string * step) := [
    (TyGiven, "I do nothing", SAct Given ANothing);
    (TyWhen, "I do nothing", SAct When ANothing);
    (TyGiven, "I reproduce ""open the door""", SAct Given (AReproduce "open the door"));
    (TyWhen, "I reproduce ""s1""", SAct When (AReproduce "s1"));
    (TyGiven, "I repeat ""I send event tick"" 3 times", SAct Given (ARepeat (ASend "tick" [] None) 3));
    (TyWhen, "I repeat ""I wait 1 second"" 10 times", SAct When (ARepeat (AWait 1) 10));
    (TyWhen, "I repeat ""I repeat ""I send event a with x=1"" 2 times"" 3 times",
       SAct When (ARepeat (ARepeat (ASend "a" [] (Some ("x", VInt 1))) 2) 3));
    (TyGiven, "I send event floorSelected", SAct Given (ASend "floorSelected" [] None));
    (TyWhen, "I send event floorSelected", SAct When (ASend "floorSelected" [] None));
    (TyGiven, "I send event floorSelected with floor=4", SAct Given (ASend "floorSelected" [] (Some ("floor", VInt 4))));
    (TyWhen, "I send event e with p='a b'", SAct When (ASend "e" [] (Some ("p", VStr "a b"))));
    (TyWhen, "I send event e with p=None", SAct When (ASend "e" [] (Some ("p", VNone))));
    (TyWhen, "I send event e with p=True", SAct When (ASend "e" [] (Some ("p", VBool true))));
    (TyGiven, "I wait 10 seconds", SAct Given (AWait 10));
    (TyWhen, "I wait 2.5 seconds", SAct When (AWait (5 # 2)));
    (TyGiven, "I wait 1 second", SAct Given (AWait 1));
    (TyWhen, "I wait 1 second", SAct When (AWait 1));
    (TyThen, "state moving is entered", SThen (TEntered "moving"));
    (TyThen, "state moving is not entered", SThen (TNotEntered "moving"));
    (TyThen, "state door open is exited", SThen (TExited "door open"));
    (TyThen, "state moving is not exited", SThen (TNotExited "moving"));
    (TyThen, "state doorsOpen is active", SThen (TActive "doorsOpen"));
    (TyThen, "state doorsOpen is not active", SThen (TNotActive "doorsOpen"));
    (TyThen, "event lamp_on is fired", SThen (TFired "lamp_on" [] None));
    (TyThen, "event floor is fired with n=-2", SThen (TFired "floor" [] (Some ("n", VInt (-2)))));
    (TyThen, "event lamp_on is not fired", SThen (TNotFired "lamp_on"));
    (TyThen, "no event is fired", SThen TNoEvent);
    (TyThen, "variable current equals 4", SThen (TVarEq "current" (VInt 4)));
    (TyThen, "variable s equals ""up""", SThen (TVarEq "s" (VStr "up")));
    (TyThen, "variable current does not equal 4", SThen (TVarNe "current" (VInt 4)));
    (* the quotes are NOT part of the expression (defect fixed in /repo: with only the unquoted
       pattern registered the expression was the string literal "x == 2", always true) *)
    (TyThen, "expression ""x == 2"" holds", SThen (TExprHolds "x == 2"));
    (TyThen, "expression ""current == 4 and active('moving')"" holds", SThen (TExprHolds "current == 4 and active('moving')"));
    (TyThen, "expression ""x == 2"" does not hold", SThen (TExprNotHolds "x == 2"));
    (TyThen, "statechart is in a final configuration", SThen TFinal);
    (TyThen, "statechart is not in a final configuration", SThen TNotFinal)
  ].

  Definition samples_ok (ci : bool) (defs : list stepdef) : bool :=
    forallb (fun s => match s with
                      | (ty, text, exp) =>
                          match step_of_text ci defs ty text [] with
                          | Some st => step_eqb st exp
                          | None => false
                          end
                      end) samples.
End Doc.

Lemma doc_samples_ok : forall ci, Doc.samples_ok ci Doc.patterns = true.
Proof. intros [|]; vm_compute; reflexivity. Qed.


(* ================================================================== strings *)
Notation "a +++ b" := (String.append a b) (right associativity, at level 60).

Lemma sapp_assoc : forall a b c, (a +++ b) +++ c = a +++ (b +++ c).
Proof. induction a as [|x a IH]; intros b c; cbn; [reflexivity|]. rewrite IH. reflexivity. Qed.

Lemma sapp_nil_r : forall a, a +++ "" = a.
Proof. induction a as [|x a IH]; cbn; [reflexivity|]. rewrite IH. reflexivity. Qed.

Lemma sapp_snoc : forall pre c x, pre +++ String c x = (pre +++ s1 c) +++ x.
Proof. intros. unfold s1. rewrite sapp_assoc. reflexivity. Qed.

Lemma slen_app : forall a b, String.length (a +++ b) = (String.length a + String.length b)%nat.
Proof. induction a as [|x a IH]; intro b; cbn; [reflexivity|]. rewrite IH. reflexivity. Qed.

Lemma ceq_refl : forall ci a, ceq ci a a = true.
Proof. intros [|] a; unfold ceq; apply Ascii.eqb_refl. Qed.

Lemma strip_prefix_app : forall ci l r, strip_prefix ci l (l +++ r) = Some r.
Proof. induction l as [|a l IH]; intro r; cbn; [reflexivity|]. rewrite ceq_refl. apply IH. Qed.

Lemma strip_prefix_none_app : forall ci l x y, strip_prefix ci l x = None ->
  (String.length l <= String.length x)%nat -> strip_prefix ci l (x +++ y) = None.
Proof.
  induction l as [|a l IH]; intros x y H L; cbn in *; [discriminate|].
  destruct x as [|b x]; cbn in *; [lia|]. destruct (ceq ci a b); [|reflexivity].
  apply IH; [exact H|lia].
Qed.

Lemma strip_prefix_split : forall ci l s r, strip_prefix ci l s = Some r ->
  exists l', s = l' +++ r /\ str_eq_ci ci l l' = true.
Proof.
  induction l as [|a l IH]; intros s r H; cbn in H.
  - inversion H; subst. exists "". auto.
  - destruct s as [|b s]; [discriminate|]. destruct (ceq ci a b) eqn:E; [|discriminate].
    destruct (IH s r H) as (l' & H1 & H2). exists (String b l'). subst s. cbn. rewrite E, H2. auto.
Qed.

Lemma str_eq_ci_len : forall ci a b, str_eq_ci ci a b = true -> String.length a = String.length b.
Proof.
  induction a as [|x a IH]; intros [|y b] H; cbn in *; try discriminate; [reflexivity|].
  apply andb_true_iff in H. destruct H as [_ H]. f_equal. apply IH, H.
Qed.

(* ================================================================== matcher: completeness *)
(* An argument is plain w.r.t. the literal that follows its field when the literal does not occur
   (case folded if ci) at any earlier position of argument ++ literal. *)
Fixpoint plain_arg_b (ci : bool) (l a : string) : bool :=
  match a with
  | EmptyString => true
  | String _ r =>
      match r with
      | EmptyString => true
      | _ => match strip_prefix ci l (r +++ l) with None => plain_arg_b ci l r | Some _ => false end
      end
  end.

Lemma plain_arg_spec : forall ci l a, plain_arg_b ci l a = true ->
  forall x y, a = x +++ y -> x <> "" -> y <> "" -> strip_prefix ci l (y +++ l) = None.
Proof.
  induction a as [|c r IH]; intros H x y E Hx Hy.
  - destruct x; [congruence|discriminate].
  - destruct x as [|c' x']; [congruence|]. cbn in E. inversion E; subst c' r. clear E.
    assert (H' : strip_prefix ci l ((x' +++ y) +++ l) = None /\ plain_arg_b ci l (x' +++ y) = true).
    { cbn [plain_arg_b] in H. destruct (x' +++ y) as [|c2 r2] eqn:R.
      - destruct x'; [cbn in R; congruence|discriminate].
      - destruct (strip_prefix ci l (String c2 r2 +++ l)); [discriminate|]. auto. }
    destruct H' as [S P]. destruct x' as [|c3 x3].
    + exact S.
    + apply (IH P (String c3 x3) y eq_refl); [discriminate|exact Hy].
Qed.

Section SplitLemmas.
  Context {A : Type} (k : string -> string -> option A).

  Lemma splits_short_complete : forall a pre r v,
    (forall x y, a = x +++ y -> x <> "" -> y <> "" -> k (pre +++ x) (y +++ r) = None) ->
    a <> "" -> k (pre +++ a) r = Some v -> splits_short k pre (a +++ r) = Some v.
  Proof.
    induction a as [|c a IH]; intros pre r v H Ha Hk; [congruence|].
    cbn [String.append splits_short]. unfold sapp. destruct a as [|c2 a2].
    - cbn [String.append]. unfold s1. rewrite Hk. reflexivity.
    - rewrite (H (s1 c) (String c2 a2)); [|reflexivity|discriminate|discriminate].
      apply IH.
      + intros x y E Hx Hy. rewrite <- sapp_snoc. apply H; [|discriminate|exact Hy]. cbn. rewrite E. reflexivity.
      + discriminate.
      + rewrite <- sapp_snoc. exact Hk.
  Qed.

  Lemma splits_long_none : forall r pre,
    (forall x y, r = x +++ y -> x <> "" -> k (pre +++ x) y = None) -> splits_long k pre r = None.
  Proof.
    induction r as [|c r IH]; intros pre H; [reflexivity|]. cbn [splits_long]. unfold sapp.
    rewrite IH.
    - apply (H (s1 c) r); [reflexivity|discriminate].
    - intros x y E Hx. rewrite <- sapp_snoc. apply H; [|discriminate]. cbn. rewrite E. reflexivity.
  Qed.

  Lemma splits_long_complete : forall a pre r v,
    (forall x y, r = x +++ y -> x <> "" -> k (pre +++ a +++ x) y = None) ->
    a <> "" -> k (pre +++ a) r = Some v -> splits_long k pre (a +++ r) = Some v.
  Proof.
    induction a as [|c a IH]; intros pre r v H Ha Hk; [congruence|].
    cbn [String.append splits_long]. unfold sapp. destruct a as [|c2 a2].
    - cbn [String.append]. rewrite splits_long_none.
      + exact Hk.
      + intros x y E Hx. rewrite sapp_assoc. apply H; assumption.
    - rewrite (IH (pre +++ s1 c) r v).
      + reflexivity.
      + intros x y E Hx. rewrite sapp_assoc. unfold s1. cbn [String.append]. apply H; assumption.
      + discriminate.
      + rewrite <- sapp_snoc. exact Hk.
  Qed.
End SplitLemmas.

Lemma match_lit : forall ci l p s, match_elems ci (PLit l :: p) (l +++ s) = match_elems ci p s.
Proof. intros. cbn [match_elems]. rewrite strip_prefix_app. reflexivity. Qed.

Lemma match_any_last : forall ci n a, a <> "" -> match_elems ci [PField n FAny] a = Some [(n, a)].
Proof.
  intros ci n a Ha. cbn [match_elems field_ok]. rewrite <- (sapp_nil_r a) at 1.
  apply splits_short_complete; [|exact Ha|reflexivity].
  intros x y E Hx Hy. cbn. rewrite sapp_nil_r. destruct y; [congruence|reflexivity].
Qed.

Lemma match_any_lit : forall ci n l p a s b, a <> "" -> plain_arg_b ci l a = true ->
  match_elems ci p s = Some b ->
  match_elems ci (PField n FAny :: PLit l :: p) (a +++ l +++ s) = Some ((n, a) :: b).
Proof.
  intros ci n l p a s b Ha Hp Hm. cbn [match_elems field_ok].
  apply splits_short_complete; [|exact Ha|].
  - intros x y E Hx Hy. cbn [String.append]. rewrite <- sapp_assoc.
    rewrite strip_prefix_none_app; [reflexivity| |].
    + apply (plain_arg_spec ci l a Hp x y E Hx Hy).
    + rewrite slen_app. lia.
  - cbn [String.append]. rewrite strip_prefix_app, Hm. reflexivity.
Qed.

(* numeric fields: a non-empty string of decimal digits, followed by a literal starting with a blank *)
Lemma span1_digits : forall a seen r, str_forall is_digit a = true -> is_digit " "%char = false ->
  span1 is_digit (a +++ String " " r) seen = (match a with EmptyString => seen | _ => true end, String " " r).
Proof.
  induction a as [|c a IH]; intros seen r H _; cbn in *; [reflexivity|].
  apply andb_true_iff in H. destruct H as [H1 H2]. rewrite H1. rewrite IH by (assumption || reflexivity).
  destruct a; reflexivity.
Qed.

Lemma digits_not_sign : forall c, is_digit c = true -> is_sign3 c = false /\ is_sign2 c = false.
Proof.
  intros c H. unfold is_digit in H. unfold is_sign3, is_sign2.
  destruct c as [[|] [|] [|] [|] [|] [|] [|] [|]]; cbn in *; try discriminate; auto.
Qed.

Lemma str_forall_app : forall p a b, str_forall p (a +++ b) = str_forall p a && str_forall p b.
Proof. induction a as [|c a IH]; intro b; cbn; [reflexivity|]. rewrite IH, andb_assoc. reflexivity. Qed.

Lemma digit_head_facts : forall ci c, is_digit c = true ->
  ceq ci c "n"%char = false /\ ceq ci c "N"%char = false /\ ceq ci c "i"%char = false /\ ceq ci c "I"%char = false.
Proof.
  intros ci c H. unfold is_digit in H.
  destruct c as [[|] [|] [|] [|] [|] [|] [|] [|]]; cbn in H; try discriminate; destruct ci; cbn; auto.
Qed.

Lemma span1_all_digits : forall s b, str_forall is_digit s = true ->
  span1 is_digit s b = (match s with EmptyString => b | _ => true end, "").
Proof.
  induction s as [|x s IH]; intros b H; [reflexivity|]. cbn in *. apply andb_true_iff in H.
  destruct H as [H1 H2]. rewrite H1. rewrite IH by exact H2. destruct s; reflexivity.
Qed.

Lemma field_ok_digits : forall ci t a, nonempty_all is_digit a = true -> field_ok ci t a = true.
Proof.
  intros ci t a H. destruct a as [|c a]; [discriminate|]. cbn [nonempty_all] in H.
  assert (Hc : is_digit c = true) by (cbn in H; apply andb_true_iff in H; tauto).
  destruct (digits_not_sign c Hc) as [S3 S2].
  destruct t; [reflexivity| |].
  - cbn [field_ok]. unfold d_ok. cbn [opt_char]. rewrite S3. cbn [opt_char]. rewrite S3.
    cbn [nonempty_all]. rewrite H. reflexivity.
  - cbn [field_ok]. unfold g_ok. cbn [opt_char]. rewrite S3.
    rewrite (span1_all_digits (String c a) false H). reflexivity.
Qed.

Lemma field_ok_digits_blank : forall ci t a x, nonempty_all is_digit a = true -> (t = FInt \/ t = FNum) ->
  field_ok ci t (a +++ String " " x) = false.
Proof.
  intros ci t a x H Ht. destruct a as [|c a]; [discriminate|]. cbn [nonempty_all] in H.
  assert (Hc : is_digit c = true) by (cbn in H; apply andb_true_iff in H; tauto).
  assert (Ha : str_forall is_digit a = true) by (cbn in H; apply andb_true_iff in H; tauto).
  destruct (digits_not_sign c Hc) as [S3 S2]. destruct (digit_head_facts ci c Hc) as (N1 & N2 & N3 & N4).
  assert (D : forall y, nonempty_all is_digit (String c (a +++ String " " y)) = false).
  { intro y. cbn. rewrite str_forall_app. cbn. rewrite andb_false_r, andb_false_r. reflexivity. }
  assert (B : forall y m p, (forall ch, (is_digit ch = true \/ ch = " "%char) -> ceq true ch m = false) ->
              based ci m p (String c (a +++ String " " y)) = false).
  { intros y m p Hm. unfold based. cbn [opt_char]. rewrite S3. destruct a as [|a1 a2]; cbn [String.append].
    - rewrite (Hm " "%char) by (right; reflexivity). rewrite andb_false_r. reflexivity.
    - cbn in Ha. apply andb_true_iff in Ha. destruct Ha as [Ha1 Ha2].
      rewrite (Hm a1) by (left; exact Ha1). rewrite andb_false_r. reflexivity. }
  assert (MX : forall ch, (is_digit ch = true \/ ch = " "%char) -> ceq true ch "x"%char = false).
  { intros ch [Hd|Hd]; [|subst; reflexivity]. unfold is_digit in Hd.
    destruct ch as [[|] [|] [|] [|] [|] [|] [|] [|]]; cbn in Hd; try discriminate; reflexivity. }
  assert (MB : forall ch, (is_digit ch = true \/ ch = " "%char) -> ceq true ch "b"%char = false).
  { intros ch [Hd|Hd]; [|subst; reflexivity]. unfold is_digit in Hd.
    destruct ch as [[|] [|] [|] [|] [|] [|] [|] [|]]; cbn in Hd; try discriminate; reflexivity. }
  assert (MO : forall ch, (is_digit ch = true \/ ch = " "%char) -> ceq true ch "o"%char = false).
  { intros ch [Hd|Hd]; [|subst; reflexivity]. unfold is_digit in Hd.
    destruct ch as [[|] [|] [|] [|] [|] [|] [|] [|]]; cbn in Hd; try discriminate; reflexivity. }
  assert (G : forall y, g_ok ci (String c (a +++ String " " y)) = false).
  { intro y. unfold g_ok. cbn [opt_char]. rewrite S3, S2.
    assert (X : span1 is_digit (String c (a +++ String " " y)) false = (true, String " " y)).
    { cbn [span1]. rewrite Hc. rewrite span1_digits by (assumption || reflexivity). destruct a; reflexivity. }
    rewrite X. cbn [andb].
    replace (str_eq_ci ci (String c (a +++ String " " y)) "nan") with false by (cbn; rewrite N1; reflexivity).
    replace (str_eq_ci ci (String c (a +++ String " " y)) "NAN") with false by (cbn; rewrite N2; reflexivity).
    replace (str_eq_ci ci (String c (a +++ String " " y)) "inf") with false by (cbn; rewrite N3; reflexivity).
    replace (str_eq_ci ci (String c (a +++ String " " y)) "INF") with false by (cbn; rewrite N4; reflexivity).
    destruct ci; reflexivity. }
  destruct Ht; subst t; cbn [field_ok String.append].
  - unfold d_ok. cbn [opt_char]. rewrite S3. cbn [opt_char]. rewrite S3.
    rewrite !D, !(B _ _ _ MX), !(B _ _ _ MB), !(B _ _ _ MO). reflexivity.
  - rewrite !G. reflexivity.
Qed.

Lemma match_num_lit : forall ci n t l' p a s b, nonempty_all is_digit a = true -> (t = FInt \/ t = FNum) ->
  match_elems ci p s = Some b ->
  match_elems ci (PField n t :: PLit (String " " l') :: p) (a +++ String " " l' +++ s) = Some ((n, a) :: b).
Proof.
  intros ci n t l' p a s b Ha Ht Hm.
  assert (Hne : a <> "") by (destruct a; [discriminate|discriminate]).
  assert (X : match_elems ci (PField n t :: PLit (String " " l') :: p) (a +++ String " " l' +++ s) =
              splits_long (fun pre rest => if field_ok ci t pre then
                                             match match_elems ci (PLit (String " " l') :: p) rest with
                                             | Some b => Some ((n, pre) :: b) | None => None end
                                           else None) "" (a +++ String " " l' +++ s)).
  { destruct Ht; subst t; reflexivity. }
  rewrite X. apply splits_long_complete; [|exact Hne|].
  - intros x y E Hx. cbn [String.append]. destruct x as [|c x]; [congruence|].
    cbn [String.append] in E. inversion E; subst c.
    rewrite (field_ok_digits_blank ci t a x Ha Ht). reflexivity.
  - cbn [String.append]. rewrite (field_ok_digits ci t a Ha). change (String " " (l' +++ s)) with (String " " l' +++ s).
    rewrite match_lit, Hm. reflexivity.
Qed.

(* ================================================================== matcher: when a pattern cannot match *)
Lemma nomatch_prefix : forall ci l p s, strip_prefix ci l s = None -> match_elems ci (PLit l :: p) s = None.
Proof. intros ci l p s H. cbn [match_elems]. rewrite H. reflexivity. Qed.

(* l occurs in s (case folded if ci) *)
Fixpoint contains (ci : bool) (l s : string) : bool :=
  match strip_prefix ci l s with
  | Some _ => true
  | None => match s with EmptyString => false | String _ r => contains ci l r end
  end.

Lemma contains_skip : forall ci l x s, contains ci l s = true -> contains ci l (x +++ s) = true.
Proof.
  induction x as [|c x IH]; intros s H; cbn [String.append]; [exact H|].
  cbn [contains]. destruct (strip_prefix ci l (String c (x +++ s))); [reflexivity|]. apply IH, H.
Qed.

Section SplitSome.
  Context {A : Type} (k : string -> string -> option A).
  Lemma splits_short_some : forall s pre v, splits_short k pre s = Some v ->
    exists x y, s = x +++ y /\ x <> "" /\ k (pre +++ x) y = Some v.
  Proof.
    induction s as [|c s IH]; intros pre v H; cbn [splits_short] in H; [discriminate|]. unfold sapp in H.
    destruct (k (pre +++ s1 c) s) eqn:E.
    - inversion H; subst. exists (s1 c), s. split; [reflexivity|]. split; [discriminate|exact E].
    - destruct (IH _ _ H) as (x & y & H1 & H2 & H3). exists (String c x), y. subst s.
      split; [reflexivity|]. split; [discriminate|]. rewrite sapp_snoc. exact H3.
  Qed.
  Lemma splits_long_some : forall s pre v, splits_long k pre s = Some v ->
    exists x y, s = x +++ y /\ x <> "" /\ k (pre +++ x) y = Some v.
  Proof.
    induction s as [|c s IH]; intros pre v H; cbn [splits_long] in H; [discriminate|]. unfold sapp in H.
    destruct (splits_long k (pre +++ s1 c) s) eqn:E.
    - inversion H; subst. destruct (IH _ _ E) as (x & y & H1 & H2 & H3). exists (String c x), y. subst s.
      split; [reflexivity|]. split; [discriminate|]. rewrite sapp_snoc. exact H3.
    - exists (s1 c), s. split; [reflexivity|]. split; [discriminate|exact H].
  Qed.
End SplitSome.

(* one step of a successful match: a non-empty prefix of the text is consumed by the field *)
Lemma match_field_some : forall ci n t p s b, match_elems ci (PField n t :: p) s = Some b ->
  exists x y b', s = x +++ y /\ x <> "" /\ match_elems ci p y = Some b' /\ b = (n, x) :: b'.
Proof.
  intros ci n t p s b H. cbn [match_elems] in H.
  assert (X : exists x y, s = x +++ y /\ x <> "" /\
              (if field_ok ci t x then match match_elems ci p y with Some b0 => Some ((n, x) :: b0) | None => None end
               else None) = Some b).
  { destruct t; [apply splits_short_some in H|apply splits_long_some in H|apply splits_long_some in H];
      destruct H as (x & y & H1 & H2 & H3); exists x, y; auto. }
  destruct X as (x & y & H1 & H2 & H3). destruct (field_ok ci t x); [|discriminate].
  destruct (match_elems ci p y) as [b0|] eqn:E; [|discriminate]. inversion H3; subst.
  exists x, y, b0. auto.
Qed.

(* every literal of a pattern that matches occurs in the text *)
Lemma match_contains : forall ci l p s b, match_elems ci p s = Some b -> In (PLit l) p -> contains ci l s = true.
Proof.
  induction p as [|e p IH]; intros s b H Hin; [destruct Hin|]. destruct e as [l0|n t].
  - cbn [match_elems] in H. destruct (strip_prefix ci l0 s) as [r|] eqn:E; [|discriminate].
    destruct Hin as [X|X].
    + inversion X; subst. destruct s; cbn [contains]; rewrite E; reflexivity.
    + destruct (strip_prefix_split ci l0 s r E) as (l' & H1 & _). subst s. apply contains_skip. apply (IH r b H X).
  - destruct Hin as [X|X]; [discriminate|].
    destruct (match_field_some ci n t p s b H) as (x & y & b' & H1 & _ & H3 & _). subst s.
    apply contains_skip. apply (IH y b' H3 X).
Qed.

(* the text of a matching pattern ends with (something case-equal to) its last literal *)
Definition ends_with (ci : bool) (l s : string) : Prop := exists front tail, s = front +++ tail /\ str_eq_ci ci l tail = true.

Lemma strip_prefix_full : forall ci l s, strip_prefix ci l s = Some "" -> str_eq_ci ci l s = true.
Proof.
  induction l as [|a l IH]; intros s H; cbn in H.
  - inversion H; subst. reflexivity.
  - destruct s as [|b s]; [discriminate|]. destruct (ceq ci a b) eqn:E; [|discriminate]. cbn. rewrite E. apply IH, H.
Qed.

Lemma match_ends : forall ci l p s b, match_elems ci (p ++ [PLit l]) s = Some b -> ends_with ci l s.
Proof.
  induction p as [|e p IH]; intros s b H.
  - cbn [app match_elems] in H. destruct (strip_prefix ci l s) as [r|] eqn:E; [|discriminate].
    destruct r; [|discriminate]. exists "", s. split; [reflexivity|]. apply strip_prefix_full, E.
  - cbn [app] in H. destruct e as [l0|n t].
    + cbn [match_elems] in H. destruct (strip_prefix ci l0 s) as [r|] eqn:E; [|discriminate].
      destruct (strip_prefix_split ci l0 s r E) as (l' & H1 & _). destruct (IH r b H) as (f & t & H2 & H3).
      exists (l' +++ f), t. subst. rewrite sapp_assoc. auto.
    + destruct (match_field_some ci n t _ s b H) as (x & y & b' & H1 & _ & H3 & _).
      destruct (IH y b' H3) as (f & tl & H2 & H4). exists (x +++ f), tl. subst. rewrite sapp_assoc. auto.
Qed.

Lemma sapp_cancel_r : forall f2 f1 t1 t2, f1 +++ t1 = f2 +++ t2 -> (String.length t1 <= String.length t2)%nat ->
  exists g, t2 = g +++ t1.
Proof.
  induction f2 as [|c f2 IH]; intros f1 t1 t2 H L.
  - cbn in H. exists f1. congruence.
  - destruct f1 as [|c1 f1].
    + cbn in H. subst t1. cbn in L. rewrite slen_app in L. lia.
    + cbn in H. inversion H; subst. apply (IH f1 t1 t2 H2 L).
Qed.

Fixpoint sskip (n : nat) (s : string) : string :=
  match n, s with O, _ => s | S n', String _ r => sskip n' r | S _, EmptyString => EmptyString end.

Lemma sskip_app : forall g t, sskip (String.length g) (g +++ t) = t.
Proof. induction g as [|c g IH]; intro t; cbn; [reflexivity|apply IH]. Qed.

(* l1 is (case-equal to) a suffix of l2, for two literals *)
Definition suffix_lit (ci : bool) (l1 l2 : string) : bool :=
  str_eq_ci ci l1 (sskip (String.length l2 - String.length l1) l2).

Lemma str_eq_ci_sym : forall ci a b, str_eq_ci ci a b = str_eq_ci ci b a.
Proof.
  induction a as [|x a IH]; intros [|y b]; cbn; try reflexivity. rewrite IH. f_equal.
  unfold ceq. destruct ci; apply Ascii.eqb_sym.
Qed.

Lemma str_eq_ci_app : forall ci a b c d, str_eq_ci ci a b = true -> str_eq_ci ci (a +++ c) (b +++ d) = str_eq_ci ci c d.
Proof.
  induction a as [|x a IH]; intros [|y b] c d H; cbn in *; try discriminate; [reflexivity|].
  apply andb_true_iff in H. destruct H as [H1 H2]. rewrite H1. apply IH, H2.
Qed.

(* suffix clash: a text that ends with the literal l2 cannot be matched by a pattern whose last literal
   is l1 unless the shorter of the two is a suffix of the longer *)
Lemma nomatch_suffix : forall ci p l1 front l2,
  (if (String.length l1 <=? String.length l2)%nat then suffix_lit ci l1 l2 else suffix_lit ci l2 l1) = false ->
  match_elems ci (p ++ [PLit l1]) (front +++ l2) = None.
Proof.
  intros ci p l1 front l2 H. destruct (match_elems ci (p ++ [PLit l1]) (front +++ l2)) as [b|] eqn:E; [|reflexivity].
  exfalso. destruct (match_ends ci l1 p _ b E) as (f & t & H1 & H2).
  assert (Lt := str_eq_ci_len ci l1 t H2).
  destruct (String.length l1 <=? String.length l2)%nat eqn:L.
  - apply Nat.leb_le in L. symmetry in H1. destruct (sapp_cancel_r front f t l2 H1) as (g & G); [lia|].
    unfold suffix_lit in H. assert (X : (String.length l2 - String.length l1 = String.length g)%nat).
    { rewrite G, slen_app. lia. }
    rewrite X, G, sskip_app, H2 in H. discriminate.
  - apply Nat.leb_gt in L. destruct (sapp_cancel_r f front l2 t H1) as (g & G); [lia|].
    unfold suffix_lit in H. subst t.
    assert (Y : exists g1 t1, l1 = g1 +++ t1 /\ String.length g1 = String.length g /\ str_eq_ci ci t1 l2 = true).
    { clear - H2. revert l1 H2. induction g as [|c g IH]; intros l1 H2.
      - exists "", l1. cbn in *. auto.
      - destruct l1 as [|c1 l1]; cbn in H2; [discriminate|]. apply andb_true_iff in H2. destruct H2 as [_ H2].
        destruct (IH l1 H2) as (g1 & t1 & A & B & C). exists (String c1 g1), t1. subst. cbn. auto. }
    destruct Y as (g1 & t1 & A & B & C).
    assert (X : (String.length l1 - String.length l2 = String.length g1)%nat).
    { rewrite A, slen_app. rewrite (str_eq_ci_len ci t1 l2 C). lia. }
    rewrite X, A, sskip_app, str_eq_ci_sym, C in H. discriminate.
Qed.

(* first match wins *)
Lemma dispatch_cons : forall ci ty pat fn r st text,
  dispatch ci ((ty, pat, fn) :: r) st text =
  if str_eqb ty st then
    match parse_pattern pat with
    | None => DUnsupported pat
    | Some p => match match_elems ci p text with Some b => DMatch fn b | None => dispatch ci r st text end
    end
  else dispatch ci r st text.
Proof. reflexivity. Qed.

(* the registry with its patterns parsed once *)
Definition pstepdef := (string * option pattern * string * string)%type.
Definition parsed_of (defs : list stepdef) : list pstepdef :=
  map (fun d => match d with (ty, pat, fn) => (ty, parse_pattern pat, pat, fn) end) defs.

Fixpoint dispatch_p (ci : bool) (defs : list pstepdef) (stype : string) (text : string) : dispatch_result :=
  match defs with
  | [] => DUndefined
  | (ty, pp, pat, fn) :: r =>
      if str_eqb ty stype then
        match pp with
        | None => DUnsupported pat
        | Some p =>
            match match_elems ci p text with
            | Some b => DMatch fn b
            | None => dispatch_p ci r stype text
            end
        end
      else dispatch_p ci r stype text
  end.

Lemma dispatch_parsed : forall ci defs st text, dispatch ci defs st text = dispatch_p ci (parsed_of defs) st text.
Proof.
  induction defs as [|[[ty pat] fn] r IH]; intros st text; cbn [dispatch parsed_of map dispatch_p]; [reflexivity|].
  destruct (str_eqb ty st); [|apply IH]. destruct (parse_pattern pat); [|reflexivity].
  destruct (match_elems ci p text); [reflexivity|apply IH].
Qed.

(* ... and restricted to one step type *)
Definition fstepdef := (option pattern * string * string)%type.
Fixpoint of_type (st : string) (defs : list pstepdef) : list fstepdef :=
  match defs with
  | [] => []
  | (ty, pp, pat, fn) :: r => if str_eqb ty st then (pp, pat, fn) :: of_type st r else of_type st r
  end.
Fixpoint dispatch_f (ci : bool) (defs : list fstepdef) (text : string) : dispatch_result :=
  match defs with
  | [] => DUndefined
  | (pp, pat, fn) :: r =>
      match pp with
      | None => DUnsupported pat
      | Some p =>
          match match_elems ci p text with
          | Some b => DMatch fn b
          | None => dispatch_f ci r text
          end
      end
  end.

Lemma dispatch_filtered : forall ci defs st text, dispatch_p ci defs st text = dispatch_f ci (of_type st defs) text.
Proof.
  induction defs as [|[[[ty pp] pat] fn] r IH]; intros st text; cbn [dispatch_p of_type]; [reflexivity|].
  destruct (str_eqb ty st); [|apply IH]. cbn [dispatch_f]. destruct pp; [|reflexivity].
  destruct (match_elems ci p text); [reflexivity|apply IH].
Qed.

Definition doc_given : list fstepdef := Eval vm_compute in of_type "given" (parsed_of Doc.patterns).
Definition doc_when : list fstepdef := Eval vm_compute in of_type "when" (parsed_of Doc.patterns).
Definition doc_then : list fstepdef := Eval vm_compute in of_type "then" (parsed_of Doc.patterns).

Lemma dispatch_doc_given : forall ci text, dispatch ci Doc.patterns "given" text = dispatch_f ci doc_given text.
Proof. intros. rewrite dispatch_parsed, dispatch_filtered. reflexivity. Qed.
Lemma dispatch_doc_when : forall ci text, dispatch ci Doc.patterns "when" text = dispatch_f ci doc_when text.
Proof. intros. rewrite dispatch_parsed, dispatch_filtered. reflexivity. Qed.
Lemma dispatch_doc_then : forall ci text, dispatch ci Doc.patterns "then" text = dispatch_f ci doc_then text.
Proof. intros. rewrite dispatch_parsed, dispatch_filtered. reflexivity. Qed.

Lemma dispatch_nomatch : forall ci pat fn r text p R,
  match_elems ci p text = None ->
  dispatch_f ci r text = R -> dispatch_f ci ((Some p, pat, fn) :: r) text = R.
Proof. intros. cbn [dispatch_f]. rewrite H. assumption. Qed.

Lemma dispatch_match : forall ci pat fn r text p b,
  match_elems ci p text = Some b ->
  dispatch_f ci ((Some p, pat, fn) :: r) text = DMatch fn b.
Proof. intros. cbn [dispatch_f]. rewrite H. reflexivity. Qed.

(* a field followed by the LAST literal of the pattern: no plainness needed, the literal must end the text *)
Lemma match_any_lit_end : forall ci n l a, a <> "" ->
  match_elems ci [PField n FAny; PLit l] (a +++ l) = Some [(n, a)].
Proof.
  intros ci n l a Ha. replace (a +++ l) with (a +++ l +++ "") by (rewrite sapp_nil_r; reflexivity).
  cbn [match_elems field_ok]. apply splits_short_complete; [|exact Ha|].
  - intros x y E Hx Hy. cbn [String.append]. rewrite sapp_nil_r.
    destruct (strip_prefix ci l (y +++ l)) as [r|] eqn:S; [|reflexivity].
    destruct (strip_prefix_split ci l _ r S) as (l' & H1 & H2). apply str_eq_ci_len in H2.
    assert (L : String.length (y +++ l) = String.length (l' +++ r)) by (rewrite H1; reflexivity).
    rewrite !slen_app in L. destruct r; [|reflexivity]. destruct y; [congruence|]. cbn in L. lia.
  - cbn [String.append]. rewrite strip_prefix_app. reflexivity.
Qed.

Lemma match_num_lit_end : forall ci n t l' a, nonempty_all is_digit a = true -> (t = FInt \/ t = FNum) ->
  match_elems ci [PField n t; PLit (String " " l')] (a +++ String " " l') = Some [(n, a)].
Proof.
  intros ci n t l' a Ha Ht.
  replace (a +++ String " " l') with (a +++ String " " l' +++ "") by (rewrite sapp_nil_r; reflexivity).
  apply match_num_lit; auto.
Qed.

(* suffix clash for texts of the form prefix ++ argument ++ suffix *)
Lemma nomatch_suffix2 : forall ci p l1 pre x l2,
  (if (String.length l1 <=? String.length l2)%nat then suffix_lit ci l1 l2 else suffix_lit ci l2 l1) = false ->
  match_elems ci (p ++ [PLit l1]) (pre +++ x +++ l2) = None.
Proof. intros. rewrite <- sapp_assoc. apply nomatch_suffix. assumption. Qed.

(* ================================================================== C19_dispatch *)
(* every predefined step in the spelling of docs/behavior.rst, with its arguments as text *)
Inductive docstep :=
| DNothing (k : gw)
| DReproduce (k : gw) (scen : string)
| DRepeat (k : gw) (stp n : string)
| DSend (k : gw) (nm : string)
| DSendWith (k : gw) (nm prm val : string)
| DWait (k : gw) (secs : string) (singular : bool)
| DEntered (n : string) | DNotEntered (n : string) | DExited (n : string) | DNotExited (n : string)
| DActive (n : string) | DNotActive (n : string)
| DFired (n : string) | DFiredWith (n prm val : string) | DNotFired (n : string) | DNoEvent
| DVarEq (x v : string) | DVarNe (x v : string)
| DExpr (e : string) | DNotExpr (e : string)
| DFinal | DNotFinal.

Definition doc_type (d : docstep) : string :=
  match d with
  | DNothing k | DReproduce k _ | DRepeat k _ _ | DSend k _ | DSendWith k _ _ _ | DWait k _ _ => gw_type k
  | _ => "then"
  end.

Definition doc_text (d : docstep) : string :=
  match d with
  | DNothing _ => "I do nothing"
  | DReproduce _ s => "I reproduce """ +++ s +++ """"
  | DRepeat _ st n => "I repeat """ +++ st +++ """ " +++ n +++ " times"
  | DSend _ n => "I send event " +++ n
  | DSendWith _ n p v => "I send event " +++ n +++ " with " +++ p +++ "=" +++ v
  | DWait _ s true => "I wait " +++ s +++ " second"
  | DWait _ s false => "I wait " +++ s +++ " seconds"
  | DEntered n => "state " +++ n +++ " is entered"
  | DNotEntered n => "state " +++ n +++ " is not entered"
  | DExited n => "state " +++ n +++ " is exited"
  | DNotExited n => "state " +++ n +++ " is not exited"
  | DActive n => "state " +++ n +++ " is active"
  | DNotActive n => "state " +++ n +++ " is not active"
  | DFired n => "event " +++ n +++ " is fired"
  | DFiredWith n p v => "event " +++ n +++ " is fired with " +++ p +++ "=" +++ v
  | DNotFired n => "event " +++ n +++ " is not fired"
  | DNoEvent => "no event is fired"
  | DVarEq x v => "variable " +++ x +++ " equals " +++ v
  | DVarNe x v => "variable " +++ x +++ " does not equal " +++ v
  | DExpr e => "expression """ +++ e +++ """ holds"
  | DNotExpr e => "expression """ +++ e +++ """ does not hold"
  | DFinal => "statechart is in a final configuration"
  | DNotFinal => "statechart is not in a final configuration"
  end.

(* the step function of steps.py that must be selected, and the arguments it must receive *)
Definition doc_fn (d : docstep) : string :=
  match d with
  | DNothing _ => "do_nothing"
  | DReproduce Given _ => "reproduce_scenario" | DReproduce When _ => "_reproduce_scenario"
  | DRepeat Given _ _ => "repeat_step" | DRepeat When _ _ => "_repeat_step"
  | DSend _ _ | DSendWith _ _ _ _ => "send_event"
  | DWait _ _ _ => "wait"
  | DEntered _ => "state_is_entered" | DNotEntered _ => "state_is_not_entered"
  | DExited _ => "state_is_exited" | DNotExited _ => "state_is_not_exited"
  | DActive _ => "state_is_active" | DNotActive _ => "state_is_not_active"
  | DFired _ | DFiredWith _ _ _ => "event_is_fired"
  | DNotFired _ => "event_is_not_fired" | DNoEvent => "no_event_is_fired"
  | DVarEq _ _ => "variable_equals" | DVarNe _ _ => "variable_does_not_equal"
  | DExpr _ => "expression_holds" | DNotExpr _ => "expression_does_not_hold"
  | DFinal => "final_configuration" | DNotFinal => "not_final_configuration"
  end.

Definition doc_args (d : docstep) : list binding :=
  match d with
  | DNothing _ | DNoEvent | DFinal | DNotFinal => []
  | DReproduce _ s => [("scenario", s)]
  | DRepeat _ st n => [("step", st); ("repeat", n)]
  | DSend _ n => [("name", n)]
  | DSendWith _ n p v => [("name", n); ("parameter", p); ("value", v)]
  | DWait _ s _ => [("seconds", s)]
  | DEntered n | DNotEntered n | DExited n | DNotExited n | DActive n | DNotActive n
  | DFired n | DNotFired n => [("name", n)]
  | DFiredWith n p v => [("name", n); ("parameter", p); ("value", v)]
  | DVarEq x v | DVarNe x v => [("variable", x); ("value", v)]
  | DExpr e | DNotExpr e => [("expression", e)]
  end.

Definition nonempty (s : string) : bool := match s with EmptyString => false | _ => true end.
Lemma nonempty_ne : forall s, nonempty s = true -> s <> "".
Proof. intros [|c s] H; [discriminate|discriminate]. Qed.

(* "plain arguments": non-empty; an argument followed by a keyword and a further argument does not
   contain that keyword early (plain_arg_b); numbers are decimal digits; where an earlier registered
   pattern differs only by an extra keyword ("=", " equals "), that keyword does not occur. *)
Definition doc_plain (ci : bool) (d : docstep) : bool :=
  match d with
  | DNothing _ | DNoEvent | DFinal | DNotFinal => true
  | DReproduce _ s => nonempty s
  | DRepeat _ st n => nonempty st && plain_arg_b ci """ " st && nonempty_all is_digit n
  | DSend _ n => nonempty n && negb (contains ci "=" n)
  | DSendWith _ n p v => nonempty n && plain_arg_b ci " with " n && nonempty p && plain_arg_b ci "=" p && nonempty v
  | DWait _ s _ => nonempty_all is_digit s
  | DEntered n | DNotEntered n | DExited n | DNotExited n | DActive n | DNotActive n => nonempty n
  | DFired n | DNotFired n => nonempty n && negb (contains ci "=" n)
  | DFiredWith n p v => nonempty n && plain_arg_b ci " is fired with " n && nonempty p && plain_arg_b ci "=" p && nonempty v
  | DVarEq x v => nonempty x && plain_arg_b ci " equals " x && nonempty v
  | DVarNe x v => nonempty x && plain_arg_b ci " does not equal " x && nonempty v
                  && negb (contains ci " equals " (doc_text (DVarNe x v)))
  | DExpr e | DNotExpr e => nonempty e
  end.

Ltac no_prefix := apply dispatch_nomatch; [apply nomatch_prefix; reflexivity|].
Ltac no_suffix :=
  apply dispatch_nomatch; [ |];
  [match goal with
   | |- match_elems ?ci [?a; ?b; PLit ?l1] (?pre +++ ?x +++ ?l2) = None =>
       apply (nomatch_suffix2 ci [a; b] l1 pre x l2); reflexivity
   end|].
Ltac hit := apply dispatch_match.
Ltac start := cbn [doc_text doc_fn gw_type]; rewrite ?dispatch_doc_given, ?dispatch_doc_when, ?dispatch_doc_then; unfold doc_given, doc_when, doc_then.
Ltac skips := start; repeat first [no_prefix | no_suffix].

Lemma andb_split : forall a b, a && b = true -> a = true /\ b = true.
Proof. intros a b H. apply andb_true_iff in H. exact H. Qed.

Ltac split_plain H :=
  repeat match type of H with
         | _ && _ = true => let H2 := fresh "P" in apply andb_split in H; destruct H as [H H2]
         end.

Theorem C19_dispatch_then_state : forall ci n, nonempty n = true ->
  dispatch ci Doc.patterns "then" (doc_text (DEntered n)) = DMatch "state_is_entered" [("name", n)] /\
  dispatch ci Doc.patterns "then" (doc_text (DNotEntered n)) = DMatch "state_is_not_entered" [("name", n)] /\
  dispatch ci Doc.patterns "then" (doc_text (DExited n)) = DMatch "state_is_exited" [("name", n)] /\
  dispatch ci Doc.patterns "then" (doc_text (DNotExited n)) = DMatch "state_is_not_exited" [("name", n)] /\
  dispatch ci Doc.patterns "then" (doc_text (DActive n)) = DMatch "state_is_active" [("name", n)] /\
  dispatch ci Doc.patterns "then" (doc_text (DNotActive n)) = DMatch "state_is_not_active" [("name", n)].
Proof.
  intros ci n H. apply nonempty_ne in H. idtac.
  repeat split; destruct ci; skips; hit; rewrite match_lit; apply match_any_lit_end; exact H.
Qed.

Ltac in_lit := cbn [In]; repeat (first [left; reflexivity | right]).

Lemma contains_char_app : forall ci c a b,
  contains ci (String c "") (a +++ b) = contains ci (String c "") a || contains ci (String c "") b.
Proof.
  induction a as [|x a IH]; intro b; cbn [String.append].
  - cbn. reflexivity.
  - cbn [contains strip_prefix]. destruct (ceq ci c x); [reflexivity|]. apply IH.
Qed.

(* the pattern at the head contains the literal "=", the text does not *)
Ltac no_eq Hc :=
  apply dispatch_nomatch; [ |];
  [match goal with
   | |- match_elems ?ci ?p ?text = None =>
       let E := fresh "E" in
       destruct (match_elems ci p text) eqn:E; [exfalso|reflexivity];
       apply (match_contains ci "=") in E; [|in_lit];
       repeat rewrite contains_char_app in E; rewrite Hc in E; vm_compute in E; discriminate
   end|].
(* the pattern at the head contains the literal lit, the whole text does not (Hc) *)
Ltac no_lit lit Hc :=
  apply dispatch_nomatch; [ |];
  [match goal with
   | |- match_elems ?ci ?p ?text = None =>
       let E := fresh "E" in
       destruct (match_elems ci p text) eqn:E; [exfalso|reflexivity];
       apply (match_contains ci lit) in E; [|in_lit];
       rewrite Hc in E; discriminate
   end|].

Lemma negb_true : forall b, negb b = true -> b = false.
Proof. intros [|] H; [discriminate|reflexivity]. Qed.

Lemma C19_dispatch_actions : forall ci k,
  dispatch ci Doc.patterns (gw_type k) (doc_text (DNothing k)) = DMatch "do_nothing" [] /\
  (forall s, nonempty s = true ->
     dispatch ci Doc.patterns (gw_type k) (doc_text (DReproduce k s)) = DMatch (doc_fn (DReproduce k s)) [("scenario", s)]) /\
  (forall st n, nonempty st = true -> plain_arg_b ci """ " st = true -> nonempty_all is_digit n = true ->
     dispatch ci Doc.patterns (gw_type k) (doc_text (DRepeat k st n)) = DMatch (doc_fn (DRepeat k st n)) [("step", st); ("repeat", n)]) /\
  (forall n p v, nonempty n = true -> plain_arg_b ci " with " n = true -> nonempty p = true -> plain_arg_b ci "=" p = true ->
     nonempty v = true ->
     dispatch ci Doc.patterns (gw_type k) (doc_text (DSendWith k n p v)) = DMatch "send_event" [("name", n); ("parameter", p); ("value", v)]) /\
  (forall s, nonempty_all is_digit s = true ->
     dispatch ci Doc.patterns (gw_type k) (doc_text (DWait k s true)) = DMatch "wait" [("seconds", s)] /\
     dispatch ci Doc.patterns (gw_type k) (doc_text (DWait k s false)) = DMatch "wait" [("seconds", s)]).
Proof.
  intros ci k. idtac. split; [|split; [|split; [|split]]].
  - destruct ci, k; skips; hit; reflexivity.
  - intros s H. apply nonempty_ne in H. destruct ci, k; skips; hit; rewrite match_lit; apply match_any_lit_end; exact H.
  - intros st n H1 H2 H3. apply nonempty_ne in H1.
    destruct ci, k; skips; hit; rewrite match_lit; (apply match_any_lit; [exact H1|exact H2|]);
      (apply match_num_lit_end; [exact H3|left; reflexivity]).
  - intros n p v H1 H2 H3 H4 H5. apply nonempty_ne in H1. apply nonempty_ne in H3. apply nonempty_ne in H5.
    destruct ci, k; skips; hit; rewrite match_lit; (apply match_any_lit; [exact H1|exact H2|]);
      (apply match_any_lit; [exact H3|exact H4|]); apply match_any_last; exact H5.
  - intros s H. split; destruct ci, k; skips; hit; rewrite match_lit; apply match_num_lit_end; solve [exact H|right; reflexivity].
Qed.

Lemma C19_dispatch_send : forall ci k n, nonempty n = true -> contains ci "=" n = false ->
  dispatch ci Doc.patterns (gw_type k) (doc_text (DSend k n)) = DMatch "send_event" [("name", n)].
Proof.
  intros ci k n H Hc. apply nonempty_ne in H. idtac.
  destruct ci, k; skips; no_eq Hc; skips; hit; rewrite match_lit; apply match_any_last; exact H.
Qed.

Lemma C19_dispatch_events : forall ci n, nonempty n = true ->
  (forall p v, plain_arg_b ci " is fired with " n = true -> nonempty p = true -> plain_arg_b ci "=" p = true -> nonempty v = true ->
     dispatch ci Doc.patterns "then" (doc_text (DFiredWith n p v)) = DMatch "event_is_fired" [("name", n); ("parameter", p); ("value", v)]) /\
  (contains ci "=" n = false ->
     dispatch ci Doc.patterns "then" (doc_text (DFired n)) = DMatch "event_is_fired" [("name", n)] /\
     dispatch ci Doc.patterns "then" (doc_text (DNotFired n)) = DMatch "event_is_not_fired" [("name", n)]).
Proof.
  intros ci n H. apply nonempty_ne in H. idtac. split.
  - intros p v H2 H3 H4 H5. apply nonempty_ne in H3. apply nonempty_ne in H5.
    destruct ci; skips; hit; rewrite match_lit; (apply match_any_lit; [exact H|exact H2|]);
      (apply match_any_lit; [exact H3|exact H4|]); apply match_any_last; exact H5.
  - intros Hc. split; destruct ci; skips; no_eq Hc; skips; hit; rewrite match_lit; apply match_any_lit_end; exact H.
Qed.

Lemma C19_dispatch_literal :
  forall ci,
  dispatch ci Doc.patterns "then" (doc_text DNoEvent) = DMatch "no_event_is_fired" [] /\
  dispatch ci Doc.patterns "then" (doc_text DFinal) = DMatch "final_configuration" [] /\
  dispatch ci Doc.patterns "then" (doc_text DNotFinal) = DMatch "not_final_configuration" [].
Proof. intros [|]; vm_compute; auto. Qed.

Lemma C19_dispatch_vars : forall ci x v, nonempty x = true -> nonempty v = true ->
  (plain_arg_b ci " equals " x = true ->
     dispatch ci Doc.patterns "then" (doc_text (DVarEq x v)) = DMatch "variable_equals" [("variable", x); ("value", v)]) /\
  (plain_arg_b ci " does not equal " x = true -> contains ci " equals " (doc_text (DVarNe x v)) = false ->
     dispatch ci Doc.patterns "then" (doc_text (DVarNe x v)) = DMatch "variable_does_not_equal" [("variable", x); ("value", v)]).
Proof.
  intros ci x v H1 H2. apply nonempty_ne in H1. apply nonempty_ne in H2. split.
  - intro P. destruct ci; skips; hit; rewrite match_lit; (apply match_any_lit; [exact H1|exact P|]);
      apply match_any_last; exact H2.
  - intros P Hc. cbn [doc_text] in Hc.
    destruct ci; skips; no_lit " equals " Hc; skips; hit; rewrite match_lit; (apply match_any_lit; [exact H1|exact P|]);
      apply match_any_last; exact H2.
Qed.

(* `expression "x == 2" holds` binds expression to x == 2, WITHOUT the quotes, whatever the expression *)
Lemma C19_dispatch_expr : forall ci e, nonempty e = true ->
  dispatch ci Doc.patterns "then" (doc_text (DExpr e)) = DMatch "expression_holds" [("expression", e)] /\
  dispatch ci Doc.patterns "then" (doc_text (DNotExpr e)) = DMatch "expression_does_not_hold" [("expression", e)].
Proof.
  intros ci e H. apply nonempty_ne in H. idtac.
  split; destruct ci; skips; hit; rewrite match_lit; apply match_any_lit_end; exact H.
Qed.

(* C19_dispatch: over the documented pattern list (= the list extracted from steps.py, obligation
   gen_patterns_ok regenerated on every run), the documented spelling of EVERY predefined step with
   plain arguments is dispatched to the intended step function with exactly the intended arguments,
   under both matching modes (case sensitive / re.IGNORECASE). *)
Theorem C19_dispatch : forall ci d, doc_plain ci d = true ->
  dispatch ci Doc.patterns (doc_type d) (doc_text d) = DMatch (doc_fn d) (doc_args d).
Proof.
  intros ci d H. destruct d; cbn [doc_plain doc_type doc_fn doc_args] in *; split_plain H.
  - apply (C19_dispatch_actions ci k).
  - apply (C19_dispatch_actions ci k); assumption.
  - apply (C19_dispatch_actions ci k); assumption.
  - apply C19_dispatch_send; [assumption|apply negb_true; assumption].
  - apply (C19_dispatch_actions ci k); assumption.
  - destruct (C19_dispatch_actions ci k) as (_ & _ & _ & _ & W). destruct (W secs H) as [W1 W2].
    destruct singular; assumption.
  - apply (C19_dispatch_then_state ci n H).
  - apply (C19_dispatch_then_state ci n H).
  - apply (C19_dispatch_then_state ci n H).
  - apply (C19_dispatch_then_state ci n H).
  - apply (C19_dispatch_then_state ci n H).
  - apply (C19_dispatch_then_state ci n H).
  - apply (C19_dispatch_events ci n H). apply negb_true; assumption.
  - apply (C19_dispatch_events ci n H); assumption.
  - apply (C19_dispatch_events ci n H). apply negb_true; assumption.
  - apply (C19_dispatch_literal ci).
  - apply (C19_dispatch_vars ci x v); assumption.
  - apply (C19_dispatch_vars ci x v); try assumption. apply negb_true; assumption.
  - apply (C19_dispatch_expr ci e H).
  - apply (C19_dispatch_expr ci e H).
  - apply (C19_dispatch_literal ci).
  - apply (C19_dispatch_literal ci).
Qed.

(* the past defect, excluded for every expression: the quotes never become part of the expression *)
Corollary C19_expression_unquoted : forall ci e, nonempty e = true ->
  step_of_text ci Doc.patterns TyThen ("expression """ +++ e +++ """ holds") [] = Some (SThen (TExprHolds e)) /\
  step_of_text ci Doc.patterns TyThen ("expression """ +++ e +++ """ does not hold") [] = Some (SThen (TExprNotHolds e)).
Proof.
  intros ci e H. unfold step_of_text. destruct (C19_dispatch_expr ci e H) as [H1 H2].
  unfold doc_text in H1, H2. rewrite H1, H2. split; reflexivity.
Qed.

(* completeness of the matcher for plain arguments, for arbitrary patterns: s is the pattern p
   instantiated with args and b the bindings the step function must receive *)
Inductive plain_for (ci : bool) : pattern -> list string -> string -> list binding -> Prop :=
| pf_nil : plain_for ci [] [] "" []
| pf_lit : forall l p args s b, plain_for ci p args s b -> plain_for ci (PLit l :: p) args (l +++ s) b
| pf_last : forall n a, a <> "" -> plain_for ci [PField n FAny] [a] a [(n, a)]
| pf_any : forall n l p a args s b, a <> "" -> plain_arg_b ci l a = true -> plain_for ci p args s b ->
    plain_for ci (PField n FAny :: PLit l :: p) (a :: args) (a +++ l +++ s) ((n, a) :: b)
| pf_num : forall n t l' p a args s b, nonempty_all is_digit a = true -> (t = FInt \/ t = FNum) ->
    plain_for ci p args s b ->
    plain_for ci (PField n t :: PLit (String " " l') :: p) (a :: args) (a +++ String " " l' +++ s) ((n, a) :: b).

Theorem match_complete : forall ci p args s b, plain_for ci p args s b -> match_elems ci p s = Some b.
Proof.
  intros ci p args s b H. induction H.
  - reflexivity.
  - rewrite match_lit. exact IHplain_for.
  - apply match_any_last. assumption.
  - apply match_any_lit; assumption.
  - apply match_num_lit; assumption.
Qed.

Example match_complete_nonvacuous :
  plain_for false [PLit "I send event "; PField "name" FAny; PLit " with "; PField "parameter" FAny; PLit "="; PField "value" FAny]
            ["floorSelected"; "floor"; "4"] ("I send event " +++ "floorSelected" +++ " with " +++ "floor" +++ "=" +++ "4")
            [("name", "floorSelected"); ("parameter", "floor"); ("value", "4")] /\
  "I send event " +++ "floorSelected" +++ " with " +++ "floor" +++ "=" +++ "4" = "I send event floorSelected with floor=4".
Proof.
  split; [|reflexivity].
  apply (pf_lit false "I send event "). apply (pf_any false "name" " with " _ "floorSelected"); [discriminate|reflexivity|].
  apply (pf_any false "parameter" "=" _ "floor"); [discriminate|reflexivity|]. apply pf_last. discriminate.
Qed.

Example C19_dispatch_nonvacuous :
  doc_plain false (DSendWith When "floorSelected" "floor" "4") = true /\
  doc_plain true (DRepeat Given "I send event tick" "3") = true /\
  doc_plain false (DVarNe "current" "4") = true /\
  doc_plain true (DExpr "x == 2 and s == ""a""") = true /\
  doc_plain false (DNotFired "lamp on") = true.
Proof. vm_compute. repeat split; reflexivity. Qed.

Print Assumptions C19_testing.
Print Assumptions C19_given_when.
Print Assumptions C19_block.
Print Assumptions C19_skip.
Print Assumptions C19_verdict.
Print Assumptions fact_b_sound.
Print Assumptions C19_dispatch.
Print Assumptions C19_expression_unquoted.
Print Assumptions match_complete.
Print Assumptions doc_samples_ok.
