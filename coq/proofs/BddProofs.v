(* BddProofs.v -- theorems about the BDD model (theories/Bdd.v) for property C19.
   (header completed at the end of the file's development; see the final report block below) *)
From Coq Require Import QArith Lia.
From Sismic Require Import Base Chart Interp Bdd.
Open Scope string_scope.
Open Scope list_scope.

(* ================================================================== documented patterns *)
(* Written by hand from docs/behavior.rst, section "Predefined steps" ("Given/when X" = both a
   given and a when definition), in the order steps.py registers them. *)
Module Doc.
  Definition patterns : list stepdef := [
    ("when", "I do nothing", "do_nothing");
    ("given", "I do nothing", "do_nothing");
    ("given", "I reproduce ""{scenario}""", "reproduce_scenario");
    ("when", "I reproduce ""{scenario}""", "_reproduce_scenario");
    ("given", "I repeat ""{step}"" {repeat:d} times", "repeat_step");
    ("when", "I repeat ""{step}"" {repeat:d} times", "_repeat_step");
    ("when", "I send event {name} with {parameter}={value}", "send_event");
    ("when", "I send event {name}", "send_event");
    ("given", "I send event {name} with {parameter}={value}", "send_event");
    ("given", "I send event {name}", "send_event");
    ("when", "I wait {seconds:g} second", "wait");
    ("when", "I wait {seconds:g} seconds", "wait");
    ("given", "I wait {seconds:g} second", "wait");
    ("given", "I wait {seconds:g} seconds", "wait");
    ("then", "state {name} is entered", "state_is_entered");
    ("then", "state {name} is not entered", "state_is_not_entered");
    ("then", "state {name} is exited", "state_is_exited");
    ("then", "state {name} is not exited", "state_is_not_exited");
    ("then", "state {name} is active", "state_is_active");
    ("then", "state {name} is not active", "state_is_not_active");
    ("then", "event {name} is fired with {parameter}={value}", "event_is_fired");
    ("then", "event {name} is fired", "event_is_fired");
    ("then", "event {name} is not fired", "event_is_not_fired");
    ("then", "no event is fired", "no_event_is_fired");
    ("then", "variable {variable} equals {value}", "variable_equals");
    ("then", "variable {variable} does not equal {value}", "variable_does_not_equal");
    ("then", "expression ""{expression}"" holds", "expression_holds");
    ("then", "expression {expression} holds", "expression_holds");
    ("then", "expression ""{expression}"" does not hold", "expression_does_not_hold");
    ("then", "expression {expression} does not hold", "expression_does_not_hold");
    ("then", "statechart is in a final configuration", "final_configuration");
    ("then", "statechart is not in a final configuration", "not_final_configuration")
  ].

  (* every predefined step in the documented spelling, with sample plain arguments, and the step
     of the model it must denote *)
  Definition samples : list (stype * string * step) := [
    (TyGiven, "I do nothing", SAct Given ANothing);
    (TyWhen, "I do nothing", SAct When ANothing);
    (TyGiven, "I reproduce ""open the door""", SAct Given (AReproduce "open the door"));
    (TyWhen, "I reproduce ""s1""", SAct When (AReproduce "s1"));
    (TyGiven, "I repeat ""I send event tick"" 3 times", SAct Given (ARepeat (ASend "tick" [] None) 3));
    (TyWhen, "I repeat ""I wait 1 second"" 10 times", SAct When (ARepeat (AWait 1) 10));
    (TyWhen, "I repeat ""I repeat ""I send event a with x=1"" 2 times"" 3 times",
       SAct When (ARepeat (ARepeat (ASend "a" [] (Some ("x", VInt 1))) 2) 3));
    (TyGiven, "I send event floorSelected", SAct Given (ASend "floorSelected" [] None));
    (TyWhen, "I send event floorSelected", SAct When (ASend "floorSelected" [] None));
    (TyGiven, "I send event floorSelected with floor=4", SAct Given (ASend "floorSelected" [] (Some ("floor", VInt 4))));
    (TyWhen, "I send event e with p='a b'", SAct When (ASend "e" [] (Some ("p", VStr "a b"))));
    (TyWhen, "I send event e with p=None", SAct When (ASend "e" [] (Some ("p", VNone))));
    (TyWhen, "I send event e with p=True", SAct When (ASend "e" [] (Some ("p", VBool true))));
    (TyGiven, "I wait 10 seconds", SAct Given (AWait 10));
    (TyWhen, "I wait 2.5 seconds", SAct When (AWait (5 # 2)));
    (TyGiven, "I wait 1 second", SAct Given (AWait 1));
    (TyWhen, "I wait 1 second", SAct When (AWait 1));
    (TyThen, "state moving is entered", SThen (TEntered "moving"));
    (TyThen, "state moving is not entered", SThen (TNotEntered "moving"));
    (TyThen, "state door open is exited", SThen (TExited "door open"));
    (TyThen, "state moving is not exited", SThen (TNotExited "moving"));
    (TyThen, "state doorsOpen is active", SThen (TActive "doorsOpen"));
    (TyThen, "state doorsOpen is not active", SThen (TNotActive "doorsOpen"));
    (TyThen, "event lamp_on is fired", SThen (TFired "lamp_on" [] None));
    (TyThen, "event floor is fired with n=-2", SThen (TFired "floor" [] (Some ("n", VInt (-2)))));
    (TyThen, "event lamp_on is not fired", SThen (TNotFired "lamp_on"));
    (TyThen, "no event is fired", SThen TNoEvent);
    (TyThen, "variable current equals 4", SThen (TVarEq "current" (VInt 4)));
    (TyThen, "variable s equals ""up""", SThen (TVarEq "s" (VStr "up")));
    (TyThen, "variable current does not equal 4", SThen (TVarNe "current" (VInt 4)));
    (* the quotes are NOT part of the expression (defect fixed in /repo: with only the unquoted
       pattern registered the expression was the string literal "x == 2", always true) *)
    (TyThen, "expression ""x == 2"" holds", SThen (TExprHolds "x == 2"));
    (TyThen, "expression ""current == 4 and active('moving')"" holds", SThen (TExprHolds "current == 4 and active('moving')"));
    (TyThen, "expression ""x == 2"" does not hold", SThen (TExprNotHolds "x == 2"));
    (TyThen, "statechart is in a final configuration", SThen TFinal);
    (TyThen, "statechart is not in a final configuration", SThen TNotFinal)
  ].

  Definition samples_ok (ci : bool) (defs : list stepdef) : bool :=
    forallb (fun s => match s with
                      | (ty, text, exp) =>
                          match step_of_text ci defs ty text [] with
                          | Some st => step_eqb st exp
                          | None => false
                          end
                      end) samples.
End Doc.

Lemma doc_samples_ok : forall ci, Doc.samples_ok ci Doc.patterns = true.
Proof. intros [|]; vm_compute; reflexivity. Qed.

Print Assumptions doc_samples_ok.
