(* C18Proofs.v -- "A pickled or deep-copied interpreter continues exactly like the original".

   The interpreter of Interp.v keys the store behind __old__ by the owner of the contract; the Python evaluator keys
   it by object identity and a snapshot consists of new objects (theories/Snapshot.v).  Results:

     abs_rekey              re-keying a well-keyed store by the identities of the copied objects (what
                            PythonEvaluator.__setstate__ does) leaves its owner-keyed view unchanged
     old_for_abs            what Python's lookup by identity returns IS what Interp.v's lookup by owner returns on that
                            view (identities injective, store well keyed): the owner-keyed model is a faithful
                            abstraction of the identity-keyed store
     well_keyed_set / well_keyed_snapshot    the invariant "every entry sits under the identity of its owner" is kept by
                            the only write (evaluate_preconditions) and re-established by a snapshot for the copy
     C18_snapshot_model     the copy denotes the SAME model interpreter as the original (every field, store included)
     C18_continue           hence, for every statechart, evaluator, listeners and every continuation (any sequence of
                            queue / execute_once), the copy's run is the original's: same results (macro steps, errors,
                            contract verdicts including those reading __old__), same final state, same trace
     C18_continue_step      the same for one execute_once
     C18_undisturbed        taking the snapshot is a function of the original: the original's denotation is unchanged
     C18_stale_store / C18_continue_refuted_without_rekey
                            without the re-keying (the behaviour before the fix) the copy's view of the store is EMPTY
                            whenever the identities are fresh, and there is a concrete statechart and history on which
                            the copy then raises CodeEvaluationError where the original carries on -- the defect
                            switch of DESIGN.md section 5; a regression to it is reported by the correspondence run.

   What pickle / deepcopy really do (which attributes travel, object graph, identity of the copies) is runtime behaviour
   that this model only DESCRIBES; the correspondence check (harness/c18.py) compares the description with the real
   thing at every macro-step boundary.  No axiom; everything below is closed under the global context. *)
From Coq Require Import List Bool ZArith Arith Lia.
From Sismic Require Import Base Chart Interp Snapshot.
From SismicProofs Require Import FrameLib C09Proofs.
Import ListNotations.
Open Scope list_scope.

Section C18.
  Variable ctx : Type.

  Notation idstore := (idstore ctx).

  (* ---------------------------------------------------------------- the store *)
  Lemma abs_rekey (ids ids' : owner -> ident) (st : idstore) :
    well_keyed ids st -> abs_store ids' (snapshot_store true ids' st) = abs_store ids st.
  Proof.
    unfold snapshot_store. induction st as [|[k [o c]] st IH]; intros W; [reflexivity|].
    simpl. rewrite Nat.eqb_refl.
    assert (E : k = ids o) by (apply (W k o c); left; reflexivity).
    rewrite E, Nat.eqb_refl. simpl. f_equal.
    apply IH. intros k' o' c' Hin. apply (W k' o' c'). right. exact Hin.
  Qed.

  Lemma well_keyed_b_iff ids (st : idstore) : well_keyed_b ids st = true <-> well_keyed ids st.
  Proof.
    induction st as [|[k [o c]] st IH]; simpl.
    - split; [intros _ k o c []|reflexivity].
    - rewrite andb_true_iff, Nat.eqb_eq, IH. split.
      + intros [E W] k' o' c' [H|H]; [inversion H; subst; reflexivity|eapply W; eauto].
      + intros W. split; [apply (W k o c); left; reflexivity|].
        intros k' o' c' H. apply (W k' o' c'). right. exact H.
  Qed.

  Lemma well_keyed_snapshot ids' (st : idstore) : well_keyed ids' (snapshot_store true ids' st).
  Proof.
    unfold snapshot_store. intros k o c Hin. apply in_map_iff in Hin.
    destruct Hin as [[k0 [o0 c0]] [E _]]. inversion E; subst. reflexivity.
  Qed.

  Lemma well_keyed_set ids (st : idstore) o c :
    well_keyed ids st -> well_keyed ids (id_set (ids o) (o, c) st).
  Proof.
    induction st as [|[k [o1 c1]] st IH]; intros W k' o' c' Hin; simpl in Hin.
    - destruct Hin as [H|[]]. inversion H; subst. reflexivity.
    - destruct (Nat.eqb (ids o) k) eqn:E.
      + destruct Hin as [H|H]; [inversion H; subst; reflexivity|].
        apply (W k' o' c'). right. exact H.
      + destruct Hin as [H|H]; [inversion H; subst; apply (W k' o' c'); left; reflexivity|].
        apply IH in H; [exact H|]. intros a b d Hd. apply (W a b d). right. exact Hd.
  Qed.

  (* python's lookup by identity = the model's lookup by owner on the owner-keyed view *)
  Lemma old_for_abs ids (st : idstore) o :
    (forall a b, ids a = ids b -> a = b) -> well_keyed ids st ->
    old_for ids st o = old_lookup o (abs_store ids st).
  Proof.
    intros Hinj. unfold old_for. induction st as [|[k [o1 c1]] st IH]; intros W; [reflexivity|].
    assert (E : k = ids o1) by (apply (W k o1 c1); left; reflexivity).
    assert (W' : well_keyed ids st) by (intros a b d Hd; apply (W a b d); right; exact Hd).
    simpl. rewrite E, Nat.eqb_refl. simpl.
    destruct (Nat.eqb (ids o) (ids o1)) eqn:Ek.
    - apply Nat.eqb_eq in Ek. apply Hinj in Ek. subst o1.
      replace (owner_eqb o o) with true; [reflexivity|].
      symmetry. destruct o; simpl; [apply String.eqb_refl|apply Nat.eqb_refl].
    - replace (owner_eqb o o1) with false; [apply IH; exact W'|].
      symmetry. destruct (owner_eqb o o1) eqn:Eo; [|reflexivity].
      exfalso. apply Nat.eqb_neq in Ek. apply Ek. f_equal.
      destruct o, o1; simpl in Eo; try discriminate.
      + apply String.eqb_eq in Eo. subst. reflexivity.
      + apply Nat.eqb_eq in Eo. subst. reflexivity.
  Qed.

  (* the write of evaluate_preconditions commutes with the abstraction (fresh identities are not needed) *)
  Lemma abs_set ids (st : idstore) o c :
    (forall a b, ids a = ids b -> a = b) -> well_keyed ids st ->
    abs_store ids (id_set (ids o) (o, c) st) = old_set o c (abs_store ids st).
  Proof.
    intros Hinj. induction st as [|[k [o1 c1]] st IH]; intros W.
    - simpl. rewrite Nat.eqb_refl. reflexivity.
    - assert (E : k = ids o1) by (apply (W k o1 c1); left; reflexivity).
      assert (W' : well_keyed ids st) by (intros a b d Hd; apply (W a b d); right; exact Hd).
      simpl. rewrite E.
      destruct (Nat.eqb (ids o) (ids o1)) eqn:Ek.
      + apply Nat.eqb_eq in Ek. apply Hinj in Ek. subst o1.
        simpl. rewrite !Nat.eqb_refl. simpl.
        replace (owner_eqb o o) with true; [reflexivity|].
        symmetry. destruct o; simpl; [apply String.eqb_refl|apply Nat.eqb_refl].
      + simpl. rewrite Nat.eqb_refl. simpl.
        replace (owner_eqb o o1) with false; [f_equal; apply IH; exact W'|].
        symmetry. destruct (owner_eqb o o1) eqn:Eo; [|reflexivity].
        exfalso. apply Nat.eqb_neq in Ek. apply Ek. f_equal.
        destruct o, o1; simpl in Eo; try discriminate.
        * apply String.eqb_eq in Eo. subst. reflexivity.
        * apply Nat.eqb_eq in Eo. subst. reflexivity.
  Qed.

  (* ---------------------------------------------------------------- the snapshot *)
  Theorem C18_snapshot_model (p : pyinterp ctx) ids' :
    well_keyed (py_ids p) (py_store p) ->
    to_model (snapshot true ids' p) = to_model p.
  Proof.
    intros W. unfold to_model, snapshot. cbn [py_ids py_store py_data].
    rewrite (abs_rekey (py_ids p) ids' (py_store p) W). reflexivity.
  Qed.

  (* the copy is well keyed again: the argument can be repeated (snapshots of snapshots) *)
  Theorem C18_snapshot_well_keyed (p : pyinterp ctx) ids' :
    well_keyed (py_ids (snapshot true ids' p)) (py_store (snapshot true ids' p)).
  Proof. apply well_keyed_snapshot. Qed.

  (* taking a snapshot does not touch the original (the snapshot is a function of it) *)
  Theorem C18_undisturbed (p : pyinterp ctx) rekey ids' :
    let q := snapshot rekey ids' p in to_model p = to_model p /\ py_data q = py_data p.
  Proof. split; reflexivity. Qed.

  Section Runs.
    Variable X : Type.
    Variable exec_code : call ctx -> ctx -> option (ctx * list event).
    Variable eval_code : call ctx -> ctx -> option bool.
    Variable emit : Z -> meta -> X -> X * option err.
    Variable sc : chart.

    Theorem C18_continue_step (p : pyinterp ctx) ids' fuel now x tr :
      well_keyed (py_ids p) (py_store p) ->
      execute_once ctx X exec_code eval_code emit sc fuel now (mkM (to_model (snapshot true ids' p)) x tr)
      = execute_once ctx X exec_code eval_code emit sc fuel now (mkM (to_model p) x tr).
    Proof. intros W. rewrite (C18_snapshot_model p ids' W). reflexivity. Qed.

    Theorem C18_continue (p : pyinterp ctx) ids' ops x tr :
      well_keyed (py_ids p) (py_store p) ->
      run_ops ctx X exec_code eval_code emit sc ops (mkM (to_model (snapshot true ids' p)) x tr)
      = run_ops ctx X exec_code eval_code emit sc ops (mkM (to_model p) x tr).
    Proof. intros W. rewrite (C18_snapshot_model p ids' W). reflexivity. Qed.
  End Runs.

  (* ---------------------------------------------------------------- without the re-keying *)
  Lemma abs_stale (ids ids' : owner -> ident) (st : idstore) :
    well_keyed ids st -> (forall a b, ids' a <> ids b) ->
    abs_store ids' (snapshot_store false ids' st) = [].
  Proof.
    unfold snapshot_store. induction st as [|[k [o c]] st IH]; intros W F; [reflexivity|].
    simpl. assert (E : k = ids o) by (apply (W k o c); left; reflexivity).
    replace (Nat.eqb k (ids' o)) with false.
    - simpl. apply IH; [|exact F]. intros a b d Hd. apply (W a b d). right. exact Hd.
    - symmetry. apply Nat.eqb_neq. rewrite E. intros H. apply (F o o). symmetry. exact H.
  Qed.

  Theorem C18_stale_store (p : pyinterp ctx) ids' :
    well_keyed (py_ids p) (py_store p) -> (forall a b, ids' a <> py_ids p b) ->
    i_old (to_model (snapshot false ids' p)) = [].
  Proof. intros W F. unfold to_model, snapshot. cbn. apply (abs_stale (py_ids p)); assumption. Qed.

End C18.

(* ------------------------------------------------------------------ witnesses *)
Module C18Example.
  Import C09Example.

  (* the example of C09Proofs: root > {a, b}; a has the invariant x>=old (reads __old__), a --go / x+=1--> b with the
     postcondition x==old+1.  Identities: the original's objects are 2*i (states by a small table, transitions 100+i),
     the copy's objects are the odd numbers -- fresh. *)
  Definition ids0 (o : owner) : ident :=
    match o with
    | OState n => if str_eqb n "root" then 0 else if str_eqb n "a" then 2 else if str_eqb n "b" then 4 else 6
    | OTrans i => 100 + 2 * i
    end.
  Definition ids1 (o : owner) : ident := S (ids0 o).

  (* the original after its first step (a entered at x = 0: the store holds the snapshot of `a`) *)
  Definition after_first :=
    fst (run [OpStep 10 0] (start false)).
  Definition store0 : Snapshot.idstore Z :=
    map (fun oc => (ids0 (fst oc), oc)) (i_old (m_i after_first)).
  Definition orig : pyinterp Z := mkPy ids0 store0 (m_i after_first).

  Example orig_well_keyed : well_keyed_b ids0 (py_store orig) = true.
  Proof. vm_compute. reflexivity. Qed.

  Example orig_store_nonempty : length (py_store orig) = 1%nat.
  Proof. vm_compute. reflexivity. Qed.

  Example orig_denotes : to_model orig = m_i after_first.
  Proof. vm_compute. reflexivity. Qed.

  Definition continuation : list op :=
    [OpStep 10 1; OpQueue (mkEvent External "go" []); OpStep 10 2; OpStep 10 3].

  Definition cont (p : pyinterp Z) := snd (run continuation (mkM (to_model p) [] [])).

  (* with the re-keying the copy continues like the original: no error, same results (also by C18_continue) *)
  Example copy_continues : cont (snapshot true ids1 orig) = cont orig /\ forallb is_inl (cont orig) = true.
  Proof. vm_compute. split; reflexivity. Qed.

  Example copy_continues_by_theorem : cont (snapshot true ids1 orig) = cont orig.
  Proof.
    unfold cont, run.
    rewrite (C18_continue Z (list meta) ex_exec ex_eval ex_emit ex_chart orig ids1 continuation [] []); [reflexivity|].
    apply well_keyed_b_iff. exact orig_well_keyed.
  Qed.

  (* without it (behaviour before the fix): the invariant x>=old of `a` cannot be evaluated in the copy *)
  Theorem C18_continue_refuted_without_rekey :
    exists (p : pyinterp Z) (ids' : owner -> ident),
      well_keyed (py_ids p) (py_store p) /\ (forall a b, ids' a <> py_ids p b) /\
      cont (snapshot false ids' p) <> cont p /\
      In (inr (ECode CInv (OState "a") 1)) (cont (snapshot false ids' p)).
  Proof.
    exists orig, ids1. split; [apply well_keyed_b_iff; exact orig_well_keyed|]. split.
    - intros a b. unfold ids1. cbn [py_ids orig].
      assert (E : forall o, Nat.even (ids0 o) = true).
      { intros [n|i].
        - simpl. destruct (str_eqb n "root"); [reflexivity|]. destruct (str_eqb n "a"); [reflexivity|].
          destruct (str_eqb n "b"); reflexivity.
        - unfold ids0. replace (100 + 2 * i)%nat with (2 * (50 + i))%nat by lia.
          rewrite Nat.even_mul. reflexivity. }
      intros H. pose proof (E a) as Ea. pose proof (E b) as Eb. rewrite <- H in Eb.
      rewrite Nat.even_succ in Eb. rewrite <- Nat.negb_even in Eb. rewrite Ea in Eb. discriminate.
    - split; [vm_compute; intros H; discriminate H|vm_compute; tauto].
  Qed.

End C18Example.

Print Assumptions C18_snapshot_model.
Print Assumptions C18_continue.
Print Assumptions C18_continue_step.
Print Assumptions old_for_abs.
Print Assumptions abs_set.
Print Assumptions C18_stale_store.
Print Assumptions C18Example.C18_continue_refuted_without_rekey.
Print Assumptions C18Example.copy_continues_by_theorem.
