(* CopyProofs.v -- structural half of C17 (second sentence): Copy.copy_from_statechart.  WORK IN PROGRESS header,
   replaced at the end. *)
From Coq Require Import String Ascii List Bool ZArith NArith Arith Lia Permutation.
From Sismic Require Import Base Chart Edit Copy.
From SismicProofs Require Import SortLib EditProofs.
Import ListNotations.
Open Scope string_scope.
Open Scope list_scope.

(* ================================================================== 0. a concrete host and guest *)
Definition ex_host : chart :=
  mkChart "host" (Some "d") (Some "x = 1")
    [("hroot", stx "hroot" KCompound (Some "plug") None); ("plug", stx "plug" KBasic None None);
     ("other", stx "other" KBasic None None)]
    [("hroot", None); ("plug", Some "hroot"); ("other", Some "hroot")]
    [(None, ["hroot"]); (Some "hroot", ["plug"; "other"]); (Some "plug", []); (Some "other", [])]
    [trx "plug" (Some "other") "leave"; trx "other" (Some "plug") "enter"].

(* top > { r > {a, b > {b1, bh (shallow, memory b1)}}, out } *)
Definition ex_guest : chart :=
  mkChart "guest" None None
    [("top", stx "top" KCompound (Some "r") None);
     ("r", stx "r" KCompound (Some "a") None); ("out", stx "out" KBasic None None);
     ("a", stx "a" KBasic None None); ("b", stx "b" KCompound (Some "b1") None);
     ("b1", stx "b1" KBasic None None); ("bh", stx "bh" KShallow None (Some "b1"))]
    [("top", None); ("r", Some "top"); ("out", Some "top"); ("a", Some "r"); ("b", Some "r");
     ("b1", Some "b"); ("bh", Some "b")]
    [(None, ["top"]); (Some "top", ["r"; "out"]); (Some "r", ["a"; "b"]); (Some "out", []);
     (Some "a", []); (Some "b", ["b1"; "bh"]); (Some "b1", []); (Some "bh", [])]
    [trx "a" (Some "b") "go"; trx "out" None "tick"; trx "b1" (Some "a") "back"; trx "r" None "ping";
     trx "a" (Some "bh") "hist"; trx "b1" (Some "b1") "loop"].

Definition ex_rho : list (name * name) := [("a", "p_a"); ("b", "p_b"); ("b1", "p_b1"); ("bh", "p_bh"); ("out", "zzz")].

Definition ex_result : chart * eres := Eval vm_compute in copy_from_statechart ex_host ex_guest "r" "plug" ex_rho.

(* ================================================================== 1. refused calls leave the host unchanged *)
Theorem copy_refused_unchanged : forall host guest source replace rho,
  (has_state host replace = false ->
     copy_from_statechart host guest source replace rho = (host, EStatechartError)) /\
  (children_for host replace <> [] ->
     copy_from_statechart host guest source replace rho = (host, EStatechartError)) /\
  (forall g r, rename_state guest source replace = (g, r) -> r <> EOk ->
     copy_from_statechart host guest source replace rho = (host, r) \/
     copy_from_statechart host guest source replace rho = (host, EStatechartError)) /\
  (forall g r, has_state host replace = true -> children_for host replace = [] ->
     rename_state guest source replace = (g, r) -> r <> EOk ->
     copy_from_statechart host guest source replace rho = (host, r) /\ r = EStatechartError).
Proof.
  intros host guest source replace rho. unfold copy_from_statechart.
  split; [|split; [|split]].
  - intros H. rewrite H. reflexivity.
  - intros H. destruct (has_state host replace); [|reflexivity].
    destruct (children_for host replace); [congruence|reflexivity].
  - intros g r Hr Hne. destruct (has_state host replace); [|right; reflexivity]. cbn [negb].
    destruct (children_for host replace); [|right; reflexivity].
    rewrite Hr. destruct r; try congruence; left; reflexivity.
  - intros g r H1 H2 Hr Hne. rewrite H1, H2, Hr. cbn [negb].
    assert (E : r = EStatechartError).
    { unfold rename_state in Hr. repeat break_match_hyp Hr; inv Hr; congruence. }
    subst r. split; reflexivity.
Qed.

(* ================================================================== 2. collect_transitions (goal 5) *)
Lemma nat_mem_In : forall x l, nat_mem x l = true <-> In x l.
Proof.
  intros x l; induction l as [|y l IH]; simpl; [split; [discriminate|tauto]|].
  rewrite orb_true_iff, IH, Nat.eqb_eq. split; intros [H|H]; auto.
Qed.

Lemma take_new_spec : forall xs seen,
  NoDup seen ->
  NoDup (take_new seen xs) /\ (forall i, In i (take_new seen xs) <-> In i seen \/ In i xs) /\
  exists l, take_new seen xs = seen ++ l.
Proof.
  induction xs as [|x xs IH]; intros seen Hnd; simpl.
  - split; [exact Hnd|]. split; [tauto|]. exists []. rewrite app_nil_r. reflexivity.
  - destruct (nat_mem x seen) eqn:E.
    + destruct (IH seen Hnd) as [H1 [H2 H3]]. split; [exact H1|]. split; [|exact H3].
      intros i. rewrite H2. apply nat_mem_In in E. split; [tauto|]. intros [H|[H|H]]; subst; auto.
    + assert (Hnd' : NoDup (seen ++ [x])).
      { apply NoDup_app_intro; [exact Hnd|constructor; [intros []|constructor]|].
        intros y Hy [<-|[]]. apply nat_mem_In in Hy. congruence. }
      destruct (IH _ Hnd') as [H1 [H2 [l H3]]]. split; [exact H1|]. split.
      * intros i. rewrite H2, in_app_iff. simpl. tauto.
      * exists (x :: l). rewrite H3, <- app_assoc. reflexivity.
Qed.

Lemma idx_filter_In : forall f l k i,
  In i (idx_filter f k l) <-> k <= i /\ exists t, nth_error l (i - k) = Some t /\ f t = true.
Proof.
  intros f l; induction l as [|t l IH]; intros k i; simpl.
  - split; [tauto|]. intros [_ [t [H _]]]. destruct (i - k); discriminate.
  - assert (Hrec : In i (idx_filter f (S k) l) <->
                   k <= i /\ i <> k /\ exists t0, nth_error l (i - S k) = Some t0 /\ f t0 = true).
    { rewrite IH. split; [intros [H1 H2]; repeat split; [lia|lia|exact H2]|intros [H1 [H2 H3]]; split; [lia|exact H3]]. }
    destruct (f t) eqn:Ef; simpl; rewrite ?Hrec.
    + split.
      * intros [<-|[H1 [H2 [t0 [H3 H4]]]]].
        -- split; [lia|]. rewrite Nat.sub_diag. exists t. auto.
        -- split; [lia|]. replace (i - k) with (S (i - S k)) by lia. simpl. eauto.
      * intros [H1 [t0 [H2 H3]]]. destruct (Nat.eq_dec i k) as [->|Hne]; [left; reflexivity|right].
        split; [lia|]. split; [exact Hne|]. replace (i - k) with (S (i - S k)) in H2 by lia. simpl in H2. eauto.
    + split.
      * intros [H1 [H2 [t0 [H3 H4]]]]. split; [lia|]. replace (i - k) with (S (i - S k)) by lia. simpl. eauto.
      * intros [H1 [t0 [H2 H3]]]. destruct (Nat.eq_dec i k) as [->|Hne].
        -- rewrite Nat.sub_diag in H2. simpl in H2. inv H2. congruence.
        -- split; [lia|]. split; [exact Hne|]. replace (i - k) with (S (i - S k)) in H2 by lia. simpl in H2. eauto.
Qed.

(* a transition touches a name: it starts there or it goes there (an internal one starts there) *)
Definition touches (t : transition) (n : name) : Prop := t_source t = n \/ t_target t = Some n.
Definition touches_b (t : transition) (n : name) : bool :=
  str_eqb (t_source t) n || ostr_eqb (t_target t) (Some n).

Lemma touches_b_iff : forall t n, touches_b t n = true <-> touches t n.
Proof.
  intros t n. unfold touches_b, touches. rewrite orb_true_iff, seqb_eq, ostr_eqb_eq. tauto.
Qed.

Lemma from_to_idx_In : forall g n i,
  In i (from_idx g n ++ to_idx g n) <-> exists t, nth_error (c_transitions g) i = Some t /\ touches t n.
Proof.
  intros g n i. rewrite in_app_iff. unfold from_idx, to_idx. rewrite !idx_filter_In, Nat.sub_0_r.
  split.
  - intros [[_ [t [H1 H2]]]|[_ [t [H1 H2]]]]; exists t; (split; [exact H1|]).
    + left. apply seqb_eq. exact H2.
    + destruct (t_target t) as [x|] eqn:E; [right|left]; apply seqb_eq in H2; congruence.
  - intros [t [H1 [H2|H2]]].
    + left. split; [lia|]. exists t. split; [exact H1|apply seqb_eq; exact H2].
    + right. split; [lia|]. exists t. split; [exact H1|]. rewrite H2. apply seqb_refl.
Qed.

Lemma collect_transitions_spec : forall g names seen,
  NoDup seen ->
  NoDup (collect_transitions g names seen) /\
  (forall i, In i (collect_transitions g names seen) <->
             In i seen \/ exists t n, nth_error (c_transitions g) i = Some t /\ In n names /\ touches t n).
Proof.
  intros g names; induction names as [|n names IH]; intros seen Hnd; simpl.
  - split; [exact Hnd|]. intros i. split; [tauto|]. intros [H|[t [n [_ [[] _]]]]]. exact H.
  - destruct (take_new_spec (from_idx g n ++ to_idx g n) seen Hnd) as [H1 [H2 _]].
    destruct (IH _ H1) as [H3 H4]. split; [exact H3|]. intros i. rewrite H4, H2, from_to_idx_In. split.
    + intros [[H|[t [Ha Hb]]]|[t [m [Ha [Hb Hc]]]]]; [left; exact H| |]; right.
      * exists t, n. auto.
      * exists t, m. auto.
    + intros [H|[t [m [Ha [[<-|Hb] Hc]]]]]; [left; left; exact H| |].
      * left. right. exists t. auto.
      * right. exists t, m. auto.
Qed.

(* goal 5 *)
Theorem copy_transitions_once : forall g names,
  NoDup (collect_transitions g names []) /\
  forall i, In i (collect_transitions g names []) <->
            exists t, nth_error (c_transitions g) i = Some t /\
                      (In (t_source t) names \/ exists tg, t_target t = Some tg /\ In tg names).
Proof.
  intros g names. destruct (collect_transitions_spec g names [] (NoDup_nil _)) as [H1 H2].
  split; [exact H1|]. intros i. rewrite H2. split.
  - intros [[]|[t [n [Ha [Hb [Hc|Hc]]]]]]; exists t; (split; [exact Ha|]).
    + left. congruence.
    + right. exists n. auto.
  - intros [t [Ha [Hb|[tg [Hb Hc]]]]]; right; exists t.
    + exists (t_source t). split; [exact Ha|]. split; [exact Hb|left; reflexivity].
    + exists tg. split; [exact Ha|]. split; [exact Hc|right; exact Hb].
Qed.
