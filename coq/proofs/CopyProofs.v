(* CopyProofs.v -- structural half of C17, second sentence:
     "A sub-statechart plugged in with copy_from_statechart behaves inside its host exactly as the source
      sub-statechart does, up to the renaming function."
   Theorems about the model theories/Copy.v (copy_from_statechart, loop by loop as in sismic/model/statechart.py).
   The behavioural half stays a lock-step test.  No Admitted, no axioms: every Print Assumptions at the end is closed.

   NOTATION (after the section is closed)
     D        = descendants_for guest source          (breadth-first order of the guest)
     rh       = rho_apply rho                         (the renaming function, a finite table)
     rs guest source replace rho x
              = replace if x = source, rh x if x is in D, x otherwise       (the renaming actually applied: names
                outside the copied subtree are left alone even if the table has an entry for them)
     in_S guest source x  =  x = source \/ In x D
     img r c c'   c' is the image of c under r as far as lookups in _states/_parent and the transitions go
     host_ext h E h'   h' = h plus the entries E (state object, parent) appended to the three dictionaries

   THEOREMS
   1  copy_refused_unchanged      replace not a state of the host / replace has children / rename_state guest source
                                  replace fails  =>  the result is (host, EStatechartError), the host unchanged.
   5  copy_transitions_once       collect_transitions g names [] has no duplicate and contains exactly the indices
                                  of the transitions whose source or target is in names (collect_transitions_spec:
                                  the same with an arbitrary `seen`).
   2  copy_states_decompose       a run of copy_states that ends in EOk = the renamings on the guest copy alone
                                  (guest_entries: the list E of (state object, parent) read off after each
                                  rename_state) followed by the add_state calls on the host alone (add_entries).
      copy_states_spec            aligned h -> copy_states names rho g h added = (g', h', added', EOk) ->
                                  added' = added ++ map rh names, and host_ext h E h': name/description/preamble/
                                  transitions untouched, _states = old ++ [(name, object)], _parent = old ++
                                  [(name, parent at that moment)], keys of _children = old ++ [Some name], every
                                  children list = the old one (or [] for a new state) ++ the new states that were
                                  given this parent, in the order of the loop.  `aligned` is the part of soundness that
                                  holds of the intermediate hosts (keys of _parent/_children are states); `sound`
                                  itself does NOT hold of them (a copied compound state arrives before its initial).
      copy_states_ok              sufficient conditions: guest_entries succeeds and entries_ok (c_states h) E
                                  (each name fresh at its turn, its parent a non-'' name of a state present at that
                                  turn, of composite kind, and compound if the new state is a history state).
                                  guest_loop / entries_ok_loop (section Main) discharge both from: images fresh for
                                  the host, pairwise distinct, not '', each either equal to the old name or not a
                                  state of the guest; parents before children (descendants_parents_before: BFS
                                  gives it); parent kinds as above.
   3  C17_copy_structure          for einv host, einv guest (einv = sound /\ no state called '' /\ fields_ok, as in
                                  EditProofs), replace an existing childless state of the host, source a state of
                                  the guest, replace = source or not a state of the guest, the conditions on rho
                                  above, the kind conditions (Hkinds; `sound` says nothing about kinds), and every
                                  guest transition with a target having its source in the subtree iff its target
                                  is:  copy_from_statechart host guest source replace rho = (h', EOk) and
                                  (a) keys of _states/_parent/_children of h' = those of host ++ map rh D (in order);
                                      _parent is given as a list: host's ++ [(rh n, rs (parent of n))];
                                  (b) for n in source :: D: state_for h' (rs n) = map_state rs (state n of guest)
                                      (name, initial, memory mapped, everything else equal); parent of rs n =
                                      rs (parent of n) for n in D; parent of replace as in the host;
                                      children_for h' (rs n) = map rs (children_for guest n)  -- in the guest's order
                                      (descendants_filter_children: BFS restricted to one node's children);
                                  (c) every other state, every parent entry, every other children list of the host
                                      unchanged (with (a): dict_ext/odict_ext of EditProofs make this a complete
                                      description of the three dictionaries);
                                  (d) c_transitions h' = c_transitions host ++ map (map_trans rs) L where L lists the
                                      guest transitions with index in idxs, idxs duplicate-free and containing
                                      exactly the indices of the guest transitions that touch the subtree, and
                                      idxs = collect_transitions g2 (replace :: descendants_for g2 replace) [] for the
                                      guest copy g2 at the end of the call (einv g2, img rs guest g2);
                                  (e) name, description, preamble of the host unchanged.
      C17_copy_transitions_order  see (d) under PARTIAL below: exact order when every descendant is renamed, or none.
   4  C17_copy_sound              under the hypotheses of 3 and (K1) the source state has no memory, (K2) if the host
                                  has a transition leaving replace then the source state's kind owns transitions:
                                  the call returns (h', EOk) with einv h' (sound, no '' name, fields_ok).
                                  The proof goes through the description (a)-(e), not through the intermediate hosts.
      check_ccase_bit4            bit 4 of Copy.check_ccase is clear iff (sound host -> sound guest -> outcome EOk ->
                                  sound post), for charts without a state called ''.
      C17_copy_sound_b            the boolean form: sound_b (result) = true and outcome EOk under the hypotheses of 4.
   Non-vacuity: ex_hyps / C17_copy_structure_instance (host of 3 states with two transitions at the replaced state;
   guest subtree of 5 states with compound, basic and shallow-history states, 5 transitions inside -- one internal --
   and one outside; a table with an entry for a state outside the subtree), copy_refused_instance,
   copy_transitions_once_instance, copy_states_instance.

   PARTIAL / REFUTED / MISSING
   * (d), order: the planned "in the order collect_transitions gives on the guest" is FALSE in general
     (C17_copy_transitions_guest_order_refuted): the order is the one found in the guest COPY at the end, whose children
     lists have been rotated by rename_state (a renamed child goes to the end of its parent's list, a child with
     renaming_func(name) = name stays).  Proved in general: the set of copied transitions, each once, and that the order
     is collect_transitions' on that copy g2 (clause (d) of C17_copy_structure).  Proved in the two usual cases,
     C17_copy_transitions_order: if renaming_func moves EVERY descendant, or NONE (the default), then
     c_transitions h' = c_transitions host ++ map rs (guest transitions at collect_transitions guest (source :: D) []),
     i.e. exactly the guest's own order (guest_loop_order tracks the children lists of the copy through the loop, CH).
     Missing: the exact order for a renaming that fixes some descendants and moves others.
   * C17_copy_sound without (K1)/(K2) is false: C17_copy_sound_unconditional_refuted (a final state replaces a state with
     an outgoing transition: the host keeps a transition leaving a FinalState) and C17_copy_sound_history_memory_refuted
     (the source is a history state whose memory is a sibling that is not copied: validate() fails afterwards).  Both
     reproduce on /repo (checked by hand, read-only): copy_from_statechart performs no check of this kind.
   * The condition on rho is the simple one (rh n = n or rh n not a state of the guest).  The model/Python also accept
     some overlapping tables (rh a = b when b has already been renamed away); those are not covered.
   * copy_refused_unchanged covers the three refusals before anything is written.  A failure inside the loop or in
     add_transition leaves a partially extended host (Copy.v header; no atomicity is claimed for this operation). *)
From Coq Require Import String Ascii List Bool ZArith NArith Arith Lia Permutation.
From Sismic Require Import Base Chart Edit Copy.
From SismicProofs Require Import SortLib EditProofs.
Import ListNotations.
Open Scope string_scope.
Open Scope list_scope.

(* ================================================================== 0. a concrete host and guest *)
Definition ex_host : chart :=
  mkChart "host" (Some "d") (Some "x = 1")
    [("hroot", stx "hroot" KCompound (Some "plug") None); ("plug", stx "plug" KBasic None None);
     ("other", stx "other" KBasic None None)]
    [("hroot", None); ("plug", Some "hroot"); ("other", Some "hroot")]
    [(None, ["hroot"]); (Some "hroot", ["plug"; "other"]); (Some "plug", []); (Some "other", [])]
    [trx "plug" (Some "other") "leave"; trx "other" (Some "plug") "enter"].

(* top > { r > {a, b > {b1, bh (shallow, memory b1)}}, out } *)
Definition ex_guest : chart :=
  mkChart "guest" None None
    [("top", stx "top" KCompound (Some "r") None);
     ("r", stx "r" KCompound (Some "a") None); ("out", stx "out" KBasic None None);
     ("a", stx "a" KBasic None None); ("b", stx "b" KCompound (Some "b1") None);
     ("b1", stx "b1" KBasic None None); ("bh", stx "bh" KShallow None (Some "b1"))]
    [("top", None); ("r", Some "top"); ("out", Some "top"); ("a", Some "r"); ("b", Some "r");
     ("b1", Some "b"); ("bh", Some "b")]
    [(None, ["top"]); (Some "top", ["r"; "out"]); (Some "r", ["a"; "b"]); (Some "out", []);
     (Some "a", []); (Some "b", ["b1"; "bh"]); (Some "b1", []); (Some "bh", [])]
    [trx "a" (Some "b") "go"; trx "out" None "tick"; trx "b1" (Some "a") "back"; trx "r" None "ping";
     trx "a" (Some "bh") "hist"; trx "b1" (Some "b1") "loop"].

Definition ex_rho : list (name * name) := [("a", "p_a"); ("b", "p_b"); ("b1", "p_b1"); ("bh", "p_bh"); ("out", "zzz")].

Definition ex_result : chart * eres := Eval vm_compute in copy_from_statechart ex_host ex_guest "r" "plug" ex_rho.

(* ================================================================== 1. refused calls leave the host unchanged *)
Theorem copy_refused_unchanged : forall host guest source replace rho,
  (has_state host replace = false ->
     copy_from_statechart host guest source replace rho = (host, EStatechartError)) /\
  (children_for host replace <> [] ->
     copy_from_statechart host guest source replace rho = (host, EStatechartError)) /\
  (forall g r, rename_state guest source replace = (g, r) -> r <> EOk ->
     copy_from_statechart host guest source replace rho = (host, r) \/
     copy_from_statechart host guest source replace rho = (host, EStatechartError)) /\
  (forall g r, has_state host replace = true -> children_for host replace = [] ->
     rename_state guest source replace = (g, r) -> r <> EOk ->
     copy_from_statechart host guest source replace rho = (host, r) /\ r = EStatechartError).
Proof.
  intros host guest source replace rho. unfold copy_from_statechart.
  split; [|split; [|split]].
  - intros H. rewrite H. reflexivity.
  - intros H. destruct (has_state host replace); [|reflexivity].
    destruct (children_for host replace); [congruence|reflexivity].
  - intros g r Hr Hne. destruct (has_state host replace); [|right; reflexivity]. cbn [negb].
    destruct (children_for host replace); [|right; reflexivity].
    rewrite Hr. destruct r; try congruence; left; reflexivity.
  - intros g r H1 H2 Hr Hne. rewrite H1, H2, Hr. cbn [negb].
    assert (E : r = EStatechartError).
    { unfold rename_state in Hr. repeat break_match_hyp Hr; inv Hr; congruence. }
    subst r. split; reflexivity.
Qed.

(* ================================================================== 2. collect_transitions (goal 5) *)
Lemma nat_mem_In : forall x l, nat_mem x l = true <-> In x l.
Proof.
  intros x l; induction l as [|y l IH]; simpl; [split; [discriminate|tauto]|].
  rewrite orb_true_iff, IH, Nat.eqb_eq. split; intros [H|H]; auto.
Qed.

Lemma take_new_spec : forall xs seen,
  NoDup seen ->
  NoDup (take_new seen xs) /\ (forall i, In i (take_new seen xs) <-> In i seen \/ In i xs) /\
  exists l, take_new seen xs = seen ++ l.
Proof.
  induction xs as [|x xs IH]; intros seen Hnd; simpl.
  - split; [exact Hnd|]. split; [tauto|]. exists []. rewrite app_nil_r. reflexivity.
  - destruct (nat_mem x seen) eqn:E.
    + destruct (IH seen Hnd) as [H1 [H2 H3]]. split; [exact H1|]. split; [|exact H3].
      intros i. rewrite H2. apply nat_mem_In in E. split; [tauto|]. intros [H|[H|H]]; subst; auto.
    + assert (Hnd' : NoDup (seen ++ [x])).
      { apply NoDup_app_intro; [exact Hnd|constructor; [intros []|constructor]|].
        intros y Hy [<-|[]]. apply nat_mem_In in Hy. congruence. }
      destruct (IH _ Hnd') as [H1 [H2 [l H3]]]. split; [exact H1|]. split.
      * intros i. rewrite H2, in_app_iff. simpl. tauto.
      * exists (x :: l). rewrite H3, <- app_assoc. reflexivity.
Qed.

Lemma idx_filter_In : forall f l k i,
  In i (idx_filter f k l) <-> k <= i /\ exists t, nth_error l (i - k) = Some t /\ f t = true.
Proof.
  intros f l; induction l as [|t l IH]; intros k i; simpl.
  - split; [tauto|]. intros [_ [t [H _]]]. destruct (i - k); discriminate.
  - assert (Hrec : In i (idx_filter f (S k) l) <->
                   k <= i /\ i <> k /\ exists t0, nth_error l (i - S k) = Some t0 /\ f t0 = true).
    { rewrite IH. split; [intros [H1 H2]; repeat split; [lia|lia|exact H2]|intros [H1 [H2 H3]]; split; [lia|exact H3]]. }
    destruct (f t) eqn:Ef; simpl; rewrite ?Hrec.
    + split.
      * intros [<-|[H1 [H2 [t0 [H3 H4]]]]].
        -- split; [lia|]. rewrite Nat.sub_diag. exists t. auto.
        -- split; [lia|]. replace (i - k) with (S (i - S k)) by lia. simpl. eauto.
      * intros [H1 [t0 [H2 H3]]]. destruct (Nat.eq_dec i k) as [->|Hne]; [left; reflexivity|right].
        split; [lia|]. split; [exact Hne|]. replace (i - k) with (S (i - S k)) in H2 by lia. simpl in H2. eauto.
    + split.
      * intros [H1 [H2 [t0 [H3 H4]]]]. split; [lia|]. replace (i - k) with (S (i - S k)) by lia. simpl. eauto.
      * intros [H1 [t0 [H2 H3]]]. destruct (Nat.eq_dec i k) as [->|Hne].
        -- rewrite Nat.sub_diag in H2. simpl in H2. inv H2. congruence.
        -- split; [lia|]. split; [exact Hne|]. replace (i - k) with (S (i - S k)) in H2 by lia. simpl in H2. eauto.
Qed.

(* a transition touches a name: it starts there or it goes there (an internal one starts there) *)
Definition touches (t : transition) (n : name) : Prop := t_source t = n \/ t_target t = Some n.
Definition touches_b (t : transition) (n : name) : bool :=
  str_eqb (t_source t) n || ostr_eqb (t_target t) (Some n).

Lemma touches_b_iff : forall t n, touches_b t n = true <-> touches t n.
Proof.
  intros t n. unfold touches_b, touches. rewrite orb_true_iff, seqb_eq, ostr_eqb_eq. tauto.
Qed.

Lemma from_to_idx_In : forall g n i,
  In i (from_idx g n ++ to_idx g n) <-> exists t, nth_error (c_transitions g) i = Some t /\ touches t n.
Proof.
  intros g n i. rewrite in_app_iff. unfold from_idx, to_idx. rewrite !idx_filter_In, Nat.sub_0_r.
  split.
  - intros [[_ [t [H1 H2]]]|[_ [t [H1 H2]]]]; exists t; (split; [exact H1|]).
    + left. apply seqb_eq. exact H2.
    + destruct (t_target t) as [x|] eqn:E; [right|left]; apply seqb_eq in H2; congruence.
  - intros [t [H1 [H2|H2]]].
    + left. split; [lia|]. exists t. split; [exact H1|apply seqb_eq; exact H2].
    + right. split; [lia|]. exists t. split; [exact H1|]. rewrite H2. apply seqb_refl.
Qed.

Lemma collect_transitions_spec : forall g names seen,
  NoDup seen ->
  NoDup (collect_transitions g names seen) /\
  (forall i, In i (collect_transitions g names seen) <->
             In i seen \/ exists t n, nth_error (c_transitions g) i = Some t /\ In n names /\ touches t n).
Proof.
  intros g names; induction names as [|n names IH]; intros seen Hnd; simpl.
  - split; [exact Hnd|]. intros i. split; [tauto|]. intros [H|[t [n [_ [[] _]]]]]. exact H.
  - destruct (take_new_spec (from_idx g n ++ to_idx g n) seen Hnd) as [H1 [H2 _]].
    destruct (IH _ H1) as [H3 H4]. split; [exact H3|]. intros i. rewrite H4, H2, from_to_idx_In. split.
    + intros [[H|[t [Ha Hb]]]|[t [m [Ha [Hb Hc]]]]]; [left; exact H| |]; right.
      * exists t, n. auto.
      * exists t, m. auto.
    + intros [H|[t [m [Ha [[<-|Hb] Hc]]]]]; [left; left; exact H| |].
      * left. right. exists t. auto.
      * right. exists t, m. auto.
Qed.

(* goal 5 *)
Theorem copy_transitions_once : forall g names,
  NoDup (collect_transitions g names []) /\
  forall i, In i (collect_transitions g names []) <->
            exists t, nth_error (c_transitions g) i = Some t /\
                      (In (t_source t) names \/ exists tg, t_target t = Some tg /\ In tg names).
Proof.
  intros g names. destruct (collect_transitions_spec g names [] (NoDup_nil _)) as [H1 H2].
  split; [exact H1|]. intros i. rewrite H2. split.
  - intros [[]|[t [n [Ha [Hb [Hc|Hc]]]]]]; exists t; (split; [exact Ha|]).
    + left. congruence.
    + right. exists n. auto.
  - intros [t [Ha [Hb|[tg [Hb Hc]]]]]; right; exists t.
    + exists (t_source t). split; [exact Ha|]. split; [exact Hb|left; reflexivity].
    + exists tg. split; [exact Ha|]. split; [exact Hc|right; exact Hb].
Qed.

(* ================================================================== 3. the loop over the descendants, host side (goal 2) *)
Lemma eres_ok_false : forall r, negb (eres_eqb r EOk) = false <-> r = EOk.
Proof. intros []; simpl; split; congruence. Qed.

Lemma eres_ok_true : forall r, negb (eres_eqb r EOk) = true <-> r <> EOk.
Proof. intros []; simpl; split; congruence. Qed.

(* what one iteration hands to add_state: the (shared) state object and the parent name *)
Definition entry := (state * option name)%type.
Definition e_name (e : entry) : name := s_name (fst e).

Fixpoint add_entries (h : chart) (E : list entry) : chart * eres :=
  match E with
  | [] => (h, EOk)
  | e :: E' => let '(h1, r) := add_state h (fst e) (snd e) in
               if negb (eres_eqb r EOk) then (h1, r) else add_entries h1 E'
  end.

(* the guest side of the loop alone: successive rename_state calls, and what is read off after each *)
Fixpoint guest_entries (names : list name) (rho : list (name * name)) (g : chart) : chart * list entry * eres :=
  match names with
  | [] => (g, [], EOk)
  | n :: rest =>
      let new := rho_apply rho n in
      let '(g1, r1) := rename_state g n new in
      if negb (eres_eqb r1 EOk) then (g1, [], r1) else
      match state_for g1 new with
      | None => (g1, [], EStatechartError)
      | Some st => let '(g', E, r) := guest_entries rest rho g1 in (g', (st, parent_for g1 new) :: E, r)
      end
  end.

(* a successful run of copy_states = all the renamings on the guest copy, and the add_state calls on the host *)
Lemma copy_states_decompose : forall names rho g h added g' h' added',
  copy_states names rho g h added = (g', h', added', EOk) <->
  exists E, guest_entries names rho g = (g', E, EOk) /\ add_entries h E = (h', EOk) /\
            added' = added ++ map (rho_apply rho) names.
Proof.
  induction names as [|n rest IH]; intros rho g h added g' h' added'; simpl.
  - split.
    + intros H. inv H. exists []. rewrite app_nil_r. auto.
    + intros [E [H1 [H2 H3]]]. inv H1. simpl in H2. inv H2. rewrite app_nil_r. reflexivity.
  - destruct (rename_state g n (rho_apply rho n)) as [g1 r1].
    destruct (negb (eres_eqb r1 EOk)) eqn:Er1.
    { apply eres_ok_true in Er1. split; [intros H; inv H; congruence|].
      intros [E [H1 _]]. inv H1. congruence. }
    destruct (state_for g1 (rho_apply rho n)) as [st|] eqn:Est.
    2:{ split; [discriminate|]. intros [E [H1 _]]. discriminate. }
    destruct (add_state h st (parent_for g1 (rho_apply rho n))) as [h1 r2] eqn:Eadd.
    destruct (negb (eres_eqb r2 EOk)) eqn:Er2.
    { apply eres_ok_true in Er2. split; [intros H; inv H; congruence|].
      intros [E [H1 [H2 _]]]. destruct (guest_entries rest rho g1) as [[g'' E''] r'']. inv H1.
      simpl in H2. rewrite Eadd in H2. destruct (negb (eres_eqb r2 EOk)) eqn:E2.
      - inv H2. congruence.
      - apply eres_ok_false in E2. congruence. }
    rewrite IH. split.
    + intros [E [H1 [H2 H3]]]. exists ((st, parent_for g1 (rho_apply rho n)) :: E). rewrite H1.
      split; [reflexivity|]. split.
      * simpl. rewrite Eadd, Er2. exact H2.
      * rewrite H3, <- app_assoc. reflexivity.
    + intros [E [H1 [H2 H3]]]. destruct (guest_entries rest rho g1) as [[g'' E''] r''] eqn:Eg. inv H1.
      exists E''. split; [reflexivity|]. simpl in H2. rewrite Eadd, Er2 in H2. split; [exact H2|].
      rewrite <- app_assoc. reflexivity.
Qed.

(* the part of soundness that survives in the intermediate hosts (their `initial`s dangle until the children arrive) *)
Definition aligned (h : chart) : Prop :=
  (forall n, lookup n (c_parent h) <> None -> has_state h n = true) /\
  (forall n, olookup (Some n) (c_children h) <> None <-> has_state h n = true).

Lemma sound_aligned : forall h, sound h -> aligned h.
Proof. intros h HS. split; [intros n; apply (sd_pkeys h HS)|intros n; apply (sd_ckeys h HS)]. Qed.

Lemma oset_fresh : forall {V} k (v : V) d, olookup k d = None -> oset k v d = d ++ [(k, v)].
Proof.
  intros V k v d; induction d as [|[k0 v0] d IH]; simpl; [reflexivity|].
  destruct (oeqbP k k0); [discriminate|]. intros H; rewrite IH; auto.
Qed.

Definition e_par_is (k : option name) (e : entry) : bool := opt_eqb str_eqb (snd e) k.
Definition kids_of (E : list entry) (k : option name) : list name :=
  map e_name (filter (e_par_is k) E).

Definition is_new (E : list entry) (k : option name) : bool :=
  existsb (fun e => opt_eqb str_eqb k (Some (e_name e))) E.

Record host_ext (h : chart) (E : list entry) (h' : chart) : Prop := mkHostExt {
  he_name : c_name h' = c_name h;
  he_desc : c_description h' = c_description h;
  he_pre : c_preamble h' = c_preamble h;
  he_trans : c_transitions h' = c_transitions h;
  he_states : c_states h' = c_states h ++ map (fun e => (e_name e, fst e)) E;
  he_parent : c_parent h' = c_parent h ++ map (fun e => (e_name e, snd e)) E;
  he_ckeys : map fst (c_children h') = map fst (c_children h) ++ map (fun e => Some (e_name e)) E;
  he_children : forall k, olookup k (c_children h') =
      match olookup k (c_children h) with
      | Some l => Some (l ++ kids_of E k)
      | None => if is_new E k then Some (kids_of E k) else None
      end
}.

Lemma host_ext_nil : forall h, host_ext h [] h.
Proof.
  intros h. constructor; simpl; rewrite ?app_nil_r; try reflexivity.
  intros k. unfold kids_of. simpl. destruct (olookup k (c_children h)); [rewrite app_nil_r|]; reflexivity.
Qed.

(* one add_state on an aligned host *)
Lemma add_state_aligned : forall h st p h',
  aligned h -> add_state h st p = (h', EOk) ->
  host_ext h [(st, p)] h' /\ aligned h' /\ has_state h (s_name st) = false /\
  olookup p (c_children h') <> None.
Proof.
  intros h st p h' [A1 A2] H.
  destruct (add_state_inv _ _ _ _ _ H (or_introl eq_refl)) as [Hfresh [_ Hreg]].
  set (nm := s_name st) in *.
  assert (Hp0 : lookup nm (c_parent h) = None).
  { destruct (lookup nm (c_parent h)) eqn:E; [|reflexivity]. rewrite A1 in Hfresh by congruence. discriminate. }
  assert (Hc0 : olookup (Some nm) (c_children h) = None).
  { destruct (olookup (Some nm) (c_children h)) eqn:E; [|reflexivity].
    assert (X : has_state h nm = true) by (apply A2; congruence). congruence. }
  rewrite (oset_fresh _ _ _ Hc0) in Hreg.
  destruct (olookup p (c_children h ++ [(Some nm, [])])) as [l|] eqn:El; [|discriminate].
  destruct Hreg as [-> _].
  assert (Ech : forall k, olookup k (oset p (l ++ [nm]) (oset (Some nm) [] (c_children h))) =
                          if opt_eqb str_eqb k p then Some (l ++ [nm])
                          else if opt_eqb str_eqb k (Some nm) then Some [] else olookup k (c_children h)).
  { intros k. rewrite !olookup_oset. reflexivity. }
  assert (El' : l = match olookup p (c_children h) with Some l0 => l0 | None => [] end /\
                (olookup p (c_children h) = None -> p = Some nm)).
  { rewrite <- (oset_fresh _ ([] : list name) _ Hc0), olookup_oset in El.
    destruct (oeqbP p (Some nm)) as [->|Hn].
    - rewrite Hc0. inv El. auto.
    - rewrite El. split; [reflexivity|discriminate]. }
  destruct El' as [El1 El2].
  split; [|split; [|split]].
  - constructor; unfold register_chart; cbn [c_name c_description c_preamble c_transitions c_states c_parent c_children];
      try reflexivity.
    + simpl. apply dset_fresh. apply has_state_false. exact Hfresh.
    + simpl. apply dset_fresh. exact Hp0.
    + simpl. rewrite okeys_oset_in.
      * rewrite (oset_fresh _ _ _ Hc0), map_app. reflexivity.
      * rewrite (oset_fresh _ _ _ Hc0). congruence.
    + intros k. rewrite Ech. unfold kids_of, is_new, e_par_is. cbn [filter existsb snd map]. fold nm.
      change (e_name (st, p)) with nm.
      destruct (oeqbP k p) as [->|Hkp].
      * rewrite oeqb_refl. cbn [map]. change (e_name (st, p)) with nm.
        destruct (olookup p (c_children h)) as [l0|] eqn:E0.
        -- subst l. reflexivity.
        -- rewrite (El2 eq_refl), oeqb_refl. subst l. reflexivity.
      * destruct (oeqbP p k); [congruence|]. cbn [map]. rewrite orb_false_r.
        destruct (oeqbP k (Some nm)) as [->|Hkn].
        -- rewrite Hc0. reflexivity.
        -- destruct (olookup k (c_children h)); [rewrite app_nil_r|]; reflexivity.
  - split.
    + intros n. unfold register_chart. cbn [c_parent]. rewrite has_state_mk, !lookup_dset. fold nm.
      destruct (seqbP n nm); [reflexivity|]. intros Hn. apply A1 in Hn. unfold has_state in Hn. exact Hn.
    + intros n. unfold register_chart. cbn [c_children]. rewrite has_state_mk, Ech, lookup_dset. fold nm.
      destruct (seqbP n nm) as [->|Hn].
      * split; [reflexivity|]. intros _. destruct (opt_eqb str_eqb (Some nm) p); [discriminate|].
        rewrite oeqb_refl. discriminate.
      * destruct (oeqbP (Some n) p) as [<-|Hnp].
        -- split; [|discriminate]. intros _.
           destruct (olookup (Some n) (c_children h)) eqn:E0.
           ++ assert (X : has_state h n = true) by (apply A2; congruence). exact X.
           ++ specialize (El2 eq_refl). congruence.
        -- destruct (oeqbP (Some n) (Some nm)); [congruence|]. rewrite A2. unfold has_state. tauto.
  - exact Hfresh.
  - unfold register_chart. cbn [c_children]. rewrite Ech, oeqb_refl. discriminate.
Qed.

Lemma kids_of_cons : forall e E k,
  kids_of (e :: E) k = (if e_par_is k e then [e_name e] else []) ++ kids_of E k.
Proof. intros e E k. unfold kids_of. cbn [filter]. destruct (e_par_is k e); reflexivity. Qed.

Lemma host_ext_cons : forall h e h1 E h',
  host_ext h [e] h1 -> olookup (snd e) (c_children h1) <> None -> host_ext h1 E h' -> host_ext h (e :: E) h'.
Proof.
  intros h e h1 E h' H1 Hpk H2. destruct H1, H2. constructor; try congruence.
  - rewrite he_states1, he_states0, <- app_assoc. reflexivity.
  - rewrite he_parent1, he_parent0, <- app_assoc. reflexivity.
  - rewrite he_ckeys1, he_ckeys0, <- app_assoc. reflexivity.
  - intros k. rewrite he_children1, he_children0.
    assert (K1 : kids_of [e] k = if e_par_is k e then [e_name e] else []).
    { unfold kids_of. cbn [filter]. destruct (e_par_is k e); reflexivity. }
    assert (N1 : is_new [e] k = opt_eqb str_eqb k (Some (e_name e))).
    { unfold is_new. cbn [existsb]. apply orb_false_r. }
    assert (N2 : is_new (e :: E) k = opt_eqb str_eqb k (Some (e_name e)) || is_new E k) by reflexivity.
    rewrite K1, N1, N2, kids_of_cons.
    destruct (olookup k (c_children h)) as [l|] eqn:Ek0.
    + rewrite <- app_assoc. reflexivity.
    + destruct (opt_eqb str_eqb k (Some (e_name e))) eqn:Ek; cbn [orb]; [reflexivity|].
      destruct (e_par_is k e) eqn:Ep; [|reflexivity]. exfalso. apply Hpk.
      unfold e_par_is in Ep. apply oeqb_eq in Ep. rewrite Ep, he_children0, Ek0, N1. reflexivity.
Qed.

(* goal 2, host side: what the successful add_state calls do *)
Lemma add_entries_spec : forall E h h',
  aligned h -> add_entries h E = (h', EOk) ->
  host_ext h E h' /\ aligned h' /\
  (forall e, In e E -> olookup (snd e) (c_children h') <> None).
Proof.
  induction E as [|e E IH]; intros h h' HA H; simpl in H.
  - inv H. split; [apply host_ext_nil|]. split; [exact HA|intros e []].
  - destruct (add_state h (fst e) (snd e)) as [h1 r] eqn:Eadd.
    destruct (negb (eres_eqb r EOk)) eqn:Er; [apply eres_ok_true in Er; inv H; congruence|].
    apply eres_ok_false in Er. subst r.
    destruct (add_state_aligned _ _ _ _ HA Eadd) as [H1 [H2 [H3 H4]]].
    destruct (IH _ _ H2 H) as [H5 [H6 H7]].
    split; [|split; [exact H6|]].
    + eapply host_ext_cons; [|exact H4|exact H5]. destruct e; exact H1.
    + intros e' [<-|Hin]; [|apply H7; exact Hin].
      rewrite (he_children _ _ _ H5). destruct (olookup (snd e) (c_children h1)); [discriminate|congruence].
Qed.

(* sufficient conditions for every add_state to succeed, in terms of the host's state dictionary alone *)
Fixpoint entries_ok (S : list (name * state)) (E : list entry) : Prop :=
  match E with
  | [] => True
  | e :: E' =>
      lookup (e_name e) S = None /\
      (exists q ps, snd e = Some q /\ q <> "" /\ lookup q S = Some ps /\
                    is_composite (s_kind ps) = true /\
                    (is_history (s_kind (fst e)) = true -> s_kind ps = KCompound)) /\
      entries_ok (S ++ [(e_name e, fst e)]) E'
  end.

Lemma add_state_ok_cond : forall h st q ps,
  aligned h -> lookup (s_name st) (c_states h) = None -> q <> "" ->
  lookup q (c_states h) = Some ps -> is_composite (s_kind ps) = true ->
  (is_history (s_kind st) = true -> s_kind ps = KCompound) ->
  exists h', add_state h st (Some q) = (h', EOk).
Proof.
  intros h st q ps [A1 A2] Hfresh Hq Hps Hcomp Hhist. unfold add_state.
  assert (E1 : has_state h (s_name st) = false) by (apply has_state_false; exact Hfresh). rewrite E1.
  assert (E2 : no_parent (Some q) = false).
  { destruct (no_parent (Some q)) eqn:E; [|reflexivity]. apply no_parent_true in E. destruct E as [E|E]; congruence. }
  rewrite E2. unfold state_for. rewrite Hps, Hcomp. cbn [negb].
  assert (E3 : is_history (s_kind st) && negb (kind_eqb (s_kind ps) KCompound) = false).
  { destruct (is_history (s_kind st)) eqn:E; [|reflexivity]. rewrite (Hhist eq_refl). reflexivity. }
  rewrite E3. cbn [c_children with_children with_parent with_states c_parent c_states].
  rewrite olookup_oset.
  destruct (oeqbP (Some q) (Some (s_name st))) as [E|_]; [inv E; congruence|].
  destruct (olookup (Some q) (c_children h)) as [l|] eqn:El; [eauto|].
  exfalso. assert (X : has_state h q = true) by (unfold has_state; rewrite Hps; reflexivity).
  apply (proj2 (A2 q)) in X. apply X. exact El.
Qed.

Lemma add_entries_ok : forall E h,
  aligned h -> entries_ok (c_states h) E -> exists h', add_entries h E = (h', EOk).
Proof.
  induction E as [|e E IH]; intros h HA HE; simpl; [eauto|].
  destruct HE as [Hfresh [[q [ps [Hp [Hq [Hps [Hc Hh]]]]]] Hrest]].
  destruct (add_state_ok_cond h (fst e) q ps HA Hfresh Hq Hps Hc Hh) as [h1 H1].
  assert (H1' : add_state h (fst e) (snd e) = (h1, EOk)) by (rewrite Hp; exact H1).
  clear H1. rename H1' into H1. rewrite H1. cbn [eres_eqb negb].
  destruct (add_state_aligned _ _ _ _ HA H1) as [H2 [H3 _]].
  apply IH; [exact H3|]. rewrite (he_states _ _ _ H2). exact Hrest.
Qed.

Lemma guest_entries_length : forall names rho g g' E,
  guest_entries names rho g = (g', E, EOk) -> length E = length names.
Proof.
  induction names as [|n rest IH]; intros rho g g' E H; simpl in H.
  - inv H. reflexivity.
  - destruct (rename_state g n (rho_apply rho n)) as [g1 r1].
    destruct (negb (eres_eqb r1 EOk)) eqn:Er; [apply eres_ok_true in Er; inv H; congruence|].
    destruct (state_for g1 (rho_apply rho n)); [|inv H].
    destruct (guest_entries rest rho g1) as [[g'' E''] r''] eqn:Eg. inv H. simpl. f_equal. eapply IH; eauto.
Qed.

(* goal 2: copy_states, when every step succeeds *)
Theorem copy_states_spec : forall names rho g h added g' h' added',
  aligned h ->
  copy_states names rho g h added = (g', h', added', EOk) ->
  added' = added ++ map (rho_apply rho) names /\
  exists E, guest_entries names rho g = (g', E, EOk) /\ length E = length names /\
            host_ext h E h' /\ aligned h'.
Proof.
  intros names rho g h added g' h' added' HA H.
  apply copy_states_decompose in H. destruct H as [E [H1 [H2 H3]]].
  split; [exact H3|]. exists E. split; [exact H1|].
  destruct (add_entries_spec _ _ _ HA H2) as [H4 [H5 _]]. split; [|split; assumption].
  eapply guest_entries_length; eauto.
Qed.

(* ... and sufficient conditions for every step to succeed *)
Theorem copy_states_ok : forall names rho g h added g' E,
  aligned h ->
  guest_entries names rho g = (g', E, EOk) -> entries_ok (c_states h) E ->
  exists h', copy_states names rho g h added = (g', h', added ++ map (rho_apply rho) names, EOk).
Proof.
  intros names rho g h added g' E HA H1 H2.
  destruct (add_entries_ok E h HA H2) as [h' H3]. exists h'.
  apply copy_states_decompose. exists E. auto.
Qed.

(* ================================================================== 4. images of a chart under a renaming (guest side) *)
Lemma map_state_ext : forall r r' s, (forall x, r x = r' x) -> map_state r s = map_state r' s.
Proof.
  intros r r' [nm k i m en ex pre post iv] H. unfold map_state. simpl. rewrite (H nm).
  destruct i as [i|], m as [m|]; simpl; rewrite ?H; reflexivity.
Qed.

Lemma map_state_id : forall s, map_state (fun x => x) s = s.
Proof. intros [nm k [i|] [m|] en ex pre post iv]; reflexivity. Qed.

Lemma map_state_comp : forall r1 r2 s, map_state r2 (map_state r1 s) = map_state (fun x => r2 (r1 x)) s.
Proof. intros r1 r2 [nm k [i|] [m|] en ex pre post iv]; reflexivity. Qed.

Lemma map_trans_ext : forall r r' t, (forall x, r x = r' x) -> map_trans r t = map_trans r' t.
Proof.
  intros r r' [src [tg|] ev g a p pre post iv] H; unfold map_trans; simpl; rewrite ?H; reflexivity.
Qed.

Lemma map_trans_id : forall t, map_trans (fun x => x) t = t.
Proof. intros [src [tg|] ev g a p pre post iv]; reflexivity. Qed.

Lemma map_trans_comp : forall r1 r2 t, map_trans r2 (map_trans r1 t) = map_trans (fun x => r2 (r1 x)) t.
Proof. intros r1 r2 [src [tg|] ev g a p pre post iv]; reflexivity. Qed.

Lemma option_map_ext' : forall {A B} (f g : A -> B) o, (forall x, f x = g x) -> option_map f o = option_map g o.
Proof. intros A B f g [x|] H; simpl; [rewrite H|]; reflexivity. Qed.

(* c' is the image of c under r, as far as lookups go (the orders of the dictionaries and of the children
   lists are not part of it) *)
Record img (r : name -> name) (c c' : chart) : Prop := mkImg {
  im_has : forall x, has_state c' x = true <-> exists k, has_state c k = true /\ x = r k;
  im_states : forall k s, lookup k (c_states c) = Some s -> lookup (r k) (c_states c') = Some (map_state r s);
  im_parent : forall k p, lookup k (c_parent c) = Some p -> lookup (r k) (c_parent c') = Some (option_map r p);
  im_trans : c_transitions c' = map (map_trans r) (c_transitions c);
  im_inj : forall a b, has_state c a = true -> has_state c b = true -> r a = r b -> a = b;
  im_len : length (c_states c') = length (c_states c)
}.

Lemma img_id : forall c, img (fun x => x) c c.
Proof.
  intros c. constructor; try reflexivity.
  - intros x. split; [eauto|]. intros [k [H ->]]. exact H.
  - intros k s H. rewrite map_state_id. exact H.
  - intros k [p|] H; exact H.
  - symmetry. apply map_id_in. intros t _. apply map_trans_id.
  - auto.
Qed.

Lemma img_ext : forall r r' c c', (forall x, r x = r' x) -> img r c c' -> img r' c c'.
Proof.
  intros r r' c c' E [H1 H2 H3 H4 H5 H6]. constructor; [| | | | |exact H6].
  - intros x. rewrite H1. split; intros [k [Ha Hb]]; exists k; (split; [exact Ha|]); congruence.
  - intros k s H. rewrite <- E, <- (map_state_ext r r' s E). apply H2; exact H.
  - intros k p H. rewrite <- E, <- (option_map_ext' r r' p E). apply H3; exact H.
  - rewrite H4. apply map_ext. intros t. apply map_trans_ext; exact E.
  - intros a b Ha Hb Hr. rewrite <- !E in Hr. apply H5; assumption.
Qed.

Lemma img_comp : forall r1 r2 c0 c c', img r1 c0 c -> img r2 c c' -> img (fun x => r2 (r1 x)) c0 c'.
Proof.
  intros r1 r2 c0 c c' [A1 A2 A3 A4 A5 A6] [B1 B2 B3 B4 B5 B6]. constructor.
  - intros x. rewrite B1. split.
    + intros [k [Hk ->]]. apply A1 in Hk. destruct Hk as [k0 [Hk0 ->]]. eauto.
    + intros [k0 [Hk0 ->]]. exists (r1 k0). split; [|reflexivity]. apply A1. eauto.
  - intros k s H. rewrite <- map_state_comp. apply B2, A2; exact H.
  - intros k p H. rewrite (B3 _ _ (A3 _ _ H)). f_equal. destruct p; reflexivity.
  - rewrite B4, A4, map_map. apply map_ext. intros t. apply map_trans_comp.
  - intros a b Ha Hb Hr. apply A5; [assumption|assumption|]. apply B5; [| |exact Hr]; apply A1; eauto.
  - congruence.
Qed.

Lemma length_dset_fresh : forall {V} k (v : V) d, lookup k d = None -> length (dset k v d) = S (length d).
Proof. intros V k v d H. rewrite (dset_fresh _ _ _ H), app_length. simpl. lia. Qed.

(* one successful rename_state *)
Lemma img_rename : forall c old new c',
  sound c -> fields_ok c -> rename_state c old new = (c', EOk) -> img (ren old new) c c'.
Proof.
  intros c old new c' HS HF H.
  destruct (rename_state_result _ _ _ _ _ HS H)
    as [[-> [E|[_ ->]]]|[_ [Hne [Hnew [st [po [l [lo [Hst [Hpo [Hpo1 [Hpo2 [Hl [Hcnt [Hlo ->]]]]]]]]]]]]]]].
  - discriminate.
  - eapply img_ext; [|apply img_id]. intros x. symmetry. apply ren_refl.
  - pose proof (rnd_states c old new st po l lo HS) as RS.
    pose proof (rnd_has_state c old new st po l lo HS) as RH.
    constructor.
    + intros x. rewrite RH. split.
      * destruct (seqbP x new) as [->|Hx].
        -- intros _. exists old. split; [unfold has_state; rewrite Hst; reflexivity|symmetry; apply ren_old].
        -- destruct (seqbP x old) as [->|Hx2]; simpl; [discriminate|]. intros Hs. exists x.
           split; [exact Hs|symmetry; apply ren_id; exact Hx2].
      * intros [k [Hk ->]]. unfold ren. destruct (seqbP k old) as [->|Hk2].
        -- rewrite seqb_refl. reflexivity.
        -- destruct (seqbP k old); [congruence|]. rewrite Hk. simpl. apply orb_true_r.
    + intros k s Hk. rewrite RS.
      destruct (HF _ _ Hk) as [F1 F2].
      rewrite (map_state_rename_refs old new k s F1 F2 (sd_keyname c HS _ _ Hk)).
      unfold ren. destruct (seqbP k old) as [->|Hk2].
      * rewrite seqb_refl. assert (s = st) by congruence. subst s. reflexivity.
      * assert (Hkn : k <> new).
        { intros ->. unfold has_state in Hnew. rewrite Hk in Hnew. discriminate. }
        destruct (seqbP k new); [congruence|]. destruct (seqbP k old); [congruence|]. rewrite Hk. reflexivity.
    + intros k p Hk. apply (rnd_parent_r c old new st po l lo HS Hnew Hpo Hpo1 Hpo2 Hl _ _ Hk).
    + unfold renamed. cbn [c_transitions]. apply map_ext. apply rn_trans_map.
    + intros a b Ha Hb. apply (rnd_r_inj c old new Hnew); assumption.
    + destruct (C17_structure c old new _ HS HF Hne H) as [_ [_ [_ [_ [_ [_ [_ [_ [_ [Hk _]]]]]]]]]].
      rewrite <- (map_length fst (c_states (renamed c old new st po l lo))), Hk, app_length. simpl.
      rewrite <- (map_length fst (c_states c)).
      assert (Hin : In old (map fst (c_states c))).
      { apply has_state_In. unfold has_state; rewrite Hst; reflexivity. }
      pose proof (remove_first_length old _ Hin). lia.
Qed.

(* ================================================================== 5. breadth-first order *)
(* children lists after one rename_state: the renamed child goes to the end of its parent's list *)
Lemma rename_children_for : forall c old new c',
  sound c -> old <> new -> rename_state c old new = (c', EOk) ->
  forall k, has_state c k = true ->
    children_for c' (ren old new k) =
    if ostr_eqb (parent_for c old) (Some k) then remove_first old (children_for c k) ++ [new]
    else children_for c k.
Proof.
  intros c old new c' HS Hne H k Hk.
  destruct (rename_state_result _ _ _ _ _ HS H)
    as [[_ [E|[_ E]]]|[_ [_ [Hnew [st [po [l [lo [Hst [Hpo [Hpo1 [Hpo2 [Hl [Hcnt [Hlo ->]]]]]]]]]]]]]]];
    [discriminate|congruence|].
  unfold children_for at 1. rewrite (rnd_children c old new st po l lo HS).
  rewrite (parent_for_lookup _ _ _ Hpo). unfold ren.
  destruct (seqbP k old) as [->|Hko].
  - rewrite oeqb_refl. destruct (ostr_eqb po (Some old)) eqn:E; [apply ostr_eqb_eq in E; congruence|].
    symmetry. apply children_for_lookup. exact Hlo.
  - assert (Hkn : k <> new) by (intros ->; congruence).
    destruct (oeqbP (Some k) (Some new)) as [E|_]; [congruence|].
    destruct (oeqbP (Some k) (Some old)) as [E|_]; [congruence|].
    unfold ostr_eqb. destruct (oeqbP (Some k) po) as [E|E].
    + destruct (oeqbP po (Some k)); [|congruence]. rewrite <- E in Hl.
      rewrite (children_for_lookup _ _ _ Hl). reflexivity.
    + destruct (oeqbP po (Some k)); [congruence|]. reflexivity.
Qed.

Lemma bfs_map : forall (r : name -> name) c c' (P : name -> Prop),
  (forall x, P x -> children_for c' (r x) = map r (children_for c x)) ->
  (forall x, P x -> forall y, In y (children_for c x) -> P y) ->
  forall f q, (forall x, In x q -> P x) -> bfs c' f (map r q) = map r (bfs c f q).
Proof.
  intros r c c' P Hch Hcl f; induction f as [|f IH]; intros q Hq; [reflexivity|].
  destruct q as [|n q]; [reflexivity|]. simpl.
  rewrite (Hch n) by (apply Hq; left; reflexivity). rewrite map_app, <- map_app. f_equal.
  apply IH. intros x Hx. apply in_app_or in Hx. destruct Hx as [Hx|Hx]; [apply Hq; right; exact Hx|].
  apply (Hcl n); [apply Hq; left; reflexivity|exact Hx].
Qed.

(* every element of the BFS output has its parent in the queue or earlier in the output *)
Fixpoint parents_before (c : chart) (seen out : list name) : Prop :=
  match out with
  | [] => True
  | y :: out' => (exists p, lookup y (c_parent c) = Some (Some p) /\ In p seen) /\
                 parents_before c (seen ++ [y]) out'
  end.

Lemma parents_before_incl : forall c out seen seen',
  incl seen seen' -> parents_before c seen out -> parents_before c seen' out.
Proof.
  intros c out; induction out as [|y out IH]; intros seen seen' Hi H; simpl in *; [exact I|].
  destruct H as [[p [H1 H2]] H3]. split; [exists p; auto|].
  eapply IH; [|exact H3]. intros x Hx. apply in_app_or in Hx. apply in_or_app. destruct Hx; auto.
Qed.

Lemma parents_before_app : forall c A B seen,
  parents_before c seen A -> parents_before c (seen ++ A) B -> parents_before c seen (A ++ B).
Proof.
  intros c A; induction A as [|y A IH]; intros B seen HA HB; simpl in *.
  - rewrite app_nil_r in HB. exact HB.
  - destruct HA as [H1 H2]. split; [exact H1|]. apply IH; [exact H2|]. rewrite <- app_assoc. exact HB.
Qed.

Lemma parents_before_all : forall c out seen,
  (forall y, In y out -> exists p, lookup y (c_parent c) = Some (Some p) /\ In p seen) ->
  parents_before c seen out.
Proof.
  intros c out; induction out as [|y out IH]; intros seen H; simpl; [exact I|].
  split; [apply H; left; reflexivity|]. apply IH. intros z Hz.
  destruct (H z (or_intror Hz)) as [p [H1 H2]]. exists p. split; [exact H1|apply in_or_app; left; exact H2].
Qed.

Lemma bfs_parents_before : forall c, sound c -> forall f q, parents_before c q (bfs c f q).
Proof.
  intros c HS f; induction f as [|f IH]; intros q; [exact I|].
  destruct q as [|n q]; [exact I|]. rewrite bfs_S. apply parents_before_app.
  - apply parents_before_all. intros y Hy. exists n. split; [|left; reflexivity].
    apply sound_child_parent; assumption.
  - eapply parents_before_incl; [|apply IH]. intros x Hx. apply in_app_or in Hx. simpl.
    destruct Hx as [Hx|Hx]; [right; apply in_or_app; left; exact Hx|right; apply in_or_app; right; exact Hx].
Qed.

(* the nodes BFS takes out of its queue *)
Fixpoint deq (c : chart) (fuel : nat) (queue : list name) : list name :=
  match fuel, queue with
  | S f, n :: q => n :: deq c f (q ++ children_for c n)
  | _, _ => []
  end.

Lemma deq_incl : forall c f q x, In x (deq c f q) -> In x (q ++ bfs c f q).
Proof.
  intros c f; induction f as [|f IH]; intros q x H; [destruct H|].
  destruct q as [|n q]; [destruct H|]. simpl in H. rewrite bfs_S. destruct H as [<-|H]; [left; reflexivity|].
  right. apply IH in H. rewrite <- app_assoc in H. exact H.
Qed.

Definition child_of (c : chart) (k : name) (m : name) : bool := ostr_eqb (parent_for c m) (Some k).

Lemma filter_child_of_children : forall c, sound c -> forall n k,
  filter (child_of c k) (children_for c n) = if str_eqb n k then children_for c n else [].
Proof.
  intros c HS n k.
  assert (H : forall l, (forall y, In y l -> lookup y (c_parent c) = Some (Some n)) ->
                        filter (child_of c k) l = if str_eqb n k then l else []).
  { induction l as [|y l IH]; intros Hl; simpl; [destruct (str_eqb n k); reflexivity|].
    unfold child_of at 1. rewrite (parent_for_lookup _ _ _ (Hl y (or_introl eq_refl))).
    rewrite IH by (intros z Hz; apply Hl; right; exact Hz).
    unfold ostr_eqb. simpl. destruct (str_eqb n k); reflexivity. }
  apply H. intros y Hy. apply sound_child_parent; assumption.
Qed.

Lemma bfs_filter_child_of : forall c, sound c -> forall k f q,
  NoDup (q ++ bfs c f q) ->
  filter (child_of c k) (bfs c f q) = if mem k (deq c f q) then children_for c k else [].
Proof.
  intros c HS k f; induction f as [|f IH]; intros q Hnd; [reflexivity|].
  destruct q as [|n q]; [reflexivity|]. rewrite bfs_S in *. cbn [deq mem].
  rewrite filter_app, (filter_child_of_children c HS).
  assert (Hnd' : NoDup ((q ++ children_for c n) ++ bfs c f (q ++ children_for c n))).
  { rewrite <- app_assoc. simpl in Hnd. inv Hnd. assumption. }
  rewrite (IH _ Hnd'). rewrite (seqb_sym k n).
  destruct (seqbP n k) as [->|Hn]; simpl; [|reflexivity].
  assert (E : mem k (deq c f (q ++ children_for c k)) = false).
  { apply mem_false_iff. intros Hin. apply deq_incl in Hin. rewrite <- app_assoc in Hin.
    simpl in Hnd. inv Hnd. auto. }
  rewrite E, app_nil_r. reflexivity.
Qed.

(* restricted to the children of one node of the subtree, the BFS order is that node's children list *)
Theorem descendants_filter_children : forall c, sound c -> forall n k,
  k = n \/ In k (descendants_for c n) ->
  filter (child_of c k) (descendants_for c n) = children_for c k.
Proof.
  intros c HS n k Hk. unfold descendants_for.
  assert (Hac : antichain c [n]).
  { split; [constructor; [intros []|constructor]|].
    intros a b [<-|[]] [<-|[]]. apply sound_anc_irrefl; assumption. }
  pose proof (bfs_NoDup c HS (S (length (c_states c))) [n] Hac) as Hnd.
  rewrite (bfs_filter_child_of c HS k _ _ Hnd).
  destruct (mem k (deq c (S (length (c_states c))) [n])) eqn:E; [reflexivity|].
  destruct (children_for c k) as [|x l] eqn:Ech; [reflexivity|]. exfalso.
  assert (Hx : In x (children_for c k)) by (rewrite Ech; left; reflexivity).
  pose proof (sound_child_parent c HS _ _ Hx) as Hp.
  assert (Hd : In x (descendants_for c n)).
  { apply (descendants_for_spec c HS). destruct Hk as [->|Hk].
    - apply anc_parent. exact Hp.
    - eapply anc_step; [exact Hp|]. apply (descendants_for_spec c HS). exact Hk. }
  assert (Hf : In x (filter (child_of c k) (descendants_for c n))).
  { apply filter_In. split; [exact Hd|]. unfold child_of. rewrite (parent_for_lookup _ _ _ Hp). apply oeqb_refl. }
  unfold descendants_for in Hf. rewrite (bfs_filter_child_of c HS k _ _ Hnd), E in Hf. destruct Hf.
Qed.

Lemma descendants_parents_before : forall c, sound c -> forall n,
  parents_before c [n] (descendants_for c n).
Proof. intros c HS n. apply bfs_parents_before. exact HS. Qed.

(* ================================================================== 6. small library facts *)
Lemma mem_app' : forall x l1 l2, mem x (l1 ++ l2) = mem x l1 || mem x l2.
Proof.
  intros x l1 l2; induction l1 as [|y l1 IH]; simpl; [reflexivity|]. rewrite IH, orb_assoc. reflexivity.
Qed.

Lemma NoDup_map_inj : forall {A B} (f : A -> B) l a b,
  NoDup (map f l) -> In a l -> In b l -> f a = f b -> a = b.
Proof.
  intros A B f l; induction l as [|x l IH]; intros a b Hnd Ha Hb E; [destruct Ha|].
  simpl in Hnd. inv Hnd. destruct Ha as [<-|Ha], Hb as [<-|Hb]; [reflexivity| | |apply IH; assumption].
  - exfalso. apply H1. rewrite E. apply in_map. exact Hb.
  - exfalso. apply H1. rewrite <- E. apply in_map. exact Ha.
Qed.

Lemma lookup_app : forall {V} k (d1 d2 : list (name * V)),
  lookup k (d1 ++ d2) = match lookup k d1 with Some v => Some v | None => lookup k d2 end.
Proof.
  intros V k d1 d2; induction d1 as [|[k0 v0] d1 IH]; simpl; [reflexivity|].
  destruct (str_eqb k k0); [reflexivity|exact IH].
Qed.

Lemma rename_ok_cond : forall g n new,
  n = new \/ (has_state g new = false /\ has_state g n = true) ->
  exists g1, rename_state g n new = (g1, EOk).
Proof.
  intros g n new H. rewrite rename_state_eq. destruct (seqbP n new) as [E|Hne]; [eauto|].
  destruct H as [H|[H1 H2]]; [congruence|]. rewrite H1.
  apply has_state_Some in H2. destruct H2 as [s Hs]. rewrite Hs. cbv zeta. eauto.
Qed.

Lemma img_anc : forall r c c', img r c c' -> sound c ->
  (forall x y, anc c x y -> anc c' (r x) (r y)) /\
  (forall x y, has_state c x = true -> has_state c y = true -> anc c' (r x) (r y) -> anc c x y).
Proof.
  intros r c c' HI HS. split.
  - intros x y H. induction H as [x a H|x q a H H' IH].
    + apply anc_parent. apply (im_parent _ _ _ HI _ _ H).
    + eapply anc_step; [|exact IH]. apply (im_parent _ _ _ HI _ _ H).
  - assert (G : forall x' y', anc c' x' y' -> forall x y, has_state c x = true -> has_state c y = true ->
                x' = r x -> y' = r y -> anc c x y).
    { intros x' y' H. induction H as [x' a' H|x' q' a' H H' IH]; intros x y Hx Hy -> E2.
      - destruct (sound_state_parent c HS x Hx) as [p Hp].
        pose proof (im_parent _ _ _ HI _ _ Hp) as Hp'. rewrite H in Hp'.
        destruct p as [q|]; [|discriminate]. simpl in Hp'. inv Hp'.
        assert (Hq : has_state c q = true) by (apply (sd_pc c HS _ _ Hp); reflexivity).
        assert (q = y) by (apply (im_inj _ _ _ HI); [assumption|assumption|symmetry; assumption]). subst q. apply anc_parent. exact Hp.
      - destruct (sound_state_parent c HS x Hx) as [p Hp].
        pose proof (im_parent _ _ _ HI _ _ Hp) as Hp'. rewrite H in Hp'.
        destruct p as [q|]; [|discriminate]. simpl in Hp'. inv Hp'.
        assert (Hq : has_state c q = true) by (apply (sd_pc c HS _ _ Hp); reflexivity).
        eapply anc_step; [exact Hp|]. apply (IH q y); auto. }
    intros x y Hx Hy H. eapply G; eauto.
Qed.

Definition dummy_state : state := mkState "" KBasic None None None None [] [] [].

(* ------------------------------------------------------------------ sync_states, add_transitions *)
Lemma sync_states_spec : forall names g h,
  c_name (sync_states g h names) = c_name h /\ c_description (sync_states g h names) = c_description h /\
  c_preamble (sync_states g h names) = c_preamble h /\ c_parent (sync_states g h names) = c_parent h /\
  c_children (sync_states g h names) = c_children h /\ c_transitions (sync_states g h names) = c_transitions h /\
  (forall k, lookup k (c_states (sync_states g h names)) =
             if mem k names then match state_for g k with Some st => Some st | None => lookup k (c_states h) end
             else lookup k (c_states h)) /\
  ((forall n, In n names -> lookup n (c_states h) <> None) ->
   map fst (c_states (sync_states g h names)) = map fst (c_states h)).
Proof.
  induction names as [|n rest IH]; intros g h; simpl.
  - repeat split; intros; reflexivity.
  - destruct (state_for g n) as [st|] eqn:Est.
    + destruct (IH g (with_states h (dset n st (c_states h)))) as [H1 [H2 [H3 [H4 [H5 [H6 [H7 H8]]]]]]].
      cbn [with_states c_name c_description c_preamble c_parent c_children c_transitions c_states] in *.
      repeat (split; [assumption|]). split.
      * intros k. rewrite H7, lookup_dset. destruct (seqbP k n) as [->|Hk]; simpl.
        -- rewrite Est. destruct (mem n rest); reflexivity.
        -- reflexivity.
      * intros Hk. rewrite H8.
        -- rewrite keys_dset. assert (E : mem n (map fst (c_states h)) = true).
           { apply mem_In. apply lookup_Some_In_keys. apply Hk. left; reflexivity. }
           rewrite E. reflexivity.
        -- intros m Hm. rewrite lookup_dset. destruct (str_eqb m n); [discriminate|]. apply Hk. right; exact Hm.
    + destruct (IH g h) as [H1 [H2 [H3 [H4 [H5 [H6 [H7 H8]]]]]]].
      repeat (split; [assumption|]). split.
      * intros k. rewrite H7. destruct (seqbP k n) as [->|Hk]; simpl; [|reflexivity].
        rewrite Est. destruct (mem n rest); reflexivity.
      * intros Hk. apply H8. intros m Hm. apply Hk. right; exact Hm.
Qed.

Definition trans_ok (h : chart) (t : transition) : Prop :=
  (exists s, lookup (t_source t) (c_states h) = Some s /\ owns_transitions (s_kind s) = true) /\
  (forall tg, t_target t = Some tg -> has_state h tg = true).

Lemma add_transitions_spec : forall ts h,
  (forall t, In t ts -> trans_ok h t) ->
  add_transitions h ts = (with_transitions h (c_transitions h ++ ts), EOk).
Proof.
  induction ts as [|t ts IH]; intros h H; simpl.
  - rewrite app_nil_r. destruct h; reflexivity.
  - destruct (H t (or_introl eq_refl)) as [[s [H1 H2]] H3].
    assert (E : add_transition h t = (with_transitions h (c_transitions h ++ [t]), EOk)).
    { unfold add_transition, state_for. rewrite H1, H2. cbn [negb].
      destruct (t_target t) as [tg|] eqn:Et; [rewrite (H3 tg eq_refl)|]; reflexivity. }
    rewrite E. cbn [eres_eqb negb]. rewrite IH.
    + unfold with_transitions. cbn. rewrite <- app_assoc. reflexivity.
    + intros t' Ht'. exact (H t' (or_intror Ht')).
Qed.

Lemma nth_trans_eq : forall l i, nth_trans l i = match nth_error l i with Some t => [t] | None => [] end.
Proof.
  induction l as [|x l IH]; intros [|i]; simpl; try reflexivity. apply IH.
Qed.

Lemma In_flat_nth_trans : forall l idxs t,
  In t (flat_map (nth_trans l) idxs) <-> exists i, In i idxs /\ nth_error l i = Some t.
Proof.
  intros l idxs t. rewrite in_flat_map. split; intros [i [H1 H2]]; exists i; (split; [exact H1|]);
    rewrite nth_trans_eq in *; destruct (nth_error l i) as [t'|].
  - destruct H2 as [->|[]]. reflexivity.
  - destruct H2.
  - inv H2. left; reflexivity.
  - discriminate.
Qed.

Lemma nth_trans_map : forall (f : transition -> transition) l i, nth_trans (map f l) i = map f (nth_trans l i).
Proof. induction l as [|x l IH]; intros [|i]; simpl; try reflexivity. apply IH. Qed.

Lemma flat_nth_trans_map : forall (f : transition -> transition) l idxs,
  flat_map (nth_trans (map f l)) idxs = map f (flat_map (nth_trans l) idxs).
Proof.
  intros f l idxs; induction idxs as [|i idxs IH]; simpl; [reflexivity|].
  rewrite map_app, nth_trans_map, IH. reflexivity.
Qed.

Lemma find_map_inj : forall (f : name -> name) l m,
  NoDup (map f l) -> In m l -> find (fun k => str_eqb (f k) (f m)) l = Some m.
Proof.
  intros f l m; induction l as [|x l IH]; intros Hnd Hin; [destruct Hin|]. simpl in Hnd. inv Hnd. simpl.
  destruct Hin as [->|Hin]; [rewrite seqb_refl; reflexivity|].
  destruct (seqbP (f x) (f m)) as [E|_]; [|apply IH; assumption].
  exfalso. apply H1. rewrite E. apply in_map. exact Hin.
Qed.

Lemma NoDup_map_on : forall {A B} (f : A -> B) l,
  NoDup l -> (forall a b, In a l -> In b l -> f a = f b -> a = b) -> NoDup (map f l).
Proof.
  intros A B f l; induction l as [|x l IH]; intros Hnd Hinj; simpl; [constructor|]. inv Hnd. constructor.
  - intros Hin. apply in_map_iff in Hin. destruct Hin as [y [E Hy]].
    assert (y = x) by (apply Hinj; [right; exact Hy|left; reflexivity|exact E]). subst y. auto.
  - apply IH; [assumption|]. intros a b Ha Hb. apply Hinj; right; assumption.
Qed.

(* ------------------------------------------------------------------ collect_transitions on an image *)
Lemma remove_first_app_in : forall k l1 l2, In k l1 -> remove_first k (l1 ++ l2) = remove_first k l1 ++ l2.
Proof.
  intros k l1 l2; induction l1 as [|y l1 IH]; intros H; [destruct H|]. simpl.
  destruct (seqbP k y) as [->|Hn]; [reflexivity|]. simpl. f_equal. apply IH. destruct H; [congruence|assumption].
Qed.

Lemma idx_filter_map_ext : forall (f f' : transition -> bool) (g : transition -> transition) l k,
  (forall t, In t l -> f' (g t) = f t) -> idx_filter f' k (map g l) = idx_filter f k l.
Proof.
  intros f f' g l; induction l as [|t l IH]; intros k H; simpl; [reflexivity|].
  rewrite (H t (or_introl eq_refl)), IH by (intros t' Ht'; apply H; right; exact Ht'). reflexivity.
Qed.

Lemma from_to_idx_img : forall r c c' n, img r c c' -> sound c -> has_state c n = true ->
  from_idx c' (r n) = from_idx c n /\ to_idx c' (r n) = to_idx c n.
Proof.
  intros r c c' n HI HS Hn. unfold from_idx, to_idx. rewrite (im_trans _ _ _ HI).
  assert (Hinj : forall x, has_state c x = true -> str_eqb (r x) (r n) = str_eqb x n).
  { intros x Hx. destruct (seqbP x n) as [->|Hne]; [apply seqb_refl|]. apply seqb_neq. intros E. apply Hne.
    apply (im_inj _ _ _ HI); assumption. }
  split; apply idx_filter_map_ext; intros t Ht; destruct (sd_trans c HS t Ht) as [[s [Hs _]] Htg];
    cbn [map_trans t_source t_target].
  - apply Hinj. unfold has_state. rewrite Hs. reflexivity.
  - destruct (t_target t) as [tg|] eqn:E; cbn [option_map].
    + apply Hinj. apply Htg. reflexivity.
    + apply Hinj. unfold has_state. rewrite Hs. reflexivity.
Qed.

Lemma collect_transitions_img : forall r c c', img r c c' -> sound c -> forall names seen,
  (forall n, In n names -> has_state c n = true) ->
  collect_transitions c' (map r names) seen = collect_transitions c names seen.
Proof.
  intros r c c' HI HS names; induction names as [|n names IH]; intros seen H; simpl; [reflexivity|].
  destruct (from_to_idx_img r c c' n HI HS (H n (or_introl eq_refl))) as [-> ->].
  apply IH. intros m Hm. apply H. right; exact Hm.
Qed.

(* ================================================================== 7. the main theorem *)
Section Main.
  Variables (host guest : chart) (source replace : name) (rho : list (name * name)).
  Let D := descendants_for guest source.
  Let rh := rho_apply rho.

  Hypothesis HH : einv host.
  Hypothesis HG : einv guest.
  Hypothesis Hrep : has_state host replace = true.
  Hypothesis Hleaf : children_for host replace = [].
  Hypothesis Hsrc : has_state guest source = true.
  Hypothesis Hrg : source = replace \/ has_state guest replace = false.
  Hypothesis Hfresh_h : forall n, In n D -> has_state host (rh n) = false.
  Hypothesis Hnonempty : forall n, In n D -> rh n <> "".
  Hypothesis Hinj : NoDup (map rh D).
  Hypothesis Hfresh_g : forall n, In n D -> rh n = n \/ has_state guest (rh n) = false.
  Hypothesis Hkinds : forall n p sp sn, In n D -> lookup n (c_parent guest) = Some (Some p) ->
    lookup p (c_states guest) = Some sp -> lookup n (c_states guest) = Some sn ->
    is_composite (s_kind sp) = true /\ (is_history (s_kind sn) = true -> s_kind sp = KCompound).

  Let GS : sound guest := proj1 HG.
  Let GN : no_empty_name guest := proj1 (proj2 HG).
  Let GF : fields_ok guest := proj2 (proj2 HG).
  Let HS : sound host := proj1 HH.
  Let HN : no_empty_name host := proj1 (proj2 HH).
  Let HF : fields_ok host := proj2 (proj2 HH).

  Definition state_of (n : name) : state :=
    match lookup n (c_states guest) with Some s => s | None => dummy_state end.

  (* the renaming after the descendants in `done` have been processed *)
  Definition rsd (done : list name) (x : name) : name :=
    if str_eqb x source then replace else if mem x done then rh x else x.

  Lemma D_anc : forall n, In n D <-> anc guest n source.
  Proof. intros n. apply descendants_for_spec. exact GS. Qed.

  Lemma D_state : forall n, In n D -> has_state guest n = true.
  Proof. intros n H. apply D_anc in H. exact (anc_has_state guest GS _ _ H). Qed.

  Lemma D_nodup : NoDup D.
  Proof. apply descendants_NoDup. exact GS. Qed.

  Lemma src_notin_D : ~ In source D.
  Proof. intros H. apply D_anc in H. exact (sound_anc_irrefl guest GS source H). Qed.

  Lemma D_not_replace : forall n, In n D -> n <> replace.
  Proof.
    intros n H E0. destruct Hrg as [E|E].
    - apply src_notin_D. rewrite E, <- E0. exact H.
    - rewrite <- E0, (D_state _ H) in E. discriminate.
  Qed.

  Lemma rh_not_replace : forall n, In n D -> rh n <> replace.
  Proof. intros n H E. rewrite <- E, (Hfresh_h _ H) in Hrep. discriminate. Qed.

  Lemma replace_nonempty : replace <> "".
  Proof. intros E. rewrite E in Hrep. unfold no_empty_name in HN. congruence. Qed.

  Lemma rsd_source : forall done, rsd done source = replace.
  Proof. intros done. unfold rsd. rewrite seqb_refl. reflexivity. Qed.

  Lemma rsd_in : forall done n, n <> source -> In n done -> rsd done n = rh n.
  Proof.
    intros done n H1 H2. unfold rsd. destruct (seqbP n source); [congruence|].
    apply mem_In in H2. rewrite H2. reflexivity.
  Qed.

  Lemma rsd_out : forall done n, n <> source -> ~ In n done -> rsd done n = n.
  Proof.
    intros done n H1 H2. unfold rsd. destruct (seqbP n source); [congruence|].
    apply mem_false_iff in H2. rewrite H2. reflexivity.
  Qed.

  Lemma rsd_step : forall done n, In n D -> ~ In n done -> incl done D ->
    forall x, ren n (rh n) (rsd done x) = rsd (done ++ [n]) x.
  Proof.
    intros done n Hn Hnd Hincl x. unfold rsd. rewrite mem_app'. cbn [mem]. rewrite orb_false_r.
    destruct (seqbP x source) as [->|Hxs].
    - apply ren_id. intros E. apply (D_not_replace n Hn). congruence.
    - destruct (mem x done) eqn:Em.
      + cbn [orb]. apply ren_id. apply mem_In in Em.
        destruct (Hfresh_g x (Hincl _ Em)) as [E|E].
        * rewrite E. intros ->. auto.
        * intros E2. rewrite E2, (D_state _ Hn) in E. discriminate.
      + cbn [orb]. destruct (seqbP x n) as [->|Hxn]; [apply ren_old|apply ren_id; exact Hxn].
  Qed.

  (* the entries handed to add_state *)
  Fixpoint gentries (done rest : list name) : list entry :=
    match rest with
    | [] => []
    | n :: rest' =>
        (map_state (rsd (done ++ [n])) (state_of n), option_map (rsd (done ++ [n])) (parent_for guest n))
        :: gentries (done ++ [n]) rest'
    end.

  Lemma guest_loop : forall rest done g,
    done ++ rest = D -> einv g -> img (rsd done) guest g ->
    exists g', guest_entries rest rho g = (g', gentries done rest, EOk) /\ einv g' /\ img (rsd D) guest g'.
  Proof.
    induction rest as [|n rest IH]; intros done g HD HE HI.
    - rewrite app_nil_r in HD. subst done. exists g. auto.
    - assert (Hn : In n D) by (rewrite <- HD; apply in_or_app; right; left; reflexivity).
      assert (Hnd : ~ In n done).
      { pose proof D_nodup as ND. rewrite <- HD in ND. apply NoDup_remove_2 in ND.
        intros H. apply ND. apply in_or_app. left. exact H. }
      assert (Hincl : incl done D) by (intros x Hx; rewrite <- HD; apply in_or_app; left; exact Hx).
      assert (Hns : n <> source) by (intros ->; apply src_notin_D; exact Hn).
      destruct HE as [gS [gN gF]].
      assert (Hstn : has_state guest n = true) by (apply D_state; exact Hn).
      destruct (proj1 (has_state_Some _ _) Hstn) as [sn Hsn].
      destruct (sound_state_parent guest GS n Hstn) as [pn Hpn].
      assert (Hgn : has_state g n = true).
      { apply (im_has _ _ _ HI). exists n. split; [exact Hstn|]. symmetry. apply rsd_out; assumption. }
      assert (Hnew : rh n = n \/ has_state g (rh n) = false).
      { destruct (seqbP (rh n) n) as [E|Hne]; [left; exact E|right].
        destruct (has_state g (rh n)) eqn:Eh; [|reflexivity]. exfalso.
        apply (im_has _ _ _ HI) in Eh. destruct Eh as [k [Hk Ek]].
        unfold rsd in Ek. destruct (seqbP k source) as [->|Hks].
        - apply (rh_not_replace n Hn). exact Ek.
        - destruct (mem k done) eqn:Em.
          + apply mem_In in Em. assert (n = k); [|congruence].
            apply (NoDup_map_inj rh D); auto.
          + destruct (Hfresh_g n Hn) as [E|E]; [congruence|]. rewrite Ek, Hk in E. discriminate. }
      destruct (rename_ok_cond g n (rh n)) as [g1 Hren].
      { destruct Hnew as [E|E]; [left; symmetry; exact E|right; split; assumption]. }
      pose proof (img_rename _ _ _ _ gS gF Hren) as HI1.
      assert (HI2 : img (rsd (done ++ [n])) guest g1).
      { eapply img_ext; [|eapply img_comp; [exact HI|exact HI1]]. intros x. apply rsd_step; assumption. }
      destruct (rename_state_sound _ _ _ _ gS gF gN Hren) as [g1S [g1F g1N]].
      specialize (g1N (Hnonempty n Hn)).
      assert (Hrn : rsd (done ++ [n]) n = rh n).
      { apply rsd_in; [exact Hns|apply in_or_app; right; left; reflexivity]. }
      pose proof (im_states _ _ _ HI2 _ _ Hsn) as Hst1. rewrite Hrn in Hst1.
      pose proof (im_parent _ _ _ HI2 _ _ Hpn) as Hpa1. rewrite Hrn in Hpa1.
      destruct (IH (done ++ [n]) g1) as [g' [H1 [H2 H3]]].
      { rewrite <- app_assoc. exact HD. }
      { split; [|split]; assumption. }
      { exact HI2. }
      exists g'. split; [|split; assumption].
      cbn [guest_entries gentries]. fold rh. rewrite Hren. cbn [eres_eqb negb].
      unfold state_for. rewrite Hst1, H1. unfold parent_for at 1. rewrite Hpa1.
      unfold state_of. rewrite Hsn. unfold parent_for. rewrite Hpn. reflexivity.
  Qed.

  Lemma D_parent : forall n, In n D ->
    exists p, lookup n (c_parent guest) = Some (Some p) /\ (p = source \/ In p D).
  Proof.
    intros n H. apply D_anc in H. destruct (anc_inv _ _ _ H) as [q [Hq [E|Ha]]]; exists q; (split; [exact Hq|]).
    - left. exact E.
    - right. apply D_anc. exact Ha.
  Qed.

  Lemma rsd_app_other : forall done n p, p <> n -> rsd (done ++ [n]) p = rsd done p.
  Proof.
    intros done n p H. unfold rsd. rewrite mem_app'. cbn [mem]. destruct (seqbP p n); [congruence|].
    rewrite !orb_false_r. reflexivity.
  Qed.

  (* the host's state dictionary while the loop runs *)
  Definition InvS (done : list name) (Sl : list (name * state)) : Prop :=
    (forall x, lookup x Sl = None <-> has_state host x = false /\ forall m, In m done -> x <> rh m) /\
    (forall p sp, p = source \/ In p done -> lookup p (c_states guest) = Some sp ->
       exists ps, lookup (rsd done p) Sl = Some ps /\ s_kind ps = s_kind sp).

  Lemma entries_ok_loop : forall rest done Sl,
    done ++ rest = D -> parents_before guest (source :: done) rest -> InvS done Sl ->
    entries_ok Sl (gentries done rest).
  Proof.
    induction rest as [|n rest IH]; intros done Sl HD HP [I1 I2]; [exact I|].
    assert (Hn : In n D) by (rewrite <- HD; apply in_or_app; right; left; reflexivity).
    assert (Hnd : ~ In n done).
    { pose proof D_nodup as ND. rewrite <- HD in ND. apply NoDup_remove_2 in ND.
      intros H. apply ND. apply in_or_app. left. exact H. }
    assert (Hincl : incl done D) by (intros x Hx; rewrite <- HD; apply in_or_app; left; exact Hx).
    assert (Hns : n <> source) by (intros ->; apply src_notin_D; exact Hn).
    assert (Hstn : has_state guest n = true) by (apply D_state; exact Hn).
    destruct (proj1 (has_state_Some _ _) Hstn) as [sn Hsn].
    assert (Est : state_of n = sn) by (unfold state_of; rewrite Hsn; reflexivity).
    assert (Hrn : rsd (done ++ [n]) n = rh n).
    { apply rsd_in; [exact Hns|apply in_or_app; right; left; reflexivity]. }
    destruct HP as [[p [Hp Hpin]] HPrest].
    cbn [gentries]. set (e := (map_state (rsd (done ++ [n])) (state_of n), option_map (rsd (done ++ [n])) (parent_for guest n))).
    assert (Enm : e_name e = rh n).
    { unfold e_name, e. cbn [fst map_state s_name]. rewrite Est, (sd_keyname guest GS _ _ Hsn). exact Hrn. }
    assert (Hpn : p <> n).
    { intros ->. destruct Hpin as [E|Hin]; [congruence|auto]. }
    assert (Hpst : has_state guest p = true) by (apply (sd_pc guest GS _ _ Hp); reflexivity).
    destruct (proj1 (has_state_Some _ _) Hpst) as [sp Hsp].
    assert (Hfr : lookup (rh n) Sl = None).
    { apply I1. split; [apply Hfresh_h; exact Hn|]. intros m Hm E. apply Hnd.
      assert (n = m) by (apply (NoDup_map_inj rh D); auto). subst m. exact Hm. }
    cbn [entries_ok]. rewrite Enm. split; [exact Hfr|]. split.
    - destruct (I2 p sp) as [ps [Hps Hk]]; [destruct Hpin as [E|Hin]; [left; symmetry; exact E|right; exact Hin]|exact Hsp|].
      exists (rsd done p), ps. split.
      { unfold e. cbn [snd]. rewrite (parent_for_lookup _ _ _ Hp). cbn [option_map].
        rewrite (rsd_app_other done n p Hpn). reflexivity. }
      split.
      { destruct Hpin as [<-|Hin].
        - rewrite rsd_source. apply replace_nonempty.
        - rewrite rsd_in; [apply Hnonempty; apply Hincl; exact Hin| |exact Hin].
          intros ->. apply src_notin_D. apply Hincl. exact Hin. }
      split; [exact Hps|].
      destruct (Hkinds n p sp sn Hn Hp Hsp Hsn) as [K1 K2]. rewrite Hk. split; [exact K1|].
      unfold e. cbn [fst map_state s_kind]. rewrite Est. exact K2.
    - apply IH.
      + rewrite <- app_assoc. exact HD.
      + exact HPrest.
      + split.
        * intros x. rewrite lookup_app. cbn [lookup]. split.
          -- intros H. destruct (lookup x Sl) eqn:E1; [discriminate|].
             destruct (seqbP x (rh n)) as [|Hx]; [discriminate|]. apply I1 in E1. destruct E1 as [A B].
             split; [exact A|]. intros m Hm. apply in_app_or in Hm.
             destruct Hm as [Hm|[<-|[]]]; [apply B; exact Hm|exact Hx].
          -- intros [A B]. assert (H : lookup x Sl = None).
             { apply I1. split; [exact A|]. intros m Hm. apply B. apply in_or_app. left. exact Hm. }
             rewrite H. destruct (seqbP x (rh n)) as [E|_]; [|reflexivity].
             exfalso. apply (B n); [apply in_or_app; right; left; reflexivity|exact E].
        * intros p' sp' Hp' Hsp'. destruct (string_dec p' n) as [->|Hne].
          -- rewrite Hrn, lookup_app, Hfr. cbn [lookup]. rewrite seqb_refl. eexists. split; [reflexivity|].
             unfold e. cbn [fst map_state s_kind]. rewrite Est. congruence.
          -- rewrite (rsd_app_other done n p' Hne).
             destruct (I2 p' sp') as [ps [Hps Hk]]; [|exact Hsp'|].
             { destruct Hp' as [E|Hin]; [left; exact E|]. apply in_app_or in Hin.
               destruct Hin as [Hin|[E|[]]]; [right; exact Hin|congruence]. }
             exists ps. rewrite lookup_app, Hps. auto.
  Qed.

  (* ---------------------------------------------------------------- the first renaming: source -> replace *)
  Lemma rsd_nil : forall x, rsd [] x = ren source replace x.
  Proof. intros x. unfold rsd, ren. simpl. reflexivity. Qed.

  Lemma subtree_child : forall x y, x = source \/ In x D -> In y (children_for guest x) -> In y D.
  Proof.
    intros x y Hx Hy. apply D_anc. pose proof (sound_child_parent guest GS _ _ Hy) as Hp.
    destruct Hx as [->|Hx]; [apply anc_parent; exact Hp|].
    eapply anc_step; [exact Hp|apply D_anc; exact Hx].
  Qed.

  Lemma first_rename :
    exists g1, rename_state guest source replace = (g1, EOk) /\ einv g1 /\ img (rsd []) guest g1 /\
               descendants_for g1 replace = D.
  Proof.
    destruct (rename_ok_cond guest source replace) as [g1 Hren].
    { destruct Hrg as [E|E]; [left; exact E|right; split; assumption]. }
    exists g1. split; [exact Hren|].
    pose proof (img_rename _ _ _ _ GS GF Hren) as HI.
    destruct (rename_state_sound _ _ _ _ GS GF GN Hren) as [S1 [F1 N1]].
    specialize (N1 replace_nonempty).
    split; [split; [|split]; assumption|].
    split; [eapply img_ext; [|exact HI]; intros x; symmetry; apply rsd_nil|].
    destruct (seqbP source replace) as [E|Hne].
    - rewrite rename_state_eq in Hren. apply seqb_eq in E. rewrite E in Hren. inv Hren.
      apply seqb_eq in E. rewrite <- E. reflexivity.
    - unfold descendants_for. rewrite (im_len _ _ _ HI).
      assert (Eq : [replace] = map (ren source replace) [source]) by (simpl; rewrite ren_old; reflexivity).
      rewrite Eq.
      rewrite (bfs_map (ren source replace) guest g1 (fun x => x = source \/ In x D)).
      + apply map_ren_id. exact src_notin_D.
      + intros x Hx.
        assert (Hxs : has_state guest x = true) by (destruct Hx as [->|Hx]; [exact Hsrc|apply D_state; exact Hx]).
        rewrite (rename_children_for _ _ _ _ GS Hne Hren x Hxs).
        destruct (ostr_eqb (parent_for guest source) (Some x)) eqn:Ep.
        * exfalso. apply ostr_eqb_eq in Ep. unfold parent_for in Ep.
          destruct (lookup source (c_parent guest)) as [pp|] eqn:Epp; [|discriminate]. subst pp.
          assert (Ha : anc guest source x) by (apply anc_parent; exact Epp).
          destruct Hx as [->|Hx]; [exact (sound_anc_irrefl guest GS _ Ha)|].
          apply D_anc in Hx. exact (sound_anc_irrefl guest GS _ (anc_trans _ _ _ _ Ha Hx)).
        * symmetry. apply map_ren_id. intros Hin. apply src_notin_D. eapply subtree_child; eauto.
      + intros x Hx y Hy. right. eapply subtree_child; eauto.
      + intros x [<-|[]]. left; reflexivity.
  Qed.

  (* ---------------------------------------------------------------- the loop, both sides *)
  Definition st0 : state := map_state (rsd []) (state_of source).
  Definition h1 : chart := with_states host (dset replace st0 (c_states host)).

  Lemma h1_lookup : forall x, lookup x (c_states h1) = if str_eqb x replace then Some st0 else lookup x (c_states host).
  Proof. intros x. unfold h1. cbn [with_states c_states]. apply lookup_dset. Qed.

  Lemma h1_has_state : forall x, has_state h1 x = has_state host x.
  Proof.
    intros x. unfold has_state. rewrite h1_lookup. destruct (seqbP x replace) as [->|]; [|reflexivity].
    unfold has_state in Hrep. destruct (lookup replace (c_states host)); [reflexivity|discriminate].
  Qed.

  Lemma h1_aligned : aligned h1.
  Proof.
    destruct (sound_aligned host HS) as [A1 A2]. split.
    - intros n. rewrite h1_has_state. apply A1.
    - intros n. rewrite h1_has_state. apply A2.
  Qed.

  Lemma src_state : exists ss, lookup source (c_states guest) = Some ss /\ state_of source = ss.
  Proof.
    destruct (proj1 (has_state_Some _ _) Hsrc) as [ss Hss]. exists ss. split; [exact Hss|].
    unfold state_of. rewrite Hss. reflexivity.
  Qed.

  Lemma InvS_init : InvS [] (c_states h1).
  Proof.
    split.
    - intros x. rewrite <- has_state_false, h1_has_state. split; [intros H; split; [exact H|intros m []]|tauto].
    - intros p sp [->|[]] Hsp. rewrite rsd_source, h1_lookup, seqb_refl. eexists. split; [reflexivity|].
      unfold st0, state_of. rewrite Hsp. reflexivity.
  Qed.

  Lemma gentries_names : forall rest done, done ++ rest = D -> map e_name (gentries done rest) = map rh rest.
  Proof.
    induction rest as [|n rest IH]; intros done HD; [reflexivity|].
    assert (Hn : In n D) by (rewrite <- HD; apply in_or_app; right; left; reflexivity).
    assert (Hns : n <> source) by (intros ->; apply src_notin_D; exact Hn).
    destruct (proj1 (has_state_Some _ _) (D_state _ Hn)) as [sn Hsn].
    cbn [gentries map]. f_equal.
    - unfold e_name. cbn [fst map_state s_name]. unfold state_of. rewrite Hsn, (sd_keyname guest GS _ _ Hsn).
      apply rsd_in; [exact Hns|apply in_or_app; right; left; reflexivity].
    - apply IH. rewrite <- app_assoc. exact HD.
  Qed.

  Definition E_all : list entry := gentries [] D.

  Lemma run_loop :
    exists g1 g2 h2,
      rename_state guest source replace = (g1, EOk) /\ state_for g1 replace = Some st0 /\
      descendants_for g1 replace = D /\
      copy_states D rho g1 h1 [] = (g2, h2, map rh D, EOk) /\
      einv g2 /\ img (rsd D) guest g2 /\ host_ext h1 E_all h2 /\ aligned h2.
  Proof.
    destruct first_rename as [g1 [Hren [HE1 [HI1 HD1]]]].
    destruct (guest_loop D [] g1 eq_refl HE1 HI1) as [g2 [Hge [HE2 HI2]]].
    assert (Hok : entries_ok (c_states h1) E_all).
    { apply entries_ok_loop; [reflexivity| |exact InvS_init]. apply descendants_parents_before. exact GS. }
    destruct (add_entries_ok _ _ h1_aligned Hok) as [h2 Hadd].
    destruct (add_entries_spec _ _ _ h1_aligned Hadd) as [Hext [Hal _]].
    exists g1, g2, h2. split; [exact Hren|]. split.
    { destruct src_state as [ss [Hss Ess]]. unfold state_for.
      pose proof (im_states _ _ _ HI1 _ _ Hss) as H. rewrite rsd_source in H. unfold st0. rewrite Ess. exact H. }
    split; [exact HD1|]. split; [|auto].
    apply copy_states_decompose. exists E_all. split; [exact Hge|]. split; [exact Hadd|reflexivity].
  Qed.

  (* ---------------------------------------------------------------- the final renaming *)
  Definition rs : name -> name := rsd D.

  Lemma rs_source : rs source = replace.
  Proof. apply rsd_source. Qed.

  Lemma rs_D : forall n, In n D -> rs n = rh n.
  Proof. intros n H. apply rsd_in; [intros ->; apply src_notin_D; exact H|exact H]. Qed.

  Lemma rs_map_D : forall l, incl l D -> map rs l = map rh l.
  Proof. intros l H. apply map_ext_in. intros x Hx. apply rs_D. apply H. exact Hx. Qed.

  Lemma rs_inj_S : forall a b, a = source \/ In a D -> b = source \/ In b D -> rs a = rs b -> a = b.
  Proof.
    intros a b [->|Ha] [->|Hb] E; [reflexivity| | |].
    - rewrite rs_source, (rs_D _ Hb) in E. exfalso. apply (rh_not_replace b Hb). auto.
    - rewrite rs_source, (rs_D _ Ha) in E. exfalso. apply (rh_not_replace a Ha). auto.
    - rewrite (rs_D _ Ha), (rs_D _ Hb) in E. apply (NoDup_map_inj rh D); auto.
  Qed.

  Lemma rsd_prefix : forall done n p, incl done D -> In n D -> p = source \/ In p done ->
    rsd (done ++ [n]) p = rs p.
  Proof.
    intros done n p Hincl Hn [->|Hp].
    - rewrite rsd_source, rs_source. reflexivity.
    - assert (Hps : p <> source) by (intros ->; apply src_notin_D; apply Hincl; exact Hp).
      rewrite rsd_in; [|exact Hps|apply in_or_app; left; exact Hp].
      symmetry. apply rs_D. apply Hincl. exact Hp.
  Qed.

  Lemma gentries_parents : forall rest done, done ++ rest = D -> parents_before guest (source :: done) rest ->
    map (fun e => (e_name e, snd e)) (gentries done rest) =
    map (fun n => (rh n, option_map rs (parent_for guest n))) rest.
  Proof.
    induction rest as [|n rest IH]; intros done HD HP; [reflexivity|].
    assert (Hn : In n D) by (rewrite <- HD; apply in_or_app; right; left; reflexivity).
    assert (Hincl : incl done D) by (intros x Hx; rewrite <- HD; apply in_or_app; left; exact Hx).
    destruct HP as [[p [Hp Hpin]] HPrest].
    pose proof (gentries_names (n :: rest) done HD) as Hnm. cbn [gentries map] in Hnm. injection Hnm as Hnm1 _.
    cbn [gentries map]. f_equal.
    - rewrite Hnm1. cbn [snd]. rewrite (parent_for_lookup _ _ _ Hp). cbn [option_map]. f_equal. f_equal.
      apply rsd_prefix; [exact Hincl|exact Hn|]. destruct Hpin as [E|Hin]; [left; symmetry; exact E|right; exact Hin].
    - apply IH; [rewrite <- app_assoc; exact HD|exact HPrest].
  Qed.

  Lemma E_all_parents :
    map (fun e => (e_name e, snd e)) E_all = map (fun n => (rh n, option_map rs (parent_for guest n))) D.
  Proof. apply gentries_parents; [reflexivity|apply descendants_parents_before; exact GS]. Qed.

  Lemma E_all_names : map e_name E_all = map rh D.
  Proof. apply gentries_names. reflexivity. Qed.

  (* entries as (name, parent-in-the-guest) pairs *)
  Lemma kids_of_pairs : forall (E : list entry) (l : list name) (par : name -> option name) k,
    map (fun e => (e_name e, snd e)) E = map (fun n => (rh n, par n)) l ->
    kids_of E k = map rh (filter (fun n => opt_eqb str_eqb (par n) k) l).
  Proof.
    induction E as [|e E IH]; intros [|n l] par k H; simpl in H; try discriminate; [reflexivity|].
    injection H as H1 H2 H3. rewrite kids_of_cons, (IH l par k H3). cbn [filter]. unfold e_par_is. rewrite H2.
    destruct (opt_eqb str_eqb (par n) k); cbn [map app]; rewrite ?H1; reflexivity.
  Qed.

  Lemma kids_of_S : forall k, k = source \/ In k D ->
    kids_of E_all (Some (rs k)) = map rs (children_for guest k).
  Proof.
    intros k Hk. rewrite (kids_of_pairs _ _ _ _ E_all_parents).
    rewrite <- (descendants_filter_children guest GS source k Hk). fold D.
    rewrite rs_map_D by (intros x Hx; apply filter_In in Hx; apply Hx).
    f_equal. apply filter_ext_in. intros n Hn. unfold child_of, ostr_eqb.
    destruct (D_parent n Hn) as [p [Hp Hpin]]. rewrite (parent_for_lookup _ _ _ Hp). cbn [option_map opt_eqb].
    destruct (seqbP p k) as [->|Hne]; [apply seqb_refl|]. apply seqb_neq. intros E. apply Hne.
    apply rs_inj_S; assumption.
  Qed.

  Lemma kids_of_other : forall k, (forall j, j = source \/ In j D -> k <> Some (rs j)) -> kids_of E_all k = [].
  Proof.
    intros k Hk. rewrite (kids_of_pairs _ _ _ _ E_all_parents).
    assert (H : forall l, incl l D -> filter (fun n => opt_eqb str_eqb (option_map rs (parent_for guest n)) k) l = []).
    { induction l as [|n l IH]; intros Hl; [reflexivity|]. cbn [filter].
      destruct (D_parent n (Hl n (or_introl eq_refl))) as [p [Hp Hpin]].
      rewrite (parent_for_lookup _ _ _ Hp). cbn [option_map].
      destruct (oeqbP (Some (rs p)) k) as [E|_]; [exfalso; apply (Hk p Hpin); auto|].
      apply IH. intros x Hx. apply Hl. right; exact Hx. }
    rewrite H; [reflexivity|apply incl_refl].
  Qed.

  Lemma is_new_E_all : forall k, is_new E_all k = true <-> exists n, In n D /\ k = Some (rh n).
  Proof.
    intros k. unfold is_new. rewrite existsb_exists. split.
    - intros [e [He Hk]]. apply oeqb_eq in Hk. assert (Hin : In (e_name e) (map e_name E_all)) by (apply in_map; exact He).
      rewrite E_all_names in Hin. apply in_map_iff in Hin. destruct Hin as [n [Hn1 Hn2]]. exists n. split; [exact Hn2|congruence].
    - intros [n [Hn ->]]. assert (Hin : In (rh n) (map e_name E_all)) by (rewrite E_all_names; apply in_map; exact Hn).
      apply in_map_iff in Hin. destruct Hin as [e [He1 He2]]. exists e. split; [exact He2|]. rewrite He1. apply oeqb_refl.
  Qed.

  (* all guest transitions that touch the subtree are contained in it *)
  Hypothesis Htrans : forall t, In t (c_transitions guest) ->
    forall tg, t_target t = Some tg ->
      ((t_source t = source \/ In (t_source t) D) <-> (tg = source \/ In tg D)).

  Section Final.
    Variables (g2 h2 : chart).
    Hypothesis HE2 : einv g2.
    Hypothesis HI2 : img rs guest g2.
    Hypothesis Hext : host_ext h1 E_all h2.

    Definition h3 : chart := sync_states g2 h2 (replace :: map rh D).
    Definition names2 : list name := replace :: descendants_for g2 replace.
    Definition ts2 : list transition :=
      flat_map (nth_trans (c_transitions g2)) (collect_transitions g2 names2 []).
    Definition hfinal : chart := with_transitions h3 (c_transitions h3 ++ ts2).

    Lemma names2_spec : forall x, In x names2 <-> exists k, (k = source \/ In k D) /\ x = rs k.
    Proof.
      intros x. unfold names2. destruct HE2 as [S2 _].
      destruct (img_anc _ _ _ HI2 GS) as [A1 A2]. split.
      - intros [<-|Hx].
        + exists source. split; [left; reflexivity|symmetry; apply rs_source].
        + apply (descendants_for_spec g2 S2) in Hx. pose proof (anc_has_state g2 S2 _ _ Hx) as Hs.
          apply (im_has _ _ _ HI2) in Hs. destruct Hs as [k [Hk ->]]. exists k. split; [|reflexivity].
          right. apply D_anc. apply A2; [exact Hk|exact Hsrc|]. rewrite rs_source. exact Hx.
      - intros [k [[->|Hk] ->]]; [left; symmetry; apply rs_source|right].
        apply (descendants_for_spec g2 S2). rewrite <- rs_source. apply A1. apply D_anc. exact Hk.
    Qed.

    Lemma h2_states : c_states h2 = c_states h1 ++ map (fun e => (e_name e, fst e)) E_all.
    Proof. apply (he_states _ _ _ Hext). Qed.

    Lemma h2_keys : map fst (c_states h2) = map fst (c_states host) ++ map rh D.
    Proof.
      rewrite h2_states, map_app, map_map. cbn [fst]. rewrite <- E_all_names. f_equal.
      unfold h1. cbn [with_states c_states]. rewrite keys_dset.
      assert (E : mem replace (map fst (c_states host)) = true) by (apply mem_In, has_state_In; exact Hrep).
      rewrite E. reflexivity.
    Qed.

    Lemma h3_facts :
      c_name h3 = c_name host /\ c_description h3 = c_description host /\ c_preamble h3 = c_preamble host /\
      c_parent h3 = c_parent h2 /\ c_children h3 = c_children h2 /\ c_transitions h3 = c_transitions host /\
      map fst (c_states h3) = map fst (c_states host) ++ map rh D.
    Proof.
      destruct (sync_states_spec (replace :: map rh D) g2 h2) as [H1 [H2 [H3 [H4 [H5 [H6 [_ H8]]]]]]].
      fold h3 in *. rewrite H1, H2, H3, H6, (he_name _ _ _ Hext), (he_desc _ _ _ Hext), (he_pre _ _ _ Hext),
        (he_trans _ _ _ Hext).
      repeat (split; [reflexivity || assumption|]). rewrite H8; [apply h2_keys|].
      intros n Hn. apply lookup_Some_In_keys. rewrite h2_keys. apply in_or_app.
      destruct Hn as [<-|Hn]; [left; apply has_state_In; exact Hrep|right; exact Hn].
    Qed.

    Lemma mem_rs_S : forall k, k = source \/ In k D -> mem (rs k) (replace :: map rh D) = true.
    Proof.
      intros k [->|Hk]; apply mem_In; [left; symmetry; apply rs_source|right].
      rewrite (rs_D _ Hk). apply in_map. exact Hk.
    Qed.

    Lemma h3_lookup_S : forall k sk, k = source \/ In k D -> lookup k (c_states guest) = Some sk ->
      lookup (rs k) (c_states h3) = Some (map_state rs sk).
    Proof.
      intros k sk Hk Hsk.
      destruct (sync_states_spec (replace :: map rh D) g2 h2) as [_ [_ [_ [_ [_ [_ [H7 _]]]]]]]. fold h3 in H7.
      rewrite H7, (mem_rs_S k Hk). unfold state_for. rewrite (im_states _ _ _ HI2 _ _ Hsk). reflexivity.
    Qed.

    Lemma h3_lookup_host : forall x, has_state host x = true -> x <> replace ->
      lookup x (c_states h3) = lookup x (c_states host).
    Proof.
      intros x Hx Hxr.
      destruct (sync_states_spec (replace :: map rh D) g2 h2) as [_ [_ [_ [_ [_ [_ [H7 _]]]]]]]. fold h3 in H7.
      rewrite H7. assert (E : mem x (replace :: map rh D) = false).
      { apply mem_false_iff. intros [E|Hin]; [congruence|]. apply in_map_iff in Hin.
        destruct Hin as [n [<- Hn]]. rewrite (Hfresh_h n Hn) in Hx. discriminate. }
      rewrite E, h2_states, lookup_app, h1_lookup. destruct (seqbP x replace); [congruence|].
      apply has_state_Some in Hx. destruct Hx as [s Hs]. rewrite Hs. reflexivity.
    Qed.

    Lemma h3_has_state : forall x, has_state h3 x = true <-> has_state host x = true \/ In x (map rh D).
    Proof.
      intros x. rewrite !has_state_In. destruct h3_facts as [_ [_ [_ [_ [_ [_ H]]]]]]. rewrite H, in_app_iff. tauto.
    Qed.

    Lemma h3_has_state_S : forall k, k = source \/ In k D -> has_state h3 (rs k) = true.
    Proof.
      intros k Hk. apply h3_has_state. destruct Hk as [->|Hk].
      - left. rewrite rs_source. exact Hrep.
      - right. rewrite (rs_D _ Hk). apply in_map. exact Hk.
    Qed.

    (* the transitions that are copied: images of the guest transitions with both ends in the subtree *)
    Lemma ts2_spec : forall t, In t ts2 -> exists t0, In t0 (c_transitions guest) /\ t = map_trans rs t0 /\
      (t_source t0 = source \/ In (t_source t0) D) /\
      (forall tg, t_target t0 = Some tg -> tg = source \/ In tg D).
    Proof.
      intros t Ht. unfold ts2 in Ht. apply In_flat_nth_trans in Ht. destruct Ht as [i [Hi Hn]].
      destruct (copy_transitions_once g2 names2) as [_ Hc]. apply Hc in Hi. destruct Hi as [t' [Hn' Htouch]].
      rewrite Hn in Hn'. inv Hn'. rewrite (im_trans _ _ _ HI2) in Hn. rewrite nth_error_map in Hn.
      destruct (nth_error (c_transitions guest) i) as [t0|] eqn:E0; [|discriminate]. simpl in Hn. inv Hn.
      apply nth_error_In in E0. exists t0. split; [exact E0|]. split; [reflexivity|].
      destruct (sd_trans guest GS t0 E0) as [[ss [Hss _]] Htg].
      assert (Hsst : has_state guest (t_source t0) = true) by (unfold has_state; rewrite Hss; reflexivity).
      assert (Hback : forall x, has_state guest x = true -> In (rs x) names2 -> x = source \/ In x D).
      { intros x Hx Hin. apply names2_spec in Hin. destruct Hin as [k [Hk Ek]].
        assert (Hks : has_state guest k = true) by (destruct Hk as [->|Hk]; [exact Hsrc|apply D_state; exact Hk]).
        rewrite (im_inj _ _ _ HI2 x k Hx Hks Ek). exact Hk. }
      cbn [map_trans t_source t_target] in Htouch.
      destruct (t_target t0) as [tg0|] eqn:Etg.
      - assert (Hor : (t_source t0 = source \/ In (t_source t0) D) \/ (tg0 = source \/ In tg0 D)).
        { destruct Htouch as [H|[tg [H1 H2]]].
          - left. apply Hback; assumption.
          - right. simpl in H1. inv H1. apply Hback; [apply Htg; reflexivity|exact H2]. }
        pose proof (Htrans t0 E0 tg0 Etg) as Hiff.
        split; [tauto|]. intros tg E. inv E. tauto.
      - split; [|intros tg E; discriminate].
        destruct Htouch as [H|[tg [H1 H2]]]; [apply Hback; assumption|discriminate].
    Qed.

    Lemma ts2_ok : forall t, In t ts2 -> trans_ok h3 t.
    Proof.
      intros t Ht. destruct (ts2_spec t Ht) as [t0 [H0 [-> [Hs Htg]]]].
      destruct (sd_trans guest GS t0 H0) as [[ss [Hss Hown]] _]. split.
      - exists (map_state rs ss). split; [apply h3_lookup_S; assumption|exact Hown].
      - intros tg E. cbn [map_trans t_target] in E. destruct (t_target t0) as [tg0|]; [|discriminate].
        simpl in E. inv E. apply h3_has_state_S. apply Htg. reflexivity.
    Qed.
  End Final.

  (* ---------------------------------------------------------------- the call succeeds *)
  Lemma copy_run :
    exists g2 h2, einv g2 /\ img rs guest g2 /\ host_ext h1 E_all h2 /\
      copy_from_statechart host guest source replace rho = (hfinal g2 h2, EOk).
  Proof.
    destruct run_loop as [g1 [g2 [h2 [Hren [Hst [HD1 [Hcopy [HE2 [HI2 [Hext Hal]]]]]]]]]].
    exists g2, h2. split; [exact HE2|]. split; [exact HI2|]. split; [exact Hext|].
    unfold copy_from_statechart. rewrite Hrep. cbn [negb]. rewrite Hleaf, Hren. cbn [eres_eqb negb].
    rewrite Hst. cbv zeta. fold h1. rewrite HD1. fold D. rewrite Hcopy. cbn [eres_eqb negb].
    apply add_transitions_spec. intros t Ht. apply (ts2_ok g2 h2 HE2 HI2 Hext). exact Ht.
  Qed.

  (* ---------------------------------------------------------------- goal 3 *)
  Definition in_S (x : name) : Prop := x = source \/ In x D.

  Theorem C17_copy_structure :
    exists h', copy_from_statechart host guest source replace rho = (h', EOk) /\
    (* (a) the names, in order *)
    map fst (c_states h') = map fst (c_states host) ++ map rh D /\
    c_parent h' = c_parent host ++ map (fun n => (rh n, option_map rs (parent_for guest n))) D /\
    map fst (c_children h') = map fst (c_children host) ++ map (fun n => Some (rh n)) D /\
    (* (b) the copied subtree *)
    (forall n s, in_S n -> lookup n (c_states guest) = Some s ->
       lookup (rs n) (c_states h') = Some (map_state rs s)) /\
    (forall n, In n D -> lookup (rs n) (c_parent h') = Some (option_map rs (parent_for guest n))) /\
    lookup replace (c_parent h') = lookup replace (c_parent host) /\
    (forall n, in_S n -> olookup (Some (rs n)) (c_children h') = Some (map rs (children_for guest n))) /\
    (* (c) the rest of the host *)
    (forall x, has_state host x = true -> x <> replace -> lookup x (c_states h') = lookup x (c_states host)) /\
    (forall x, has_state host x = true -> lookup x (c_parent h') = lookup x (c_parent host)) /\
    (forall k, olookup k (c_children host) <> None -> k <> Some replace ->
       olookup k (c_children h') = olookup k (c_children host)) /\
    (* (d) the transitions *)
    (exists g2 idxs,
       (* g2: the guest copy at the end of the call, an image of the guest under rs *)
       einv g2 /\ img rs guest g2 /\
       idxs = collect_transitions g2 (replace :: descendants_for g2 replace) [] /\
       c_transitions h' =
         c_transitions host ++ map (map_trans rs) (flat_map (nth_trans (c_transitions guest)) idxs) /\
       NoDup idxs /\
       forall i, In i idxs <-> exists t, nth_error (c_transitions guest) i = Some t /\
                                  (in_S (t_source t) \/ exists tg, t_target t = Some tg /\ in_S tg)) /\
    (* (e) *)
    c_name h' = c_name host /\ c_description h' = c_description host /\ c_preamble h' = c_preamble host.
  Proof.
    destruct copy_run as [g2 [h2 [HE2 [HI2 [Hext Hrun]]]]].
    exists (hfinal g2 h2). split; [exact Hrun|].
    destruct (h3_facts g2 h2 Hext) as [N1 [N2 [N3 [N4 [N5 [N6 N7]]]]]].
    unfold hfinal. cbn [with_transitions c_name c_description c_preamble c_states c_parent c_children c_transitions].
    assert (HP : c_parent h2 = c_parent host ++ map (fun n => (rh n, option_map rs (parent_for guest n))) D).
    { rewrite (he_parent _ _ _ Hext), E_all_parents. reflexivity. }
    assert (HC : forall k, olookup k (c_children h2) =
                 match olookup k (c_children host) with
                 | Some l => Some (l ++ kids_of E_all k)
                 | None => if is_new E_all k then Some (kids_of E_all k) else None
                 end).
    { intros k. apply (he_children _ _ _ Hext). }
    split; [exact N7|]. split; [rewrite N4; exact HP|]. split.
    { rewrite N5, (he_ckeys _ _ _ Hext). unfold h1. cbn [with_states c_children]. f_equal.
      rewrite <- (map_map e_name Some), E_all_names, map_map. reflexivity. }
    split; [intros n s Hn Hs; apply (h3_lookup_S g2 h2 HI2); assumption|].
    assert (HPD : forall n, In n D -> lookup (rs n) (c_parent h2) = Some (option_map rs (parent_for guest n))).
    { intros n Hn. rewrite HP, lookup_app, (rs_D _ Hn).
      rewrite (sound_nostate_parent host HS _ (Hfresh_h n Hn)).
      assert (G : forall l, In n l -> NoDup (map rh l) ->
                  lookup (rh n) (map (fun n0 => (rh n0, option_map rs (parent_for guest n0))) l) =
                  Some (option_map rs (parent_for guest n))).
      { induction l as [|m l IH]; intros Hin Hnd; [destruct Hin|]. cbn [map lookup]. simpl in Hnd. inv Hnd.
        destruct Hin as [->|Hin]; [rewrite seqb_refl; reflexivity|].
        destruct (seqbP (rh n) (rh m)) as [E|_]; [|apply IH; assumption].
        exfalso. apply H1. rewrite <- E. apply in_map. exact Hin. }
      apply G; [exact Hn|exact Hinj]. }
    split; [intros n Hn; rewrite N4; apply HPD; exact Hn|].
    assert (HPH : forall x, has_state host x = true -> lookup x (c_parent h2) = lookup x (c_parent host)).
    { intros x Hx. rewrite HP, lookup_app.
      destruct (sound_state_parent host HS x Hx) as [px Hpx]. rewrite Hpx. reflexivity. }
    split; [rewrite N4; apply HPH; exact Hrep|].
    split.
    { intros n Hn. rewrite N5, HC, (kids_of_S n Hn). destruct Hn as [->|Hn].
      - rewrite rs_source. destruct (sound_state_children host HS replace Hrep) as [l Hl]. rewrite Hl.
        rewrite <- (children_for_lookup _ _ _ Hl), Hleaf. reflexivity.
      - rewrite (rs_D _ Hn), (sound_nostate_children host HS _ (Hfresh_h n Hn)).
        assert (E : is_new E_all (Some (rh n)) = true) by (apply is_new_E_all; eauto). rewrite E. reflexivity. }
    split; [intros x Hx Hxr; apply (h3_lookup_host g2 h2 Hext); assumption|].
    split; [intros x Hx; rewrite N4; apply HPH; exact Hx|].
    split.
    { intros k Hk Hkr. rewrite N5, HC. destruct (olookup k (c_children host)) as [l|] eqn:El; [|congruence].
      rewrite kids_of_other; [rewrite app_nil_r; reflexivity|].
      intros j [->|Hj] E.
      - rewrite rs_source in E. congruence.
      - rewrite (rs_D _ Hj) in E. subst k.
        assert (X : has_state host (rh j) = true) by (apply (sd_ckeys host HS); congruence).
        rewrite (Hfresh_h j Hj) in X. discriminate. }
    split; [|auto].
    exists g2, (collect_transitions g2 (names2 g2) []). split; [exact HE2|]. split; [exact HI2|].
    split; [reflexivity|]. split; [|split].
    - rewrite N6. f_equal. unfold ts2. rewrite (im_trans _ _ _ HI2). apply flat_nth_trans_map.
    - apply copy_transitions_once.
    - intros i. destruct (copy_transitions_once g2 (names2 g2)) as [_ Hc]. rewrite Hc.
      rewrite (im_trans _ _ _ HI2).
      assert (Hback : forall x, has_state guest x = true -> (In (rs x) (names2 g2) <-> in_S x)).
      { intros x Hx. rewrite names2_spec by assumption. split.
        - intros [k [Hk Ek]].
          assert (Hks : has_state guest k = true) by (destruct Hk as [->|Hk]; [exact Hsrc|apply D_state; exact Hk]).
          rewrite (im_inj _ _ _ HI2 x k Hx Hks Ek). exact Hk.
        - intros H. exists x. auto. }
      split.
      + intros [t' [Hn Htouch]]. rewrite nth_error_map in Hn.
        destruct (nth_error (c_transitions guest) i) as [t0|] eqn:E0; [|discriminate]. simpl in Hn. inv Hn.
        exists t0. split; [reflexivity|]. pose proof (nth_error_In _ _ E0) as Hin0.
        destruct (sd_trans guest GS t0 Hin0) as [[ss [Hss _]] Htg].
        assert (Hsst : has_state guest (t_source t0) = true) by (unfold has_state; rewrite Hss; reflexivity).
        cbn [map_trans t_source t_target] in Htouch. destruct Htouch as [H|[tg [H1 H2]]].
        * left. apply Hback; assumption.
        * right. destruct (t_target t0) as [tg0|] eqn:Etg; [|discriminate]. simpl in H1. inv H1.
          exists tg0. split; [reflexivity|]. apply Hback; [apply Htg; reflexivity|exact H2].
      + intros [t0 [E0 Htouch]]. exists (map_trans rs t0). rewrite nth_error_map, E0. split; [reflexivity|].
        pose proof (nth_error_In _ _ E0) as Hin0.
        destruct (sd_trans guest GS t0 Hin0) as [[ss [Hss _]] Htg].
        assert (Hsst : has_state guest (t_source t0) = true) by (unfold has_state; rewrite Hss; reflexivity).
        cbn [map_trans t_source t_target]. destruct Htouch as [H|[tg [H1 H2]]].
        * left. apply Hback; assumption.
        * right. exists (rs tg). rewrite H1. split; [reflexivity|]. apply Hback; [apply Htg; exact H1|exact H2].
  Qed.

  (* ---------------------------------------------------------------- goal 4: the result is sound *)
  Lemma in_S_state : forall n, in_S n -> has_state guest n = true.
  Proof. intros n [->|H]; [exact Hsrc|apply D_state; exact H]. Qed.

  Lemma guest_initial_child : forall n sn i0, in_S n -> lookup n (c_states guest) = Some sn ->
    s_initial sn = Some i0 -> In i0 (children_for guest n) /\ In i0 D.
  Proof.
    intros n sn i0 Hn Hsn Hi. destruct (GF _ _ Hsn) as [F1 _]. destruct (sd_refs guest GS _ _ Hsn) as [R1 _].
    assert (Hi0 : i0 <> "").
    { intros ->. pose proof GN as GN'. unfold no_empty_name in GN'. rewrite (R1 _ Hi) in GN'. discriminate. }
    destruct (sd_vinit guest GS n sn i0 Hsn (F1 _ Hi)) as [_ H]; [rewrite Hi; apply truthy_nonempty; exact Hi0|].
    split; [exact H|]. eapply subtree_child; eauto.
  Qed.

  Lemma guest_memory_sibling : forall n sn m0, In n D -> lookup n (c_states guest) = Some sn ->
    s_memory sn = Some m0 ->
    m0 <> n /\ In m0 D /\ exists p, lookup n (c_parent guest) = Some (Some p) /\ in_S p /\ In m0 (children_for guest p).
  Proof.
    intros n sn m0 Hn Hsn Hm. destruct (GF _ _ Hsn) as [_ F2].
    destruct (sd_vmem guest GS n sn m0 Hsn (F2 _ Hm) Hm) as [H1 [_ [p [H3 H4]]]].
    destruct (D_parent n Hn) as [p' [Hp' Hin]]. rewrite (parent_for_lookup _ _ _ Hp') in H3. inv H3.
    split; [exact H1|]. split; [eapply subtree_child; eauto|]. exists p. auto.
  Qed.

  Section SoundPost.
    Variable h' : chart.
    Hypothesis A1 : map fst (c_states h') = map fst (c_states host) ++ map rh D.
    Hypothesis A2 : c_parent h' = c_parent host ++ map (fun n => (rh n, option_map rs (parent_for guest n))) D.
    Hypothesis A3 : map fst (c_children h') = map fst (c_children host) ++ map (fun n => Some (rh n)) D.
    Hypothesis B1 : forall n s, in_S n -> lookup n (c_states guest) = Some s ->
       lookup (rs n) (c_states h') = Some (map_state rs s).
    Hypothesis B2 : forall n, In n D -> lookup (rs n) (c_parent h') = Some (option_map rs (parent_for guest n)).
    Hypothesis B4 : forall n, in_S n -> olookup (Some (rs n)) (c_children h') = Some (map rs (children_for guest n)).
    Hypothesis C1 : forall x, has_state host x = true -> x <> replace -> lookup x (c_states h') = lookup x (c_states host).
    Hypothesis C2 : forall x, has_state host x = true -> lookup x (c_parent h') = lookup x (c_parent host).
    Hypothesis C3 : forall k, olookup k (c_children host) <> None -> k <> Some replace ->
       olookup k (c_children h') = olookup k (c_children host).
    Variable idxs : list nat.
    Hypothesis T1 : c_transitions h' =
       c_transitions host ++ map (map_trans rs) (flat_map (nth_trans (c_transitions guest)) idxs).
    Hypothesis T3 : forall i, In i idxs <-> exists t, nth_error (c_transitions guest) i = Some t /\
                                  (in_S (t_source t) \/ exists tg, t_target t = Some tg /\ in_S tg).
    (* the two extra conditions *)
    Hypothesis K1 : s_memory (state_of source) = None.
    Hypothesis K2 : forall t, In t (c_transitions host) -> t_source t = replace ->
       owns_transitions (s_kind (state_of source)) = true.

    Lemma sp_has : forall x, has_state h' x = true <-> has_state host x = true \/ In x (map rh D).
    Proof. intros x. rewrite !has_state_In, A1, in_app_iff. tauto. Qed.

    Lemma sp_has_S : forall n, in_S n -> has_state h' (rs n) = true.
    Proof.
      intros n [->|Hn]; apply sp_has; [left; rewrite rs_source; exact Hrep|right].
      rewrite (rs_D _ Hn). apply in_map. exact Hn.
    Qed.

    Lemma sp_cases : forall k, has_state h' k = true ->
      (has_state host k = true /\ k <> replace) \/ exists n, in_S n /\ k = rs n.
    Proof.
      intros k Hk. apply sp_has in Hk. destruct Hk as [Hk|Hk].
      - destruct (string_dec k replace) as [->|Hne]; [right; exists source; split; [left; reflexivity|symmetry; apply rs_source]|left; auto].
      - right. apply in_map_iff in Hk. destruct Hk as [n [<- Hn]]. exists n. split; [right; exact Hn|symmetry; apply rs_D; exact Hn].
    Qed.

    Lemma sp_children_S : forall n, in_S n -> children_for h' (rs n) = map rs (children_for guest n).
    Proof. intros n Hn. apply children_for_lookup. apply B4. exact Hn. Qed.

    Lemma sp_children_host : forall x, has_state host x = true -> x <> replace ->
      children_for h' x = children_for host x.
    Proof.
      intros x Hx Hne. unfold children_for. rewrite C3; [reflexivity| |congruence].
      apply (sd_ckeys host HS). exact Hx.
    Qed.

    Lemma host_parent_not_replace : forall x, lookup x (c_parent host) = Some (Some replace) -> False.
    Proof.
      intros x Hx. pose proof (sound_parent_child host HS _ _ Hx) as H. rewrite Hleaf in H. destruct H.
    Qed.


    Lemma sp_cases_p : forall k, has_state h' k = true ->
      has_state host k = true \/ exists n, In n D /\ k = rs n.
    Proof.
      intros k Hk. apply sp_has in Hk. destruct Hk as [Hk|Hk]; [left; exact Hk|right].
      apply in_map_iff in Hk. destruct Hk as [n [<- Hn]]. exists n. split; [exact Hn|symmetry; apply rs_D; exact Hn].
    Qed.

    Lemma sp_state_cases : forall k s, lookup k (c_states h') = Some s ->
      (has_state host k = true /\ k <> replace /\ lookup k (c_states host) = Some s) \/
      (exists n sn, in_S n /\ k = rs n /\ lookup n (c_states guest) = Some sn /\ s = map_state rs sn).
    Proof.
      intros k s Hk. assert (Hh : has_state h' k = true) by (unfold has_state; rewrite Hk; reflexivity).
      destruct (sp_cases k Hh) as [[H1 H2]|[n [Hn ->]]].
      - left. rewrite (C1 k H1 H2) in Hk. auto.
      - right. destruct (proj1 (has_state_Some _ _) (in_S_state n Hn)) as [sn Hsn].
        exists n, sn. rewrite (B1 n sn Hn Hsn) in Hk. inv Hk. auto.
    Qed.

    Lemma sp_pkeys : forall n, lookup n (c_parent h') <> None <-> has_state h' n = true.
    Proof.
      intros n. rewrite lookup_Some_In_keys, has_state_In, A1, A2, map_app, map_map. cbn [fst].
      rewrite !in_app_iff.
      assert (E : In n (map fst (c_parent host)) <-> In n (map fst (c_states host))).
      { rewrite <- lookup_Some_In_keys, <- has_state_In. apply (sd_pkeys host HS). }
      rewrite E. reflexivity.
    Qed.

    Lemma sp_ckeys : forall n, olookup (Some n) (c_children h') <> None <-> has_state h' n = true.
    Proof.
      intros n. rewrite olookup_None_iff_not, A3, sp_has, in_app_iff. split; intros [H|H].
      - left. apply (sd_ckeys host HS), olookup_None_iff_not. exact H.
      - right. apply in_map_iff in H. destruct H as [m [E Hm]]. inv E. apply in_map. exact Hm.
      - left. apply olookup_None_iff_not. apply (sd_ckeys host HS). exact H.
      - right. apply in_map_iff in H. destruct H as [m [<- Hm]]. apply in_map_iff. exists m. auto.
    Qed.

    Lemma sp_rs_children_nodup : forall n, in_S n -> NoDup (map rs (children_for guest n)).
    Proof.
      intros n Hn. apply NoDup_map_on; [apply sound_children_for_NoDup; exact GS|].
      intros a b Ha Hb. apply rs_inj_S; right; eapply subtree_child; eauto.
    Qed.

    Lemma sp_cp_S : forall n, in_S n -> forall ch, In ch (map rs (children_for guest n)) ->
      lookup ch (c_parent h') = Some (Some (rs n)).
    Proof.
      intros n Hn ch Hch. apply in_map_iff in Hch. destruct Hch as [c [<- Hc]].
      rewrite (B2 c (subtree_child _ _ Hn Hc)).
      rewrite (parent_for_lookup _ _ _ (sound_child_parent guest GS _ _ Hc)). reflexivity.
    Qed.

    Lemma sp_parent_D : forall m, In m D -> exists pm, lookup m (c_parent guest) = Some (Some pm) /\ in_S pm /\
      lookup (rs m) (c_parent h') = Some (Some (rs pm)).
    Proof.
      intros m Hm. destruct (D_parent m Hm) as [pm [Hpm Hin]]. exists pm. split; [exact Hpm|]. split; [exact Hin|].
      rewrite (B2 m Hm), (parent_for_lookup _ _ _ Hpm). reflexivity.
    Qed.

    Lemma sp_trans_new : forall t, In t (map (map_trans rs) (flat_map (nth_trans (c_transitions guest)) idxs)) ->
      exists t0, In t0 (c_transitions guest) /\ t = map_trans rs t0 /\ in_S (t_source t0) /\
                 (forall tg, t_target t0 = Some tg -> in_S tg).
    Proof.
      intros t Ht. apply in_map_iff in Ht. destruct Ht as [t0 [<- Ht0]].
      apply In_flat_nth_trans in Ht0. destruct Ht0 as [i [Hi Hn]].
      apply T3 in Hi. destruct Hi as [t1 [Hn1 Htouch]]. rewrite Hn in Hn1. inv Hn1.
      pose proof (nth_error_In _ _ Hn) as Hin. exists t1. split; [exact Hin|]. split; [reflexivity|].
      destruct (t_target t1) as [tg0|] eqn:Etg.
      - pose proof (Htrans t1 Hin tg0 Etg) as Hiff. unfold in_S in *.
        assert (Hor : (t_source t1 = source \/ In (t_source t1) D) \/ (tg0 = source \/ In tg0 D)).
        { destruct Htouch as [H|[tg [H1 H2]]]; [left; exact H|right; inv H1; exact H2]. }
        split; [tauto|]. intros tg E. inv E. tauto.
      - split; [|intros tg E; discriminate]. destruct Htouch as [H|[tg [H1 _]]]; [exact H|discriminate].
    Qed.

    Theorem sp_sound : sound h'.
    Proof.
      constructor.
      - (* nd_states *) rewrite A1. apply NoDup_app_intro; [apply (sd_nd_states host HS)|exact Hinj|].
        intros x Hx Hy. apply in_map_iff in Hy. destruct Hy as [n [<- Hn]]. apply has_state_In in Hx.
        rewrite (Hfresh_h n Hn) in Hx. discriminate.
      - (* nd_parent *) rewrite A2, map_app, map_map. cbn [fst].
        apply NoDup_app_intro; [apply (sd_nd_parent host HS)|exact Hinj|].
        intros x Hx Hy. apply in_map_iff in Hy. destruct Hy as [n [<- Hn]].
        apply lookup_Some_In_keys, (sd_pkeys host HS) in Hx. rewrite (Hfresh_h n Hn) in Hx. discriminate.
      - (* nd_children *) rewrite A3. apply NoDup_app_intro; [apply (sd_nd_children host HS)| |].
        + rewrite <- (map_map rh Some). apply NoDup_map_on; [exact Hinj|intros a b _ _ E; inv E; reflexivity].
        + intros x Hx Hy. apply in_map_iff in Hy. destruct Hy as [n [<- Hn]].
          apply olookup_None_iff_not, (sd_ckeys host HS) in Hx. rewrite (Hfresh_h n Hn) in Hx. discriminate.
      - (* keyname *) intros k s Hk. destruct (sp_state_cases k s Hk) as [[_ [_ H]]|[n [sn [_ [-> [Hsn ->]]]]]].
        + apply (sd_keyname host HS _ _ H).
        + cbn [map_state s_name]. rewrite (sd_keyname guest GS _ _ Hsn). reflexivity.
      - exact sp_pkeys.
      - exact sp_ckeys.
      - (* ctop *) apply olookup_None_iff_not. rewrite A3. apply in_or_app. left.
        apply olookup_None_iff_not. apply (sd_ctop host HS).
      - (* pc *) intros n p Hp.
        assert (Hn : has_state h' n = true) by (apply sp_pkeys; congruence).
        destruct (sp_cases_p n Hn) as [Hh|[m [Hm ->]]].
        + rewrite (C2 n Hh) in Hp. destruct (sd_pc host HS _ _ Hp) as [P1 [l [P2 P3]]]. split.
          * intros q E. apply sp_has. left. apply P1. exact E.
          * exists l. split; [|exact P3]. rewrite C3; [exact P2|congruence|].
            intros ->. exact (host_parent_not_replace _ Hp).
        + destruct (sp_parent_D m Hm) as [pm [Hpm [Hin Hl]]]. rewrite Hl in Hp. inv Hp. split.
          * intros q E. inv E. apply sp_has_S. exact Hin.
          * exists (map rs (children_for guest pm)). split; [apply B4; exact Hin|].
            apply NoDup_count_one; [apply sp_rs_children_nodup; exact Hin|].
            apply in_map. apply sound_parent_child; assumption.
      - (* cp *) intros k l ch Hl Hin.
        assert (Hk : In k (map fst (c_children h'))) by (apply olookup_None_iff_not; congruence).
        rewrite A3 in Hk. apply in_app_or in Hk. destruct Hk as [Hk|Hk].
        + destruct (oname_dec k (Some replace)) as [->|Hne].
          * rewrite <- rs_source in Hl |- *. rewrite (B4 source (or_introl eq_refl)) in Hl. inv Hl.
            apply sp_cp_S; [left; reflexivity|exact Hin].
          * apply olookup_None_iff_not in Hk. rewrite (C3 k Hk Hne) in Hl.
            pose proof (sd_cp host HS _ _ _ Hl Hin) as Hp. rewrite C2; [exact Hp|].
            apply (sound_child_state host HS _ _ _ Hl Hin).
        + apply in_map_iff in Hk. destruct Hk as [m [<- Hm]]. rewrite <- (rs_D _ Hm) in Hl |- *.
          rewrite (B4 m (or_intror Hm)) in Hl. inv Hl. apply sp_cp_S; [right; exact Hm|exact Hin].
      - (* top *) intros l Hl. rewrite C3 in Hl; [apply (sd_top host HS _ Hl)|apply (sd_ctop host HS)|discriminate].
      - (* acyc *) destruct (sd_acyc host HS) as [rkh Hh]. destruct (sd_acyc guest GS) as [rkg Hg].
        exists (fun x => if has_state host x then rkh x
                         else match find (fun m => str_eqb (rh m) x) D with
                              | Some m => rkh replace + 1 + rkg m
                              | None => 0
                              end).
        intros n q Hp.
        assert (Hn : has_state h' n = true) by (apply sp_pkeys; congruence).
        destruct (sp_cases_p n Hn) as [Hhn|[m [Hm ->]]].
        * rewrite (C2 n Hhn) in Hp. destruct (sd_pc host HS _ _ Hp) as [P1 _].
          rewrite Hhn, (P1 q eq_refl). apply (Hh _ _ Hp).
        * destruct (sp_parent_D m Hm) as [pm [Hpm [Hin Hl]]]. rewrite Hl in Hp. inv Hp.
          rewrite (rs_D _ Hm), (Hfresh_h m Hm), (find_map_inj rh D m Hinj Hm).
          destruct Hin as [->|Hin].
          -- rewrite rs_source, Hrep. lia.
          -- rewrite (rs_D _ Hin), (Hfresh_h pm Hin), (find_map_inj rh D pm Hinj Hin).
             pose proof (Hg _ _ Hpm). lia.
      - (* trans *) intros t Ht. rewrite T1 in Ht. apply in_app_or in Ht. destruct Ht as [Ht|Ht].
        + destruct (sd_trans host HS t Ht) as [[s [Hs Hown]] Htg]. split.
          * destruct (string_dec (t_source t) replace) as [E|Hne].
            -- destruct src_state as [ss [Hss Ess]]. exists (map_state rs ss). split.
               ++ rewrite E, <- rs_source. apply B1; [left; reflexivity|exact Hss].
               ++ cbn [map_state s_kind]. rewrite <- Ess. apply (K2 t Ht E).
            -- exists s. split; [|exact Hown]. rewrite C1; [exact Hs| |exact Hne].
               unfold has_state. rewrite Hs. reflexivity.
          * intros tg E. apply sp_has. left. apply Htg. exact E.
        + destruct (sp_trans_new t Ht) as [t0 [H0 [-> [Hs Htg]]]].
          destruct (sd_trans guest GS t0 H0) as [[ss [Hss Hown]] _]. split.
          * exists (map_state rs ss). split; [apply B1; assumption|exact Hown].
          * intros tg E. cbn [map_trans t_target] in E. destruct (t_target t0) as [tg0|]; [|discriminate].
            simpl in E. inv E. apply sp_has_S. apply Htg. reflexivity.
      - (* refs *) intros k s Hk. destruct (sp_state_cases k s Hk) as [[_ [_ H]]|[n [sn [Hn [-> [Hsn ->]]]]]].
        + destruct (sd_refs host HS _ _ H) as [R1 R2]. split; intros x E; apply sp_has; left; auto.
        + cbn [map_state s_initial s_memory]. split.
          * intros i E. destruct (s_initial sn) as [i0|] eqn:Ei; [|discriminate]. simpl in E. inv E.
            apply sp_has_S. right. apply (guest_initial_child n sn i0 Hn Hsn Ei).
          * intros m E. destruct (s_memory sn) as [m0|] eqn:Em; [|discriminate]. simpl in E. inv E.
            destruct Hn as [->|Hn].
            -- exfalso. unfold state_of in K1. rewrite Hsn in K1. congruence.
            -- apply sp_has_S. right. apply (guest_memory_sibling n sn m0 Hn Hsn Em).
      - (* vinit *) intros k s i Hk Hkind Hini.
        destruct (sp_state_cases k s Hk) as [[Hh [Hne H]]|[n [sn [Hn [-> [Hsn ->]]]]]].
        + destruct (sd_vinit host HS k s i H Hkind Hini) as [V1 V2]. split; [apply sp_has; left; exact V1|].
          rewrite (sp_children_host k Hh Hne). exact V2.
        + apply truthy_Some in Hini. destruct Hini as [Hini _]. cbn [map_state s_initial] in Hini.
          destruct (s_initial sn) as [i0|] eqn:Ei; [|discriminate]. simpl in Hini. inv Hini.
          destruct (guest_initial_child n sn i0 Hn Hsn Ei) as [G1 G2].
          split; [apply sp_has_S; right; exact G2|]. rewrite (sp_children_S n Hn). apply in_map. exact G1.
      - (* vmem *) intros k s m Hk Hkind Hm.
        destruct (sp_state_cases k s Hk) as [[Hh [Hne H]]|[n [sn [Hn [-> [Hsn ->]]]]]].
        + destruct (sd_vmem host HS k s m H Hkind Hm) as [V1 [V2 [p [V3 V4]]]].
          split; [exact V1|]. split; [apply sp_has; left; exact V2|]. exists p.
          assert (Hpk : lookup k (c_parent host) = Some (Some p)).
          { unfold parent_for in V3. destruct (lookup k (c_parent host)) as [pp|]; [congruence|discriminate]. }
          split; [unfold parent_for; rewrite (C2 k Hh), Hpk; reflexivity|].
          rewrite sp_children_host; [exact V4|apply (sd_pc host HS _ _ Hpk); reflexivity|].
          intros ->. exact (host_parent_not_replace _ Hpk).
        + cbn [map_state s_memory] in Hm. destruct (s_memory sn) as [m0|] eqn:Em; [|discriminate].
          simpl in Hm. inv Hm. destruct Hn as [->|Hn].
          { exfalso. unfold state_of in K1. rewrite Hsn in K1. congruence. }
          destruct (guest_memory_sibling n sn m0 Hn Hsn Em) as [M1 [M2 [p [M3 [M4 M5]]]]].
          split; [intros E; apply M1; apply rs_inj_S; [right; exact M2|right; exact Hn|exact E]|].
          split; [apply sp_has_S; right; exact M2|]. exists (rs p). split.
          * unfold parent_for. rewrite (B2 n Hn), (parent_for_lookup _ _ _ M3). reflexivity.
          * rewrite (sp_children_S p M4). apply in_map. exact M5.
    Qed.

    Theorem sp_einv : einv h'.
    Proof.
      split; [exact sp_sound|]. split.
      - unfold no_empty_name. destruct (has_state h' "") eqn:E; [|reflexivity]. exfalso.
        apply sp_has in E. destruct E as [E|E].
        + pose proof HN as HN'. unfold no_empty_name in HN'. congruence.
        + apply in_map_iff in E. destruct E as [n [E Hn]]. exact (Hnonempty n Hn E).
      - intros k s Hk. destruct (sp_state_cases k s Hk) as [[_ [_ H]]|[n [sn [Hn [-> [Hsn ->]]]]]].
        + apply (HF _ _ H).
        + destruct (GF _ _ Hsn) as [F1 F2]. cbn [map_state s_initial s_memory s_kind]. split.
          * intros i E. destruct (s_initial sn) as [i0|] eqn:Ei; [|discriminate]. apply (F1 i0 eq_refl).
          * intros m E. destruct (s_memory sn) as [m0|] eqn:Em; [|discriminate]. apply (F2 m0 eq_refl).
    Qed.
  End SoundPost.

  Theorem C17_copy_sound :
    s_memory (state_of source) = None ->
    (forall t, In t (c_transitions host) -> t_source t = replace ->
       owns_transitions (s_kind (state_of source)) = true) ->
    exists h', copy_from_statechart host guest source replace rho = (h', EOk) /\ einv h'.
  Proof.
    intros K1 K2.
    destruct C17_copy_structure
      as [h' [Hrun [A1 [A2 [A3 [B1 [B2 [B3 [B4 [C1 [C2 [C3 [[g2 [idxs [_ [_ [_ [T1 [T2 T3]]]]]]] _]]]]]]]]]]]]].
    exists h'. split; [exact Hrun|]. eapply sp_einv; eauto.
  Qed.
  (* ---------------------------------------------------------------- the order of the copied transitions *)
  (* children lists of the guest copy while the loop runs: the unprocessed children in their old order, then the
     processed ones in the order of processing (rename_state moves a really renamed child to the end) *)
  Definition CH (done : list name) (g : chart) : Prop :=
    forall k, in_S k ->
      children_for g (rsd done k) =
      map (rsd done) (filter (fun x => negb (mem x done)) (children_for guest k) ++
                      filter (fun x => mem x (children_for guest k)) done).

  Lemma CH_init : forall g1, rename_state guest source replace = (g1, EOk) -> CH [] g1.
  Proof.
    intros g1 Hren k Hk. cbn [filter]. rewrite app_nil_r.
    assert (Hf : filter (fun x => negb (mem x [])) (children_for guest k) = children_for guest k)
      by (apply filter_true; reflexivity).
    rewrite Hf, rsd_nil, (map_ext _ _ rsd_nil).
    assert (Hid : map (ren source replace) (children_for guest k) = children_for guest k).
    { apply map_ren_id. intros Hin. apply src_notin_D. eapply subtree_child; eauto. }
    rewrite Hid. destruct (seqbP source replace) as [E|Hne].
    - rewrite rename_state_eq in Hren. apply seqb_eq in E. rewrite E in Hren. inv Hren.
      apply seqb_eq in E. rewrite <- E, ren_refl. reflexivity.
    - rewrite (rename_children_for _ _ _ _ GS Hne Hren k (in_S_state k Hk)).
      destruct (ostr_eqb (parent_for guest source) (Some k)) eqn:Ep; [|reflexivity].
      exfalso. apply ostr_eqb_eq in Ep. unfold parent_for in Ep.
      destruct (lookup source (c_parent guest)) as [pp|] eqn:Epp; [|discriminate]. subst pp.
      assert (Ha : anc guest source k) by (apply anc_parent; exact Epp).
      destruct Hk as [->|Hk]; [exact (sound_anc_irrefl guest GS _ Ha)|].
      apply D_anc in Hk. exact (sound_anc_irrefl guest GS _ (anc_trans _ _ _ _ Ha Hk)).
  Qed.

  Lemma filter_false' : forall {A} (p : A -> bool) l, (forall x, In x l -> p x = false) -> filter p l = [].
  Proof.
    intros A p l; induction l as [|x l IH]; intros H; [reflexivity|]. simpl.
    rewrite (H x (or_introl eq_refl)). apply IH. intros y Hy. apply H. right; exact Hy.
  Qed.

  Lemma guest_loop_order : (forall n, In n D -> rh n <> n) ->
    forall rest done g g' E, done ++ rest = D -> einv g -> img (rsd done) guest g -> CH done g ->
    guest_entries rest rho g = (g', E, EOk) -> CH D g'.
  Proof.
    intros Hmoved. induction rest as [|n rest IH]; intros done g g' E HD HE HI HC Hge.
    - simpl in Hge. inv Hge. rewrite app_nil_r in HD. rewrite <- HD. exact HC.
    - assert (Hn : In n D) by (rewrite <- HD; apply in_or_app; right; left; reflexivity).
      assert (Hnd : ~ In n done).
      { pose proof D_nodup as ND. rewrite <- HD in ND. apply NoDup_remove_2 in ND.
        intros H. apply ND. apply in_or_app. left. exact H. }
      assert (Hincl : incl done D) by (intros x Hx; rewrite <- HD; apply in_or_app; left; exact Hx).
      assert (Hns : n <> source) by (intros ->; apply src_notin_D; exact Hn).
      destruct HE as [gS [gN gF]].
      cbn [guest_entries] in Hge. fold rh in Hge.
      destruct (rename_state g n (rh n)) as [g1 r1] eqn:Hren.
      destruct (negb (eres_eqb r1 EOk)) eqn:Er1; [apply eres_ok_true in Er1; inv Hge; congruence|].
      apply eres_ok_false in Er1. subst r1.
      destruct (state_for g1 (rh n)) as [st|]; [|inv Hge].
      destruct (guest_entries rest rho g1) as [[g'' E''] r''] eqn:Hge1. inv Hge.
      pose proof (img_rename _ _ _ _ gS gF Hren) as HI1.
      assert (HI2 : img (rsd (done ++ [n])) guest g1).
      { eapply img_ext; [|eapply img_comp; [exact HI|exact HI1]]. intros x. apply rsd_step; assumption. }
      destruct (rename_state_sound _ _ _ _ gS gF gN Hren) as [g1S [g1F g1N]].
      specialize (g1N (Hnonempty n Hn)).
      apply (IH (done ++ [n]) g1 g' E''); [rewrite <- app_assoc; exact HD|split; [|split]; assumption|exact HI2| |exact Hge1].
      intros k Hk. rewrite <- (rsd_step done n Hn Hnd Hincl k).
      assert (Hk' : has_state g (rsd done k) = true).
      { apply (im_has _ _ _ HI). exists k. split; [apply in_S_state; exact Hk|reflexivity]. }
      assert (Hne : n <> rh n) by (intros E; apply (Hmoved n Hn); symmetry; exact E).
      rewrite (rename_children_for g n (rh n) g1 gS Hne Hren _ Hk'), (HC k Hk).
      destruct (D_parent n Hn) as [pn [Hpn Hpin]].
      pose proof (im_parent _ _ _ HI _ _ Hpn) as Hpg. rewrite (rsd_out done n Hns Hnd) in Hpg.
      rewrite (parent_for_lookup _ _ _ Hpg). cbn [option_map]. unfold ostr_eqb. cbn [opt_eqb].
      set (ch := children_for guest k).
      assert (HchD : forall x, In x ch -> In x D) by (intros x Hx; exact (subtree_child k x Hk Hx)).
      assert (Hout : forall dn x, In x ch -> ~ In x dn -> rsd dn x = x).
      { intros dn x Hx Hnx. apply rsd_out; [|exact Hnx]. intros ->. apply src_notin_D. apply HchD. exact Hx. }
      assert (HB : forall x, In x (filter (fun x => mem x ch) done) -> rsd (done ++ [n]) x = rsd done x).
      { intros x Hx. apply filter_In in Hx. destruct Hx as [Hx _]. apply rsd_app_other. intros ->. auto. }
      destruct (string_dec pn k) as [->|Hpk].
      + rewrite seqb_refl.
        assert (Hnch : In n ch) by (apply sound_parent_child; assumption).
        assert (HnA : In n (filter (fun x => negb (mem x done)) ch)).
        { apply filter_In. split; [exact Hnch|]. apply negb_true_iff, mem_false_iff. exact Hnd. }
        assert (HA : map (rsd done) (filter (fun x => negb (mem x done)) ch) = filter (fun x => negb (mem x done)) ch).
        { apply map_id_in. intros x Hx. apply filter_In in Hx. destruct Hx as [Hx1 Hx2].
          apply Hout; [exact Hx1|]. apply negb_true_iff, mem_false_iff in Hx2. exact Hx2. }
        assert (HA' : filter (fun x => negb (mem x (done ++ [n]))) ch =
                      filter (fun x => negb (str_eqb x n)) (filter (fun x => negb (mem x done)) ch)).
        { rewrite filter_filter. apply filter_ext. intros x. rewrite mem_app'. cbn [mem].
          rewrite orb_false_r, negb_orb. reflexivity. }
        assert (HA'id : map (rsd (done ++ [n])) (filter (fun x => negb (mem x (done ++ [n]))) ch) =
                        filter (fun x => negb (mem x (done ++ [n]))) ch).
        { apply map_id_in. intros x Hx. apply filter_In in Hx. destruct Hx as [Hx1 Hx2].
          apply Hout; [exact Hx1|]. apply negb_true_iff, mem_false_iff in Hx2. exact Hx2. }
        assert (HB' : filter (fun x => mem x ch) (done ++ [n]) = filter (fun x => mem x ch) done ++ [n]).
        { rewrite filter_app. cbn [filter]. apply mem_In in Hnch. rewrite Hnch. reflexivity. }
        rewrite map_app, HA, (remove_first_app_in _ _ _ HnA).
        rewrite (remove_first_filter n _ (NoDup_filter _ (sound_children_for_NoDup guest GS k))).
        rewrite HB', !map_app, HA'id, HA', (map_ext_in _ _ _ HB). cbn [map].
        rewrite (rsd_in (done ++ [n]) n Hns) by (apply in_or_app; right; left; reflexivity).
        rewrite <- app_assoc. reflexivity.
      + assert (Ene : str_eqb (rsd done pn) (rsd done k) = false).
        { apply seqb_neq. intros E. apply Hpk. apply (im_inj _ _ _ HI); [|apply in_S_state; exact Hk|exact E].
          apply (sd_pc guest GS _ _ Hpn). reflexivity. }
        rewrite Ene.
        assert (Hnch : ~ In n ch).
        { intros Hin. pose proof (sound_child_parent guest GS _ _ Hin) as Hp. congruence. }
        assert (HA' : filter (fun x => negb (mem x (done ++ [n]))) ch = filter (fun x => negb (mem x done)) ch).
        { apply filter_ext_in. intros x Hx. rewrite mem_app'. cbn [mem].
          destruct (seqbP x n) as [->|_]; [contradiction|]. rewrite !orb_false_r. reflexivity. }
        assert (HB' : filter (fun x => mem x ch) (done ++ [n]) = filter (fun x => mem x ch) done).
        { rewrite filter_app. cbn [filter]. apply mem_false_iff in Hnch. rewrite Hnch. apply app_nil_r. }
        rewrite HA', HB'. apply map_ext_in. intros x Hx. symmetry. apply rsd_app_other. intros ->.
        apply in_app_or in Hx. destruct Hx as [Hx|Hx]; apply filter_In in Hx; destruct Hx as [Hx _]; auto.
  Qed.

  Lemma CH_final : forall g2, CH D g2 -> forall k, in_S k ->
    children_for g2 (rs k) = map rs (children_for guest k).
  Proof.
    intros g2 HC k Hk. unfold rs. rewrite (HC k Hk).
    rewrite filter_false'.
    2:{ intros x Hx. apply negb_false_iff, mem_In. eapply subtree_child; eauto. }
    cbn [app]. f_equal.
    assert (Efil : filter (fun x => mem x (children_for guest k)) D = filter (child_of guest k) D).
    { apply filter_ext_in. intros x Hx. unfold child_of.
      destruct (mem x (children_for guest k)) eqn:Em.
      - apply mem_In in Em. rewrite (parent_for_lookup _ _ _ (sound_child_parent guest GS _ _ Em)).
        symmetry. apply oeqb_refl.
      - destruct (ostr_eqb (parent_for guest x) (Some k)) eqn:Ep; [|reflexivity]. exfalso.
        apply ostr_eqb_eq in Ep. unfold parent_for in Ep.
        destruct (lookup x (c_parent guest)) as [pp|] eqn:Epp; [|discriminate]. subst pp.
        apply mem_false_iff in Em. apply Em. apply sound_parent_child; assumption. }
    rewrite Efil. apply (descendants_filter_children guest GS source k Hk).
  Qed.

  Lemma desc_g2 : forall g2, img rs guest g2 -> CH D g2 -> descendants_for g2 replace = map rs D.
  Proof.
    intros g2 HI2 HC. unfold descendants_for. rewrite (im_len _ _ _ HI2).
    assert (Eq : [replace] = map rs [source]) by (simpl; rewrite rs_source; reflexivity). rewrite Eq.
    apply (bfs_map rs guest g2 in_S).
    - intros x Hx. apply CH_final; assumption.
    - intros x Hx y Hy. right. eapply subtree_child; eauto.
    - intros x [<-|[]]. left; reflexivity.
  Qed.

  Lemma guest_entries_id : forall rest g g' E r, (forall n, In n rest -> rh n = n) ->
    guest_entries rest rho g = (g', E, r) -> g' = g.
  Proof.
    induction rest as [|n rest IH]; intros g g' E r Hid Hge; simpl in Hge; [inv Hge; reflexivity|].
    fold rh in Hge. rewrite (Hid n (or_introl eq_refl)), rename_state_eq, seqb_refl in Hge. cbn [eres_eqb negb] in Hge.
    destruct (state_for g n); [|inv Hge; reflexivity].
    destruct (guest_entries rest rho g) as [[g'' E''] r''] eqn:Hge1. inv Hge.
    eapply IH; [|exact Hge1]. intros m Hm. apply Hid. right; exact Hm.
  Qed.

  (* when the renaming function moves every descendant, or none (the default renaming_func), the copied
     transitions come in the order collect_transitions gives on the guest itself *)
  Theorem C17_copy_transitions_order :
    (forall n, In n D -> rh n <> n) \/ (forall n, In n D -> rh n = n) ->
    exists h', copy_from_statechart host guest source replace rho = (h', EOk) /\
      c_transitions h' =
      c_transitions host ++
      map (map_trans rs) (flat_map (nth_trans (c_transitions guest))
                                   (collect_transitions guest (source :: D) [])).
  Proof.
    intros Hcase.
    destruct run_loop as [g1 [g2 [h2 [Hren [Hst [HD1 [Hcopy [HE2 [HI2 [Hext Hal]]]]]]]]]].
    exists (hfinal g2 h2). split.
    { unfold copy_from_statechart. rewrite Hrep. cbn [negb]. rewrite Hleaf, Hren. cbn [eres_eqb negb].
      rewrite Hst. cbv zeta. fold h1. rewrite HD1. fold D. rewrite Hcopy. cbn [eres_eqb negb].
      apply add_transitions_spec. intros t Ht. apply (ts2_ok g2 h2 HE2 HI2 Hext). exact Ht. }
    assert (Hdesc : descendants_for g2 replace = map rs D).
    { apply copy_states_decompose in Hcopy. destruct Hcopy as [E [Hge _]].
      destruct first_rename as [g1' [Hren' [HE1 [HI1 _]]]]. rewrite Hren in Hren'. inv Hren'.
      destruct Hcase as [Hmoved|Hid].
      - apply desc_g2; [exact HI2|].
        apply (guest_loop_order Hmoved D [] g1' g2 E eq_refl HE1 HI1 (CH_init g1' Hren) Hge).
      - rewrite (guest_entries_id _ _ _ _ _ Hid Hge), HD1. symmetry. apply map_id_in.
        intros x Hx. rewrite (rs_D _ Hx). apply Hid. exact Hx. }
    destruct (h3_facts g2 h2 Hext) as [_ [_ [_ [_ [_ [N6 _]]]]]].
    unfold hfinal. cbn [with_transitions c_transitions]. rewrite N6. f_equal.
    unfold ts2, names2. rewrite Hdesc.
    assert (Eq : replace :: map rs D = map rs (source :: D)) by (simpl; rewrite rs_source; reflexivity).
    rewrite Eq, (collect_transitions_img rs guest g2 HI2 GS).
    - rewrite (im_trans _ _ _ HI2). apply flat_nth_trans_map.
    - intros n Hn. apply in_S_state. destruct Hn as [<-|Hn]; [left; reflexivity|right; exact Hn].
  Qed.
End Main.

(* ================================================================== 8. non-vacuity *)
Lemma ex_in_S_mem : forall x,
  (x = "r" \/ In x (descendants_for ex_guest "r")) <-> mem x ("r" :: descendants_for ex_guest "r") = true.
Proof.
  intros x. rewrite mem_In. simpl. split; intros [H|H]; auto.
Qed.

Lemma ex_hyps :
  einv ex_host /\ einv ex_guest /\ has_state ex_host "plug" = true /\ children_for ex_host "plug" = [] /\
  has_state ex_guest "r" = true /\ ("r" = "plug" \/ has_state ex_guest "plug" = false) /\
  (forall n, In n (descendants_for ex_guest "r") -> has_state ex_host (rho_apply ex_rho n) = false) /\
  (forall n, In n (descendants_for ex_guest "r") -> rho_apply ex_rho n <> "") /\
  NoDup (map (rho_apply ex_rho) (descendants_for ex_guest "r")) /\
  (forall n, In n (descendants_for ex_guest "r") ->
     rho_apply ex_rho n = n \/ has_state ex_guest (rho_apply ex_rho n) = false) /\
  (forall n p sp sn, In n (descendants_for ex_guest "r") -> lookup n (c_parent ex_guest) = Some (Some p) ->
     lookup p (c_states ex_guest) = Some sp -> lookup n (c_states ex_guest) = Some sn ->
     is_composite (s_kind sp) = true /\ (is_history (s_kind sn) = true -> s_kind sp = KCompound)) /\
  (forall t, In t (c_transitions ex_guest) -> forall tg, t_target t = Some tg ->
     (t_source t = "r" \/ In (t_source t) (descendants_for ex_guest "r")) <->
     (tg = "r" \/ In tg (descendants_for ex_guest "r"))) /\
  s_memory (state_of ex_guest "r") = None /\
  (forall t, In t (c_transitions ex_host) -> t_source t = "plug" ->
     owns_transitions (s_kind (state_of ex_guest "r")) = true).
Proof.
  assert (E : forall c, sound_b c = true -> has_state c "" = false -> fields_ok_b c = true -> einv c).
  { intros c H1 H2 H3. split; [apply sound_b_sound; assumption|]. split; [exact H2|apply fields_ok_b_sound; exact H3]. }
  split; [apply E; vm_compute; reflexivity|]. split; [apply E; vm_compute; reflexivity|].
  split; [reflexivity|]. split; [reflexivity|]. split; [reflexivity|]. split; [right; reflexivity|].
  split. { intros n Hn. vm_compute in Hn. repeat (destruct Hn as [<-|Hn]; [reflexivity|]). destruct Hn. }
  split. { intros n Hn. vm_compute in Hn. repeat (destruct Hn as [<-|Hn]; [vm_compute; discriminate|]). destruct Hn. }
  split. { apply nodup_names_iff. vm_compute. reflexivity. }
  split. { intros n Hn. vm_compute in Hn. repeat (destruct Hn as [<-|Hn]; [right; reflexivity|]). destruct Hn. }
  split.
  { intros n p sp sn Hn Hp Hsp Hsn. vm_compute in Hn.
    repeat (destruct Hn as [<-|Hn];
            [vm_compute in Hp; inv Hp; vm_compute in Hsp; inv Hsp; vm_compute in Hsn; inv Hsn;
             split; [reflexivity|intros _; reflexivity]|]).
    destruct Hn. }
  split.
  { intros t Ht tg Etg. rewrite !ex_in_S_mem. vm_compute in Ht.
    repeat (destruct Ht as [<-|Ht]; [vm_compute in Etg; try discriminate; inv Etg; vm_compute; tauto|]).
    destruct Ht. }
  split; [reflexivity|]. intros t _ _. reflexivity.
Qed.

(* the hypotheses of C17_copy_structure / C17_copy_sound hold of a host with two transitions at the replaced state
   and a guest subtree of five states (compound, basic, shallow history) with five of the six guest transitions
   inside it (one of them internal), the sixth outside; the result is the chart computed by the model *)
Example C17_copy_structure_instance :
  exists h', copy_from_statechart ex_host ex_guest "r" "plug" ex_rho = (h', EOk) /\ einv h' /\
             map fst (c_states h') = ["hroot"; "plug"; "other"; "p_a"; "p_b"; "p_b1"; "p_bh"] /\
             length (c_transitions h') = 7.
Proof.
  destruct ex_hyps as [H1 [H2 [H3 [H4 [H5 [H6 [H7 [H8 [H9 [H10 [H11 [H12 [H13 H14]]]]]]]]]]]]].
  destruct (C17_copy_sound ex_host ex_guest "r" "plug" ex_rho H1 H2 H3 H4 H5 H6 H7 H8 H9 H10 H11 H12 H13 H14)
    as [h' [Hrun Hinv]].
  exists h'. split; [exact Hrun|]. split; [exact Hinv|].
  assert (E : h' = fst ex_result) by (change (fst ex_result) with (fst (copy_from_statechart ex_host ex_guest "r" "plug" ex_rho)); rewrite Hrun; reflexivity).
  rewrite E. split; reflexivity.
Qed.

(* ================================================================== 9. the boolean the correspondence check evaluates *)
(* bit 4 of check_ccase is exactly "host and guest sound, outcome EOk  ->  the resulting host is sound" *)
Theorem check_ccase_bit4 : forall c,
  no_empty_name (cc_host c) -> no_empty_name (cc_guest c) -> no_empty_name (cc_post c) ->
  (N.testbit (check_ccase c) 2 = false <->
   (sound (cc_host c) -> sound (cc_guest c) -> cc_res c = EOk -> sound (cc_post c))).
Proof.
  intros c N1 N2 N3. unfold check_ccase.
  destruct (copy_from_statechart (cc_host c) (cc_guest c) (cc_source c) (cc_replace c) (cc_rho c)) as [m r].
  rewrite <- (sound_b_iff _ N1), <- (sound_b_iff _ N2), <- (sound_b_iff _ N3).
  assert (Er : eres_eqb (cc_res c) EOk = true <-> cc_res c = EOk) by (destruct (cc_res c); simpl; split; congruence).
  destruct (eres_eqb r (cc_res c)), (chart_eqb m (cc_post c)), (sound_b (cc_host c)), (sound_b (cc_guest c)),
    (eres_eqb (cc_res c) EOk) eqn:E3, (sound_b (cc_post c)); cbn;
    (split; [intros H; try discriminate H; intros; try reflexivity; try discriminate; try (apply Er; assumption)
            |intros H; try reflexivity]);
    try (assert (X : false = true) by (apply H; try reflexivity; apply Er; reflexivity); discriminate X);
    try (exfalso; assert (X : false = true) by (apply Er; assumption); discriminate X).
Qed.

(* the theorem behind bit 4: under the hypotheses of C17_copy_sound the boolean is true *)
Corollary C17_copy_sound_b : forall host guest source replace rho,
  einv host -> einv guest -> has_state host replace = true -> children_for host replace = [] ->
  has_state guest source = true -> source = replace \/ has_state guest replace = false ->
  (forall n, In n (descendants_for guest source) -> has_state host (rho_apply rho n) = false) ->
  (forall n, In n (descendants_for guest source) -> rho_apply rho n <> "") ->
  NoDup (map (rho_apply rho) (descendants_for guest source)) ->
  (forall n, In n (descendants_for guest source) ->
     rho_apply rho n = n \/ has_state guest (rho_apply rho n) = false) ->
  (forall n p sp sn, In n (descendants_for guest source) -> lookup n (c_parent guest) = Some (Some p) ->
     lookup p (c_states guest) = Some sp -> lookup n (c_states guest) = Some sn ->
     is_composite (s_kind sp) = true /\ (is_history (s_kind sn) = true -> s_kind sp = KCompound)) ->
  (forall t, In t (c_transitions guest) -> forall tg, t_target t = Some tg ->
     (t_source t = source \/ In (t_source t) (descendants_for guest source)) <->
     (tg = source \/ In tg (descendants_for guest source))) ->
  s_memory (state_of guest source) = None ->
  (forall t, In t (c_transitions host) -> t_source t = replace ->
     owns_transitions (s_kind (state_of guest source)) = true) ->
  sound_b (fst (copy_from_statechart host guest source replace rho)) = true /\
  snd (copy_from_statechart host guest source replace rho) = EOk.
Proof.
  intros host guest source replace rho H1 H2 H3 H4 H5 H6 H7 H8 H9 H10 H11 H12 H13 H14.
  destruct (C17_copy_sound host guest source replace rho H1 H2 H3 H4 H5 H6 H7 H8 H9 H10 H11 H12 H13 H14)
    as [h' [Hrun [HS _]]].
  rewrite Hrun. split; [apply sound_sound_b; exact HS|reflexivity].
Qed.

(* ================================================================== 10. what does NOT hold *)
Lemma einv_b : forall c, sound_b c = true -> has_state c "" = false -> fields_ok_b c = true -> einv c.
Proof.
  intros c H1 H2 H3. split; [apply sound_b_sound; assumption|]. split; [exact H2|apply fields_ok_b_sound; exact H3].
Qed.

Definition g_final : chart :=
  mkChart "g" None None
    [("g", stx "g" KCompound None None); ("f", stx "f" KFinal None None)]
    [("g", None); ("f", Some "g")]
    [(None, ["g"]); (Some "g", ["f"]); (Some "f", [])] [].

Definition g_hist : chart :=
  mkChart "g" None None
    [("g", stx "g" KCompound None None); ("x", stx "x" KBasic None None); ("hh", stx "hh" KShallow None (Some "x"))]
    [("g", None); ("x", Some "g"); ("hh", Some "g")]
    [(None, ["g"]); (Some "g", ["x"; "hh"]); (Some "x", []); (Some "hh", [])] [].

Definition host2 : chart :=
  mkChart "host" None None
    [("hroot", stx "hroot" KCompound (Some "plug") None); ("plug", stx "plug" KBasic None None)]
    [("hroot", None); ("plug", Some "hroot")]
    [(None, ["hroot"]); (Some "hroot", ["plug"]); (Some "plug", [])] [].

Definition g_mixed : chart :=
  mkChart "g" None None
    [("r", stx "r" KCompound None None); ("a", stx "a" KBasic None None); ("b", stx "b" KBasic None None)]
    [("r", None); ("a", Some "r"); ("b", Some "r")]
    [(None, ["r"]); (Some "r", ["a"; "b"]); (Some "a", []); (Some "b", [])]
    [trx "b" (Some "b") "x"; trx "a" (Some "a") "y"].

(* "the call returns EOk on a sound host and a sound guest => the result is sound" is FALSE (the two extra hypotheses of
   C17_copy_sound are needed).  (1) a final state replaces a state that has an outgoing transition: the host then owns
   a transition leaving a FinalState (add_transition itself would refuse it).  /repo behaves the same way. *)
Theorem C17_copy_sound_unconditional_refuted :
  exists host guest source replace rho h',
    einv host /\ einv guest /\ copy_from_statechart host guest source replace rho = (h', EOk) /\ ~ sound h'.
Proof.
  exists ex_host, g_final, "f", "plug", [], (fst (copy_from_statechart ex_host g_final "f" "plug" [])).
  split; [apply einv_b; vm_compute; reflexivity|]. split; [apply einv_b; vm_compute; reflexivity|].
  split; [vm_compute; reflexivity|]. intros HS. apply sound_sound_b in HS. vm_compute in HS. discriminate.
Qed.

(* (2) the source is a history state whose memory names a sibling: the sibling is not copied, the host's validate()
   fails afterwards.  /repo behaves the same way. *)
Theorem C17_copy_sound_history_memory_refuted :
  exists host guest source replace rho h',
    einv host /\ einv guest /\ copy_from_statechart host guest source replace rho = (h', EOk) /\
    ~ sound h' /\ validate h' = false.
Proof.
  exists host2, g_hist, "hh", "plug", [], (fst (copy_from_statechart host2 g_hist "hh" "plug" [])).
  split; [apply einv_b; vm_compute; reflexivity|]. split; [apply einv_b; vm_compute; reflexivity|].
  split; [vm_compute; reflexivity|]. split; [|vm_compute; reflexivity].
  intros HS. apply sound_sound_b in HS. vm_compute in HS. discriminate.
Qed.

(* (3) the ORDER of the copied transitions is the one collect_transitions finds in the guest COPY at the end of the
   call, and that is not always the image of the guest's own breadth-first order: rename_state moves a renamed child
   to the end of its parent's list and leaves a child with renaming_func(name) = name where it is.  With a renaming
   that moves some children of a state and fixes others the copied transitions come in another order than
   collect_transitions gives on the guest itself (here [b->b; a2->a2] instead of [a2->a2; b->b]).  The host's own
   children lists are NOT affected (clause (b) of C17_copy_structure).  /repo behaves the same way. *)
Theorem C17_copy_transitions_guest_order_refuted :
  exists host guest source replace rho h',
    einv host /\ einv guest /\ copy_from_statechart host guest source replace rho = (h', EOk) /\ einv h' /\
    c_transitions h' <>
    c_transitions host ++
    map (map_trans (rs guest source replace rho))
        (flat_map (nth_trans (c_transitions guest))
                  (collect_transitions guest (source :: descendants_for guest source) [])).
Proof.
  exists host2, g_mixed, "r", "plug", [("a", "a2")], (fst (copy_from_statechart host2 g_mixed "r" "plug" [("a", "a2")])).
  split; [apply einv_b; vm_compute; reflexivity|]. split; [apply einv_b; vm_compute; reflexivity|].
  split; [vm_compute; reflexivity|]. split; [apply einv_b; vm_compute; reflexivity|].
  intros E. vm_compute in E. discriminate.
Qed.

(* ================================================================== 11. small instances of the other theorems *)
Example copy_refused_instance :
  copy_from_statechart ex_host ex_guest "r" "nowhere" ex_rho = (ex_host, EStatechartError) /\
  copy_from_statechart ex_host ex_guest "r" "hroot" ex_rho = (ex_host, EStatechartError) /\
  copy_from_statechart ex_host ex_guest "nosuch" "plug" ex_rho = (ex_host, EStatechartError).
Proof. repeat split; vm_compute; reflexivity. Qed.

Example copy_transitions_once_instance :
  collect_transitions ex_guest ("r" :: descendants_for ex_guest "r") [] = [3; 0; 4; 2; 5].
Proof. vm_compute. reflexivity. Qed.

Definition ex_g1 : chart := Eval vm_compute in fst (rename_state ex_guest "r" "plug").
Definition ex_h1 : chart :=
  with_states ex_host (dset "plug" (stx "plug" KCompound (Some "p_a") None) (c_states ex_host)).

(* hypotheses and conclusion of copy_states_spec on the loop of the running example *)
Example copy_states_instance :
  aligned ex_h1 /\
  exists g' h', copy_states (descendants_for ex_g1 "plug") ex_rho ex_g1 ex_h1 [] =
                (g', h', ["p_a"; "p_b"; "p_b1"; "p_bh"], EOk).
Proof.
  split.
  - assert (H : aligned ex_host) by (apply sound_aligned, sound_b_sound; vm_compute; reflexivity).
    destruct H as [A1 A2]. split; intros n.
    + intros H. apply A1 in H. revert H. unfold has_state, ex_h1. cbn [with_states c_states]. rewrite lookup_dset.
      destruct (str_eqb n "plug"); auto.
    + rewrite (A2 n). unfold has_state, ex_h1. cbn [with_states c_states]. rewrite lookup_dset.
      destruct (seqbP n "plug") as [->|]; [split; reflexivity|reflexivity].
  - eexists. eexists. vm_compute. reflexivity.
Qed.

Example C17_copy_transitions_order_instance :
  (forall n, In n (descendants_for ex_guest "r") -> rho_apply ex_rho n <> n) /\
  c_transitions (fst ex_result) =
  c_transitions ex_host ++
  map (map_trans (rs ex_guest "r" "plug" ex_rho))
      (flat_map (nth_trans (c_transitions ex_guest))
                (collect_transitions ex_guest ("r" :: descendants_for ex_guest "r") [])).
Proof.
  split.
  - intros n Hn. vm_compute in Hn. repeat (destruct Hn as [<-|Hn]; [vm_compute; discriminate|]). destruct Hn.
  - vm_compute. reflexivity.
Qed.

(* ================================================================== assumptions *)
Print Assumptions copy_refused_unchanged.
Print Assumptions copy_transitions_once.
Print Assumptions copy_states_decompose.
Print Assumptions copy_states_spec.
Print Assumptions copy_states_ok.
Print Assumptions descendants_filter_children.
Print Assumptions C17_copy_structure.
Print Assumptions C17_copy_sound.
Print Assumptions C17_copy_transitions_order.
Print Assumptions check_ccase_bit4.
Print Assumptions C17_copy_sound_b.
Print Assumptions C17_copy_structure_instance.
Print Assumptions C17_copy_sound_unconditional_refuted.
Print Assumptions C17_copy_sound_history_memory_refuted.
Print Assumptions C17_copy_transitions_guest_order_refuted.
