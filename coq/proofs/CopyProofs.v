(* CopyProofs.v -- structural half of C17 (second sentence): Copy.copy_from_statechart.  WORK IN PROGRESS header,
   replaced at the end. *)
From Coq Require Import String Ascii List Bool ZArith NArith Arith Lia Permutation.
From Sismic Require Import Base Chart Edit Copy.
From SismicProofs Require Import SortLib EditProofs.
Import ListNotations.
Open Scope string_scope.
Open Scope list_scope.

(* ================================================================== 0. a concrete host and guest *)
Definition ex_host : chart :=
  mkChart "host" (Some "d") (Some "x = 1")
    [("hroot", stx "hroot" KCompound (Some "plug") None); ("plug", stx "plug" KBasic None None);
     ("other", stx "other" KBasic None None)]
    [("hroot", None); ("plug", Some "hroot"); ("other", Some "hroot")]
    [(None, ["hroot"]); (Some "hroot", ["plug"; "other"]); (Some "plug", []); (Some "other", [])]
    [trx "plug" (Some "other") "leave"; trx "other" (Some "plug") "enter"].

(* top > { r > {a, b > {b1, bh (shallow, memory b1)}}, out } *)
Definition ex_guest : chart :=
  mkChart "guest" None None
    [("top", stx "top" KCompound (Some "r") None);
     ("r", stx "r" KCompound (Some "a") None); ("out", stx "out" KBasic None None);
     ("a", stx "a" KBasic None None); ("b", stx "b" KCompound (Some "b1") None);
     ("b1", stx "b1" KBasic None None); ("bh", stx "bh" KShallow None (Some "b1"))]
    [("top", None); ("r", Some "top"); ("out", Some "top"); ("a", Some "r"); ("b", Some "r");
     ("b1", Some "b"); ("bh", Some "b")]
    [(None, ["top"]); (Some "top", ["r"; "out"]); (Some "r", ["a"; "b"]); (Some "out", []);
     (Some "a", []); (Some "b", ["b1"; "bh"]); (Some "b1", []); (Some "bh", [])]
    [trx "a" (Some "b") "go"; trx "out" None "tick"; trx "b1" (Some "a") "back"; trx "r" None "ping";
     trx "a" (Some "bh") "hist"; trx "b1" (Some "b1") "loop"].

Definition ex_rho : list (name * name) := [("a", "p_a"); ("b", "p_b"); ("b1", "p_b1"); ("bh", "p_bh"); ("out", "zzz")].

Definition ex_result : chart * eres := Eval vm_compute in copy_from_statechart ex_host ex_guest "r" "plug" ex_rho.

(* ================================================================== 1. refused calls leave the host unchanged *)
Theorem copy_refused_unchanged : forall host guest source replace rho,
  (has_state host replace = false ->
     copy_from_statechart host guest source replace rho = (host, EStatechartError)) /\
  (children_for host replace <> [] ->
     copy_from_statechart host guest source replace rho = (host, EStatechartError)) /\
  (forall g r, rename_state guest source replace = (g, r) -> r <> EOk ->
     copy_from_statechart host guest source replace rho = (host, r) \/
     copy_from_statechart host guest source replace rho = (host, EStatechartError)) /\
  (forall g r, has_state host replace = true -> children_for host replace = [] ->
     rename_state guest source replace = (g, r) -> r <> EOk ->
     copy_from_statechart host guest source replace rho = (host, r) /\ r = EStatechartError).
Proof.
  intros host guest source replace rho. unfold copy_from_statechart.
  split; [|split; [|split]].
  - intros H. rewrite H. reflexivity.
  - intros H. destruct (has_state host replace); [|reflexivity].
    destruct (children_for host replace); [congruence|reflexivity].
  - intros g r Hr Hne. destruct (has_state host replace); [|right; reflexivity]. cbn [negb].
    destruct (children_for host replace); [|right; reflexivity].
    rewrite Hr. destruct r; try congruence; left; reflexivity.
  - intros g r H1 H2 Hr Hne. rewrite H1, H2, Hr. cbn [negb].
    assert (E : r = EStatechartError).
    { unfold rename_state in Hr. repeat break_match_hyp Hr; inv Hr; congruence. }
    subst r. split; reflexivity.
Qed.

(* ================================================================== 2. collect_transitions (goal 5) *)
Lemma nat_mem_In : forall x l, nat_mem x l = true <-> In x l.
Proof.
  intros x l; induction l as [|y l IH]; simpl; [split; [discriminate|tauto]|].
  rewrite orb_true_iff, IH, Nat.eqb_eq. split; intros [H|H]; auto.
Qed.

Lemma take_new_spec : forall xs seen,
  NoDup seen ->
  NoDup (take_new seen xs) /\ (forall i, In i (take_new seen xs) <-> In i seen \/ In i xs) /\
  exists l, take_new seen xs = seen ++ l.
Proof.
  induction xs as [|x xs IH]; intros seen Hnd; simpl.
  - split; [exact Hnd|]. split; [tauto|]. exists []. rewrite app_nil_r. reflexivity.
  - destruct (nat_mem x seen) eqn:E.
    + destruct (IH seen Hnd) as [H1 [H2 H3]]. split; [exact H1|]. split; [|exact H3].
      intros i. rewrite H2. apply nat_mem_In in E. split; [tauto|]. intros [H|[H|H]]; subst; auto.
    + assert (Hnd' : NoDup (seen ++ [x])).
      { apply NoDup_app_intro; [exact Hnd|constructor; [intros []|constructor]|].
        intros y Hy [<-|[]]. apply nat_mem_In in Hy. congruence. }
      destruct (IH _ Hnd') as [H1 [H2 [l H3]]]. split; [exact H1|]. split.
      * intros i. rewrite H2, in_app_iff. simpl. tauto.
      * exists (x :: l). rewrite H3, <- app_assoc. reflexivity.
Qed.

Lemma idx_filter_In : forall f l k i,
  In i (idx_filter f k l) <-> k <= i /\ exists t, nth_error l (i - k) = Some t /\ f t = true.
Proof.
  intros f l; induction l as [|t l IH]; intros k i; simpl.
  - split; [tauto|]. intros [_ [t [H _]]]. destruct (i - k); discriminate.
  - assert (Hrec : In i (idx_filter f (S k) l) <->
                   k <= i /\ i <> k /\ exists t0, nth_error l (i - S k) = Some t0 /\ f t0 = true).
    { rewrite IH. split; [intros [H1 H2]; repeat split; [lia|lia|exact H2]|intros [H1 [H2 H3]]; split; [lia|exact H3]]. }
    destruct (f t) eqn:Ef; simpl; rewrite ?Hrec.
    + split.
      * intros [<-|[H1 [H2 [t0 [H3 H4]]]]].
        -- split; [lia|]. rewrite Nat.sub_diag. exists t. auto.
        -- split; [lia|]. replace (i - k) with (S (i - S k)) by lia. simpl. eauto.
      * intros [H1 [t0 [H2 H3]]]. destruct (Nat.eq_dec i k) as [->|Hne]; [left; reflexivity|right].
        split; [lia|]. split; [exact Hne|]. replace (i - k) with (S (i - S k)) in H2 by lia. simpl in H2. eauto.
    + split.
      * intros [H1 [H2 [t0 [H3 H4]]]]. split; [lia|]. replace (i - k) with (S (i - S k)) by lia. simpl. eauto.
      * intros [H1 [t0 [H2 H3]]]. destruct (Nat.eq_dec i k) as [->|Hne].
        -- rewrite Nat.sub_diag in H2. simpl in H2. inv H2. congruence.
        -- split; [lia|]. split; [exact Hne|]. replace (i - k) with (S (i - S k)) in H2 by lia. simpl in H2. eauto.
Qed.

(* a transition touches a name: it starts there or it goes there (an internal one starts there) *)
Definition touches (t : transition) (n : name) : Prop := t_source t = n \/ t_target t = Some n.
Definition touches_b (t : transition) (n : name) : bool :=
  str_eqb (t_source t) n || ostr_eqb (t_target t) (Some n).

Lemma touches_b_iff : forall t n, touches_b t n = true <-> touches t n.
Proof.
  intros t n. unfold touches_b, touches. rewrite orb_true_iff, seqb_eq, ostr_eqb_eq. tauto.
Qed.

Lemma from_to_idx_In : forall g n i,
  In i (from_idx g n ++ to_idx g n) <-> exists t, nth_error (c_transitions g) i = Some t /\ touches t n.
Proof.
  intros g n i. rewrite in_app_iff. unfold from_idx, to_idx. rewrite !idx_filter_In, Nat.sub_0_r.
  split.
  - intros [[_ [t [H1 H2]]]|[_ [t [H1 H2]]]]; exists t; (split; [exact H1|]).
    + left. apply seqb_eq. exact H2.
    + destruct (t_target t) as [x|] eqn:E; [right|left]; apply seqb_eq in H2; congruence.
  - intros [t [H1 [H2|H2]]].
    + left. split; [lia|]. exists t. split; [exact H1|apply seqb_eq; exact H2].
    + right. split; [lia|]. exists t. split; [exact H1|]. rewrite H2. apply seqb_refl.
Qed.

Lemma collect_transitions_spec : forall g names seen,
  NoDup seen ->
  NoDup (collect_transitions g names seen) /\
  (forall i, In i (collect_transitions g names seen) <->
             In i seen \/ exists t n, nth_error (c_transitions g) i = Some t /\ In n names /\ touches t n).
Proof.
  intros g names; induction names as [|n names IH]; intros seen Hnd; simpl.
  - split; [exact Hnd|]. intros i. split; [tauto|]. intros [H|[t [n [_ [[] _]]]]]. exact H.
  - destruct (take_new_spec (from_idx g n ++ to_idx g n) seen Hnd) as [H1 [H2 _]].
    destruct (IH _ H1) as [H3 H4]. split; [exact H3|]. intros i. rewrite H4, H2, from_to_idx_In. split.
    + intros [[H|[t [Ha Hb]]]|[t [m [Ha [Hb Hc]]]]]; [left; exact H| |]; right.
      * exists t, n. auto.
      * exists t, m. auto.
    + intros [H|[t [m [Ha [[<-|Hb] Hc]]]]]; [left; left; exact H| |].
      * left. right. exists t. auto.
      * right. exists t, m. auto.
Qed.

(* goal 5 *)
Theorem copy_transitions_once : forall g names,
  NoDup (collect_transitions g names []) /\
  forall i, In i (collect_transitions g names []) <->
            exists t, nth_error (c_transitions g) i = Some t /\
                      (In (t_source t) names \/ exists tg, t_target t = Some tg /\ In tg names).
Proof.
  intros g names. destruct (collect_transitions_spec g names [] (NoDup_nil _)) as [H1 H2].
  split; [exact H1|]. intros i. rewrite H2. split.
  - intros [[]|[t [n [Ha [Hb [Hc|Hc]]]]]]; exists t; (split; [exact Ha|]).
    + left. congruence.
    + right. exists n. auto.
  - intros [t [Ha [Hb|[tg [Hb Hc]]]]]; right; exists t.
    + exists (t_source t). split; [exact Ha|]. split; [exact Hb|left; reflexivity].
    + exists tg. split; [exact Ha|]. split; [exact Hc|right; exact Hb].
Qed.

(* ================================================================== 3. the loop over the descendants, host side (goal 2) *)
Lemma eres_ok_false : forall r, negb (eres_eqb r EOk) = false <-> r = EOk.
Proof. intros []; simpl; split; congruence. Qed.

Lemma eres_ok_true : forall r, negb (eres_eqb r EOk) = true <-> r <> EOk.
Proof. intros []; simpl; split; congruence. Qed.

(* what one iteration hands to add_state: the (shared) state object and the parent name *)
Definition entry := (state * option name)%type.
Definition e_name (e : entry) : name := s_name (fst e).

Fixpoint add_entries (h : chart) (E : list entry) : chart * eres :=
  match E with
  | [] => (h, EOk)
  | e :: E' => let '(h1, r) := add_state h (fst e) (snd e) in
               if negb (eres_eqb r EOk) then (h1, r) else add_entries h1 E'
  end.

(* the guest side of the loop alone: successive rename_state calls, and what is read off after each *)
Fixpoint guest_entries (names : list name) (rho : list (name * name)) (g : chart) : chart * list entry * eres :=
  match names with
  | [] => (g, [], EOk)
  | n :: rest =>
      let new := rho_apply rho n in
      let '(g1, r1) := rename_state g n new in
      if negb (eres_eqb r1 EOk) then (g1, [], r1) else
      match state_for g1 new with
      | None => (g1, [], EStatechartError)
      | Some st => let '(g', E, r) := guest_entries rest rho g1 in (g', (st, parent_for g1 new) :: E, r)
      end
  end.

(* a successful run of copy_states = all the renamings on the guest copy, and the add_state calls on the host *)
Lemma copy_states_decompose : forall names rho g h added g' h' added',
  copy_states names rho g h added = (g', h', added', EOk) <->
  exists E, guest_entries names rho g = (g', E, EOk) /\ add_entries h E = (h', EOk) /\
            added' = added ++ map (rho_apply rho) names.
Proof.
  induction names as [|n rest IH]; intros rho g h added g' h' added'; simpl.
  - split.
    + intros H. inv H. exists []. rewrite app_nil_r. auto.
    + intros [E [H1 [H2 H3]]]. inv H1. simpl in H2. inv H2. rewrite app_nil_r. reflexivity.
  - destruct (rename_state g n (rho_apply rho n)) as [g1 r1].
    destruct (negb (eres_eqb r1 EOk)) eqn:Er1.
    { apply eres_ok_true in Er1. split; [intros H; inv H; congruence|].
      intros [E [H1 _]]. inv H1. congruence. }
    destruct (state_for g1 (rho_apply rho n)) as [st|] eqn:Est.
    2:{ split; [discriminate|]. intros [E [H1 _]]. discriminate. }
    destruct (add_state h st (parent_for g1 (rho_apply rho n))) as [h1 r2] eqn:Eadd.
    destruct (negb (eres_eqb r2 EOk)) eqn:Er2.
    { apply eres_ok_true in Er2. split; [intros H; inv H; congruence|].
      intros [E [H1 [H2 _]]]. destruct (guest_entries rest rho g1) as [[g'' E''] r'']. inv H1.
      simpl in H2. rewrite Eadd in H2. destruct (negb (eres_eqb r2 EOk)) eqn:E2.
      - inv H2. congruence.
      - apply eres_ok_false in E2. congruence. }
    rewrite IH. split.
    + intros [E [H1 [H2 H3]]]. exists ((st, parent_for g1 (rho_apply rho n)) :: E). rewrite H1.
      split; [reflexivity|]. split.
      * simpl. rewrite Eadd, Er2. exact H2.
      * rewrite H3, <- app_assoc. reflexivity.
    + intros [E [H1 [H2 H3]]]. destruct (guest_entries rest rho g1) as [[g'' E''] r''] eqn:Eg. inv H1.
      exists E''. split; [reflexivity|]. simpl in H2. rewrite Eadd, Er2 in H2. split; [exact H2|].
      rewrite <- app_assoc. reflexivity.
Qed.

(* the part of soundness that survives in the intermediate hosts (their `initial`s dangle until the children arrive) *)
Definition aligned (h : chart) : Prop :=
  (forall n, lookup n (c_parent h) <> None -> has_state h n = true) /\
  (forall n, olookup (Some n) (c_children h) <> None <-> has_state h n = true).

Lemma sound_aligned : forall h, sound h -> aligned h.
Proof. intros h HS. split; [intros n; apply (sd_pkeys h HS)|intros n; apply (sd_ckeys h HS)]. Qed.

Lemma oset_fresh : forall {V} k (v : V) d, olookup k d = None -> oset k v d = d ++ [(k, v)].
Proof.
  intros V k v d; induction d as [|[k0 v0] d IH]; simpl; [reflexivity|].
  destruct (oeqbP k k0); [discriminate|]. intros H; rewrite IH; auto.
Qed.

Definition e_par_is (k : option name) (e : entry) : bool := opt_eqb str_eqb (snd e) k.
Definition kids_of (E : list entry) (k : option name) : list name :=
  map e_name (filter (e_par_is k) E).

Definition is_new (E : list entry) (k : option name) : bool :=
  existsb (fun e => opt_eqb str_eqb k (Some (e_name e))) E.

Record host_ext (h : chart) (E : list entry) (h' : chart) : Prop := mkHostExt {
  he_name : c_name h' = c_name h;
  he_desc : c_description h' = c_description h;
  he_pre : c_preamble h' = c_preamble h;
  he_trans : c_transitions h' = c_transitions h;
  he_states : c_states h' = c_states h ++ map (fun e => (e_name e, fst e)) E;
  he_parent : c_parent h' = c_parent h ++ map (fun e => (e_name e, snd e)) E;
  he_ckeys : map fst (c_children h') = map fst (c_children h) ++ map (fun e => Some (e_name e)) E;
  he_children : forall k, olookup k (c_children h') =
      match olookup k (c_children h) with
      | Some l => Some (l ++ kids_of E k)
      | None => if is_new E k then Some (kids_of E k) else None
      end
}.

Lemma host_ext_nil : forall h, host_ext h [] h.
Proof.
  intros h. constructor; simpl; rewrite ?app_nil_r; try reflexivity.
  intros k. unfold kids_of. simpl. destruct (olookup k (c_children h)); [rewrite app_nil_r|]; reflexivity.
Qed.

(* one add_state on an aligned host *)
Lemma add_state_aligned : forall h st p h',
  aligned h -> add_state h st p = (h', EOk) ->
  host_ext h [(st, p)] h' /\ aligned h' /\ has_state h (s_name st) = false /\
  olookup p (c_children h') <> None.
Proof.
  intros h st p h' [A1 A2] H.
  destruct (add_state_inv _ _ _ _ _ H (or_introl eq_refl)) as [Hfresh [_ Hreg]].
  set (nm := s_name st) in *.
  assert (Hp0 : lookup nm (c_parent h) = None).
  { destruct (lookup nm (c_parent h)) eqn:E; [|reflexivity]. rewrite A1 in Hfresh by congruence. discriminate. }
  assert (Hc0 : olookup (Some nm) (c_children h) = None).
  { destruct (olookup (Some nm) (c_children h)) eqn:E; [|reflexivity].
    assert (X : has_state h nm = true) by (apply A2; congruence). congruence. }
  rewrite (oset_fresh _ _ _ Hc0) in Hreg.
  destruct (olookup p (c_children h ++ [(Some nm, [])])) as [l|] eqn:El; [|discriminate].
  destruct Hreg as [-> _].
  assert (Ech : forall k, olookup k (oset p (l ++ [nm]) (oset (Some nm) [] (c_children h))) =
                          if opt_eqb str_eqb k p then Some (l ++ [nm])
                          else if opt_eqb str_eqb k (Some nm) then Some [] else olookup k (c_children h)).
  { intros k. rewrite !olookup_oset. reflexivity. }
  assert (El' : l = match olookup p (c_children h) with Some l0 => l0 | None => [] end /\
                (olookup p (c_children h) = None -> p = Some nm)).
  { rewrite <- (oset_fresh _ ([] : list name) _ Hc0), olookup_oset in El.
    destruct (oeqbP p (Some nm)) as [->|Hn].
    - rewrite Hc0. inv El. auto.
    - rewrite El. split; [reflexivity|discriminate]. }
  destruct El' as [El1 El2].
  split; [|split; [|split]].
  - constructor; unfold register_chart; cbn [c_name c_description c_preamble c_transitions c_states c_parent c_children];
      try reflexivity.
    + simpl. apply dset_fresh. apply has_state_false. exact Hfresh.
    + simpl. apply dset_fresh. exact Hp0.
    + simpl. rewrite okeys_oset_in.
      * rewrite (oset_fresh _ _ _ Hc0), map_app. reflexivity.
      * rewrite (oset_fresh _ _ _ Hc0). congruence.
    + intros k. rewrite Ech. unfold kids_of, is_new, e_par_is. cbn [filter existsb snd map]. fold nm.
      change (e_name (st, p)) with nm.
      destruct (oeqbP k p) as [->|Hkp].
      * rewrite oeqb_refl. cbn [map]. change (e_name (st, p)) with nm.
        destruct (olookup p (c_children h)) as [l0|] eqn:E0.
        -- subst l. reflexivity.
        -- rewrite (El2 eq_refl), oeqb_refl. subst l. reflexivity.
      * destruct (oeqbP p k); [congruence|]. cbn [map]. rewrite orb_false_r.
        destruct (oeqbP k (Some nm)) as [->|Hkn].
        -- rewrite Hc0. reflexivity.
        -- destruct (olookup k (c_children h)); [rewrite app_nil_r|]; reflexivity.
  - split.
    + intros n. unfold register_chart. cbn [c_parent]. rewrite has_state_mk, !lookup_dset. fold nm.
      destruct (seqbP n nm); [reflexivity|]. intros Hn. apply A1 in Hn. unfold has_state in Hn. exact Hn.
    + intros n. unfold register_chart. cbn [c_children]. rewrite has_state_mk, Ech, lookup_dset. fold nm.
      destruct (seqbP n nm) as [->|Hn].
      * split; [reflexivity|]. intros _. destruct (opt_eqb str_eqb (Some nm) p); [discriminate|].
        rewrite oeqb_refl. discriminate.
      * destruct (oeqbP (Some n) p) as [<-|Hnp].
        -- split; [|discriminate]. intros _.
           destruct (olookup (Some n) (c_children h)) eqn:E0.
           ++ assert (X : has_state h n = true) by (apply A2; congruence). exact X.
           ++ specialize (El2 eq_refl). congruence.
        -- destruct (oeqbP (Some n) (Some nm)); [congruence|]. rewrite A2. unfold has_state. tauto.
  - exact Hfresh.
  - unfold register_chart. cbn [c_children]. rewrite Ech, oeqb_refl. discriminate.
Qed.

Lemma kids_of_cons : forall e E k,
  kids_of (e :: E) k = (if e_par_is k e then [e_name e] else []) ++ kids_of E k.
Proof. intros e E k. unfold kids_of. cbn [filter]. destruct (e_par_is k e); reflexivity. Qed.

Lemma host_ext_cons : forall h e h1 E h',
  host_ext h [e] h1 -> olookup (snd e) (c_children h1) <> None -> host_ext h1 E h' -> host_ext h (e :: E) h'.
Proof.
  intros h e h1 E h' H1 Hpk H2. destruct H1, H2. constructor; try congruence.
  - rewrite he_states1, he_states0, <- app_assoc. reflexivity.
  - rewrite he_parent1, he_parent0, <- app_assoc. reflexivity.
  - rewrite he_ckeys1, he_ckeys0, <- app_assoc. reflexivity.
  - intros k. rewrite he_children1, he_children0.
    assert (K1 : kids_of [e] k = if e_par_is k e then [e_name e] else []).
    { unfold kids_of. cbn [filter]. destruct (e_par_is k e); reflexivity. }
    assert (N1 : is_new [e] k = opt_eqb str_eqb k (Some (e_name e))).
    { unfold is_new. cbn [existsb]. apply orb_false_r. }
    assert (N2 : is_new (e :: E) k = opt_eqb str_eqb k (Some (e_name e)) || is_new E k) by reflexivity.
    rewrite K1, N1, N2, kids_of_cons.
    destruct (olookup k (c_children h)) as [l|] eqn:Ek0.
    + rewrite <- app_assoc. reflexivity.
    + destruct (opt_eqb str_eqb k (Some (e_name e))) eqn:Ek; cbn [orb]; [reflexivity|].
      destruct (e_par_is k e) eqn:Ep; [|reflexivity]. exfalso. apply Hpk.
      unfold e_par_is in Ep. apply oeqb_eq in Ep. rewrite Ep, he_children0, Ek0, N1. reflexivity.
Qed.

(* goal 2, host side: what the successful add_state calls do *)
Lemma add_entries_spec : forall E h h',
  aligned h -> add_entries h E = (h', EOk) ->
  host_ext h E h' /\ aligned h' /\
  (forall e, In e E -> olookup (snd e) (c_children h') <> None).
Proof.
  induction E as [|e E IH]; intros h h' HA H; simpl in H.
  - inv H. split; [apply host_ext_nil|]. split; [exact HA|intros e []].
  - destruct (add_state h (fst e) (snd e)) as [h1 r] eqn:Eadd.
    destruct (negb (eres_eqb r EOk)) eqn:Er; [apply eres_ok_true in Er; inv H; congruence|].
    apply eres_ok_false in Er. subst r.
    destruct (add_state_aligned _ _ _ _ HA Eadd) as [H1 [H2 [H3 H4]]].
    destruct (IH _ _ H2 H) as [H5 [H6 H7]].
    split; [|split; [exact H6|]].
    + eapply host_ext_cons; [|exact H4|exact H5]. destruct e; exact H1.
    + intros e' [<-|Hin]; [|apply H7; exact Hin].
      rewrite (he_children _ _ _ H5). destruct (olookup (snd e) (c_children h1)); [discriminate|congruence].
Qed.

(* sufficient conditions for every add_state to succeed, in terms of the host's state dictionary alone *)
Fixpoint entries_ok (S : list (name * state)) (E : list entry) : Prop :=
  match E with
  | [] => True
  | e :: E' =>
      lookup (e_name e) S = None /\
      (exists q ps, snd e = Some q /\ q <> "" /\ lookup q S = Some ps /\
                    is_composite (s_kind ps) = true /\
                    (is_history (s_kind (fst e)) = true -> s_kind ps = KCompound)) /\
      entries_ok (S ++ [(e_name e, fst e)]) E'
  end.

Lemma add_state_ok_cond : forall h st q ps,
  aligned h -> lookup (s_name st) (c_states h) = None -> q <> "" ->
  lookup q (c_states h) = Some ps -> is_composite (s_kind ps) = true ->
  (is_history (s_kind st) = true -> s_kind ps = KCompound) ->
  exists h', add_state h st (Some q) = (h', EOk).
Proof.
  intros h st q ps [A1 A2] Hfresh Hq Hps Hcomp Hhist. unfold add_state.
  assert (E1 : has_state h (s_name st) = false) by (apply has_state_false; exact Hfresh). rewrite E1.
  assert (E2 : no_parent (Some q) = false).
  { destruct (no_parent (Some q)) eqn:E; [|reflexivity]. apply no_parent_true in E. destruct E as [E|E]; congruence. }
  rewrite E2. unfold state_for. rewrite Hps, Hcomp. cbn [negb].
  assert (E3 : is_history (s_kind st) && negb (kind_eqb (s_kind ps) KCompound) = false).
  { destruct (is_history (s_kind st)) eqn:E; [|reflexivity]. rewrite (Hhist eq_refl). reflexivity. }
  rewrite E3. cbn [c_children with_children with_parent with_states c_parent c_states].
  rewrite olookup_oset.
  destruct (oeqbP (Some q) (Some (s_name st))) as [E|_]; [inv E; congruence|].
  destruct (olookup (Some q) (c_children h)) as [l|] eqn:El; [eauto|].
  exfalso. assert (X : has_state h q = true) by (unfold has_state; rewrite Hps; reflexivity).
  apply (proj2 (A2 q)) in X. apply X. exact El.
Qed.

Lemma add_entries_ok : forall E h,
  aligned h -> entries_ok (c_states h) E -> exists h', add_entries h E = (h', EOk).
Proof.
  induction E as [|e E IH]; intros h HA HE; simpl; [eauto|].
  destruct HE as [Hfresh [[q [ps [Hp [Hq [Hps [Hc Hh]]]]]] Hrest]].
  destruct (add_state_ok_cond h (fst e) q ps HA Hfresh Hq Hps Hc Hh) as [h1 H1].
  assert (H1' : add_state h (fst e) (snd e) = (h1, EOk)) by (rewrite Hp; exact H1).
  clear H1. rename H1' into H1. rewrite H1. cbn [eres_eqb negb].
  destruct (add_state_aligned _ _ _ _ HA H1) as [H2 [H3 _]].
  apply IH; [exact H3|]. rewrite (he_states _ _ _ H2). exact Hrest.
Qed.

Lemma guest_entries_length : forall names rho g g' E,
  guest_entries names rho g = (g', E, EOk) -> length E = length names.
Proof.
  induction names as [|n rest IH]; intros rho g g' E H; simpl in H.
  - inv H. reflexivity.
  - destruct (rename_state g n (rho_apply rho n)) as [g1 r1].
    destruct (negb (eres_eqb r1 EOk)) eqn:Er; [apply eres_ok_true in Er; inv H; congruence|].
    destruct (state_for g1 (rho_apply rho n)); [|inv H].
    destruct (guest_entries rest rho g1) as [[g'' E''] r''] eqn:Eg. inv H. simpl. f_equal. eapply IH; eauto.
Qed.

(* goal 2: copy_states, when every step succeeds *)
Theorem copy_states_spec : forall names rho g h added g' h' added',
  aligned h ->
  copy_states names rho g h added = (g', h', added', EOk) ->
  added' = added ++ map (rho_apply rho) names /\
  exists E, guest_entries names rho g = (g', E, EOk) /\ length E = length names /\
            host_ext h E h' /\ aligned h'.
Proof.
  intros names rho g h added g' h' added' HA H.
  apply copy_states_decompose in H. destruct H as [E [H1 [H2 H3]]].
  split; [exact H3|]. exists E. split; [exact H1|].
  destruct (add_entries_spec _ _ _ HA H2) as [H4 [H5 _]]. split; [|split; assumption].
  eapply guest_entries_length; eauto.
Qed.

(* ... and sufficient conditions for every step to succeed *)
Theorem copy_states_ok : forall names rho g h added g' E,
  aligned h ->
  guest_entries names rho g = (g', E, EOk) -> entries_ok (c_states h) E ->
  exists h', copy_states names rho g h added = (g', h', added ++ map (rho_apply rho) names, EOk).
Proof.
  intros names rho g h added g' E HA H1 H2.
  destruct (add_entries_ok E h HA H2) as [h' H3]. exists h'.
  apply copy_states_decompose. exists E. auto.
Qed.

(* ================================================================== 4. images of a chart under a renaming (guest side) *)
Lemma map_state_ext : forall r r' s, (forall x, r x = r' x) -> map_state r s = map_state r' s.
Proof.
  intros r r' [nm k i m en ex pre post iv] H. unfold map_state. simpl. rewrite (H nm).
  destruct i as [i|], m as [m|]; simpl; rewrite ?H; reflexivity.
Qed.

Lemma map_state_id : forall s, map_state (fun x => x) s = s.
Proof. intros [nm k [i|] [m|] en ex pre post iv]; reflexivity. Qed.

Lemma map_state_comp : forall r1 r2 s, map_state r2 (map_state r1 s) = map_state (fun x => r2 (r1 x)) s.
Proof. intros r1 r2 [nm k [i|] [m|] en ex pre post iv]; reflexivity. Qed.

Lemma map_trans_ext : forall r r' t, (forall x, r x = r' x) -> map_trans r t = map_trans r' t.
Proof.
  intros r r' [src [tg|] ev g a p pre post iv] H; unfold map_trans; simpl; rewrite ?H; reflexivity.
Qed.

Lemma map_trans_id : forall t, map_trans (fun x => x) t = t.
Proof. intros [src [tg|] ev g a p pre post iv]; reflexivity. Qed.

Lemma map_trans_comp : forall r1 r2 t, map_trans r2 (map_trans r1 t) = map_trans (fun x => r2 (r1 x)) t.
Proof. intros r1 r2 [src [tg|] ev g a p pre post iv]; reflexivity. Qed.

Lemma option_map_ext' : forall {A B} (f g : A -> B) o, (forall x, f x = g x) -> option_map f o = option_map g o.
Proof. intros A B f g [x|] H; simpl; [rewrite H|]; reflexivity. Qed.

(* c' is the image of c under r, as far as lookups go (the orders of the dictionaries and of the children
   lists are not part of it) *)
Record img (r : name -> name) (c c' : chart) : Prop := mkImg {
  im_has : forall x, has_state c' x = true <-> exists k, has_state c k = true /\ x = r k;
  im_states : forall k s, lookup k (c_states c) = Some s -> lookup (r k) (c_states c') = Some (map_state r s);
  im_parent : forall k p, lookup k (c_parent c) = Some p -> lookup (r k) (c_parent c') = Some (option_map r p);
  im_trans : c_transitions c' = map (map_trans r) (c_transitions c);
  im_inj : forall a b, has_state c a = true -> has_state c b = true -> r a = r b -> a = b;
  im_len : length (c_states c') = length (c_states c)
}.

Lemma img_id : forall c, img (fun x => x) c c.
Proof.
  intros c. constructor; try reflexivity.
  - intros x. split; [eauto|]. intros [k [H ->]]. exact H.
  - intros k s H. rewrite map_state_id. exact H.
  - intros k [p|] H; exact H.
  - symmetry. apply map_id_in. intros t _. apply map_trans_id.
  - auto.
Qed.

Lemma img_ext : forall r r' c c', (forall x, r x = r' x) -> img r c c' -> img r' c c'.
Proof.
  intros r r' c c' E [H1 H2 H3 H4 H5 H6]. constructor; [| | | | |exact H6].
  - intros x. rewrite H1. split; intros [k [Ha Hb]]; exists k; (split; [exact Ha|]); congruence.
  - intros k s H. rewrite <- E, <- (map_state_ext r r' s E). apply H2; exact H.
  - intros k p H. rewrite <- E, <- (option_map_ext' r r' p E). apply H3; exact H.
  - rewrite H4. apply map_ext. intros t. apply map_trans_ext; exact E.
  - intros a b Ha Hb Hr. rewrite <- !E in Hr. apply H5; assumption.
Qed.

Lemma img_comp : forall r1 r2 c0 c c', img r1 c0 c -> img r2 c c' -> img (fun x => r2 (r1 x)) c0 c'.
Proof.
  intros r1 r2 c0 c c' [A1 A2 A3 A4 A5 A6] [B1 B2 B3 B4 B5 B6]. constructor.
  - intros x. rewrite B1. split.
    + intros [k [Hk ->]]. apply A1 in Hk. destruct Hk as [k0 [Hk0 ->]]. eauto.
    + intros [k0 [Hk0 ->]]. exists (r1 k0). split; [|reflexivity]. apply A1. eauto.
  - intros k s H. rewrite <- map_state_comp. apply B2, A2; exact H.
  - intros k p H. rewrite (B3 _ _ (A3 _ _ H)). f_equal. destruct p; reflexivity.
  - rewrite B4, A4, map_map. apply map_ext. intros t. apply map_trans_comp.
  - intros a b Ha Hb Hr. apply A5; [assumption|assumption|]. apply B5; [| |exact Hr]; apply A1; eauto.
  - congruence.
Qed.

Lemma length_dset_fresh : forall {V} k (v : V) d, lookup k d = None -> length (dset k v d) = S (length d).
Proof. intros V k v d H. rewrite (dset_fresh _ _ _ H), app_length. simpl. lia. Qed.

(* one successful rename_state *)
Lemma img_rename : forall c old new c',
  sound c -> fields_ok c -> rename_state c old new = (c', EOk) -> img (ren old new) c c'.
Proof.
  intros c old new c' HS HF H.
  destruct (rename_state_result _ _ _ _ _ HS H)
    as [[-> [E|[_ ->]]]|[_ [Hne [Hnew [st [po [l [lo [Hst [Hpo [Hpo1 [Hpo2 [Hl [Hcnt [Hlo ->]]]]]]]]]]]]]]].
  - discriminate.
  - eapply img_ext; [|apply img_id]. intros x. symmetry. apply ren_refl.
  - pose proof (rnd_states c old new st po l lo HS) as RS.
    pose proof (rnd_has_state c old new st po l lo HS) as RH.
    constructor.
    + intros x. rewrite RH. split.
      * destruct (seqbP x new) as [->|Hx].
        -- intros _. exists old. split; [unfold has_state; rewrite Hst; reflexivity|symmetry; apply ren_old].
        -- destruct (seqbP x old) as [->|Hx2]; simpl; [discriminate|]. intros Hs. exists x.
           split; [exact Hs|symmetry; apply ren_id; exact Hx2].
      * intros [k [Hk ->]]. unfold ren. destruct (seqbP k old) as [->|Hk2].
        -- rewrite seqb_refl. reflexivity.
        -- destruct (seqbP k old); [congruence|]. rewrite Hk. simpl. apply orb_true_r.
    + intros k s Hk. rewrite RS.
      destruct (HF _ _ Hk) as [F1 F2].
      rewrite (map_state_rename_refs old new k s F1 F2 (sd_keyname c HS _ _ Hk)).
      unfold ren. destruct (seqbP k old) as [->|Hk2].
      * rewrite seqb_refl. assert (s = st) by congruence. subst s. reflexivity.
      * assert (Hkn : k <> new).
        { intros ->. unfold has_state in Hnew. rewrite Hk in Hnew. discriminate. }
        destruct (seqbP k new); [congruence|]. destruct (seqbP k old); [congruence|]. rewrite Hk. reflexivity.
    + intros k p Hk. apply (rnd_parent_r c old new st po l lo HS Hnew Hpo Hpo1 Hpo2 Hl _ _ Hk).
    + unfold renamed. cbn [c_transitions]. apply map_ext. apply rn_trans_map.
    + intros a b Ha Hb. apply (rnd_r_inj c old new Hnew); assumption.
    + destruct (C17_structure c old new _ HS HF Hne H) as [_ [_ [_ [_ [_ [_ [_ [_ [_ [Hk _]]]]]]]]]].
      rewrite <- (map_length fst (c_states (renamed c old new st po l lo))), Hk, app_length. simpl.
      rewrite <- (map_length fst (c_states c)).
      assert (Hin : In old (map fst (c_states c))).
      { apply has_state_In. unfold has_state; rewrite Hst; reflexivity. }
      pose proof (remove_first_length old _ Hin). lia.
Qed.

(* ================================================================== 5. breadth-first order *)
(* children lists after one rename_state: the renamed child goes to the end of its parent's list *)
Lemma rename_children_for : forall c old new c',
  sound c -> old <> new -> rename_state c old new = (c', EOk) ->
  forall k, has_state c k = true ->
    children_for c' (ren old new k) =
    if ostr_eqb (parent_for c old) (Some k) then remove_first old (children_for c k) ++ [new]
    else children_for c k.
Proof.
  intros c old new c' HS Hne H k Hk.
  destruct (rename_state_result _ _ _ _ _ HS H)
    as [[_ [E|[_ E]]]|[_ [_ [Hnew [st [po [l [lo [Hst [Hpo [Hpo1 [Hpo2 [Hl [Hcnt [Hlo ->]]]]]]]]]]]]]]];
    [discriminate|congruence|].
  unfold children_for at 1. rewrite (rnd_children c old new st po l lo HS).
  rewrite (parent_for_lookup _ _ _ Hpo). unfold ren.
  destruct (seqbP k old) as [->|Hko].
  - rewrite oeqb_refl. destruct (ostr_eqb po (Some old)) eqn:E; [apply ostr_eqb_eq in E; congruence|].
    symmetry. apply children_for_lookup. exact Hlo.
  - assert (Hkn : k <> new) by (intros ->; congruence).
    destruct (oeqbP (Some k) (Some new)) as [E|_]; [congruence|].
    destruct (oeqbP (Some k) (Some old)) as [E|_]; [congruence|].
    unfold ostr_eqb. destruct (oeqbP (Some k) po) as [E|E].
    + destruct (oeqbP po (Some k)); [|congruence]. rewrite <- E in Hl.
      rewrite (children_for_lookup _ _ _ Hl). reflexivity.
    + destruct (oeqbP po (Some k)); [congruence|]. reflexivity.
Qed.

Lemma bfs_map : forall (r : name -> name) c c' (P : name -> Prop),
  (forall x, P x -> children_for c' (r x) = map r (children_for c x)) ->
  (forall x, P x -> forall y, In y (children_for c x) -> P y) ->
  forall f q, (forall x, In x q -> P x) -> bfs c' f (map r q) = map r (bfs c f q).
Proof.
  intros r c c' P Hch Hcl f; induction f as [|f IH]; intros q Hq; [reflexivity|].
  destruct q as [|n q]; [reflexivity|]. simpl.
  rewrite (Hch n) by (apply Hq; left; reflexivity). rewrite map_app, <- map_app. f_equal.
  apply IH. intros x Hx. apply in_app_or in Hx. destruct Hx as [Hx|Hx]; [apply Hq; right; exact Hx|].
  apply (Hcl n); [apply Hq; left; reflexivity|exact Hx].
Qed.

(* every element of the BFS output has its parent in the queue or earlier in the output *)
Fixpoint parents_before (c : chart) (seen out : list name) : Prop :=
  match out with
  | [] => True
  | y :: out' => (exists p, lookup y (c_parent c) = Some (Some p) /\ In p seen) /\
                 parents_before c (seen ++ [y]) out'
  end.

Lemma parents_before_incl : forall c out seen seen',
  incl seen seen' -> parents_before c seen out -> parents_before c seen' out.
Proof.
  intros c out; induction out as [|y out IH]; intros seen seen' Hi H; simpl in *; [exact I|].
  destruct H as [[p [H1 H2]] H3]. split; [exists p; auto|].
  eapply IH; [|exact H3]. intros x Hx. apply in_app_or in Hx. apply in_or_app. destruct Hx; auto.
Qed.

Lemma parents_before_app : forall c A B seen,
  parents_before c seen A -> parents_before c (seen ++ A) B -> parents_before c seen (A ++ B).
Proof.
  intros c A; induction A as [|y A IH]; intros B seen HA HB; simpl in *.
  - rewrite app_nil_r in HB. exact HB.
  - destruct HA as [H1 H2]. split; [exact H1|]. apply IH; [exact H2|]. rewrite <- app_assoc. exact HB.
Qed.

Lemma parents_before_all : forall c out seen,
  (forall y, In y out -> exists p, lookup y (c_parent c) = Some (Some p) /\ In p seen) ->
  parents_before c seen out.
Proof.
  intros c out; induction out as [|y out IH]; intros seen H; simpl; [exact I|].
  split; [apply H; left; reflexivity|]. apply IH. intros z Hz.
  destruct (H z (or_intror Hz)) as [p [H1 H2]]. exists p. split; [exact H1|apply in_or_app; left; exact H2].
Qed.

Lemma bfs_parents_before : forall c, sound c -> forall f q, parents_before c q (bfs c f q).
Proof.
  intros c HS f; induction f as [|f IH]; intros q; [exact I|].
  destruct q as [|n q]; [exact I|]. rewrite bfs_S. apply parents_before_app.
  - apply parents_before_all. intros y Hy. exists n. split; [|left; reflexivity].
    apply sound_child_parent; assumption.
  - eapply parents_before_incl; [|apply IH]. intros x Hx. apply in_app_or in Hx. simpl.
    destruct Hx as [Hx|Hx]; [right; apply in_or_app; left; exact Hx|right; apply in_or_app; right; exact Hx].
Qed.

(* the nodes BFS takes out of its queue *)
Fixpoint deq (c : chart) (fuel : nat) (queue : list name) : list name :=
  match fuel, queue with
  | S f, n :: q => n :: deq c f (q ++ children_for c n)
  | _, _ => []
  end.

Lemma deq_incl : forall c f q x, In x (deq c f q) -> In x (q ++ bfs c f q).
Proof.
  intros c f; induction f as [|f IH]; intros q x H; [destruct H|].
  destruct q as [|n q]; [destruct H|]. simpl in H. rewrite bfs_S. destruct H as [<-|H]; [left; reflexivity|].
  right. apply IH in H. rewrite <- app_assoc in H. exact H.
Qed.

Definition child_of (c : chart) (k : name) (m : name) : bool := ostr_eqb (parent_for c m) (Some k).

Lemma filter_child_of_children : forall c, sound c -> forall n k,
  filter (child_of c k) (children_for c n) = if str_eqb n k then children_for c n else [].
Proof.
  intros c HS n k.
  assert (H : forall l, (forall y, In y l -> lookup y (c_parent c) = Some (Some n)) ->
                        filter (child_of c k) l = if str_eqb n k then l else []).
  { induction l as [|y l IH]; intros Hl; simpl; [destruct (str_eqb n k); reflexivity|].
    unfold child_of at 1. rewrite (parent_for_lookup _ _ _ (Hl y (or_introl eq_refl))).
    rewrite IH by (intros z Hz; apply Hl; right; exact Hz).
    unfold ostr_eqb. simpl. destruct (str_eqb n k); reflexivity. }
  apply H. intros y Hy. apply sound_child_parent; assumption.
Qed.

Lemma bfs_filter_child_of : forall c, sound c -> forall k f q,
  NoDup (q ++ bfs c f q) ->
  filter (child_of c k) (bfs c f q) = if mem k (deq c f q) then children_for c k else [].
Proof.
  intros c HS k f; induction f as [|f IH]; intros q Hnd; [reflexivity|].
  destruct q as [|n q]; [reflexivity|]. rewrite bfs_S in *. cbn [deq mem].
  rewrite filter_app, (filter_child_of_children c HS).
  assert (Hnd' : NoDup ((q ++ children_for c n) ++ bfs c f (q ++ children_for c n))).
  { rewrite <- app_assoc. simpl in Hnd. inv Hnd. assumption. }
  rewrite (IH _ Hnd'). rewrite (seqb_sym k n).
  destruct (seqbP n k) as [->|Hn]; simpl; [|reflexivity].
  assert (E : mem k (deq c f (q ++ children_for c k)) = false).
  { apply mem_false_iff. intros Hin. apply deq_incl in Hin. rewrite <- app_assoc in Hin.
    simpl in Hnd. inv Hnd. auto. }
  rewrite E, app_nil_r. reflexivity.
Qed.

(* restricted to the children of one node of the subtree, the BFS order is that node's children list *)
Theorem descendants_filter_children : forall c, sound c -> forall n k,
  k = n \/ In k (descendants_for c n) ->
  filter (child_of c k) (descendants_for c n) = children_for c k.
Proof.
  intros c HS n k Hk. unfold descendants_for.
  assert (Hac : antichain c [n]).
  { split; [constructor; [intros []|constructor]|].
    intros a b [<-|[]] [<-|[]]. apply sound_anc_irrefl; assumption. }
  pose proof (bfs_NoDup c HS (S (length (c_states c))) [n] Hac) as Hnd.
  rewrite (bfs_filter_child_of c HS k _ _ Hnd).
  destruct (mem k (deq c (S (length (c_states c))) [n])) eqn:E; [reflexivity|].
  destruct (children_for c k) as [|x l] eqn:Ech; [reflexivity|]. exfalso.
  assert (Hx : In x (children_for c k)) by (rewrite Ech; left; reflexivity).
  pose proof (sound_child_parent c HS _ _ Hx) as Hp.
  assert (Hd : In x (descendants_for c n)).
  { apply (descendants_for_spec c HS). destruct Hk as [->|Hk].
    - apply anc_parent. exact Hp.
    - eapply anc_step; [exact Hp|]. apply (descendants_for_spec c HS). exact Hk. }
  assert (Hf : In x (filter (child_of c k) (descendants_for c n))).
  { apply filter_In. split; [exact Hd|]. unfold child_of. rewrite (parent_for_lookup _ _ _ Hp). apply oeqb_refl. }
  unfold descendants_for in Hf. rewrite (bfs_filter_child_of c HS k _ _ Hnd), E in Hf. destruct Hf.
Qed.

Lemma descendants_parents_before : forall c, sound c -> forall n,
  parents_before c [n] (descendants_for c n).
Proof. intros c HS n. apply bfs_parents_before. exact HS. Qed.
