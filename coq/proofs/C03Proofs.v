(* C03Proofs.v -- property C03, the ORDER part:
   "Each fired transition is processed atomically: active states inside its scope are exited
    innermost-first, then the transition action runs, then the target path is entered outermost-first,
    then default children are entered until stable, and only then does the next transition start;
    transitions of one macro step run by decreasing source depth, ties by source name, orthogonal
    siblings are entered/exited in name order."
   (The last sentence of C03 -- the trace and the configuration are what the MacroStep says -- is
    TraceProofs.C03_trace_truth / C03_config_truth / C03_macro_config.)

   HEADER TO BE COMPLETED AT THE END. *)
From Coq Require Import String List Bool ZArith Sorted Permutation Lia.
From Sismic Require Import Base Chart Interp Spec.
From SismicProofs Require C04Proofs C06Proofs.
From SismicProofs Require Import SortLib FrameLib C01Proofs C02Proofs.
Import ListNotations.
Open Scope list_scope.

(* ================================================================== generic list / order facts *)
Lemma zn_leb_iff (a b : Z * name) :
  zn_leb a b = true <-> (fst a < fst b)%Z \/ (fst a = fst b /\ str_leb (snd a) (snd b) = true).
Proof.
  unfold zn_leb. rewrite orb_true_iff, andb_true_iff, Z.ltb_lt, Z.eqb_eq. tauto.
Qed.

Lemma zn_leb_total (a b : Z * name) : zn_leb a b = true \/ zn_leb b a = true.
Proof.
  rewrite !zn_leb_iff. destruct (Z.lt_total (fst a) (fst b)) as [H|[H|H]]; auto.
  destruct (str_leb_total (snd a) (snd b)) as [L|L]; [left|right]; right; split; auto.
Qed.

Lemma zn_leb_trans (a b c : Z * name) : zn_leb a b = true -> zn_leb b c = true -> zn_leb a c = true.
Proof.
  rewrite !zn_leb_iff. intros [H1|[H1 L1]] [H2|[H2 L2]]; try (left; lia).
  right. split; [lia|]. eapply str_leb_trans; eauto.
Qed.

Lemma str_leb_neq_ltb (a b : name) : str_leb a b = true -> a <> b -> str_ltb a b = true.
Proof.
  unfold str_leb, str_ltb, String.leb, String.ltb. intros H Hne.
  destruct (String.compare a b) eqn:E; try reflexivity; try discriminate.
  apply String.compare_eq_iff in E. contradiction.
Qed.

Lemma str_ltb_irrefl (a : name) : str_ltb a a = false.
Proof. unfold str_ltb, String.ltb. rewrite string_compare_refl. reflexivity. Qed.

Lemma NoDup_app_intro {A} (l1 l2 : list A) :
  NoDup l1 -> NoDup l2 -> (forall x, In x l1 -> In x l2 -> False) -> NoDup (l1 ++ l2).
Proof.
  induction l1 as [|a l1 IH]; simpl; intros H1 H2 Hd; [exact H2|].
  inversion H1 as [|? ? Ha Hl]; subst. constructor.
  - rewrite in_app_iff. intros [H|H]; [contradiction|]. apply (Hd a); [left; reflexivity|exact H].
  - apply IH; [exact Hl|exact H2|]. intros x Hx1 Hx2. apply (Hd x); [right; exact Hx1|exact Hx2].
Qed.

Lemma StronglySorted_filter {A} (R : A -> A -> Prop) (f : A -> bool) (l : list A) :
  StronglySorted R l -> StronglySorted R (filter f l).
Proof.
  intros H. induction H as [|x l Hs IH Hall]; simpl; [constructor|].
  destruct (f x); [|exact IH]. constructor; [exact IH|].
  rewrite Forall_forall in *. intros y Hy. apply filter_In in Hy. apply Hall, Hy.
Qed.

Lemma StronglySorted_snoc {A} (R : A -> A -> Prop) (l : list A) (z : A) :
  StronglySorted R l -> Forall (fun x => R x z) l -> StronglySorted R (l ++ [z]).
Proof.
  intros H. induction H as [|x l Hs IH Hall]; simpl; intros Hz.
  - constructor; constructor.
  - inversion Hz as [|? ? Hxz Hlz]; subst. constructor; [apply IH, Hlz|].
    rewrite Forall_forall in *. intros y Hy. apply in_app_or in Hy. destruct Hy as [Hy|[<-|[]]]; auto.
Qed.

(* in a strongly sorted list an element is related to everything after it *)
Lemma StronglySorted_split {A} (R : A -> A -> Prop) (l1 : list A) (a : A) (l2 : list A) :
  StronglySorted R (l1 ++ a :: l2) -> Forall (R a) l2.
Proof.
  induction l1 as [|x l1 IH]; simpl; intros H; inversion H; subst; auto.
Qed.

Lemma filter_true_id {A} (f : A -> bool) (l : list A) :
  (forall x, In x l -> f x = true) -> filter f l = l.
Proof.
  induction l as [|x l IH]; simpl; intros H; [reflexivity|].
  rewrite (H x (or_introl eq_refl)). f_equal. apply IH. intros y Hy. apply H. right; exact Hy.
Qed.

Section C03.
  Variable ctx : Type.
  Variable X : Type.
  Variable exec_code : call ctx -> ctx -> option (ctx * list event).
  Variable eval_code : call ctx -> ctx -> option bool.
  Variable emit : Z -> meta -> X -> X * option err.
  Variable sc : chart.

  Notation ist := (istate ctx).
  Notation mst := (mstate ctx X).
  Local Notation bind := (Interp.bind ctx X).
  Local Notation ret := (Interp.ret ctx X).
  Local Notation get := (Interp.get ctx X).
  Local Notation put := (Interp.put ctx X).
  Local Notation select_transitions := (Interp.select_transitions ctx X eval_code sc).
  Local Notation sort_transitions := (Interp.sort_transitions ctx X sc).
  Local Notation compute_steps := (Interp.compute_steps ctx X eval_code sc).
  Local Notation apply_step := (Interp.apply_step ctx X exec_code eval_code emit sc).
  Local Notation stabilize := (Interp.stabilize ctx X exec_code eval_code emit sc).
  Local Notation run_steps := (Interp.run_steps ctx X exec_code eval_code emit sc).
  Local Notation execute_once := (Interp.execute_once ctx X exec_code eval_code emit sc).
  Local Notation css := (create_stabilization_step ctx sc).
  Notation anc := (ancestors_for sc).
  Notation desc := (descendants_for sc).
  Notation par := (parent_for sc).
  Notation kids := (children_for sc).
  Notation depth := (depth_for sc).
  Notation src := (fun it : itrans => t_source (snd it)).

  (* ================================================================ 1. C03_atomic *)
  (* "default children are entered until stable": every step is the one computed by
     _create_stabilization_step in the state reached so far; the run ends when none is due *)
  Inductive stab_run : mst -> list microstep -> mst -> Prop :=
  | sr_done s : css (m_i s) = None -> stab_run s [] s
  | sr_step s step s1 a l s2 :
      css (m_i s) = Some (inl step) ->
      apply_step step s = (s1, inl a) ->
      stab_run s1 l s2 ->
      stab_run s (a :: l) s2.

  (* planned micro steps executed one after the other, each followed by a complete stabilisation *)
  Inductive blocks_run : mst -> list microstep -> list microstep -> mst -> Prop :=
  | br_nil s : blocks_run s [] [] s
  | br_cons s p ps s1 a stab s2 rest s3 :
      apply_step p s = (s1, inl a) ->
      stab_run s1 stab s2 ->
      blocks_run s2 ps rest s3 ->
      blocks_run s (p :: ps) (a :: stab ++ rest) s3.

  (* the same for the transitions t1 .. tk of a macro step.  cfg/ev are the configuration and the
     event with which ALL the steps were created (_create_steps runs before the first _apply_step). *)
  Inductive trans_blocks (cfg : list name) (ev : option event)
    : mst -> list itrans -> list microstep -> mst -> Prop :=
  | tb_nil s : trans_blocks cfg ev s [] [] s
  | tb_cons s it ts s1 a stab s2 rest s3 :
      apply_step (create_step sc cfg ev it) s = (s1, inl a) ->   (* exits, action, entries of it *)
      ms_trans a = Some (fst it) ->
      stab_run s1 stab s2 ->                                     (* default entries until stable *)
      Forall (fun m => ms_trans m = None /\ ms_event m = None) stab ->
      css (m_i s2) = None ->                                     (* stable before the next transition *)
      trans_blocks cfg ev s2 ts rest s3 ->
      trans_blocks cfg ev s (it :: ts) (a :: stab ++ rest) s3.

  (* the shape alone, without the intermediate states *)
  Inductive atomic_shape : list itrans -> list microstep -> Prop :=
  | as_nil : atomic_shape [] []
  | as_cons it ts a stab rest :
      ms_trans a = Some (fst it) ->
      Forall (fun m => ms_trans m = None) stab ->
      atomic_shape ts rest ->
      atomic_shape (it :: ts) (a :: stab ++ rest).

  Lemma stab_run_stops s l s' : stab_run s l s' -> css (m_i s') = None.
  Proof. intros H. induction H; assumption. Qed.

  Lemma stab_run_trans_none s l s' :
    stab_run s l s' -> Forall (fun m => ms_trans m = None /\ ms_event m = None) l.
  Proof.
    intros H. induction H as [s Hc|s step s1 a l s2 Hc Ha Hr IH]; constructor; [|exact IH].
    apply create_stabilization_step_event in Hc. destruct Hc as (E1 & E2 & _).
    apply (apply_step_inv ctx X exec_code eval_code emit sc (fun _ => True)) in Ha.
    destruct Ha as (ent & exi & _ & _ & _ & _ & _ & A1 & A2 & _). split; congruence.
  Qed.

  Lemma stabilize_stab_run fuel : forall s s' l,
    stabilize fuel s = (s', inl l) -> stab_run s l s'.
  Proof.
    induction fuel as [|f IH]; intros s s' l H; simpl in H; [discriminate|].
    rewrite bind_get in H.
    destruct (css (m_i s)) as [[step|e]|] eqn:E.
    - apply bind_ok in H. destruct H as (a & s1 & H1 & H).
      apply bind_ok in H. destruct H as (r & s2 & H2 & H).
      inversion H; subst. eapply sr_step; eauto.
    - discriminate.
    - inversion H; subst. apply sr_done. exact E.
  Qed.

  Lemma run_steps_blocks fuel : forall ps s s' ex,
    run_steps fuel ps s = (s', inl ex) -> blocks_run s ps ex s'.
  Proof.
    induction ps as [|p ps IH]; intros s s' ex H; simpl in H.
    - inversion H; subst. constructor.
    - apply bind_ok in H. destruct H as (a & s1 & H1 & H).
      apply bind_ok in H. destruct H as (ss & s2 & H2 & H).
      apply bind_ok in H. destruct H as (r & s3 & H3 & H).
      inversion H; subst. eapply br_cons; eauto. eapply stabilize_stab_run; eauto.
  Qed.

  Lemma blocks_trans_blocks cfg ev : forall ts s ex s',
    blocks_run s (create_steps sc cfg ev ts) ex s' -> trans_blocks cfg ev s ts ex s'.
  Proof.
    induction ts as [|it ts IH]; intros s ex s' H; simpl in H.
    - inversion H; subst. constructor.
    - inversion H as [|? p ps s1 a stab s2 rest ? Ha Hs Hr]; subst.
      eapply tb_cons; eauto.
      + apply (apply_step_inv ctx X exec_code eval_code emit sc (fun _ => True)) in Ha.
        destruct Ha as (ent & exi & _ & _ & _ & _ & _ & _ & A2 & _).
        rewrite A2. apply create_step_trans.
      + eapply stab_run_trans_none; eauto.
      + eapply stab_run_stops; eauto.
  Qed.

  Lemma trans_blocks_shape cfg ev s ts ex s' :
    trans_blocks cfg ev s ts ex s' -> atomic_shape ts ex.
  Proof.
    intros H. induction H; constructor; auto.
    eapply Forall_impl; [|eassumption]. intros m [Hm _]. exact Hm.
  Qed.

  (* ---- compute_steps, inverted ---- *)
  Lemma sort_transitions_indep ts (s s' : mst) r :
    sort_transitions ts s = (s', r) -> s' = s /\ forall sx : mst, sort_transitions ts sx = (sx, r).
  Proof.
    unfold Interp.sort_transitions. intros H. destruct ts as [|a [|b ts]].
    - inversion H; subst. split; reflexivity.
    - inversion H; subst. split; reflexivity.
    - destruct (check_pairs sc (a :: b :: ts)); inversion H; subst; split; reflexivity.
  Qed.

  (* the event attached to the micro steps of a macro step *)
  Definition step_event (ev : option event) (ts : list itrans) : option event :=
    match ts with
    | it :: _ => match t_event (snd it) with None => None | Some _ => ev end
    | [] => ev
    end.

  Lemma compute_steps_init s s' steps :
    i_initialized (m_i s) = true -> compute_steps s = (s', inl steps) ->
    m_i s' = m_i s /\
    exists s1 sel,
      select_transitions (select_event (m_i s)) (i_config (m_i s)) s = (s1, inl sel) /\
      ((sel = [] /\
        steps = match select_event (m_i s) with
                | None => []
                | Some e => [mkMicro (Some e) None [] [] []]
                end)
       \/ (sel <> [] /\ exists ts,
             (forall sx : mst, sort_transitions sel sx = (sx, inl ts)) /\
             steps = create_steps sc (i_config (m_i s)) (step_event (select_event (m_i s)) ts) ts)).
  Proof.
    intros Hi H. unfold Interp.compute_steps in H. rewrite bind_get in H. rewrite Hi in H.
    simpl negb in H. cbv iota in H.
    apply bind_ok in H. destruct H as (sel & s1 & H1 & H).
    pose proof (select_transitions_footprint _ _ _ _ _ _ _ _ _ H1) as [F1 _].
    apply bind_ok in H. destruct H as (u & s2 & H2 & H).
    unfold Interp.observe in H2. inversion H2; subst s2 u. clear H2.
    destruct sel as [|it sel].
    - assert (m_i s' = m_i s) as E.
      { destruct (select_event (m_i s)); inversion H; subst; simpl; exact F1. }
      split; [exact E|]. exists s1, []. split; [exact H1|]. left. split; [reflexivity|].
      destruct (select_event (m_i s)); inversion H; reflexivity.
    - apply bind_ok in H. destruct H as (ts & s3 & H3 & H).
      apply sort_transitions_indep in H3. destruct H3 as [-> H3].
      rewrite bind_get in H. inversion H; subst s' steps. clear H. simpl.
      split; [exact F1|]. exists s1, (it :: sel). split; [exact H1|]. right. split; [discriminate|].
      exists ts. split; [exact H3|]. rewrite F1. reflexivity.
  Qed.

  Lemma compute_steps_first s s' steps :
    i_initialized (m_i s) = false -> compute_steps s = (s', inl steps) ->
    m_i s' = Interp.set_initialized ctx true (m_i s) /\
    exists r, root sc = Some r /\ steps = [mkMicro None None [r] [] []].
  Proof.
    intros Hi H. unfold Interp.compute_steps in H. rewrite bind_get in H. rewrite Hi in H.
    simpl negb in H. cbv iota in H.
    apply bind_ok in H. destruct H as (u & s1 & H1 & H).
    unfold Interp.put in H1. inversion H1; subst s1 u. clear H1.
    destruct (root sc) as [r|]; [|discriminate]. inversion H; subst. simpl.
    split; [reflexivity|]. exists r. split; reflexivity.
  Qed.

  (* C03_atomic.  An initialised interpreter that performs a macro step with transitions:
     the executed micro steps are  [step t1] ++ stab1 ++ [step t2] ++ stab2 ++ ...  where t1..tk is
     the result of _select_transitions then _sort_transitions, each stab_i is a complete
     stabilisation, and the configuration is stable before the next transition starts. *)
  Theorem C03_atomic fuel now s s' t steps :
    i_initialized (m_i s) = true ->
    execute_once fuel now s = (s', inl (Some (t, steps))) ->
    exists s0 s1 s2 s3 sel,
      let ev := select_event (m_i s0) in
      let cfg := i_config (m_i s) in
      m_i s0 = Interp.set_sent ctx [] (Interp.set_time ctx now (m_i s))
      /\ select_transitions ev cfg s0 = (s1, inl sel)               (* t1..tk, unsorted *)
      /\ i_config (m_i s2) = cfg /\ i_memory (m_i s2) = i_memory (m_i s)
      /\ m_i s' = m_i s3 /\ css (m_i s') = None
      /\ ((* no transition: the event is consumed by an empty micro step *)
          (sel = [] /\ exists e, ev = Some e /\
             blocks_run s2 [mkMicro (Some e) None [] [] []] steps s3)
          \/
          (* transitions *)
          (sel <> [] /\ exists ts,
             (forall sx : mst, sort_transitions sel sx = (sx, inl ts))
             /\ trans_blocks cfg (step_event ev ts) s2 ts steps s3
             /\ atomic_shape ts steps)).
  Proof.
    intros Hi H.
    pose proof (C02_macro_end_stable _ _ _ _ _ _ _ _ _ _ _ _ H) as [Hstable _].
    apply C02Proofs.execute_once_inv in H.
    destruct H as (s0 & sc1 & s3 & steps0 & H0 & Hc & Hm & Hfin).
    assert (i_initialized (m_i s0) = true) as Hi0 by (rewrite H0; exact Hi).
    assert (i_config (m_i s0) = i_config (m_i s)) as Hc0 by (rewrite H0; reflexivity).
    assert (i_memory (m_i s0) = i_memory (m_i s)) as Hm0 by (rewrite H0; reflexivity).
    destruct (compute_steps_init _ _ _ Hi0 Hc) as (Ec & s1 & sel & Hsel & Hcases).
    apply C02Proofs.macro_part_inv in Hm.
    destruct Hm as [(_ & Hr & _)|(s2 & executed & Hne & (K1 & K2 & K3) & Hrun & Hr)]; [discriminate|].
    inversion Hr; subst t executed. clear Hr.
    exists s0, s1, s2, s3, sel. cbv zeta. rewrite <- Hc0.
    split; [exact H0|]. split; [exact Hsel|].
    split; [rewrite K1, Ec; reflexivity|]. split; [rewrite K3, Ec; exact Hm0|].
    split; [exact Hfin|]. split; [exact Hstable|].
    apply run_steps_blocks in Hrun.
    destruct Hcases as [[-> Hst]|(Hsne & ts & Hsort & Hst)].
    - left. split; [reflexivity|]. destruct (select_event (m_i s0)) as [e|].
      + exists e. split; [reflexivity|]. rewrite <- Hst. exact Hrun.
      + exfalso. apply Hne. exact Hst.
    - right. split; [exact Hsne|]. exists ts. split; [exact Hsort|].
      rewrite Hst in Hrun. apply blocks_trans_blocks in Hrun.
      split; [exact Hrun|]. eapply trans_blocks_shape; eauto.
  Qed.

  (* the first macro step (interpreter not initialised): one micro step entering the root, then a
     complete stabilisation *)
  Theorem C03_atomic_first fuel now s s' t steps :
    i_initialized (m_i s) = false ->
    execute_once fuel now s = (s', inl (Some (t, steps))) ->
    exists r s2 s1 a stab s3,
      root sc = Some r
      /\ i_initialized (m_i s2) = true /\ i_config (m_i s2) = i_config (m_i s)
      /\ apply_step (mkMicro None None [r] [] []) s2 = (s1, inl a)
      /\ stab_run s1 stab s3
      /\ steps = a :: stab
      /\ ms_trans a = None /\ ms_entered a = [r] /\ ms_exited a = []
      /\ Forall (fun m => ms_trans m = None /\ ms_event m = None) stab
      /\ m_i s' = m_i s3 /\ css (m_i s') = None.
  Proof.
    intros Hi H.
    pose proof (C02_macro_end_stable _ _ _ _ _ _ _ _ _ _ _ _ H) as [Hstable _].
    apply C02Proofs.execute_once_inv in H.
    destruct H as (s0 & sc1 & s3 & steps0 & H0 & Hc & Hm & Hfin).
    assert (i_initialized (m_i s0) = false) as Hi0 by (rewrite H0; exact Hi).
    destruct (compute_steps_first _ _ _ Hi0 Hc) as (Ec & r & Hr & Hst).
    apply C02Proofs.macro_part_inv in Hm.
    destruct Hm as [(_ & Hm & _)|(s2 & executed & Hne & (K1 & K2 & K3) & Hrun & Hm)]; [discriminate|].
    inversion Hm; subst t executed. clear Hm.
    subst steps0. apply run_steps_blocks in Hrun.
    inversion Hrun as [|? p ps s1 a stab s2' rest ? Ha Hs Hrest]; subst.
    inversion Hrest; subst. rewrite app_nil_r.
    exists r, s2, s1, a, stab, s3.
    split; [exact Hr|]. split; [rewrite K2, Ec; reflexivity|].
    split; [rewrite K1, Ec, H0; reflexivity|]. split; [exact Ha|]. split; [exact Hs|].
    split; [reflexivity|].
    pose proof Ha as Ha'.
    apply (apply_step_inv ctx X exec_code eval_code emit sc (fun _ => True)) in Ha'.
    destruct Ha' as (ent & exi & _ & _ & _ & _ & _ & _ & A2 & A3 & A4).
    split; [exact A2|]. split; [exact A3|]. split; [exact A4|].
    split; [eapply stab_run_trans_none; eauto|]. split; [exact Hfin|exact Hstable].
  Qed.

  (* ================================================================ 2. C03_transition_order *)
  Definition trans_key (it : itrans) : Z * name := ((- depth (src it))%Z, src it).

  (* a runs strictly before b: deeper source, or equal depth and smaller source name *)
  Definition src_before (a b : itrans) : Prop :=
    (depth (src b) < depth (src a))%Z
    \/ (depth (src a) = depth (src b) /\ str_ltb (src a) (src b) = true).

  Lemma trans_order_leb_total a b : trans_order_leb sc a b = true \/ trans_order_leb sc b a = true.
  Proof. apply zn_leb_total. Qed.

  Lemma trans_order_leb_trans a b c :
    trans_order_leb sc a b = true -> trans_order_leb sc b c = true -> trans_order_leb sc a c = true.
  Proof. apply zn_leb_trans. Qed.

  Lemma trans_order_strict a b :
    trans_order_leb sc a b = true -> src a <> src b -> src_before a b.
  Proof.
    unfold trans_order_leb. rewrite zn_leb_iff. simpl. intros [H|[H L]] Hne.
    - left. lia.
    - right. split; [lia|]. apply str_leb_neq_ltb; assumption.
  Qed.

  Lemma src_before_asym a b : src_before a b -> src_before b a -> False.
  Proof.
    intros [H1|[H1 L1]] [H2|[H2 L2]]; try lia.
    unfold str_ltb, String.ltb in L1, L2.
    destruct (String.compare (src a) (src b)) eqn:E; try discriminate.
    rewrite String.compare_antisym, E in L2. discriminate.
  Qed.

  (* check_pairs = None: the sources are pairwise distinct (via C04) *)
  Lemma check_against_sources t1 : forall rest,
    check_against sc t1 rest = None -> ~ In (t_source t1) (map src rest).
  Proof.
    induction rest as [|it rest IH]; simpl; intros H; [tauto|].
    destruct (check_pair sc t1 (snd it)) eqn:E; [discriminate|].
    apply C04Proofs.C04_check_pair_none in E. destruct E as [[Hne _] _].
    intros [Heq|Hin]; [apply Hne; symmetry; exact Heq|exact (IH H Hin)].
  Qed.

  Lemma check_pairs_sources : forall ts, check_pairs sc ts = None -> NoDup (map src ts).
  Proof.
    induction ts as [|it ts IH]; simpl; intros H; [constructor|].
    destruct (check_against sc (snd it) ts) eqn:E; [discriminate|].
    constructor; [apply check_against_sources; exact E|apply IH; exact H].
  Qed.

  Lemma sort_transitions_sources ts (s s' : mst) ts' :
    sort_transitions ts s = (s', inl ts') -> NoDup (map src ts').
  Proof.
    unfold Interp.sort_transitions. intros H. destruct ts as [|a [|b ts]].
    - inversion H; subst. constructor.
    - inversion H; subst. constructor; [intros []|constructor].
    - destruct (check_pairs sc (a :: b :: ts)) eqn:E; [discriminate|]. inversion H; subst.
      eapply Permutation_NoDup; [|apply check_pairs_sources; exact E].
      apply Permutation_map. exact (Permutation_sym (sort_perm (trans_order_leb sc) (a :: b :: ts))).
  Qed.

  Theorem C03_transition_order ts (s s' : mst) ts' :
    sort_transitions ts s = (s', inl ts') ->
    Permutation ts' ts
    /\ StronglySorted (fun a b => trans_order_leb sc a b = true) ts'
    /\ Sorted (fun a b => trans_order_leb sc a b = true) ts'
    /\ NoDup (map src ts')
    /\ StronglySorted src_before ts'
    /\ (forall l1 a l2 b l3, ts' = l1 ++ a :: l2 ++ b :: l3 ->
          src a <> src b /\ src_before a b).
  Proof.
    intros H.
    assert (Permutation ts' ts) as HP by (apply sort_transitions_inl in H; tauto).
    assert (StronglySorted (fun a b => trans_order_leb sc a b = true) ts') as HS.
    { unfold Interp.sort_transitions in H. destruct ts as [|a [|b ts]].
      - inversion H; subst. constructor.
      - inversion H; subst. constructor; constructor.
      - destruct (check_pairs sc (a :: b :: ts)); [discriminate|]. inversion H; subst.
        exact (sort_strongly_sorted (trans_order_leb sc) trans_order_leb_total trans_order_leb_trans
                 (a :: b :: ts)). }
    pose proof (sort_transitions_sources _ _ _ _ H) as HN.
    assert (StronglySorted src_before ts') as HB.
    { apply (StronglySorted_strict _ src) in HS; [|exact HN].
      eapply StronglySorted_impl; [|exact HS]. intros a b [L Hne]. apply trans_order_strict; assumption. }
    split; [exact HP|]. split; [exact HS|]. split; [apply StronglySorted_Sorted, HS|].
    split; [exact HN|]. split; [exact HB|].
    intros l1 a l2 b l3 E. subst ts'.
    assert (In b (l2 ++ b :: l3)) as Hb by (apply in_or_app; right; left; reflexivity).
    split.
    - rewrite map_app in HN. apply NoDup_remove_2 in HN. intros Heq. apply HN.
      rewrite <- map_app. apply in_map_iff. exists b. split; [symmetry; exact Heq|].
      apply in_or_app. right. exact Hb.
    - apply StronglySorted_split in HB. rewrite Forall_forall in HB. apply HB, Hb.
  Qed.

End C03.
