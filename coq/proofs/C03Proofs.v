(* C03Proofs.v -- property C03, the ORDER part:
   "Each fired transition is processed atomically: active states inside its scope are exited
    innermost-first, then the transition action runs, then the target path is entered outermost-first,
    then default children are entered until stable, and only then does the next transition start;
    transitions of one macro step run by decreasing source depth, ties by source name, orthogonal
    siblings are entered/exited in name order."
   (The last sentence of C03 -- the code fragments executed and the resulting configuration are what
    the MacroStep says -- is TraceProofs.C03_trace_truth / C03_config_truth / C03_macro_config; the
    order of exits / action / entries INSIDE one micro step is TraceProofs.C08_apply_step_points.)

   STATUS: every statement asked for is proved in full for the model of Interp.v; nothing is
   `_partial`, nothing is `_refuted` (the model already contains the repaired exit order
   `sort exit_order_leb (descendants_for ..)`, so DESIGN.md's planned C03_exit_order_refuted does not
   apply to it).  No axiom: every Print Assumptions at the end says "Closed under the global context".

   VOCABULARY
     stab_run s l s'        l = the micro steps of one complete stabilisation from s to s': each one is
                            the step _create_stabilization_step computes in the state reached so far
                            and the run ends exactly when none is due (css (m_i s') = None).
     blocks_run s ps ex s'  the planned steps ps applied one after the other, each followed by a
                            complete stab_run; ex = the executed steps ( = run_steps ).
     trans_blocks cfg ev s ts ex s'
                            the same for the steps create_step sc cfg ev ti of the transitions
                            ts = t1..tk:  ex = [a1] ++ stab1 ++ [a2] ++ stab2 ++ ..  with
                            ms_trans ai = Some (index of ti), ms_exited/ms_entered ai = those of
                            create_step, every element of stab_i has ms_trans = None (and no event),
                            and css = None in the state reached after [ai] ++ stab_i, i.e. BEFORE
                            a(i+1) is applied.
     atomic_shape ts ex     the shape alone (no intermediate states).
     src_before a b         source of a strictly deeper than the source of b, or equal depth and
                            strictly smaller source name (String.ltb).
     is_path p l            l is a downward path: par (first) = p, each further element is a child of
                            its predecessor.
     exited_of cfg lbl      filter active (sort exit_order_leb (desc lbl)) ++ [lbl if active].

   MAIN THEOREMS                                                         (hypotheses)
     1  C03_atomic          i_initialized = true, execute_once = inl (Some (t, steps))       (none)
                            -> sel := result of select_transitions (on the state after the time
                               update; same configuration), and either sel = [] and steps =
                               [event-only step] ++ stab, or sel <> [], ts := sort_transitions sel,
                               trans_blocks cfg ev' s2 ts steps s3 /\ atomic_shape ts steps, m_i s' =
                               m_i s3, css (m_i s') = None.
        C03_atomic_first    i_initialized = false: steps = a :: stab, a enters the root only,   (none)
                            stab is a complete stabilisation.
        run_steps_blocks, stabilize_stab_run, blocks_trans_blocks: the underlying unfoldings.
     2  C03_transition_order  sort_transitions ts = inl ts' -> Permutation, StronglySorted and     (none)
                            Sorted w.r.t. trans_order_leb, NoDup (map source ts') (from
                            check_pairs = None via C04_check_pair_none), StronglySorted src_before,
                            and for ts' = l1 ++ a :: l2 ++ b :: l3: sources differ /\ src_before a b.
     3  C03_exit_order      create_step with a target: lbl = last_before lca .. is under the source
                            with par lbl = lca; In x exited <-> In x cfg /\ under lbl x; NoDup exited;
                            StronglySorted exit_order_leb (depth descending, name ascending);
                            every state after all its active descendants; equal depth -> strictly
                            by name; lbl last.                       (Hne Hanc Hpc Hkids_nodup Hdesc_complete)
        desc_nodup          NoDup (descendants_for sc a)  (bfs never outputs a state twice) (same five)
     4  C03_entry_order     entered list of a transition step: is_path lca entered, ends with the
                            target, = {x | under x tgt /\ below lca x}, NoDup, each element is
                            immediately preceded by its parent, a parent that is entered comes first.
                                                                                        (Hne Hanc)
        C03_entry_order_stab  css i = Some (inl step): ms_trans = None and one of
                            - compound leaf: entered = [initial];
                            - active orthogonal state n: entered = sort_names (inactive children of n),
                              sorted by name, all children of n of depth (depth n + 1);
                            - history leaf h: exited = [h], entered = sort enter_order_leb (memory h)
                              (or [default memory]), sorted by (depth, name), parents before children
                              (C06_restore_parents_first);
                            - final child f of the root r: exited = [f; r].         (Hne Hanc Hpc)
     tree_okb / tree_okb_sound  a boolean checker for the five tree hypotheses.
     5  Module C03Examples  chart0: orthogonal P with regions DECLARED B, C, A.  ex_exit_order
                            (exit a1,b1,c1,A,B,C,P), ex_exit_order_not_declaration (differs from the
                            reversed declaration order of unrepaired sismic), ex_exit_order_deep,
                            ex_entry_order, ex_transition_order, ex_first_step (regions entered A,B,C),
                            ex_atomic ([t(a1->a2); default entry a21; t(b1->b2)], declared in the
                            other order), ex_exit_run, ex_orthogonal_entry, ex_history_entry, and
                            *_applies: the hypotheses of each theorem hold on these instances.

   TREE HYPOTHESES (Section Tree; the same statements as in Section WF of C02Proofs.v, a subset):
     Hne   forall n, par n <> Some ""                                (WF1)
     Hanc  forall a b, In b (anc a) -> depth b < depth a             (WF2)
     Hpc   forall c p, In c (kids p) <-> par c = Some p              (WF2)
     Hkids_nodup     forall p, NoDup (kids p)                        (WF2)
     Hdesc_complete  forall a d, In a (anc d) -> In d (desc a)       (WF2)
   NOT needed: Hroot, Hnames, Hone_root, Hcomposite, Hinitial, Hregions, Hhistory, Hcross, NoDup cfg,
   and no invariant on the interpreter state.

   REMARKS
     * _create_steps builds ALL transition steps from the configuration at the beginning of the
       macro step (argument cfg of trans_blocks), as sismic does; "active" in C03_exit_order means
       active in that configuration.  That each exited state is still active when its step runs is
       C03_config_truth (all_active) / the absence of EKey.
     * C03_atomic's first disjunct (no transition, an event is consumed) is part of the statement
       because execute_once returns a MacroStep in that case as well. *)
From Coq Require Import String List Bool ZArith Sorted Permutation Lia.
From Sismic Require Import Base Chart Interp Spec.
From SismicProofs Require C04Proofs C06Proofs.
From SismicProofs Require Import SortLib FrameLib C01Proofs C02Proofs.
Import ListNotations.
Open Scope list_scope.

(* ================================================================== generic list / order facts *)
Lemma zn_leb_iff (a b : Z * name) :
  zn_leb a b = true <-> (fst a < fst b)%Z \/ (fst a = fst b /\ str_leb (snd a) (snd b) = true).
Proof.
  unfold zn_leb. rewrite orb_true_iff, andb_true_iff, Z.ltb_lt, Z.eqb_eq. tauto.
Qed.

Lemma zn_leb_total (a b : Z * name) : zn_leb a b = true \/ zn_leb b a = true.
Proof.
  rewrite !zn_leb_iff. destruct (Z.lt_total (fst a) (fst b)) as [H|[H|H]]; auto.
  destruct (str_leb_total (snd a) (snd b)) as [L|L]; [left|right]; right; split; auto.
Qed.

Lemma zn_leb_trans (a b c : Z * name) : zn_leb a b = true -> zn_leb b c = true -> zn_leb a c = true.
Proof.
  rewrite !zn_leb_iff. intros [H1|[H1 L1]] [H2|[H2 L2]]; try (left; lia).
  right. split; [lia|]. eapply str_leb_trans; eauto.
Qed.

Lemma str_leb_neq_ltb (a b : name) : str_leb a b = true -> a <> b -> str_ltb a b = true.
Proof.
  unfold str_leb, str_ltb, String.leb, String.ltb. intros H Hne.
  destruct (String.compare a b) eqn:E; try reflexivity; try discriminate.
  apply String.compare_eq_iff in E. contradiction.
Qed.

Lemma str_ltb_irrefl (a : name) : str_ltb a a = false.
Proof. unfold str_ltb, String.ltb. rewrite string_compare_refl. reflexivity. Qed.

Lemma NoDup_app_intro {A} (l1 l2 : list A) :
  NoDup l1 -> NoDup l2 -> (forall x, In x l1 -> In x l2 -> False) -> NoDup (l1 ++ l2).
Proof.
  induction l1 as [|a l1 IH]; simpl; intros H1 H2 Hd; [exact H2|].
  inversion H1 as [|? ? Ha Hl]; subst. constructor.
  - rewrite in_app_iff. intros [H|H]; [contradiction|]. apply (Hd a); [left; reflexivity|exact H].
  - apply IH; [exact Hl|exact H2|]. intros x Hx1 Hx2. apply (Hd x); [right; exact Hx1|exact Hx2].
Qed.

Lemma StronglySorted_filter {A} (R : A -> A -> Prop) (f : A -> bool) (l : list A) :
  StronglySorted R l -> StronglySorted R (filter f l).
Proof.
  intros H. induction H as [|x l Hs IH Hall]; simpl; [constructor|].
  destruct (f x); [|exact IH]. constructor; [exact IH|].
  rewrite Forall_forall in *. intros y Hy. apply filter_In in Hy. apply Hall, Hy.
Qed.

Lemma StronglySorted_snoc {A} (R : A -> A -> Prop) (l : list A) (z : A) :
  StronglySorted R l -> Forall (fun x => R x z) l -> StronglySorted R (l ++ [z]).
Proof.
  intros H. induction H as [|x l Hs IH Hall]; simpl; intros Hz.
  - constructor; constructor.
  - inversion Hz as [|? ? Hxz Hlz]; subst. constructor; [apply IH, Hlz|].
    rewrite Forall_forall in *. intros y Hy. apply in_app_or in Hy. destruct Hy as [Hy|[<-|[]]]; auto.
Qed.

(* in a strongly sorted list an element is related to everything after it *)
Lemma StronglySorted_split {A} (R : A -> A -> Prop) (l1 : list A) (a : A) (l2 : list A) :
  StronglySorted R (l1 ++ a :: l2) -> Forall (R a) l2.
Proof.
  induction l1 as [|x l1 IH]; simpl; intros H; inversion H; subst; auto.
Qed.

Lemma filter_true_id {A} (f : A -> bool) (l : list A) :
  (forall x, In x l -> f x = true) -> filter f l = l.
Proof.
  induction l as [|x l IH]; simpl; intros H; [reflexivity|].
  rewrite (H x (or_introl eq_refl)). f_equal. apply IH. intros y Hy. apply H. right; exact Hy.
Qed.

Section C03.
  Variable ctx : Type.
  Variable X : Type.
  Variable exec_code : call ctx -> ctx -> option (ctx * list event).
  Variable eval_code : call ctx -> ctx -> option bool.
  Variable emit : Z -> meta -> X -> X * option err.
  Variable sc : chart.

  Notation ist := (istate ctx).
  Notation mst := (mstate ctx X).
  Local Notation bind := (Interp.bind ctx X).
  Local Notation ret := (Interp.ret ctx X).
  Local Notation get := (Interp.get ctx X).
  Local Notation put := (Interp.put ctx X).
  Local Notation select_transitions := (Interp.select_transitions ctx X eval_code sc).
  Local Notation sort_transitions := (Interp.sort_transitions ctx X sc).
  Local Notation compute_steps := (Interp.compute_steps ctx X eval_code sc).
  Local Notation apply_step := (Interp.apply_step ctx X exec_code eval_code emit sc).
  Local Notation stabilize := (Interp.stabilize ctx X exec_code eval_code emit sc).
  Local Notation run_steps := (Interp.run_steps ctx X exec_code eval_code emit sc).
  Local Notation execute_once := (Interp.execute_once ctx X exec_code eval_code emit sc).
  Local Notation css := (create_stabilization_step ctx sc).
  Notation anc := (ancestors_for sc).
  Notation desc := (descendants_for sc).
  Notation par := (parent_for sc).
  Notation kids := (children_for sc).
  Notation depth := (depth_for sc).
  Notation src := (fun it : itrans => t_source (snd it)).

  (* ================================================================ 1. C03_atomic *)
  (* "default children are entered until stable": every step is the one computed by
     _create_stabilization_step in the state reached so far; the run ends when none is due *)
  Inductive stab_run : mst -> list microstep -> mst -> Prop :=
  | sr_done s : css (m_i s) = None -> stab_run s [] s
  | sr_step s step s1 a l s2 :
      css (m_i s) = Some (inl step) ->
      apply_step step s = (s1, inl a) ->
      stab_run s1 l s2 ->
      stab_run s (a :: l) s2.

  (* planned micro steps executed one after the other, each followed by a complete stabilisation *)
  Inductive blocks_run : mst -> list microstep -> list microstep -> mst -> Prop :=
  | br_nil s : blocks_run s [] [] s
  | br_cons s p ps s1 a stab s2 rest s3 :
      apply_step p s = (s1, inl a) ->
      stab_run s1 stab s2 ->
      blocks_run s2 ps rest s3 ->
      blocks_run s (p :: ps) (a :: stab ++ rest) s3.

  (* the same for the transitions t1 .. tk of a macro step.  cfg/ev are the configuration and the
     event with which ALL the steps were created (_create_steps runs before the first _apply_step). *)
  Inductive trans_blocks (cfg : list name) (ev : option event)
    : mst -> list itrans -> list microstep -> mst -> Prop :=
  | tb_nil s : trans_blocks cfg ev s [] [] s
  | tb_cons s it ts s1 a stab s2 rest s3 :
      apply_step (create_step sc cfg ev it) s = (s1, inl a) ->   (* exits, action, entries of it *)
      ms_trans a = Some (fst it) ->
      ms_exited a = ms_exited (create_step sc cfg ev it) ->
      ms_entered a = ms_entered (create_step sc cfg ev it) ->
      stab_run s1 stab s2 ->                                     (* default entries until stable *)
      Forall (fun m => ms_trans m = None /\ ms_event m = None) stab ->
      css (m_i s2) = None ->                                     (* stable before the next transition *)
      trans_blocks cfg ev s2 ts rest s3 ->
      trans_blocks cfg ev s (it :: ts) (a :: stab ++ rest) s3.

  (* the shape alone, without the intermediate states *)
  Inductive atomic_shape : list itrans -> list microstep -> Prop :=
  | as_nil : atomic_shape [] []
  | as_cons it ts a stab rest :
      ms_trans a = Some (fst it) ->
      Forall (fun m => ms_trans m = None) stab ->
      atomic_shape ts rest ->
      atomic_shape (it :: ts) (a :: stab ++ rest).

  Lemma stab_run_stops s l s' : stab_run s l s' -> css (m_i s') = None.
  Proof. intros H. induction H; assumption. Qed.

  Lemma stab_run_trans_none s l s' :
    stab_run s l s' -> Forall (fun m => ms_trans m = None /\ ms_event m = None) l.
  Proof.
    intros H. induction H as [s Hc|s step s1 a l s2 Hc Ha Hr IH]; constructor; [|exact IH].
    apply create_stabilization_step_event in Hc. destruct Hc as (E1 & E2 & _).
    apply (apply_step_inv ctx X exec_code eval_code emit sc (fun _ => True)) in Ha.
    destruct Ha as (ent & exi & _ & _ & _ & _ & _ & A1 & A2 & _). split; congruence.
  Qed.

  Lemma stabilize_stab_run fuel : forall s s' l,
    stabilize fuel s = (s', inl l) -> stab_run s l s'.
  Proof.
    induction fuel as [|f IH]; intros s s' l H; simpl in H; [discriminate|].
    rewrite bind_get in H.
    destruct (css (m_i s)) as [[step|e]|] eqn:E.
    - apply bind_ok in H. destruct H as (a & s1 & H1 & H).
      apply bind_ok in H. destruct H as (r & s2 & H2 & H).
      inversion H; subst. eapply sr_step; eauto.
    - discriminate.
    - inversion H; subst. apply sr_done. exact E.
  Qed.

  Lemma run_steps_blocks fuel : forall ps s s' ex,
    run_steps fuel ps s = (s', inl ex) -> blocks_run s ps ex s'.
  Proof.
    induction ps as [|p ps IH]; intros s s' ex H; simpl in H.
    - inversion H; subst. constructor.
    - apply bind_ok in H. destruct H as (a & s1 & H1 & H).
      apply bind_ok in H. destruct H as (ss & s2 & H2 & H).
      apply bind_ok in H. destruct H as (r & s3 & H3 & H).
      inversion H; subst. eapply br_cons; eauto. eapply stabilize_stab_run; eauto.
  Qed.

  Lemma blocks_trans_blocks cfg ev : forall ts s ex s',
    blocks_run s (create_steps sc cfg ev ts) ex s' -> trans_blocks cfg ev s ts ex s'.
  Proof.
    induction ts as [|it ts IH]; intros s ex s' H; simpl in H.
    - inversion H; subst. constructor.
    - inversion H as [|? p ps s1 a stab s2 rest ? Ha Hs Hr]; subst.
      pose proof Ha as Ha'.
      apply (apply_step_inv ctx X exec_code eval_code emit sc (fun _ => True)) in Ha'.
      destruct Ha' as (ent & exi & _ & _ & _ & _ & _ & _ & A2 & A3 & A4).
      eapply tb_cons; eauto.
      + rewrite A2. apply create_step_trans.
      + eapply stab_run_trans_none; eauto.
      + eapply stab_run_stops; eauto.
  Qed.

  Lemma trans_blocks_shape cfg ev s ts ex s' :
    trans_blocks cfg ev s ts ex s' -> atomic_shape ts ex.
  Proof.
    intros H. induction H; constructor; auto.
    eapply Forall_impl; [|eassumption]. intros m [Hm _]. exact Hm.
  Qed.

  (* ---- compute_steps, inverted ---- *)
  Lemma sort_transitions_indep ts (s s' : mst) r :
    sort_transitions ts s = (s', r) -> s' = s /\ forall sx : mst, sort_transitions ts sx = (sx, r).
  Proof.
    unfold Interp.sort_transitions. intros H. destruct ts as [|a [|b ts]].
    - inversion H; subst. split; reflexivity.
    - inversion H; subst. split; reflexivity.
    - destruct (check_pairs sc (a :: b :: ts)); inversion H; subst; split; reflexivity.
  Qed.

  (* the event attached to the micro steps of a macro step *)
  Definition step_event (ev : option event) (ts : list itrans) : option event :=
    match ts with
    | it :: _ => match t_event (snd it) with None => None | Some _ => ev end
    | [] => ev
    end.

  Lemma compute_steps_init s s' steps :
    i_initialized (m_i s) = true -> compute_steps s = (s', inl steps) ->
    m_i s' = m_i s /\
    exists s1 sel,
      select_transitions (select_event (m_i s)) (i_config (m_i s)) s = (s1, inl sel) /\
      ((sel = [] /\
        steps = match select_event (m_i s) with
                | None => []
                | Some e => [mkMicro (Some e) None [] [] []]
                end)
       \/ (sel <> [] /\ exists ts,
             (forall sx : mst, sort_transitions sel sx = (sx, inl ts)) /\
             steps = create_steps sc (i_config (m_i s)) (step_event (select_event (m_i s)) ts) ts)).
  Proof.
    intros Hi H. unfold Interp.compute_steps in H. rewrite bind_get in H. rewrite Hi in H.
    simpl negb in H. cbv iota in H.
    apply bind_ok in H. destruct H as (sel & s1 & H1 & H).
    pose proof (select_transitions_footprint _ _ _ _ _ _ _ _ _ H1) as [F1 _].
    apply bind_ok in H. destruct H as (u & s2 & H2 & H).
    unfold Interp.observe in H2. inversion H2; subst s2 u. clear H2.
    destruct sel as [|it sel].
    - assert (m_i s' = m_i s) as E.
      { destruct (select_event (m_i s)); inversion H; subst; simpl; exact F1. }
      split; [exact E|]. exists s1, []. split; [exact H1|]. left. split; [reflexivity|].
      destruct (select_event (m_i s)); inversion H; reflexivity.
    - apply bind_ok in H. destruct H as (ts & s3 & H3 & H).
      apply sort_transitions_indep in H3. destruct H3 as [-> H3].
      rewrite bind_get in H. inversion H; subst s' steps. clear H. simpl.
      split; [exact F1|]. exists s1, (it :: sel). split; [exact H1|]. right. split; [discriminate|].
      exists ts. split; [exact H3|]. rewrite F1. reflexivity.
  Qed.

  Lemma compute_steps_first s s' steps :
    i_initialized (m_i s) = false -> compute_steps s = (s', inl steps) ->
    m_i s' = Interp.set_initialized ctx true (m_i s) /\
    exists r, root sc = Some r /\ steps = [mkMicro None None [r] [] []].
  Proof.
    intros Hi H. unfold Interp.compute_steps in H. rewrite bind_get in H. rewrite Hi in H.
    simpl negb in H. cbv iota in H.
    apply bind_ok in H. destruct H as (u & s1 & H1 & H).
    unfold Interp.put in H1. inversion H1; subst s1 u. clear H1.
    destruct (root sc) as [r|]; [|discriminate]. inversion H; subst. simpl.
    split; [reflexivity|]. exists r. split; reflexivity.
  Qed.

  (* C03_atomic.  An initialised interpreter that performs a macro step with transitions:
     the executed micro steps are  [step t1] ++ stab1 ++ [step t2] ++ stab2 ++ ...  where t1..tk is
     the result of _select_transitions then _sort_transitions, each stab_i is a complete
     stabilisation, and the configuration is stable before the next transition starts. *)
  Theorem C03_atomic fuel now s s' t steps :
    i_initialized (m_i s) = true ->
    execute_once fuel now s = (s', inl (Some (t, steps))) ->
    exists s0 s1 s2 s3 sel,
      let ev := select_event (m_i s0) in
      let cfg := i_config (m_i s) in
      m_i s0 = Interp.set_sent ctx [] (Interp.set_time ctx now (m_i s))
      /\ select_transitions ev cfg s0 = (s1, inl sel)               (* t1..tk, unsorted *)
      /\ i_config (m_i s2) = cfg /\ i_memory (m_i s2) = i_memory (m_i s)
      /\ m_i s' = m_i s3 /\ css (m_i s') = None
      /\ ((* no transition: the event is consumed by an empty micro step *)
          (sel = [] /\ exists e, ev = Some e /\
             blocks_run s2 [mkMicro (Some e) None [] [] []] steps s3)
          \/
          (* transitions *)
          (sel <> [] /\ exists ts,
             (forall sx : mst, sort_transitions sel sx = (sx, inl ts))
             /\ trans_blocks cfg (step_event ev ts) s2 ts steps s3
             /\ atomic_shape ts steps)).
  Proof.
    intros Hi H.
    pose proof (C02_macro_end_stable _ _ _ _ _ _ _ _ _ _ _ _ H) as [Hstable _].
    apply C02Proofs.execute_once_inv in H.
    destruct H as (s0 & sc1 & s3 & steps0 & H0 & Hc & Hm & Hfin).
    assert (i_initialized (m_i s0) = true) as Hi0 by (rewrite H0; exact Hi).
    assert (i_config (m_i s0) = i_config (m_i s)) as Hc0 by (rewrite H0; reflexivity).
    assert (i_memory (m_i s0) = i_memory (m_i s)) as Hm0 by (rewrite H0; reflexivity).
    destruct (compute_steps_init _ _ _ Hi0 Hc) as (Ec & s1 & sel & Hsel & Hcases).
    apply C02Proofs.macro_part_inv in Hm.
    destruct Hm as [(_ & Hr & _)|(s2 & executed & Hne & (K1 & K2 & K3) & Hrun & Hr)]; [discriminate|].
    inversion Hr; subst t executed. clear Hr.
    exists s0, s1, s2, s3, sel. cbv zeta. rewrite <- Hc0.
    split; [exact H0|]. split; [exact Hsel|].
    split; [rewrite K1, Ec; reflexivity|]. split; [rewrite K3, Ec; exact Hm0|].
    split; [exact Hfin|]. split; [exact Hstable|].
    apply run_steps_blocks in Hrun.
    destruct Hcases as [[-> Hst]|(Hsne & ts & Hsort & Hst)].
    - left. split; [reflexivity|]. destruct (select_event (m_i s0)) as [e|].
      + exists e. split; [reflexivity|]. rewrite <- Hst. exact Hrun.
      + exfalso. apply Hne. exact Hst.
    - right. split; [exact Hsne|]. exists ts. split; [exact Hsort|].
      rewrite Hst in Hrun. apply blocks_trans_blocks in Hrun.
      split; [exact Hrun|]. eapply trans_blocks_shape; eauto.
  Qed.

  (* the first macro step (interpreter not initialised): one micro step entering the root, then a
     complete stabilisation *)
  Theorem C03_atomic_first fuel now s s' t steps :
    i_initialized (m_i s) = false ->
    execute_once fuel now s = (s', inl (Some (t, steps))) ->
    exists r s2 s1 a stab s3,
      root sc = Some r
      /\ i_initialized (m_i s2) = true /\ i_config (m_i s2) = i_config (m_i s)
      /\ apply_step (mkMicro None None [r] [] []) s2 = (s1, inl a)
      /\ stab_run s1 stab s3
      /\ steps = a :: stab
      /\ ms_trans a = None /\ ms_entered a = [r] /\ ms_exited a = []
      /\ Forall (fun m => ms_trans m = None /\ ms_event m = None) stab
      /\ m_i s' = m_i s3 /\ css (m_i s') = None.
  Proof.
    intros Hi H.
    pose proof (C02_macro_end_stable _ _ _ _ _ _ _ _ _ _ _ _ H) as [Hstable _].
    apply C02Proofs.execute_once_inv in H.
    destruct H as (s0 & sc1 & s3 & steps0 & H0 & Hc & Hm & Hfin).
    assert (i_initialized (m_i s0) = false) as Hi0 by (rewrite H0; exact Hi).
    destruct (compute_steps_first _ _ _ Hi0 Hc) as (Ec & r & Hr & Hst).
    apply C02Proofs.macro_part_inv in Hm.
    destruct Hm as [(_ & Hm & _)|(s2 & executed & Hne & (K1 & K2 & K3) & Hrun & Hm)]; [discriminate|].
    inversion Hm; subst t executed. clear Hm.
    subst steps0. apply run_steps_blocks in Hrun.
    inversion Hrun as [|? p ps s1 a stab s2' rest ? Ha Hs Hrest]; subst.
    inversion Hrest; subst. rewrite app_nil_r.
    exists r, s2, s1, a, stab, s3.
    split; [exact Hr|]. split; [rewrite K2, Ec; reflexivity|].
    split; [rewrite K1, Ec, H0; reflexivity|]. split; [exact Ha|]. split; [exact Hs|].
    split; [reflexivity|].
    pose proof Ha as Ha'.
    apply (apply_step_inv ctx X exec_code eval_code emit sc (fun _ => True)) in Ha'.
    destruct Ha' as (ent & exi & _ & _ & _ & _ & _ & _ & A2 & A3 & A4).
    split; [exact A2|]. split; [exact A3|]. split; [exact A4|].
    split; [eapply stab_run_trans_none; eauto|]. split; [exact Hfin|exact Hstable].
  Qed.

  (* ================================================================ 2. C03_transition_order *)
  Definition trans_key (it : itrans) : Z * name := ((- depth (src it))%Z, src it).

  (* a runs strictly before b: deeper source, or equal depth and smaller source name *)
  Definition src_before (a b : itrans) : Prop :=
    (depth (src b) < depth (src a))%Z
    \/ (depth (src a) = depth (src b) /\ str_ltb (src a) (src b) = true).

  Lemma trans_order_leb_total a b : trans_order_leb sc a b = true \/ trans_order_leb sc b a = true.
  Proof. apply zn_leb_total. Qed.

  Lemma trans_order_leb_trans a b c :
    trans_order_leb sc a b = true -> trans_order_leb sc b c = true -> trans_order_leb sc a c = true.
  Proof. apply zn_leb_trans. Qed.

  Lemma trans_order_strict a b :
    trans_order_leb sc a b = true -> src a <> src b -> src_before a b.
  Proof.
    unfold trans_order_leb. rewrite zn_leb_iff. simpl. intros [H|[H L]] Hne.
    - left. lia.
    - right. split; [lia|]. apply str_leb_neq_ltb; assumption.
  Qed.

  Lemma src_before_asym a b : src_before a b -> src_before b a -> False.
  Proof.
    intros [H1|[H1 L1]] [H2|[H2 L2]]; try lia.
    unfold str_ltb, String.ltb in L1, L2.
    destruct (String.compare (src a) (src b)) eqn:E; try discriminate.
    rewrite String.compare_antisym, E in L2. discriminate.
  Qed.

  (* check_pairs = None: the sources are pairwise distinct (via C04) *)
  Lemma check_against_sources t1 : forall rest,
    check_against sc t1 rest = None -> ~ In (t_source t1) (map src rest).
  Proof.
    induction rest as [|it rest IH]; simpl; intros H; [tauto|].
    destruct (check_pair sc t1 (snd it)) eqn:E; [discriminate|].
    apply C04Proofs.C04_check_pair_none in E. destruct E as [[Hne _] _].
    intros [Heq|Hin]; [apply Hne; symmetry; exact Heq|exact (IH H Hin)].
  Qed.

  Lemma check_pairs_sources : forall ts, check_pairs sc ts = None -> NoDup (map src ts).
  Proof.
    induction ts as [|it ts IH]; simpl; intros H; [constructor|].
    destruct (check_against sc (snd it) ts) eqn:E; [discriminate|].
    constructor; [apply check_against_sources; exact E|apply IH; exact H].
  Qed.

  Lemma sort_transitions_sources ts (s s' : mst) ts' :
    sort_transitions ts s = (s', inl ts') -> NoDup (map src ts').
  Proof.
    unfold Interp.sort_transitions. intros H. destruct ts as [|a [|b ts]].
    - inversion H; subst. constructor.
    - inversion H; subst. constructor; [intros []|constructor].
    - destruct (check_pairs sc (a :: b :: ts)) eqn:E; [discriminate|]. inversion H; subst.
      eapply Permutation_NoDup; [|apply check_pairs_sources; exact E].
      apply Permutation_map. exact (Permutation_sym (sort_perm (trans_order_leb sc) (a :: b :: ts))).
  Qed.

  Theorem C03_transition_order ts (s s' : mst) ts' :
    sort_transitions ts s = (s', inl ts') ->
    Permutation ts' ts
    /\ StronglySorted (fun a b => trans_order_leb sc a b = true) ts'
    /\ Sorted (fun a b => trans_order_leb sc a b = true) ts'
    /\ NoDup (map src ts')
    /\ StronglySorted src_before ts'
    /\ (forall l1 a l2 b l3, ts' = l1 ++ a :: l2 ++ b :: l3 ->
          src a <> src b /\ src_before a b).
  Proof.
    intros H.
    assert (Permutation ts' ts) as HP by (apply sort_transitions_inl in H; tauto).
    assert (StronglySorted (fun a b => trans_order_leb sc a b = true) ts') as HS.
    { unfold Interp.sort_transitions in H. destruct ts as [|a [|b ts]].
      - inversion H; subst. constructor.
      - inversion H; subst. constructor; constructor.
      - destruct (check_pairs sc (a :: b :: ts)); [discriminate|]. inversion H; subst.
        exact (sort_strongly_sorted (trans_order_leb sc) trans_order_leb_total trans_order_leb_trans
                 (a :: b :: ts)). }
    pose proof (sort_transitions_sources _ _ _ _ H) as HN.
    assert (StronglySorted src_before ts') as HB.
    { apply (StronglySorted_strict _ src) in HS; [|exact HN].
      eapply StronglySorted_impl; [|exact HS]. intros a b [L Hne]. apply trans_order_strict; assumption. }
    split; [exact HP|]. split; [exact HS|]. split; [apply StronglySorted_Sorted, HS|].
    split; [exact HN|]. split; [exact HB|].
    intros l1 a l2 b l3 E. subst ts'.
    assert (In b (l2 ++ b :: l3)) as Hb by (apply in_or_app; right; left; reflexivity).
    split.
    - rewrite map_app in HN. apply NoDup_remove_2 in HN. intros Heq. apply HN.
      rewrite <- map_app. apply in_map_iff. exists b. split; [symmetry; exact Heq|].
      apply in_or_app. right. exact Hb.
    - apply StronglySorted_split in HB. rewrite Forall_forall in HB. apply HB, Hb.
  Qed.

  (* ================================================================ tree hypotheses *)
  Section Tree.
    (* the part of DESIGN.md section 2 (WF1/WF2, "one tree") used below; the same statements as in
       Section WF of C02Proofs.v *)
    Hypothesis Hne : forall n, par n <> Some ""%string.
    Hypothesis Hanc : forall a b, In b (anc a) -> (depth b < depth a)%Z.
    Hypothesis Hpc : forall c p, In c (kids p) <-> par c = Some p.
    Hypothesis Hkids_nodup : forall p, NoDup (kids p).
    Hypothesis Hdesc_complete : forall a d, In a (anc d) -> In d (desc a).

    Local Notation under := (under sc).
    Local Notation below := (below sc).

    (* ---------------------------------------------------------------- descendants_for has no duplicates *)
    (* queue invariant of the breadth-first search: no duplicates, nobody is a strict ancestor of
       somebody else *)
    Definition pw (q : list name) : Prop :=
      NoDup q /\ forall x y, In x q -> In y q -> x <> y -> ~ In x (anc y).

    Lemma pw_step n q : pw (n :: q) -> pw (q ++ kids n).
    Proof.
      intros [Hnd Hno]. inversion Hnd as [|? ? Hn Hq]; subst.
      assert (forall k, In k (kids n) -> In n (anc k)) as Hk.
      { intros k Hk. apply (anc_par sc Hne Hanc), Hpc, Hk. }
      split.
      - apply NoDup_app_intro; [exact Hq|apply Hkids_nodup|].
        intros x Hx1 Hx2. apply (Hno n x); [left; reflexivity|right; exact Hx1| |apply Hk, Hx2].
        intros ->. contradiction.
      - intros x y Hx Hy Hxy Hin. apply in_app_or in Hx. apply in_app_or in Hy.
        destruct Hx as [Hx|Hx], Hy as [Hy|Hy].
        + apply (Hno x y); [right; exact Hx|right; exact Hy|exact Hxy|exact Hin].
        + apply Hpc in Hy. rewrite (anc_some sc Hne Hanc y n Hy) in Hin. destruct Hin as [<-|Hin].
          * contradiction.
          * apply (Hno x n); [right; exact Hx|left; reflexivity| |exact Hin]. intros ->. contradiction.
        + apply (Hno n y); [left; reflexivity|right; exact Hy| |].
          * intros ->. contradiction.
          * eapply (anc_tr sc Hanc); [exact Hin|apply Hk, Hx].
        + apply Hpc in Hy. rewrite (anc_some sc Hne Hanc y n Hy) in Hin. destruct Hin as [<-|Hin].
          * apply (anc_irr sc Hanc n). apply Hk, Hx.
          * apply (anc_asym sc Hanc x n Hin). apply Hk, Hx.
    Qed.

    Lemma bfs_nodup : forall fuel q, pw q -> NoDup (bfs sc fuel q).
    Proof.
      induction fuel as [|f IH]; intros q Hq; simpl; [constructor|].
      destruct q as [|n q]; [constructor|].
      pose proof (pw_step n q Hq) as Hq'. destruct Hq as [Hnd Hno].
      inversion Hnd as [|? ? Hn Hqn]; subst.
      apply NoDup_app_intro; [apply Hkids_nodup|apply IH, Hq'|].
      intros x Hx1 Hx2. apply bfs_sound in Hx2. destruct Hx2 as (a & Ha & Hr).
      apply (reach_anc sc Hne Hanc Hpc) in Hr. apply Hpc in Hx1.
      rewrite (anc_some sc Hne Hanc x n Hx1) in Hr.
      apply in_app_or in Ha. destruct Ha as [Ha|Ha].
      - destruct Hr as [<-|Hr]; [contradiction|].
        apply (Hno a n); [right; exact Ha|left; reflexivity| |exact Hr]. intros ->. contradiction.
      - assert (In n (anc a)) as Hna by (apply (anc_par sc Hne Hanc), Hpc, Ha).
        destruct Hr as [<-|Hr]; [exact (anc_irr sc Hanc n Hna)|exact (anc_asym sc Hanc a n Hr Hna)].
    Qed.

    Lemma desc_nodup a : NoDup (desc a).
    Proof.
      apply bfs_nodup. split; [constructor; [intros []|constructor]|].
      intros x y [<-|[]] [<-|[]] H. contradiction.
    Qed.

    (* ================================================================ 3. C03_exit_order *)
    Lemma exit_order_leb_iff a b :
      exit_order_leb sc a b = true <->
      (depth b < depth a)%Z \/ (depth a = depth b /\ str_leb a b = true).
    Proof.
      unfold exit_order_leb. rewrite zn_leb_iff. simpl. split.
      - intros [H|[H L]]; [left; lia|right; split; [lia|exact L]].
      - intros [H|[H L]]; [left; lia|right; split; [lia|exact L]].
    Qed.

    Lemma exit_order_leb_total a b : exit_order_leb sc a b = true \/ exit_order_leb sc b a = true.
    Proof. apply zn_leb_total. Qed.

    Lemma exit_order_leb_trans a b c :
      exit_order_leb sc a b = true -> exit_order_leb sc b c = true -> exit_order_leb sc a c = true.
    Proof. apply zn_leb_trans. Qed.

    Lemma lca_is_ancestor a b l :
      least_common_ancestor sc a b = Some l -> In l (anc a) /\ In l (anc b).
    Proof.
      unfold least_common_ancestor. intros H. apply find_some in H. destruct H as [H1 H2].
      split; [exact H1|apply mem_In, H2].
    Qed.

    (* the exited list of a transition micro step *)
    Definition exited_of (cfg : list name) (lbl : name) : list name :=
      filter (fun d => mem d cfg) (sort (exit_order_leb sc) (desc lbl))
      ++ (if mem lbl cfg then [lbl] else []).

    Lemma create_step_exited cfg ev it tgt :
      t_target (snd it) = Some tgt ->
      ms_exited (create_step sc cfg ev it)
      = exited_of cfg (last_before (least_common_ancestor sc (src it) tgt) (anc (src it)) (src it)).
    Proof. intros H. unfold create_step. rewrite H. reflexivity. Qed.

    Lemma create_step_entered cfg ev it tgt :
      t_target (snd it) = Some tgt ->
      ms_entered (create_step sc cfg ev it)
      = entered_path (least_common_ancestor sc (src it) tgt) (anc tgt) [tgt].
    Proof. intros H. unfold create_step. rewrite H. reflexivity. Qed.

    Lemma exited_of_sorted cfg lbl :
      StronglySorted (fun a b => exit_order_leb sc a b = true) (exited_of cfg lbl).
    Proof.
      unfold exited_of.
      assert (StronglySorted (fun a b => exit_order_leb sc a b = true)
                (filter (fun d => mem d cfg) (sort (exit_order_leb sc) (desc lbl)))) as Hs.
      { apply StronglySorted_filter.
        apply (sort_strongly_sorted (exit_order_leb sc) exit_order_leb_total exit_order_leb_trans). }
      destruct (mem lbl cfg); [|rewrite app_nil_r; exact Hs].
      apply StronglySorted_snoc; [exact Hs|].
      rewrite Forall_forall. intros x Hx. apply filter_In in Hx. destruct Hx as [Hx _].
      apply sort_In in Hx. apply (desc_iff sc Hne Hanc Hpc Hdesc_complete) in Hx. apply Hanc in Hx.
      apply exit_order_leb_iff. left. exact Hx.
    Qed.

    Lemma exited_of_nodup cfg lbl : NoDup (exited_of cfg lbl).
    Proof.
      unfold exited_of. apply NoDup_app_intro.
      - apply NoDup_filter, sort_NoDup, desc_nodup.
      - destruct (mem lbl cfg); constructor; [intros []|constructor].
      - intros x Hx1 Hx2. destruct (mem lbl cfg); [|destruct Hx2]. destruct Hx2 as [<-|[]].
        apply filter_In in Hx1. destruct Hx1 as [Hx1 _]. apply sort_In in Hx1.
        apply (desc_iff sc Hne Hanc Hpc Hdesc_complete) in Hx1. exact (anc_irr sc Hanc lbl Hx1).
    Qed.

    Theorem C03_exit_order cfg ev it tgt :
      t_target (snd it) = Some tgt ->
      let lca := least_common_ancestor sc (src it) tgt in
      let lbl := last_before lca (anc (src it)) (src it) in
      let exited := ms_exited (create_step sc cfg ev it) in
      (* lbl: the state on the source side just below the LCA (the top state if there is no LCA) *)
      under lbl (src it) /\ par lbl = lca
      (* exactly the active states of subtree+(lbl), each once *)
      /\ (forall x, In x exited <-> In x cfg /\ under lbl x)
      /\ NoDup exited
      (* sorted by (depth descending, name ascending) *)
      /\ StronglySorted (fun a b => exit_order_leb sc a b = true) exited
      (* innermost first: every state comes after all its active descendants *)
      /\ (forall l1 x l2 y, exited = l1 ++ x :: l2 -> In y exited -> In x (anc y) -> In y l1)
      (* states of equal depth (orthogonal siblings and their cousins): by name *)
      /\ (forall l1 x l2 y l3, exited = l1 ++ x :: l2 ++ y :: l3 -> depth x = depth y ->
                               str_ltb x y = true)
      (* lbl itself is exited last *)
      /\ (In lbl cfg -> exists l, exited = l ++ [lbl]).
    Proof.
      intros Ht lca lbl exited.
      assert (exited = exited_of cfg lbl) as Ee by (apply create_step_exited; exact Ht).
      assert (forall l, lca = Some l -> In l (anc (src it))) as Hl.
      { intros l El. apply lca_is_ancestor in El. tauto. }
      destruct (last_before_spec sc Hne Hanc lca (src it) Hl) as [U P].
      pose proof (exited_of_sorted cfg lbl) as HS. pose proof (exited_of_nodup cfg lbl) as HN.
      rewrite <- Ee in HS, HN.
      split; [exact U|]. split; [exact P|].
      split; [intros x; rewrite Ee; apply (exited_spec sc Hne Hanc Hpc Hdesc_complete)|].
      split; [exact HN|]. split; [exact HS|]. split; [|split].
      - intros l1 x l2 y E Hy Hxy. rewrite E in Hy, HS.
        apply in_app_or in Hy. destruct Hy as [Hy|[<-|Hy]]; [exact Hy| |]; exfalso.
        + exact (anc_irr sc Hanc x Hxy).
        + apply StronglySorted_split in HS. rewrite Forall_forall in HS. specialize (HS y Hy).
          apply exit_order_leb_iff in HS. apply Hanc in Hxy. lia.
      - intros l1 x l2 y l3 E Hd. rewrite E in HS, HN.
        assert (In y (l2 ++ y :: l3)) as Hy by (apply in_or_app; right; left; reflexivity).
        apply NoDup_remove_2 in HN.
        apply StronglySorted_split in HS. rewrite Forall_forall in HS. specialize (HS y Hy).
        apply exit_order_leb_iff in HS. destruct HS as [HS|[_ HS]]; [lia|].
        apply str_leb_neq_ltb; [exact HS|]. intros ->. apply HN. apply in_or_app. right. exact Hy.
      - intros Hc. apply mem_In in Hc. rewrite Ee. unfold exited_of. rewrite Hc. eexists. reflexivity.
    Qed.

    (* ================================================================ 4. C03_entry_order *)
    (* l is a downward path: the parent of the first element is p, every other element is a child
       of its predecessor *)
    Fixpoint is_path (p : option name) (l : list name) : Prop :=
      match l with
      | [] => True
      | x :: r => par x = p /\ is_path (Some x) r
      end.

    Lemma is_path_anc : forall l p y, is_path (Some p) l -> In y l -> In p (anc y).
    Proof.
      induction l as [|x r IH]; intros p y H Hy; [destruct Hy|]. destruct H as [Hp Hr].
      destruct Hy as [<-|Hy]; [apply (anc_par sc Hne Hanc), Hp|].
      eapply (anc_tr sc Hanc); [apply (IH x y Hr Hy)|apply (anc_par sc Hne Hanc), Hp].
    Qed.

    Lemma is_path_nodup : forall l p, is_path p l -> NoDup l.
    Proof.
      induction l as [|x r IH]; intros p H; [constructor|]. destruct H as [_ Hr].
      constructor; [|eapply IH; eauto]. intros Hin.
      exact (anc_irr sc Hanc x (is_path_anc r x x Hr Hin)).
    Qed.

    (* the predecessor of x in a path is its parent *)
    Lemma is_path_split : forall l1 q x l2, is_path q (l1 ++ x :: l2) ->
      (l1 = [] /\ par x = q) \/ (exists l1' y, l1 = l1' ++ [y] /\ par x = Some y).
    Proof.
      induction l1 as [|a l1 IH]; intros q x l2 H; simpl in H.
      - left. split; [reflexivity|apply H].
      - right. destruct H as [_ H]. destruct (IH (Some a) x l2 H) as [[-> Hp]|(l1' & y & -> & Hp)].
        + exists [], a. split; [reflexivity|exact Hp].
        + exists (a :: l1'), y. split; [reflexivity|exact Hp].
    Qed.

    Lemma entered_path_is_path lca : forall cur acc,
      (forall l, lca = Some l -> In l (anc cur)) ->
      is_path (par cur) acc -> is_path lca (entered_path lca (anc cur) acc).
    Proof.
      apply (anc_ind sc Hne Hanc (fun cur => forall acc,
        (forall l, lca = Some l -> In l (anc cur)) ->
        is_path (par cur) acc -> is_path lca (entered_path lca (anc cur) acc))).
      intros cur IH acc Hl Hacc. destruct (par cur) as [p|] eqn:Hp.
      - rewrite (anc_some sc Hne Hanc cur p Hp), entered_path_cons.
        destruct (ostr_eqb (Some p) lca) eqn:E.
        + apply ostr_eqb_iff in E. rewrite <- E. exact Hacc.
        + apply ostr_eqb_false_iff in E. apply (IH p eq_refl).
          * intros l El. specialize (Hl l El). rewrite (anc_some sc Hne Hanc cur p Hp) in Hl.
            destruct Hl as [<-|Hl]; [congruence|exact Hl].
          * simpl. split; [reflexivity|exact Hacc].
      - rewrite (anc_none sc cur Hp). simpl.
        destruct lca as [l|]; [|exact Hacc]. specialize (Hl l eq_refl).
        rewrite (anc_none sc cur Hp) in Hl. destruct Hl.
    Qed.

    Lemma entered_path_last lca d : forall l acc,
      acc <> [] -> last (entered_path lca l acc) d = last acc d.
    Proof.
      induction l as [|a l IH]; intros acc Hne'; [reflexivity|]. rewrite entered_path_cons.
      destruct (ostr_eqb (Some a) lca); [reflexivity|].
      rewrite IH by discriminate. destruct acc; [congruence|reflexivity].
    Qed.

    Lemma entered_path_nonempty lca : forall l acc, acc <> [] -> entered_path lca l acc <> [].
    Proof.
      induction l as [|a l IH]; intros acc Hne'; [exact Hne'|]. rewrite entered_path_cons.
      destruct (ostr_eqb (Some a) lca); [exact Hne'|]. apply IH. discriminate.
    Qed.

    (* transition micro step: the entered list is the path from just below the LCA down to the
       target, outermost first *)
    Theorem C03_entry_order cfg ev it tgt :
      t_target (snd it) = Some tgt ->
      let lca := least_common_ancestor sc (src it) tgt in
      let entered := ms_entered (create_step sc cfg ev it) in
      (* a downward path starting just below the LCA (at a top state if there is no LCA) ... *)
      is_path lca entered
      (* ... ending with the target *)
      /\ entered <> [] /\ last entered tgt = tgt
      (* its elements: the target and its ancestors strictly below the LCA *)
      /\ (forall x, In x entered <-> under x tgt /\ below lca x)
      /\ NoDup entered
      (* every state is immediately preceded by its parent, unless it is the first *)
      /\ (forall l1 x l2, entered = l1 ++ x :: l2 ->
            (l1 = [] /\ par x = lca) \/ (exists l1' p, l1 = l1' ++ [p] /\ par x = Some p))
      (* a parent that is entered at all is entered before its child *)
      /\ (forall l1 x l2 p, entered = l1 ++ x :: l2 -> par x = Some p -> In p entered -> In p l1).
    Proof.
      intros Ht lca entered.
      assert (entered = entered_path lca (anc tgt) [tgt]) as Ee by (apply create_step_entered; exact Ht).
      assert (forall l, lca = Some l -> In l (anc tgt)) as Hl.
      { intros l El. apply lca_is_ancestor in El. tauto. }
      assert (is_path lca entered) as HP.
      { rewrite Ee. apply entered_path_is_path; [exact Hl|]. simpl. auto. }
      assert (forall x, In x entered <-> under x tgt /\ below lca x) as HI.
      { intros x. rewrite Ee. apply (entered_spec sc Hne Hanc); exact Hl. }
      split; [exact HP|].
      split; [rewrite Ee; apply entered_path_nonempty; discriminate|].
      split; [rewrite Ee, entered_path_last by discriminate; reflexivity|].
      split; [exact HI|]. split; [eapply is_path_nodup; eauto|]. split.
      - intros l1 x l2 E. rewrite E in HP. eapply is_path_split; eauto.
      - intros l1 x l2 p E Hp Hin. rewrite E in HP.
        destruct (is_path_split _ _ _ _ HP) as [[-> Hq]|(l1' & y & -> & Hq)].
        + exfalso. apply HI in Hin. destruct Hin as [_ Hb]. unfold C02Proofs.below in Hb.
          rewrite <- Hq, Hp in Hb. exact (anc_irr sc Hanc p Hb).
        + rewrite Hp in Hq. inversion Hq; subst y. apply in_or_app. right. left. reflexivity.
    Qed.

    (* depth of a child *)
    Lemma depth_child c p : par c = Some p -> depth c = (depth p + 1)%Z.
    Proof.
      intros H. unfold depth_for. rewrite (anc_some sc Hne Hanc c p H). simpl length. lia.
    Qed.

    (* stabilisation micro steps: what is entered, and in which order *)
    Theorem C03_entry_order_stab (i : ist) step :
      css i = Some (inl step) ->
      ms_trans step = None /\ ms_event step = None /\
      ( (* default entry of a compound state without active child: its initial state *)
        (exists n st i0, is_leaf sc (i_config i) n /\ state_for sc n = Some st
           /\ s_kind st = KCompound /\ truthy (s_initial st) = Some i0
           /\ ms_entered step = [i0] /\ ms_exited step = [])
        \/
        (* an active orthogonal state: all its inactive children, in name order *)
        (exists n st, In n (i_config i) /\ state_for sc n = Some st /\ s_kind st = KOrthogonal
           /\ ms_entered step
              = sort_names (filter (fun ch => negb (mem ch (i_config i))) (kids n))
           /\ ms_exited step = []
           /\ StronglySorted (fun a b => str_leb a b = true) (ms_entered step)
           /\ (forall c, In c (ms_entered step) -> par c = Some n /\ depth c = (depth n + 1)%Z))
        \/
        (* an active history state is replaced by its memory, sorted by (depth, name) *)
        (exists h st, is_leaf sc (i_config i) h /\ state_for sc h = Some st
           /\ is_history (s_kind st) = true /\ ms_exited step = [h]
           /\ ((exists l, lookup h (i_memory i) = Some l
                          /\ ms_entered step = sort (enter_order_leb sc) l)
               \/ (lookup h (i_memory i) = None
                   /\ exists m, s_memory st = Some m /\ ms_entered step = [m]))
           /\ StronglySorted (fun a b => enter_order_leb sc a b = true) (ms_entered step)
           (* hence parents before children *)
           /\ (forall l1 a l2 b, ms_entered step = l1 ++ a :: l2 ->
                 In b (anc a) -> In b (ms_entered step) -> In b l1))
        \/
        (* an active final child of the root: leave it and the root *)
        (exists f st r, is_leaf sc (i_config i) f /\ state_for sc f = Some st /\ s_kind st = KFinal
           /\ root sc = Some r /\ par f = Some r
           /\ ms_exited step = [f; r] /\ ms_entered step = [])).
    Proof.
      intros Hcss.
      pose proof (create_stabilization_step_event _ _ _ _ Hcss) as (Ev & Tr & _).
      split; [exact Tr|]. split; [exact Ev|].
      assert (forall l, StronglySorted (fun a b => enter_order_leb sc a b = true)
                          (sort (enter_order_leb sc) l)) as Hsorted.
      { intros l. apply sort_strongly_sorted.
        - intros a b. apply zn_leb_total.
        - intros a b c. apply zn_leb_trans. }
      assert (forall l l1 a l2 b, sort (enter_order_leb sc) l = l1 ++ a :: l2 ->
                In b (anc a) -> In b (sort (enter_order_leb sc) l) -> In b l1) as Hparents.
      { intros l l1 a l2 b E Hb Hin. apply sort_In in Hin.
        exact (C06Proofs.C06_restore_parents_first sc Hanc l l1 a l2 b E Hb Hin). }
      assert (forall (m : name) l1 a l2 b, [m] = l1 ++ a :: l2 -> In b (anc a) -> In b [m] -> In b l1)
        as Hone.
      { intros m l1 a l2 b E Hb [<-|[]]. destruct l1 as [|z l1].
        - inversion E; subst. exfalso. exact (anc_irr sc Hanc a Hb).
        - inversion E as [[E1 E2]]. destruct l1; discriminate. }
      assert (forall n cfg, forall c, In c (sort_names (filter (fun ch => negb (mem ch cfg)) (kids n))) ->
                par c = Some n /\ depth c = (depth n + 1)%Z) as Hch.
      { intros n cfg c Hc. apply sort_In, filter_In in Hc. destruct Hc as [Hc _].
        apply Hpc in Hc. split; [exact Hc|apply depth_child, Hc]. }
      apply css_some in Hcss. destruct Hcss as [(n & Hleaf & Hs)|(n & Hn & Hs)].
      - unfold stab_for_leaf in Hs. destruct (state_for sc n) as [st|] eqn:Est; [|discriminate].
        destruct (s_kind st) eqn:K.
        + discriminate.
        + destruct (truthy (s_initial st)) as [i0|] eqn:Ei; [|discriminate].
          inversion Hs; subst step. left. exists n, st, i0. repeat split; auto; apply Hleaf.
        + destruct (kids n) as [|c l] eqn:Ek; [discriminate|].
          inversion Hs; subst step. right. left. exists n, st. cbn [ms_entered ms_exited].
          assert (filter (fun ch => negb (mem ch (i_config i))) (kids n) = kids n) as Ef.
          { apply filter_true_id. intros x Hx. apply negb_true_iff, mem_false_iff.
            destruct Hleaf as [_ Hd]. apply Hd, kids_desc, Hx. }
          rewrite Ef, Ek.
          split; [apply Hleaf|]. split; [exact Est|]. split; [exact K|].
          split; [reflexivity|]. split; [reflexivity|].
          split; [apply (sort_names_sorted (c :: l))|].
          intros x Hx. apply (Hch n (i_config i)). rewrite Ef, Ek. exact Hx.
        + destruct (ostr_eqb (par n) (root sc)) eqn:Eo; [|discriminate].
          destruct (root sc) as [r|] eqn:Er; [|discriminate].
          inversion Hs; subst step. right. right. right. exists n, st, r.
          apply ostr_eqb_iff in Eo. repeat split; auto; apply Hleaf.
        + right. right. left. exists n, st. split; [exact Hleaf|]. split; [exact Est|].
          split; [rewrite K; reflexivity|].
          destruct (lookup n (i_memory i)) as [l|] eqn:El.
          * inversion Hs; subst step. cbn [ms_entered ms_exited]. split; [reflexivity|].
            split; [left; exists l; split; reflexivity|]. split; [apply Hsorted|apply Hparents].
          * destruct (s_memory st) as [m|] eqn:Em; [|discriminate].
            inversion Hs; subst step. cbn [ms_entered ms_exited]. split; [reflexivity|].
            split; [right; split; [reflexivity|exists m; split; reflexivity]|].
            split; [constructor; constructor|apply Hone].
        + right. right. left. exists n, st. split; [exact Hleaf|]. split; [exact Est|].
          split; [rewrite K; reflexivity|].
          destruct (lookup n (i_memory i)) as [l|] eqn:El.
          * inversion Hs; subst step. cbn [ms_entered ms_exited]. split; [reflexivity|].
            split; [left; exists l; split; reflexivity|]. split; [apply Hsorted|apply Hparents].
          * destruct (s_memory st) as [m|] eqn:Em; [|discriminate].
            inversion Hs; subst step. cbn [ms_entered ms_exited]. split; [reflexivity|].
            split; [right; split; [reflexivity|exists m; split; reflexivity]|].
            split; [constructor; constructor|apply Hone].
      - unfold stab_for_orthogonal in Hs. destruct (state_for sc n) as [st|] eqn:Est; [|discriminate].
        destruct (s_kind st) eqn:K; try discriminate.
        destruct (filter (fun ch => negb (mem ch (i_config i))) (kids n)) as [|c l] eqn:Ef; [discriminate|].
        inversion Hs; subst step. right. left. exists n, st. cbn [ms_entered ms_exited].
        split; [exact Hn|]. split; [exact Est|]. split; [exact K|]. rewrite Ef.
        split; [reflexivity|]. split; [reflexivity|].
        split; [apply (sort_names_sorted (c :: l))|].
        intros x Hx. apply (Hch n (i_config i)). rewrite Ef. exact Hx.
    Qed.

  End Tree.

End C03.

(* ================================================================== a checker for the tree hypotheses *)
Lemma lookup_In_pair {V} (k : name) (d : list (name * V)) v : lookup k d = Some v -> In (k, v) d.
Proof.
  induction d as [|[k' v'] d IH]; simpl; intros H; [discriminate|].
  destruct (str_eqb k k') eqn:E.
  - apply str_eqb_spec in E. inversion H; subst. left; reflexivity.
  - right. apply IH, H.
Qed.

Lemma olookup_In_pair {V} (k : option name) (d : list (option name * V)) v :
  olookup k d = Some v -> In (k, v) d.
Proof.
  induction d as [|[k' v'] d IH]; simpl; intros H; [discriminate|].
  destruct (opt_eqb str_eqb k k') eqn:E.
  - apply ostr_eqb_iff in E. inversion H; subst. left; reflexivity.
  - right. apply IH, H.
Qed.

Definition tree_okb (sc : chart) : bool :=
  forallb (fun kv => negb (ostr_eqb (snd kv) (Some ""%string))) (c_parent sc)
  && anc_depth_okb sc
  && forallb (fun kl => match fst kl with
                        | Some p => forallb (fun c => ostr_eqb (parent_for sc c) (Some p)) (snd kl)
                        | None => true
                        end) (c_children sc)
  && forallb (fun kv => match snd kv with
                        | Some p => mem (fst kv) (children_for sc p)
                        | None => true
                        end) (c_parent sc)
  && forallb (fun kl => nodup_b (snd kl)) (c_children sc)
  && forallb (fun kv => forallb (fun a => mem (fst kv) (descendants_for sc a))
                                (ancestors_for sc (fst kv))) (c_parent sc).

(* tree_okb implies the five hypotheses of Section Tree *)
Lemma tree_okb_sound sc : tree_okb sc = true ->
  (forall n, parent_for sc n <> Some ""%string)
  /\ (forall a b, In b (ancestors_for sc a) -> (depth_for sc b < depth_for sc a)%Z)
  /\ (forall c p, In c (children_for sc p) <-> parent_for sc c = Some p)
  /\ (forall p, NoDup (children_for sc p))
  /\ (forall a d, In a (ancestors_for sc d) -> In d (descendants_for sc a)).
Proof.
  unfold tree_okb. rewrite !andb_true_iff, !forallb_forall.
  intros (((((H1 & H2) & H3) & H4) & H5) & H6).
  assert (forall p l, olookup (Some p) (c_children sc) = Some l -> children_for sc p = l) as Hk.
  { intros p l E. unfold children_for. rewrite E. reflexivity. }
  split; [|split; [|split; [|split]]].
  - intros n E. unfold parent_for in E. destruct (lookup n (c_parent sc)) as [p|] eqn:El; [|discriminate].
    apply lookup_In_pair in El. specialize (H1 _ El). simpl in H1. subst p.
    apply negb_true_iff, ostr_eqb_false_iff in H1. congruence.
  - apply anc_depth_okb_sound, H2.
  - intros c p. split.
    + intros Hc. unfold children_for in Hc.
      destruct (olookup (Some p) (c_children sc)) as [l|] eqn:El; [|destruct Hc].
      apply olookup_In_pair in El. specialize (H3 _ El). simpl in H3.
      rewrite forallb_forall in H3. apply ostr_eqb_iff, H3, Hc.
    + intros E. unfold parent_for in E. destruct (lookup c (c_parent sc)) as [q|] eqn:El; [|discriminate].
      subst q. apply lookup_In_pair in El. specialize (H4 _ El). simpl in H4. apply mem_In, H4.
  - intros p. unfold children_for.
    destruct (olookup (Some p) (c_children sc)) as [l|] eqn:El; [|constructor].
    apply olookup_In_pair in El. specialize (H5 _ El). simpl in H5. apply nodup_b_iff, H5.
  - intros a d Ha. destruct (lookup d (c_parent sc)) as [p|] eqn:El.
    + apply lookup_In_pair in El. specialize (H6 _ El). simpl in H6.
      rewrite forallb_forall in H6. apply mem_In, H6, Ha.
    + exfalso. unfold ancestors_for, parent_for in Ha. rewrite El in Ha.
      destruct (length (c_parent sc)); simpl in Ha; destruct Ha.
Qed.

(* ================================================================== 5. non-vacuity *)
Module C03Examples.
  Open Scope string_scope.
  Open Scope list_scope.

  Definition st (n : name) (k : kind) (init : option name) : name * state :=
    (n, mkState n k init None None None [] [] []).
  Definition tr (src : name) (tgt : option name) (ev : option name) : transition :=
    mkTrans src tgt ev None None 0 [] [] [].

  (* root (compound, initial P) > { P, out };
     P (orthogonal) with three regions DECLARED IN THE ORDER B, C, A:
       B (compound, initial b1) > { b1, b2 }     C (compound, initial c1) > { c1 }
       A (compound, initial a1) > { a1, a2 };    a2 (compound, initial a21) > { a21 } *)
  Definition tB := tr "b1" (Some "b2") (Some "e").    (* index 0 *)
  Definition tA := tr "a1" (Some "a2") (Some "e").    (* index 1 *)
  Definition tX := tr "P" (Some "out") (Some "x").    (* index 2 *)

  Definition chart0 : chart :=
    mkChart "c03" None None
      [st "root" KCompound (Some "P"); st "P" KOrthogonal None; st "out" KBasic None;
       st "B" KCompound (Some "b1"); st "C" KCompound (Some "c1"); st "A" KCompound (Some "a1");
       st "b1" KBasic None; st "b2" KBasic None; st "c1" KBasic None;
       st "a1" KBasic None; st "a2" KCompound (Some "a21"); st "a21" KBasic None]
      [("root", None); ("P", Some "root"); ("out", Some "root");
       ("B", Some "P"); ("C", Some "P"); ("A", Some "P");
       ("b1", Some "B"); ("b2", Some "B"); ("c1", Some "C");
       ("a1", Some "A"); ("a2", Some "A"); ("a21", Some "a2")]
      [(None, ["root"]); (Some "root", ["P"; "out"]); (Some "P", ["B"; "C"; "A"]); (Some "out", []);
       (Some "B", ["b1"; "b2"]); (Some "C", ["c1"]); (Some "A", ["a1"; "a2"]);
       (Some "b1", []); (Some "b2", []); (Some "c1", []); (Some "a1", []);
       (Some "a2", ["a21"]); (Some "a21", [])]
      [tB; tA; tX].

  (* the tree hypotheses hold for chart0 *)
  Example chart0_tree_ok : tree_okb chart0 = true.
  Proof. vm_compute. reflexivity. Qed.

  Lemma chart0_tree :
    (forall n, parent_for chart0 n <> Some "")
    /\ (forall a b, In b (ancestors_for chart0 a) -> (depth_for chart0 b < depth_for chart0 a)%Z)
    /\ (forall c p, In c (children_for chart0 p) <-> parent_for chart0 c = Some p)
    /\ (forall p, NoDup (children_for chart0 p))
    /\ (forall a d, In a (ancestors_for chart0 d) -> In d (descendants_for chart0 a)).
  Proof. exact (tree_okb_sound chart0 chart0_tree_ok). Qed.

  (* ---------------------------------------------------------------- exit order *)
  (* everything is active (a1, b1, c1 in the three regions); P -> out exits both... all three regions *)
  Definition cfg1 : list name := ["root"; "P"; "B"; "C"; "A"; "b1"; "c1"; "a1"].

  (* the regions are declared B, C, A; the exit order is by depth (innermost first), then by name *)
  Example ex_exit_order :
    ms_exited (create_step chart0 cfg1 None (2, tX)) = ["a1"; "b1"; "c1"; "A"; "B"; "C"; "P"]
    /\ ms_entered (create_step chart0 cfg1 None (2, tX)) = ["out"]
    /\ descendants_for chart0 "P" = ["B"; "C"; "A"; "b1"; "b2"; "c1"; "a1"; "a2"; "a21"].
  Proof. vm_compute. repeat split. Qed.

  (* neither the declaration order nor its reverse (the order of unrepaired sismic) *)
  Example ex_exit_order_not_declaration :
    let active_desc := filter (fun d => mem d cfg1) (descendants_for chart0 "P") in
    active_desc = ["B"; "C"; "A"; "b1"; "c1"; "a1"]
    /\ rev active_desc ++ ["P"] <> ms_exited (create_step chart0 cfg1 None (2, tX)).
  Proof. vm_compute. split; [reflexivity|discriminate]. Qed.

  (* a deeper configuration: a2 and its child a21 are active *)
  Definition cfg2 : list name := ["root"; "P"; "B"; "C"; "A"; "b2"; "c1"; "a2"; "a21"].
  Example ex_exit_order_deep :
    ms_exited (create_step chart0 cfg2 None (2, tX)) = ["a21"; "a2"; "b2"; "c1"; "A"; "B"; "C"; "P"].
  Proof. vm_compute. reflexivity. Qed.

  (* C03_exit_order applies to this step (its hypotheses are satisfiable) *)
  Example ex_exit_order_applies :
    let exited := ms_exited (create_step chart0 cfg2 None (2, tX)) in
    (forall x, In x exited <-> In x cfg2 /\ under chart0 "P" x)
    /\ NoDup exited
    /\ (forall l1 x l2 y, exited = l1 ++ x :: l2 -> In y exited -> In x (ancestors_for chart0 y) -> In y l1)
    /\ (forall l1 x l2 y l3, exited = l1 ++ x :: l2 ++ y :: l3 ->
          depth_for chart0 x = depth_for chart0 y -> str_ltb x y = true).
  Proof.
    destruct chart0_tree as (Hne0 & Hanc0 & Hpc0 & Hkn0 & Hdc0).
    pose proof (C03_exit_order chart0 Hne0 Hanc0 Hpc0 Hkn0 Hdc0 cfg2 None (2, tX) "out" eq_refl) as H.
    cbv zeta in H. destruct H as (_ & _ & H3 & H4 & _ & H6 & H7 & _).
    cbv zeta. split; [exact H3|]. split; [exact H4|]. split; [exact H6|exact H7].
  Qed.

  (* ---------------------------------------------------------------- entry order *)
  (* a transition from out into the nested state a21 enters P, A, a2, a21 top-down *)
  Definition tIn := tr "out" (Some "a21") None.
  Example ex_entry_order :
    ms_entered (create_step chart0 ["root"; "out"] None (3, tIn)) = ["P"; "A"; "a2"; "a21"]
    /\ ms_exited (create_step chart0 ["root"; "out"] None (3, tIn)) = ["out"].
  Proof. vm_compute. split; reflexivity. Qed.

  Example ex_entry_order_applies :
    let entered := ms_entered (create_step chart0 ["root"; "out"] None (3, tIn)) in
    is_path chart0 (Some "root") entered /\ last entered "a21" = "a21" /\ NoDup entered.
  Proof.
    destruct chart0_tree as (Hne0 & Hanc0 & _).
    pose proof (C03_entry_order chart0 Hne0 Hanc0 ["root"; "out"] None (3, tIn) "a21" eq_refl) as H.
    cbv zeta in H. destruct H as (H1 & _ & H3 & _ & H5 & _). cbv zeta. split; [exact H1|].
    split; [exact H3|exact H5].
  Qed.

  (* ---------------------------------------------------------------- transition order *)
  Definition M0 := mkM (init_istate 0 0 false tt) tt ([] : list (obs unit)).

  Example ex_transition_order :
    sort_transitions unit unit chart0 [(0, tB); (1, tA)] M0 = (M0, inl [(1, tA); (0, tB)])
    /\ sort_transitions unit unit chart0 [(2, tX); (0, tB)] M0 = (M0, inr ENonDeterminism).
  Proof. vm_compute. split; reflexivity. Qed.

  Example ex_transition_order_applies :
    forall l1 a l2 b l3, [(1, tA); (0, tB)] = l1 ++ a :: l2 ++ b :: l3 -> src_before chart0 a b.
  Proof.
    intros l1 a l2 b l3 E.
    destruct (C03_transition_order unit unit chart0 [(0, tB); (1, tA)] M0 M0 [(1, tA); (0, tB)])
      as (_ & _ & _ & _ & _ & H); [vm_compute; reflexivity|].
    apply (H l1 a l2 b l3 E).
  Qed.

  (* ---------------------------------------------------------------- atomicity, end to end *)
  Definition exec0 (c : call unit) (x : unit) : option (unit * list event) := Some (x, []).
  Definition eval0 (c : call unit) (x : unit) : option bool := Some true.
  Definition emit0 (t : Z) (m : meta) (x : unit) : unit * option err := (x, None).
  Definition run (s : mstate unit unit) := execute_once unit unit exec0 eval0 emit0 chart0 20 0 s.

  (* not yet initialised; the events e and x are waiting in the external queue *)
  Definition S0 : mstate unit unit :=
    mkM (mkIState 0 false 0 [] [] [] [] [] []
                  [(0%Z, mkEvent External "e" []); (0%Z, mkEvent External "x" [])] false tt []) tt [].
  Definition S1 := fst (run S0).     (* after the initial macro step *)
  Definition S2 := fst (run S1).     (* after e *)
  Definition S3 := fst (run S2).     (* after x *)

  Definition steps_of (r : mstate unit unit * (option macrostep + err)) : list microstep :=
    match snd r with inl (Some (_, l)) => l | _ => [] end.

  (* first macro step: the root, then default entries until stable; the regions of P are entered
     in name order A, B, C although they are declared B, C, A *)
  Example ex_first_step :
    map ms_entered (steps_of (run S0)) = [["root"]; ["P"]; ["A"; "B"; "C"]; ["a1"]; ["b1"]; ["c1"]]
    /\ map ms_trans (steps_of (run S0)) = [None; None; None; None; None; None]
    /\ i_config (m_i S1) = ["root"; "P"; "A"; "B"; "C"; "a1"; "b1"; "c1"].
  Proof. vm_compute. repeat split. Qed.

  Example ex_first_step_applies :
    i_initialized (m_i S0) = false
    /\ exists s' t steps, run S0 = (s', inl (Some (t, steps))).
  Proof. split; [vm_compute; reflexivity|]. eexists. eexists. eexists. vm_compute. reflexivity. Qed.

  (* macro step for e: two transitions (declared tB then tA; executed tA then tB); the first is
     followed by the default entry of a21 BEFORE the second starts *)
  Example ex_atomic :
    exists s' t a1 d1 a2,
      run S1 = (s', inl (Some (t, [a1; d1; a2])))
      /\ (ms_trans a1 = Some 1 /\ ms_exited a1 = ["a1"] /\ ms_entered a1 = ["a2"])
      /\ (ms_trans d1 = None /\ ms_exited d1 = [] /\ ms_entered d1 = ["a21"])
      /\ (ms_trans a2 = Some 0 /\ ms_exited a2 = ["b1"] /\ ms_entered a2 = ["b2"])
      /\ atomic_shape [(1, tA); (0, tB)] ([a1] ++ [d1] ++ [a2] ++ [] ++ []).
  Proof.
    do 5 eexists. split; [vm_compute; reflexivity|]. repeat split.
    apply (as_cons (1, tA) [(0, tB)] _ [_] _); [reflexivity|repeat constructor|].
    apply (as_cons (0, tB) [] _ [] _); [reflexivity|constructor|constructor].
  Qed.

  (* the hypotheses of C03_atomic hold for this run, and its conclusion *)
  Example ex_atomic_applies :
    i_initialized (m_i S1) = true
    /\ forall s' t steps,
         execute_once unit unit exec0 eval0 emit0 chart0 20 0 S1 = (s', inl (Some (t, steps))) ->
         create_stabilization_step unit chart0 (m_i s') = None
         /\ exists sel ts, sel <> [] /\ sort_transitions unit unit chart0 sel S1 = (S1, inl ts)
                           /\ atomic_shape ts steps.
  Proof.
    assert (i_initialized (m_i S1) = true) as Hi by (vm_compute; reflexivity).
    split; [exact Hi|]. intros s' t steps H.
    destruct (C03_atomic unit unit exec0 eval0 emit0 chart0 20 0 S1 s' t steps Hi H)
      as (s0 & s1 & s2 & s3 & sel & H0 & Hsel & _ & _ & _ & Hst & Hcases).
    split; [exact Hst|].
    destruct Hcases as [(-> & e & _ & Hb)|(Hne & ts & Hsort & _ & Hshape)].
    - exfalso. vm_compute in H. inversion H; subst s' t steps. clear H.
      inversion Hb as [|? p ps sa a stab sb rest ? Ha Hs Hr]; subst.
      apply (apply_step_inv unit unit exec0 eval0 emit0 chart0 (fun _ => True)) in Ha.
      destruct Ha as (ent & exi & _ & _ & _ & _ & _ & _ & A2 & _). simpl in A2. discriminate.
    - exists sel, ts. split; [exact Hne|]. split; [apply Hsort|exact Hshape].
  Qed.

  (* macro step for x: P -> out exits the three regions innermost first, by name *)
  Example ex_exit_run :
    map ms_exited (steps_of (run S2)) = [["a21"; "a2"; "b2"; "c1"; "A"; "B"; "C"; "P"]]
    /\ map ms_entered (steps_of (run S2)) = [["out"]]
    /\ i_config (m_i S3) = ["root"; "out"].
  Proof. vm_compute. repeat split. Qed.

  (* ---------------------------------------------------------------- stabilisation steps *)
  (* P active without its regions: they are entered in name order (declared B, C, A) *)
  Definition iP : istate unit := mkIState 0 true 0 [] ["root"; "P"] [] [] [] [] [] false tt [].
  Example ex_orthogonal_entry :
    create_stabilization_step unit chart0 iP = Some (inl (mkMicro None None ["A"; "B"; "C"] [] [])).
  Proof. vm_compute. reflexivity. Qed.

  (* a chart with a deep history state h below A; the memory lists the inner state first *)
  Definition chartH : chart :=
    mkChart "c03h" None None
      [st "root" KCompound (Some "A"); st "A" KCompound (Some "a1"); st "h" KDeep None;
       st "a1" KCompound (Some "a11"); st "a11" KBasic None]
      [("root", None); ("A", Some "root"); ("h", Some "A"); ("a1", Some "A"); ("a11", Some "a1")]
      [(None, ["root"]); (Some "root", ["A"]); (Some "A", ["h"; "a1"]); (Some "h", []);
       (Some "a1", ["a11"]); (Some "a11", [])]
      [].
  Definition iH : istate unit :=
    mkIState 0 true 0 [("h", ["a11"; "a1"])] ["root"; "A"; "h"] [] [] [] [] [] false tt [].

  Example chartH_tree_ok : tree_okb chartH = true.
  Proof. vm_compute. reflexivity. Qed.

  (* the history state is replaced by its memory, parents first *)
  Example ex_history_entry :
    create_stabilization_step unit chartH iH = Some (inl (mkMicro None None ["a1"; "a11"] ["h"] [])).
  Proof. vm_compute. reflexivity. Qed.

  Example ex_entry_order_stab_applies :
    forall step, create_stabilization_step unit chartH iH = Some (inl step) ->
      ms_trans step = None
      /\ forall l1 a l2 b, ms_entered step = l1 ++ a :: l2 ->
           In b (ancestors_for chartH a) -> In b (ms_entered step) -> In b l1.
  Proof.
    intros step H.
    destruct (tree_okb_sound chartH chartH_tree_ok) as (N & A & P & _ & _).
    destruct (C03_entry_order_stab unit chartH N A P iH step H) as (Tr & _ & Hc).
    split; [exact Tr|].
    rewrite ex_history_entry in H. inversion H; subst step. clear H.
    destruct Hc as [(n & s0 & i0 & _ & _ & _ & _ & _ & E)|[(n & s0 & _ & _ & _ & _ & E & _)|
                    [(h & s0 & _ & _ & _ & _ & _ & _ & Hp)|(f & s0 & r & _ & _ & _ & _ & _ & _ & E)]]];
      try discriminate E.
    exact Hp.
  Qed.

End C03Examples.

Print Assumptions C03_atomic.
Print Assumptions C03_atomic_first.
Print Assumptions C03_transition_order.
Print Assumptions C03_exit_order.
Print Assumptions C03_entry_order.
Print Assumptions C03_entry_order_stab.
Print Assumptions desc_nodup.
Print Assumptions tree_okb_sound.
Print Assumptions C03Examples.ex_exit_order_applies.
Print Assumptions C03Examples.ex_entry_order_applies.
Print Assumptions C03Examples.ex_atomic_applies.
Print Assumptions C03Examples.ex_entry_order_stab_applies.
