(* WF -- One notion of well-formed statechart (DESIGN.md section 2): the decidable checker C02Proofs.wf_chart_b (plus duplicate-free dictionaries, dict_ok, which every statechart built through the API or imported has) implies every hypothesis package under which the theorems of the individual properties are stated, and the headline theorems hold under it.  Not a property of its own: a consolidation used by C01-C07, C10, C13.
   Property theorems only: every statement below is the statement of a lemma proved in proofs/,
   printed by Coq and closed by `exact`. *)
From Coq Require Import List ZArith String.
From Sismic Require Import Base Chart Interp World Spec.
From SismicProofs Require C02Proofs C03Proofs C07Proofs EditProofs IOProofs WFProofs.
Import ListNotations.
Open Scope string_scope.

(* wf_chart_b gives the sixteen hypotheses of C02 *)
Theorem wf_WF_thm :
  forall sc : chart, C02Proofs.wf_chart_b sc = true -> exists r : name, C02Proofs.WF sc r.
Proof. exact WFProofs.wf_WF. Qed.
Print Assumptions wf_WF_thm.

(* ... the five tree facts of C03 *)
Theorem wf_tree_thm :
  forall sc : chart, C02Proofs.wf_chart_b sc = true -> WFProofs.tree_hyps sc.
Proof. exact WFProofs.wf_tree. Qed.
Print Assumptions wf_tree_thm.

(* ... the hypothesis of C01 (ancestors have smaller depth) *)
Theorem wf_anc_depth_thm :
  forall sc : chart,
         C02Proofs.wf_chart_b sc = true ->
         forall a b : name, In b (ancestors_for sc a) -> (depth_for sc b < depth_for sc a)%Z.
Proof. exact WFProofs.wf_anc_depth. Qed.
Print Assumptions wf_anc_depth_thm.

(* ... names_ok (C10, C13, C06) *)
Theorem wf_names_ok_thm :
  forall sc : chart, C02Proofs.wf_chart_b sc = true -> MetaProofs.names_ok sc.
Proof. exact WFProofs.wf_names_ok. Qed.
Print Assumptions wf_names_ok_thm.

(* ... tree_ok (C06) *)
Theorem wf_tree_ok_thm :
  forall sc : chart, C02Proofs.wf_chart_b sc = true -> C06Proofs.tree_ok sc.
Proof. exact WFProofs.wf_tree_ok. Qed.
Print Assumptions wf_tree_ok_thm.

(* ... desc_ok (C07) *)
Theorem wf_desc_ok_thm :
  forall sc : chart, C02Proofs.wf_chart_b sc = true -> C07Proofs.desc_ok sc.
Proof. exact WFProofs.wf_desc_ok. Qed.
Print Assumptions wf_desc_ok_thm.

(* ... decl_wf (C07), given duplicate-free dictionaries *)
Theorem wf_decl_wf_partial_thm :
  forall sc : chart, C02Proofs.wf_chart_b sc = true -> WFProofs.dict_ok sc -> C07Proofs.decl_wf sc.
Proof. exact WFProofs.wf_decl_wf_partial. Qed.
Print Assumptions wf_decl_wf_partial_thm.

(* (kept on purpose) without that, not: wf_chart_b reads the dictionaries through lookups and does not see a shadowed entry *)
Theorem wf_decl_wf_refuted_thm :
  exists sc : chart, C02Proofs.wf_chart_b sc = true /\ ~ C07Proofs.decl_wf sc.
Proof. exact WFProofs.Refutations.wf_decl_wf_refuted. Qed.
Print Assumptions wf_decl_wf_refuted_thm.

(* relation to the soundness notion of the editing API (C16): exactly which further facts sound needs *)
Theorem wf_sound_iff_thm :
  forall sc : chart,
         C02Proofs.wf_chart_b sc = true ->
         EditProofs.sound sc <-> WFProofs.dict_ok sc /\ WFProofs.sound_extra sc.
Proof. exact WFProofs.wf_sound_iff. Qed.
Print Assumptions wf_sound_iff_thm.

(* well-formedness is invariant under permutations of the declaration lists (given duplicate-free dictionaries) *)
Theorem wf_perm_partial_thm :
  forall sc1 sc2 : chart,
         C07Proofs.perm_chart sc1 sc2 ->
         WFProofs.dict_ok sc1 -> C02Proofs.wf_chart_b sc1 = true -> C02Proofs.wf_chart_b sc2 = true.
Proof. exact WFProofs.wf_perm_partial. Qed.
Print Assumptions wf_perm_partial_thm.

(* C01_selection under wf_chart_b *)
Theorem C01_selection_wf_thm :
  forall (ctx X : Type) (eval_code : call ctx -> ctx -> option bool) (sc : chart),
         C02Proofs.wf_chart_b sc = true ->
         forall (ev : option event) (cfg : list name) (s s' : mstate ctx X) (sel : list itrans),
         select_transitions ctx X eval_code sc ev cfg s = (s', inl sel) ->
         (forall it : itrans, In it sel <-> C01Proofs.fires ctx eval_code sc (m_i s) ev cfg it) /\
         NoDup sel /\ m_i s' = m_i s /\ m_x s' = m_x s.
Proof. exact WFProofs.C01_selection_wf. Qed.
Print Assumptions C01_selection_wf_thm.

(* C02_run under wf_chart_b *)
Theorem C02_run_wf_thm :
  forall (ctx X : Type) (exec_code : call ctx -> ctx -> option (ctx * list event))
           (eval_code : call ctx -> ctx -> option bool) (emit : Z -> meta -> X -> X * option err) 
           (sc : chart),
         C02Proofs.wf_chart_b sc = true ->
         forall (ops : list C05Proofs.op) (id : nat) (now : Z) (ignore : bool) (c0 : ctx) 
           (x : X) (tr : list (obs ctx)) (ms : list (option macrostep)) (s' : mstate ctx X),
         C05Proofs.runs ctx X exec_code eval_code emit sc ops
           {| m_i := init_istate id now ignore c0; m_x := x; m_tr := tr |} ms s' ->
         i_config (m_i s') = [] \/
         i_initialized (m_i s') = true /\
         legal_b sc (i_config (m_i s')) = true /\ create_stabilization_step ctx sc (m_i s') = None.
Proof. exact WFProofs.C02_run_wf. Qed.
Print Assumptions C02_run_wf_thm.

(* C03_exit_order under wf_chart_b *)
Theorem C03_exit_order_wf_thm :
  forall sc : chart,
         C02Proofs.wf_chart_b sc = true ->
         forall (cfg : list name) (ev : option event) (it : nat * transition) (tgt : name),
         t_target (snd it) = Some tgt ->
         let lca := least_common_ancestor sc (t_source (snd it)) tgt in
         let lbl := last_before lca (ancestors_for sc (t_source (snd it))) (t_source (snd it)) in
         let exited := ms_exited (create_step sc cfg ev it) in
         C02Proofs.under sc lbl (t_source (snd it)) /\
         parent_for sc lbl = lca /\
         (forall x : name, In x exited <-> In x cfg /\ C02Proofs.under sc lbl x) /\
         NoDup exited /\
         Sorted.StronglySorted (fun a b : name => exit_order_leb sc a b = true) exited /\
         (forall (l1 : list name) (x : name) (l2 : list name) (y : name),
          exited = (l1 ++ x :: l2)%list -> In y exited -> In x (ancestors_for sc y) -> In y l1) /\
         (forall (l1 : list name) (x : name) (l2 : list name) (y : name) (l3 : list name),
          exited = (l1 ++ x :: l2 ++ y :: l3)%list -> depth_for sc x = depth_for sc y -> str_ltb x y = true) /\
         (In lbl cfg -> exists l : list name, exited = (l ++ [lbl])%list).
Proof. exact WFProofs.C03_exit_order_wf. Qed.
Print Assumptions C03_exit_order_wf_thm.

(* C03_entry_order under wf_chart_b *)
Theorem C03_entry_order_wf_thm :
  forall sc : chart,
         C02Proofs.wf_chart_b sc = true ->
         forall (cfg : list name) (ev : option event) (it : nat * transition) (tgt : name),
         t_target (snd it) = Some tgt ->
         let lca := least_common_ancestor sc (t_source (snd it)) tgt in
         let entered := ms_entered (create_step sc cfg ev it) in
         C03Proofs.is_path sc lca entered /\
         entered <> [] /\
         last entered tgt = tgt /\
         (forall x : name, In x entered <-> C02Proofs.under sc x tgt /\ C02Proofs.below sc lca x) /\
         NoDup entered /\
         (forall (l1 : list name) (x : name) (l2 : list name),
          entered = (l1 ++ x :: l2)%list ->
          l1 = [] /\ parent_for sc x = lca \/
          (exists (l1' : list name) (p : name), l1 = (l1' ++ [p])%list /\ parent_for sc x = Some p)) /\
         (forall (l1 : list name) (x : name) (l2 : list name) (p : name),
          entered = (l1 ++ x :: l2)%list -> parent_for sc x = Some p -> In p entered -> In p l1).
Proof. exact WFProofs.C03_entry_order_wf. Qed.
Print Assumptions C03_entry_order_wf_thm.

(* C06_run_last_exit under wf_chart_b *)
Theorem C06_run_last_exit_wf_thm :
  forall (ctx X : Type) (exec_code : call ctx -> ctx -> option (ctx * list event))
           (eval_code : call ctx -> ctx -> option bool) (emit : Z -> meta -> X -> X * option err) 
           (sc : chart),
         C02Proofs.wf_chart_b sc = true ->
         forall (h p : name) (hs : state),
         state_for sc h = Some hs ->
         is_history (s_kind hs) = true ->
         parent_for sc h = Some p ->
         kind_of sc p = Some KCompound ->
         forall (s : mstate ctx X) (hist : list macrostep) (s' : mstate ctx X),
         C06Proofs.run ctx X exec_code eval_code emit sc s hist s' ->
         forall (pre : list microstep) (st : microstep) (post : list microstep),
         C06Proofs.micro_of hist = (pre ++ st :: post)%list ->
         ms_exited st = [h] ->
         ms_trans st = None ->
         Forall (C06Proofs.not_exiting p) pre /\
         match lookup h (i_memory (m_i s)) with
         | Some l => ms_entered st = sort (depth_name_leb sc) l
         | None => exists d : name, s_memory hs = Some d /\ ms_entered st = [d]
         end \/
         (exists (pre1 : list microstep) (x : microstep) (pre2 : list microstep),
            pre = (pre1 ++ x :: pre2)%list /\
            In p (ms_exited x) /\
            Forall (C06Proofs.not_exiting p) pre2 /\
            ms_entered st =
            sort (depth_name_leb sc) (C06Proofs.active_scope sc (replay_config (i_config (m_i s)) pre1) p hs)).
Proof. exact WFProofs.C06_run_last_exit_wf. Qed.
Print Assumptions C06_run_last_exit_wf_thm.

(* C10_complete under wf_chart_b *)
Theorem C10_complete_wf_thm :
  forall (ctx X : Type) (exec_code : call ctx -> ctx -> option (ctx * list event))
           (eval_code : call ctx -> ctx -> option bool) (emit : Z -> meta -> X -> X * option err) 
           (sc : chart),
         C02Proofs.wf_chart_b sc = true ->
         forall (fuel : nat) (now : Z) (s s' : mstate ctx X) (macro : option macrostep),
         execute_once ctx X exec_code eval_code emit sc fuel now s = (s', inl macro) ->
         exists l : list (obs ctx),
           m_tr s' = (l ++ m_tr s)%list /\ MetaProofs.tr_metas ctx l = MetaProofs.spec_meta sc now macro.
Proof. exact WFProofs.C10_complete_wf. Qed.
Print Assumptions C10_complete_wf_thm.

(* C13_entry_idle under wf_chart_b *)
Theorem C13_entry_idle_wf_thm :
  forall (ctx X : Type) (exec_code : call ctx -> ctx -> option (ctx * list event))
           (eval_code : call ctx -> ctx -> option bool) (emit : Z -> meta -> X -> X * option err) 
           (sc : chart),
         C02Proofs.wf_chart_b sc = true ->
         forall (fuel : nat) (now : Z) (s s' : mstate ctx X) (macro : option macrostep),
         execute_once ctx X exec_code eval_code emit sc fuel now s = (s', inl macro) ->
         forall n : name,
         lookup n (i_entry (m_i s')) =
         (if mem n (MetaProofs.steps_entered (MetaProofs.macro_steps macro))
          then Some now
          else lookup n (i_entry (m_i s))) /\
         lookup n (i_idle (m_i s')) =
         (if mem n (MetaProofs.steps_touched sc (MetaProofs.macro_steps macro))
          then Some now
          else lookup n (i_idle (m_i s))).
Proof. exact WFProofs.C13_entry_idle_wf. Qed.
Print Assumptions C13_entry_idle_wf_thm.
