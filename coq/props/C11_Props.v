(* C11 -- YAML export/import round trip is lossless (dictionary level; the YAML text layer - ruamel - is exercised, not modelled).
   Property theorems only: every statement below is the statement of a lemma proved in proofs/,
   printed by Coq and closed by `exact`. *)
From Coq Require Import List ZArith String.
From SismicProofs Require Import IOProofs.
From SismicProofs Require CorollaryProofs.
From Sismic Require Import Base Chart Edit IO IOCorr Interp.
Import ListNotations.
Open Scope string_scope.

(* ROUND TRIP. For every valid statechart (sound, no empty state name, a root, exactly the composite states have children, no empty contract condition) the import of its export succeeds and the result passes the lossless-image checker that the correspondence run evaluates on the real round trip *)
Theorem C11_dict_roundtrip_thm :
  forall c : chart,
         valid_for_export_b c = true ->
         exists c' : chart, import_pipeline (export_to_dict c) = Some c' /\ roundtrip_ok c c' = true.
Proof. exact C11_dict_roundtrip. Qed.
Print Assumptions C11_dict_roundtrip_thm.

(* ... spelled out: same name, description, preamble; the same states with the same kind, parent, entry/exit code, initial/memory and contracts in order; the same transitions with source, target, event, guard, action, priority and contracts, the order among the transitions of one source preserved (code compared modulo surrounding whitespace) *)
Theorem C11_dict_roundtrip_eqv_thm :
  forall c : chart,
         valid_for_export_b c = true ->
         exists c' : chart, import_pipeline (export_to_dict c) = Some c' /\ roundtrip_eqv c c'.
Proof. exact C11_dict_roundtrip_eqv. Qed.
Print Assumptions C11_dict_roundtrip_eqv_thm.

(* the checker means that relation *)
Theorem roundtrip_ok_eqv_thm :
  forall a b : chart, roundtrip_ok a b = true -> roundtrip_eqv a b.
Proof. exact roundtrip_ok_eqv. Qed.
Print Assumptions roundtrip_ok_eqv_thm.

(* priorities: high/low/integers decode to what was encoded *)
Theorem priority_roundtrip_thm :
  forall z : Z, import_priority (export_priority z) = z.
Proof. exact priority_roundtrip. Qed.
Print Assumptions priority_roundtrip_thm.

(* a transition is re-imported as exported *)
Theorem import_export_transition_thm :
  forall t : transition, trans_codes_ok t -> import_transition (t_source t) (tfields t) = strip_trans t.
Proof. exact import_export_transition. Qed.
Print Assumptions import_export_transition_thm.

(* a state is re-imported as exported *)
Theorem import_export_state_thm :
  forall (c : chart) (s : state) (kids : list ydata),
         state_codes_ok s ->
         (is_composite (s_kind s) = true -> kids <> []) ->
         import_state (efields c s kids) = Some (strip_state s).
Proof. exact import_export_state. Qed.
Print Assumptions import_export_state_thm.

(* the schema accepts every exported dictionary unchanged *)
Theorem schema_export_thm :
  forall c : chart,
         EditProofs.sound c ->
         (forall (n : name) (s : state),
          state_for c n = Some s ->
          (is_composite (s_kind s) = true -> children_for c n <> []) /\
          (is_composite (s_kind s) = false -> children_for c n = [])) ->
         forall r : name,
         root c = Some r ->
         schema_statechart
           (doc
              ([("name", YStr (c_name c))] ++
               opt_field "description" (c_description c) ++
               opt_field "preamble" (c_preamble c) ++
               [("root state", YMap (enode (S (Datatypes.length (c_states c))) c r))])) =
         Some
           (doc
              ([("name", YStr (c_name c))] ++
               opt_field "description" (c_description c) ++
               opt_field "preamble" (c_preamble c) ++
               [("root state", YMap (enode (S (Datatypes.length (c_states c))) c r))])).
Proof. exact schema_export. Qed.
Print Assumptions schema_export_thm.

(* BEHAVIOUR. The re-imported statechart behaves identically: for a valid statechart whose code is already in stripped form, every input history (any sequence of queue / execute_once / execute from a fresh interpreter) produces the same run on the original and on the re-import, up to the renumbering of transitions (composition of the round trip with C07_decl_order) *)
Theorem C11_behaviour_fresh_thm :
  forall c : chart,
         CorollaryProofs.IOP.valid_for_export_b c = true ->
         CorollaryProofs.stripped c ->
         exists (c' : chart) (pi : nat -> nat),
           import_pipeline (export_to_dict c) = Some c' /\
           (forall (ctx X : Type) (exec : call ctx -> ctx -> option (ctx * list event))
              (eval : call ctx -> ctx -> option bool) (emit : Z -> meta -> X -> X * option err),
            (forall (cl : call ctx) (x : ctx), exec (CorollaryProofs.C7.cmap pi cl) x = exec cl x) ->
            (forall (cl : call ctx) (x : ctx), eval (CorollaryProofs.C7.cmap pi cl) x = eval cl x) ->
            (forall (t : Z) (m : meta) (x : X) (e : err),
             snd (emit t m x) = Some e -> CorollaryProofs.C7.emap pi e = e) ->
            forall (ops : list CorollaryProofs.C7.op) (id : nat) (now : Z) (ignore : bool) (c0 : ctx) (x : X),
            CorollaryProofs.C7.ops_outcome pi
              (CorollaryProofs.C7.run_ops ctx X exec eval emit c ops
                 {| m_i := init_istate id now ignore c0; m_x := x; m_tr := [] |})
              (CorollaryProofs.C7.run_ops ctx X exec eval emit c' ops
                 {| m_i := init_istate id now ignore c0; m_x := x; m_tr := [] |})).
Proof. exact CorollaryProofs.C11_behaviour_fresh. Qed.
Print Assumptions C11_behaviour_fresh_thm.

(* ... without the stripped-form hypothesis: the re-import behaves as the original with its code stripped *)
Theorem C11_behaviour_strip_thm :
  forall c : chart,
         CorollaryProofs.IOP.valid_for_export_b c = true ->
         exists (c' : chart) (pi : nat -> nat),
           import_pipeline (export_to_dict c) = Some c' /\
           CorollaryProofs.C7.perm_chart (CorollaryProofs.strip_chart c) c' /\
           CorollaryProofs.C7.chart_perm (CorollaryProofs.strip_chart c) c' pi /\
           (forall (ctx X : Type) (exec : call ctx -> ctx -> option (ctx * list event))
              (eval : call ctx -> ctx -> option bool) (emit : Z -> meta -> X -> X * option err),
            (forall (cl : call ctx) (x : ctx), exec (CorollaryProofs.C7.cmap pi cl) x = exec cl x) ->
            (forall (cl : call ctx) (x : ctx), eval (CorollaryProofs.C7.cmap pi cl) x = eval cl x) ->
            (forall (t : Z) (m : meta) (x : X) (e : err),
             snd (emit t m x) = Some e -> CorollaryProofs.C7.emap pi e = e) ->
            forall (ops : list CorollaryProofs.C7.op) (s1 s2 : mstate ctx X),
            CorollaryProofs.C7.run_equiv pi s1 s2 ->
            CorollaryProofs.C7.ops_outcome pi
              (CorollaryProofs.C7.run_ops ctx X exec eval emit (CorollaryProofs.strip_chart c) ops s1)
              (CorollaryProofs.C7.run_ops ctx X exec eval emit c' ops s2)).
Proof. exact CorollaryProofs.C11_behaviour_strip. Qed.
Print Assumptions C11_behaviour_strip_thm.

(* (kept on purpose) the hypothesis on event names is needed: the importer strips event names, so a transition on the event " e " no longer reacts to it after a round trip (such names cannot be written in the documented YAML format; DESIGN.md section 8(12)) *)
Theorem C11_behaviour_unstripped_refuted_thm :
  exists (c c' : chart) (ops : list CorollaryProofs.C7.op),
           CorollaryProofs.IOP.valid_for_export_b c = true /\
           import_pipeline (export_to_dict c) = Some c' /\
           (forall pi : nat -> nat,
            ~
            CorollaryProofs.C7.ops_outcome pi
              (CorollaryProofs.C7.run_ops nat nat CorollaryProofs.exec1 CorollaryProofs.eval1
                 CorollaryProofs.emit1 c ops CorollaryProofs.init1)
              (CorollaryProofs.C7.run_ops nat nat CorollaryProofs.exec1 CorollaryProofs.eval1
                 CorollaryProofs.emit1 c' ops CorollaryProofs.init1)).
Proof. exact CorollaryProofs.C11_behaviour_unstripped_refuted. Qed.
Print Assumptions C11_behaviour_unstripped_refuted_thm.
