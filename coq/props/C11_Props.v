(* C11 -- YAML export/import round trip is lossless (dictionary level; the YAML text layer - ruamel - is exercised, not modelled).
   Property theorems only: every statement below is the statement of a lemma proved in proofs/,
   printed by Coq and closed by `exact`. *)
From Coq Require Import List ZArith String.
From SismicProofs Require Import IOProofs.
From Sismic Require Import Base Chart Edit IO IOCorr.
Import ListNotations.
Open Scope string_scope.

(* ROUND TRIP. For every valid statechart (sound, no empty state name, a root, exactly the composite states have children, no empty contract condition) the import of its export succeeds and the result passes the lossless-image checker that the correspondence run evaluates on the real round trip *)
Theorem C11_dict_roundtrip_thm :
  forall c : chart,
         valid_for_export_b c = true ->
         exists c' : chart, import_pipeline (export_to_dict c) = Some c' /\ roundtrip_ok c c' = true.
Proof. exact C11_dict_roundtrip. Qed.
Print Assumptions C11_dict_roundtrip_thm.

(* ... spelled out: same name, description, preamble; the same states with the same kind, parent, entry/exit code, initial/memory and contracts in order; the same transitions with source, target, event, guard, action, priority and contracts, the order among the transitions of one source preserved (code compared modulo surrounding whitespace) *)
Theorem C11_dict_roundtrip_eqv_thm :
  forall c : chart,
         valid_for_export_b c = true ->
         exists c' : chart, import_pipeline (export_to_dict c) = Some c' /\ roundtrip_eqv c c'.
Proof. exact C11_dict_roundtrip_eqv. Qed.
Print Assumptions C11_dict_roundtrip_eqv_thm.

(* the checker means that relation *)
Theorem roundtrip_ok_eqv_thm :
  forall a b : chart, roundtrip_ok a b = true -> roundtrip_eqv a b.
Proof. exact roundtrip_ok_eqv. Qed.
Print Assumptions roundtrip_ok_eqv_thm.

(* priorities: high/low/integers decode to what was encoded *)
Theorem priority_roundtrip_thm :
  forall z : Z, import_priority (export_priority z) = z.
Proof. exact priority_roundtrip. Qed.
Print Assumptions priority_roundtrip_thm.

(* a transition is re-imported as exported *)
Theorem import_export_transition_thm :
  forall t : transition, trans_codes_ok t -> import_transition (t_source t) (tfields t) = strip_trans t.
Proof. exact import_export_transition. Qed.
Print Assumptions import_export_transition_thm.

(* a state is re-imported as exported *)
Theorem import_export_state_thm :
  forall (c : chart) (s : state) (kids : list ydata),
         state_codes_ok s ->
         (is_composite (s_kind s) = true -> kids <> []) ->
         import_state (efields c s kids) = Some (strip_state s).
Proof. exact import_export_state. Qed.
Print Assumptions import_export_state_thm.

(* the schema accepts every exported dictionary unchanged *)
Theorem schema_export_thm :
  forall c : chart,
         EditProofs.sound c ->
         (forall (n : name) (s : state),
          state_for c n = Some s ->
          (is_composite (s_kind s) = true -> children_for c n <> []) /\
          (is_composite (s_kind s) = false -> children_for c n = [])) ->
         forall r : name,
         root c = Some r ->
         schema_statechart
           (doc
              ([("name", YStr (c_name c))] ++
               opt_field "description" (c_description c) ++
               opt_field "preamble" (c_preamble c) ++
               [("root state", YMap (enode (S (Datatypes.length (c_states c))) c r))])) =
         Some
           (doc
              ([("name", YStr (c_name c))] ++
               opt_field "description" (c_description c) ++
               opt_field "preamble" (c_preamble c) ++
               [("root state", YMap (enode (S (Datatypes.length (c_states c))) c r))])).
Proof. exact schema_export. Qed.
Print Assumptions schema_export_thm.
