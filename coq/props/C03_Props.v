(* C03 -- Steps run to completion in documented order and the trace tells the truth.
   Property theorems only: every statement below is the statement of a lemma proved in proofs/,
   printed by Coq and closed by `exact`. *)
From Coq Require Import List ZArith String.
From Sismic Require Import Base Chart Interp World Spec.
From SismicProofs Require Import TraceProofs C03Proofs.
Import ListNotations.
Open Scope string_scope.

(* ATOMIC. In a macro step every fired transition is one micro step (exits, action, entries as computed by create_step from the configuration at the start of the macro step) followed by stabilisation micro steps (no transition, no event) until NOTHING remains to be entered by default, and only then the next transition starts; the transitions are those selected, in the order of sort_transitions; when nothing fires but an event is consumed the macro step is that single event step *)
Theorem C03_atomic_thm :
  forall (ctx X : Type) (exec_code : call ctx -> ctx -> option (ctx * list event))
           (eval_code : call ctx -> ctx -> option bool) (emit : Z -> meta -> X -> X * option err) 
           (sc : chart) (fuel : nat) (now : Z) (s s' : mstate ctx X) (t : Z) (steps : list microstep),
         i_initialized (m_i s) = true ->
         execute_once ctx X exec_code eval_code emit sc fuel now s = (s', inl (Some (t, steps))) ->
         exists (s0 s1 s2 s3 : mstate ctx X) (sel : list itrans),
           let ev := select_event (m_i s0) in
           let cfg := i_config (m_i s) in
           m_i s0 = set_sent ctx [] (set_time ctx now (m_i s)) /\
           select_transitions ctx X eval_code sc ev cfg s0 = (s1, inl sel) /\
           i_config (m_i s2) = cfg /\
           i_memory (m_i s2) = i_memory (m_i s) /\
           m_i s' = m_i s3 /\
           create_stabilization_step ctx sc (m_i s') = None /\
           (sel = [] /\
            (exists e : event,
               ev = Some e /\
               blocks_run ctx X exec_code eval_code emit sc s2
                 [{| ms_event := Some e; ms_trans := None; ms_entered := []; ms_exited := []; ms_sent := [] |}]
                 steps s3) \/
            sel <> [] /\
            (exists ts : list itrans,
               (forall sx : mstate ctx X, sort_transitions ctx X sc sel sx = (sx, inl ts)) /\
               trans_blocks ctx X exec_code eval_code emit sc cfg (step_event ev ts) s2 ts steps s3 /\
               atomic_shape ts steps)).
Proof. exact C03_atomic. Qed.
Print Assumptions C03_atomic_thm.

(* the very first step enters the root and stabilises *)
Theorem C03_atomic_first_thm :
  forall (ctx X : Type) (exec_code : call ctx -> ctx -> option (ctx * list event))
           (eval_code : call ctx -> ctx -> option bool) (emit : Z -> meta -> X -> X * option err) 
           (sc : chart) (fuel : nat) (now : Z) (s s' : mstate ctx X) (t : Z) (steps : list microstep),
         i_initialized (m_i s) = false ->
         execute_once ctx X exec_code eval_code emit sc fuel now s = (s', inl (Some (t, steps))) ->
         exists (r : name) (s2 s1 : mstate ctx X) (a : microstep) (stab : list microstep) 
         (s3 : mstate ctx X),
           root sc = Some r /\
           i_initialized (m_i s2) = true /\
           i_config (m_i s2) = i_config (m_i s) /\
           apply_step ctx X exec_code eval_code emit sc
             {| ms_event := None; ms_trans := None; ms_entered := [r]; ms_exited := []; ms_sent := [] |} s2 =
           (s1, inl a) /\
           stab_run ctx X exec_code eval_code emit sc s1 stab s3 /\
           steps = a :: stab /\
           ms_trans a = None /\
           ms_entered a = [r] /\
           ms_exited a = [] /\
           Forall (fun m : microstep => ms_trans m = None /\ ms_event m = None) stab /\
           m_i s' = m_i s3 /\ create_stabilization_step ctx sc (m_i s') = None.
Proof. exact C03_atomic_first. Qed.
Print Assumptions C03_atomic_first_thm.

(* ORDER OF TRANSITIONS. sort_transitions returns its input sorted by source depth descending, then source name ascending; sources are pairwise different *)
Theorem C03_transition_order_thm :
  forall (ctx X : Type) (sc : chart) (ts : list itrans) (s s' : mstate ctx X) (ts' : list itrans),
         sort_transitions ctx X sc ts s = (s', inl ts') ->
         Permutation.Permutation ts' ts /\
         Sorted.StronglySorted (fun a b : itrans => trans_order_leb sc a b = true) ts' /\
         Sorted.Sorted (fun a b : itrans => trans_order_leb sc a b = true) ts' /\
         NoDup (map (fun it : itrans => t_source (snd it)) ts') /\
         Sorted.StronglySorted (src_before sc) ts' /\
         (forall (l1 : list itrans) (a : itrans) (l2 : list itrans) (b : itrans) (l3 : list itrans),
          ts' = (l1 ++ a :: l2 ++ b :: l3)%list -> t_source (snd a) <> t_source (snd b) /\ src_before sc a b).
Proof. exact C03_transition_order. Qed.
Print Assumptions C03_transition_order_thm.

(* EXIT ORDER. The exited states of a transition are exactly the active states in the subtree of the child of the LCA on the source side, each once, every state after all its active descendants (innermost first), states of equal depth in name order, that child last *)
Theorem C03_exit_order_thm :
  forall sc : chart,
         (forall n : name, parent_for sc n <> Some "") ->
         (forall a b : name, In b (ancestors_for sc a) -> (depth_for sc b < depth_for sc a)%Z) ->
         (forall c p : name, In c (children_for sc p) <-> parent_for sc c = Some p) ->
         (forall p : name, NoDup (children_for sc p)) ->
         (forall a d : name, In a (ancestors_for sc d) -> In d (descendants_for sc a)) ->
         forall (cfg : list name) (ev : option event) (it : nat * transition) (tgt : name),
         t_target (snd it) = Some tgt ->
         let lca := least_common_ancestor sc (t_source (snd it)) tgt in
         let lbl := last_before lca (ancestors_for sc (t_source (snd it))) (t_source (snd it)) in
         let exited := ms_exited (create_step sc cfg ev it) in
         C02Proofs.under sc lbl (t_source (snd it)) /\
         parent_for sc lbl = lca /\
         (forall x : name, In x exited <-> In x cfg /\ C02Proofs.under sc lbl x) /\
         NoDup exited /\
         Sorted.StronglySorted (fun a b : name => exit_order_leb sc a b = true) exited /\
         (forall (l1 : list name) (x : name) (l2 : list name) (y : name),
          exited = (l1 ++ x :: l2)%list -> In y exited -> In x (ancestors_for sc y) -> In y l1) /\
         (forall (l1 : list name) (x : name) (l2 : list name) (y : name) (l3 : list name),
          exited = (l1 ++ x :: l2 ++ y :: l3)%list -> depth_for sc x = depth_for sc y -> str_ltb x y = true) /\
         (In lbl cfg -> exists l : list name, exited = (l ++ [lbl])%list).
Proof. exact C03_exit_order. Qed.
Print Assumptions C03_exit_order_thm.

(* ENTRY ORDER. The entered states are the path from just below the LCA down to the target, every state immediately after its parent (outermost first) *)
Theorem C03_entry_order_thm :
  forall sc : chart,
         (forall n : name, parent_for sc n <> Some "") ->
         (forall a b : name, In b (ancestors_for sc a) -> (depth_for sc b < depth_for sc a)%Z) ->
         forall (cfg : list name) (ev : option event) (it : nat * transition) (tgt : name),
         t_target (snd it) = Some tgt ->
         let lca := least_common_ancestor sc (t_source (snd it)) tgt in
         let entered := ms_entered (create_step sc cfg ev it) in
         is_path sc lca entered /\
         entered <> [] /\
         last entered tgt = tgt /\
         (forall x : name, In x entered <-> C02Proofs.under sc x tgt /\ C02Proofs.below sc lca x) /\
         NoDup entered /\
         (forall (l1 : list name) (x : name) (l2 : list name),
          entered = (l1 ++ x :: l2)%list ->
          l1 = [] /\ parent_for sc x = lca \/
          (exists (l1' : list name) (p : name), l1 = (l1' ++ [p])%list /\ parent_for sc x = Some p)) /\
         (forall (l1 : list name) (x : name) (l2 : list name) (p : name),
          entered = (l1 ++ x :: l2)%list -> parent_for sc x = Some p -> In p entered -> In p l1).
Proof. exact C03_entry_order. Qed.
Print Assumptions C03_entry_order_thm.

(* default entry: initial child of a compound leaf; the missing children of an active orthogonal state in name order; for a history state the remembered states by (depth, name), parents first; a final child of the root ends the run *)
Theorem C03_entry_order_stab_thm :
  forall (ctx : Type) (sc : chart),
         (forall n : name, parent_for sc n <> Some "") ->
         (forall a b : name, In b (ancestors_for sc a) -> (depth_for sc b < depth_for sc a)%Z) ->
         (forall c p : name, In c (children_for sc p) <-> parent_for sc c = Some p) ->
         forall (i : istate ctx) (step : microstep),
         create_stabilization_step ctx sc i = Some (inl step) ->
         ms_trans step = None /\
         ms_event step = None /\
         ((exists (n : name) (st : state) (i0 : name),
             C02Proofs.is_leaf sc (i_config i) n /\
             state_for sc n = Some st /\
             s_kind st = KCompound /\
             truthy (s_initial st) = Some i0 /\ ms_entered step = [i0] /\ ms_exited step = []) \/
          (exists (n : name) (st : state),
             In n (i_config i) /\
             state_for sc n = Some st /\
             s_kind st = KOrthogonal /\
             ms_entered step =
             sort_names (filter (fun ch : name => negb (mem ch (i_config i))) (children_for sc n)) /\
             ms_exited step = [] /\
             Sorted.StronglySorted (fun a b : string => str_leb a b = true) (ms_entered step) /\
             (forall c : name,
              In c (ms_entered step) -> parent_for sc c = Some n /\ depth_for sc c = (depth_for sc n + 1)%Z)) \/
          (exists (h : name) (st : state),
             C02Proofs.is_leaf sc (i_config i) h /\
             state_for sc h = Some st /\
             is_history (s_kind st) = true /\
             ms_exited step = [h] /\
             ((exists l : list name,
                 lookup h (i_memory i) = Some l /\ ms_entered step = sort (enter_order_leb sc) l) \/
              lookup h (i_memory i) = None /\ (exists m : name, s_memory st = Some m /\ ms_entered step = [m])) /\
             Sorted.StronglySorted (fun a b : name => enter_order_leb sc a b = true) (ms_entered step) /\
             (forall (l1 : list name) (a : name) (l2 : list name) (b : name),
              ms_entered step = (l1 ++ a :: l2)%list ->
              In b (ancestors_for sc a) -> In b (ms_entered step) -> In b l1)) \/
          (exists (f : name) (st : state) (r : name),
             C02Proofs.is_leaf sc (i_config i) f /\
             state_for sc f = Some st /\
             s_kind st = KFinal /\
             root sc = Some r /\ parent_for sc f = Some r /\ ms_exited step = [f; r] /\ ms_entered step = [])).
Proof. exact C03_entry_order_stab. Qed.
Print Assumptions C03_entry_order_stab_thm.

(* TRACE TRUTH. The code fragments executed during an execute_once that returns a macro step are, in order, exactly: for each returned micro step the exit code of its exited states, the action of its transition, the entry code of its entered states; and the events they sent are exactly, in order, the sent-event lists of the micro steps *)
Theorem C03_trace_truth_thm :
  forall (ctx X : Type) (exec_code : call ctx -> ctx -> option (ctx * list event))
           (eval_code : call ctx -> ctx -> option bool) (emit : Z -> meta -> X -> X * option err) 
           (sc : chart) (fuel : nat) (now : Z) (s s' : mstate ctx X) (t : Z) (steps : list microstep),
         execute_once ctx X exec_code eval_code emit sc fuel now s = (s', inl (Some (t, steps))) ->
         exists new : list (obs ctx),
           m_tr s' = (new ++ m_tr s)%list /\
           execs ctx (rev new) = flat_map (micro_execs sc) steps /\
           sents ctx (rev new) = concat (map ms_sent steps).
Proof. exact C03_trace_truth. Qed.
Print Assumptions C03_trace_truth_thm.

(* per micro step: the returned MicroStep carries the computed event/transition/entered/exited lists and exactly the events its code sent *)
Theorem C03_sent_truth_thm :
  forall (ctx X : Type) (exec_code : call ctx -> ctx -> option (ctx * list event))
           (eval_code : call ctx -> ctx -> option bool) (emit : Z -> meta -> X -> X * option err) 
           (sc : chart) (step : microstep) (s s' : mstate ctx X) (a : microstep),
         apply_step ctx X exec_code eval_code emit sc step s = (s', inl a) ->
         ms_event a = ms_event step /\
         ms_trans a = ms_trans step /\
         ms_entered a = ms_entered step /\
         ms_exited a = ms_exited step /\
         (exists new : list (obs ctx), m_tr s' = (new ++ m_tr s)%list /\ ms_sent a = sents ctx (rev new)).
Proof. exact C03_sent_truth. Qed.
Print Assumptions C03_sent_truth_thm.

(* the configuration after a micro step is the old one minus the exited states plus the entered states; every exited state was active *)
Theorem C03_config_truth_thm :
  forall (ctx X : Type) (exec_code : call ctx -> ctx -> option (ctx * list event))
           (eval_code : call ctx -> ctx -> option bool) (emit : Z -> meta -> X -> X * option err) 
           (sc : chart) (step : microstep) (s s' : mstate ctx X) (a : microstep),
         names_coherent sc ->
         apply_step ctx X exec_code eval_code emit sc step s = (s', inl a) ->
         i_config (m_i s') =
         fold_left (fun (c : list name) (n : name) => set_add n c) (ms_entered step)
           (fold_left (fun (c : list name) (n : name) => remove_first n c) (ms_exited step) (i_config (m_i s))) /\
         all_active (ms_exited step) (i_config (m_i s)).
Proof. exact C03_config_truth. Qed.
Print Assumptions C03_config_truth_thm.

(* the configuration after execute_once is obtained by replaying the exited/entered lists of the returned micro steps (unchanged when None is returned) *)
Theorem C03_macro_config_thm :
  forall (ctx X : Type) (exec_code : call ctx -> ctx -> option (ctx * list event))
           (eval_code : call ctx -> ctx -> option bool) (emit : Z -> meta -> X -> X * option err) 
           (sc : chart) (fuel : nat) (now : Z) (s s' : mstate ctx X) (m : option macrostep),
         execute_once ctx X exec_code eval_code emit sc fuel now s = (s', inl m) ->
         i_config (m_i s') =
         fold_left (cfg_step sc) match m with
                                 | Some (_, steps) => steps
                                 | None => []
                                 end (i_config (m_i s)) /\
         (names_coherent sc ->
          i_config (m_i s') =
          fold_left cfg_step_doc match m with
                                 | Some (_, steps) => steps
                                 | None => []
                                 end (i_config (m_i s))).
Proof. exact C03_macro_config. Qed.
Print Assumptions C03_macro_config_thm.
