(* C03 -- Steps run to completion in documented order and the trace tells the truth (trace-truth part; order theorems: see below when present).
   Property theorems only: every statement below is the statement of a lemma proved in proofs/,
   printed by Coq and closed by `exact`. *)
From Coq Require Import List ZArith.
From Sismic Require Import Base Chart Interp World Spec.
From SismicProofs Require Import TraceProofs.
Import ListNotations.

(* TRACE TRUTH. The code fragments executed during an execute_once that returns a macro step are, in order, exactly: for each returned micro step the exit code of its exited states, the action of its transition, the entry code of its entered states; and the events they sent are exactly, in order, the sent-event lists of the micro steps *)
Theorem C03_trace_truth_thm :
  forall (ctx X : Type) (exec_code : call ctx -> ctx -> option (ctx * list event))
           (eval_code : call ctx -> ctx -> option bool) (emit : Z -> meta -> X -> X * option err) 
           (sc : chart) (fuel : nat) (now : Z) (s s' : mstate ctx X) (t : Z) (steps : list microstep),
         execute_once ctx X exec_code eval_code emit sc fuel now s = (s', inl (Some (t, steps))) ->
         exists new : list (obs ctx),
           m_tr s' = new ++ m_tr s /\
           execs ctx (rev new) = flat_map (micro_execs sc) steps /\
           sents ctx (rev new) = concat (map ms_sent steps).
Proof. exact C03_trace_truth. Qed.
Print Assumptions C03_trace_truth_thm.

(* per micro step: the returned MicroStep carries the computed event/transition/entered/exited lists and exactly the events its code sent *)
Theorem C03_sent_truth_thm :
  forall (ctx X : Type) (exec_code : call ctx -> ctx -> option (ctx * list event))
           (eval_code : call ctx -> ctx -> option bool) (emit : Z -> meta -> X -> X * option err) 
           (sc : chart) (step : microstep) (s s' : mstate ctx X) (a : microstep),
         apply_step ctx X exec_code eval_code emit sc step s = (s', inl a) ->
         ms_event a = ms_event step /\
         ms_trans a = ms_trans step /\
         ms_entered a = ms_entered step /\
         ms_exited a = ms_exited step /\
         (exists new : list (obs ctx), m_tr s' = new ++ m_tr s /\ ms_sent a = sents ctx (rev new)).
Proof. exact C03_sent_truth. Qed.
Print Assumptions C03_sent_truth_thm.

(* the configuration after a micro step is the old one minus the exited states plus the entered states; every exited state was active *)
Theorem C03_config_truth_thm :
  forall (ctx X : Type) (exec_code : call ctx -> ctx -> option (ctx * list event))
           (eval_code : call ctx -> ctx -> option bool) (emit : Z -> meta -> X -> X * option err) 
           (sc : chart) (step : microstep) (s s' : mstate ctx X) (a : microstep),
         names_coherent sc ->
         apply_step ctx X exec_code eval_code emit sc step s = (s', inl a) ->
         i_config (m_i s') =
         fold_left (fun (c : list name) (n : name) => set_add n c) (ms_entered step)
           (fold_left (fun (c : list name) (n : name) => remove_first n c) (ms_exited step) (i_config (m_i s))) /\
         all_active (ms_exited step) (i_config (m_i s)).
Proof. exact C03_config_truth. Qed.
Print Assumptions C03_config_truth_thm.

(* the configuration after execute_once is obtained by replaying the exited/entered lists of the returned micro steps (unchanged when None is returned) *)
Theorem C03_macro_config_thm :
  forall (ctx X : Type) (exec_code : call ctx -> ctx -> option (ctx * list event))
           (eval_code : call ctx -> ctx -> option bool) (emit : Z -> meta -> X -> X * option err) 
           (sc : chart) (fuel : nat) (now : Z) (s s' : mstate ctx X) (m : option macrostep),
         execute_once ctx X exec_code eval_code emit sc fuel now s = (s', inl m) ->
         i_config (m_i s') =
         fold_left (cfg_step sc) match m with
                                 | Some (_, steps) => steps
                                 | None => []
                                 end (i_config (m_i s)) /\
         (names_coherent sc ->
          i_config (m_i s') =
          fold_left cfg_step_doc match m with
                                 | Some (_, steps) => steps
                                 | None => []
                                 end (i_config (m_i s))).
Proof. exact C03_macro_config. Qed.
Print Assumptions C03_macro_config_thm.
